-- Root of the `GeoVerif` library: models (import-free), lemma files (single-module Mathlib imports),
-- property theorems.  `Generated/*` is written by tools/extract.py and imported by the property files that use it.
import GeoVerif.Ops.All
import GeoVerif.Lemmas.C09
import GeoVerif.Lemmas.C10
import GeoVerif.Lemmas.C14
import GeoVerif.Properties.C01
import GeoVerif.Properties.C02
import GeoVerif.Properties.C05
import GeoVerif.Properties.C06
import GeoVerif.Properties.C07
import GeoVerif.Properties.C08
import GeoVerif.Properties.C03
import GeoVerif.Properties.C04
import GeoVerif.Properties.C09
import GeoVerif.Properties.C10
import GeoVerif.Properties.C11
import GeoVerif.Properties.C12
import GeoVerif.Properties.C13
import GeoVerif.Properties.C14
import GeoVerif.Properties.C15
import GeoVerif.Properties.C16
import GeoVerif.Properties.C17
import GeoVerif.Properties.C18
import GeoVerif.Properties.C19
import GeoVerif.Properties.C20
