import GeoVerif.Model.IO
import GeoVerif.Model.Proc
namespace GeoVerif.Ops
open GeoVerif.IO

/-- history op: `sim=content1:report1;content2:!` (`!` = the simulation fails), `ops=q:path:1;w:path:content;c:dir;…`
(tokens are ids chosen by the harness: no separators inside).  Output: one token per op. -/
def opHistory (a : Args) : String :=
  match a.get? "sim", a.get? "ops", a.get? "cwd" with
  | some simS, some opsS, some cwd =>
    let table : List (String × String) := (simS.splitOn ";").filterMap (fun t =>
      match t.splitOn ":" with | [c, r] => some (c, r) | _ => none)
    let sim : String → Option String := fun c =>
      match table.find? (·.1 == c) with
      | some (_, r) => if r == "!" then none else some r
      | none => none
    let ops : List Op := (opsS.splitOn ";").filterMap (fun t =>
      match t.splitOn ":" with
      | ["q", p, c] => some (.request p (c == "1"))
      | ["w", p, c] => some (.rewrite p c)
      | ["c", d] => some (.chdir d)
      | _ => none)
    let p0 : Proc := ⟨cwd, ["argv0"], [], []⟩
    let (pf, outs) := run (stepFixed sim) p0 ops
    let (pp, outsP) := run (stepPinned sim) p0 ops
    let sh := fun (o : Out) => match o with | .report r => "r" ++ r | .failed => "F" | .none => "-"
    "ok outs=" ++ ",".intercalate (outs.map sh) ++ " cwd=" ++ pf.cwd ++ " argvSame=" ++ (if pf.argv == p0.argv then "1" else "0") ++
      " pinnedOuts=" ++ ",".intercalate (outsP.map sh) ++ " pinnedCwd=" ++ pp.cwd ++ " pinnedArgvSame=" ++ (if pp.argv == p0.argv then "1" else "0")
  | _, _, _ => "bad-args"

def procOps : List (String × (Args → String)) := [("history", opHistory)]

end GeoVerif.Ops
