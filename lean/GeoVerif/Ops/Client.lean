import GeoVerif.Model.IO
import GeoVerif.Model.ClientParse
import GeoVerif.Ops.InputFile
namespace GeoVerif.Ops
open GeoVerif.IO GeoVerif GeoVerif.Client

def showNum : Num → String
  | .none => "none"
  | .int neg ds => "int:" ++ (if neg then "-" else "") ++ String.ofList ds
  | .dec neg ip fp => "dec:" ++ (if neg then "-" else "") ++ String.ofList ip ++ "." ++ String.ofList fp

/-- `cfield id indent=<n> name=<pct> lines=<pct;pct;…>` -> every (value, unit) a choice of matching line could give -/
def opCField (a : Args) : String :=
  match a.nat? "indent", a.get? "name", a.get? "lines" with
  | some ind, some name, some ls =>
    let dec := fun (s : String) => pctDecode s.toList
    let lines := if ls == "" then [] else (ls.splitOn ";").map dec
    let cands := fieldCandidates ind (dec name) lines
    let enc := fun (l : List Char) => pctEncode (String.ofList l)
    "ok n=" ++ toString cands.length ++ " cands=" ++ ";".intercalate (cands.map (fun c =>
      enc c.1 ++ "|" ++ (match c.2 with | some u => enc u | none => "-") ++ "|" ++ showNum (parseNumber c.1)))
  | _, _, _ => "bad-args"

/-- `crow id line=<pct>` -> the cells of a table row (split on blank runs, `|` removed) and their numbers -/
def opCRow (a : Args) : String :=
  match a.get? "line" with
  | some l =>
    let cells := splitWs ((pctDecode l.toList).filter (· != '|'))
    "ok n=" ++ toString cells.length ++ " cells=" ++ ";".intercalate (cells.map (fun c => showNum (parseNumber c)))
  | none => "bad-args"

def clientOps : List (String × (Args → String)) := [("cfield", opCField), ("crow", opCRow)]

end GeoVerif.Ops
