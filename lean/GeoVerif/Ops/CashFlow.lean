import GeoVerif.Model.IO
import GeoVerif.Model.CashFlow
namespace GeoVerif.Ops
open GeoVerif.IO

def parseSells : String → Option Sells
  | "elec" => some .elec | "heat" => some .heat | "cool" => some .cool | "both" => some .both | _ => none

def parseCashIn (a : Args) : Option CashIn := do
  some { cy := ← a.nat? "cy", L := ← a.nat? "L", sells := ← a.get? "sells" >>= parseSells,
         net := ← a.rats? "net", heat := ← a.rats? "heat", cool := ← a.rats? "cool",
         pe := ← a.rats? "pe", ph := ← a.rats? "ph", pc := ← a.rats? "pc", pcarbon := ← a.rats? "pcarbon",
         carbonOn := ← a.bool? "carbon", grid := ← a.rat? "grid", ngi := ← a.rat? "ngi",
         ccap := ← a.rat? "ccap", coam := ← a.rat? "coam" }

/-- whole cash-flow chain of a run: series, cumulative, NPV (under the run's convention), VIR, MOIC, both payback loops -/
def opCashflow (a : Args) : String :=
  match parseCashIn a, a.rat? "r", a.bool? "excel" with
  | some s, some r, some excel =>
    let cf := assemble s
    let cum := cumsum cf
    let n := npv r cf excel
    let scale := (cf.map (fun x => if x < 0 then -x else x)).foldl (· + ·) 0
    let tag := (if s.carbonOn then "carbon" else "nocarbon") ++ "/" ++ (if excel then "excel" else "std") ++ "/" ++
      (if paybackFixed cum = 0 then "no-payback" else "payback")
    "ok tag=" ++ tag ++ " cf=" ++ ",".intercalate (cf.map showRat) ++ " cum=" ++ ",".intercalate (cum.map showRat) ++
      " npv=" ++ showRat n ++ " scale=" ++ showRat scale ++ " vir=" ++ showRat (vir n s.ccap) ++
      " moic=" ++ showRat (moic cum s.ccap s.coam s.L) ++
      " paybackFixed=" ++ showRat (paybackFixed cum) ++ " paybackPinned=" ++ showRat (paybackPinned cum)
  | _, _, _ => "bad-args"

/-- exact NPV of an arbitrary series at an arbitrary rate (used for the IRR clause) -/
def opNpv (a : Args) : String :=
  match a.rat? "r", a.rats? "cf" with
  | some r, some cf =>
    let scale := ((List.range cf.length).map (fun t => let x := cf.getD t 0 / (1 + r) ^ t; if x < 0 then -x else x)).foldl (· + ·) 0
    "ok npv=" ++ showRat (npv r cf false) ++ " scale=" ++ showRat scale
  | _, _ => "bad-args"

def opPayback (a : Args) : String :=
  match a.rats? "cum" with
  | some cum => "ok fixed=" ++ showRat (paybackFixed cum) ++ " pinned=" ++ showRat (paybackPinned cum)
  | none => "bad-args"

def cashflowOps : List (String × (Args → String)) := [("cashflow", opCashflow), ("npv", opNpv), ("payback", opPayback)]

end GeoVerif.Ops
