import GeoVerif.Model.IO
import GeoVerif.Model.Paths
import GeoVerif.Ops.InputFile
namespace GeoVerif.Ops
open GeoVerif.IO

/-- `cliplan id cwd=<pct> input=<pct> output=<pct>|-` -> the three paths (percent-encoded) and the pinned JSON derivation -/
def opCliPlan (a : Args) : String :=
  match a.get? "cwd", a.get? "input", a.get? "output" with
  | some cwd, some inp, some out =>
    let d := fun (s : String) => pctDecode s.toList
    let o : Option PathS := if out == "-" then none else some (d out)
    let p := cliPlan (d cwd) (d inp) o
    let e := fun (l : List Char) => pctEncode (String.ofList l)
    "ok tag=" ++ (match o with | none => "default" | some x => if isAbsPath x then "absolute" else "relative") ++
      " input=" ++ e p.input ++ " report=" ++ e p.report ++ " json=" ++ e p.json ++ " jsonPinned=" ++ e (jsonPathPinned p.report)
  | _, _, _ => "bad-args"

def pathsOps : List (String × (Args → String)) := [("cliplan", opCliPlan)]

end GeoVerif.Ops
