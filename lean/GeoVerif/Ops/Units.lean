import GeoVerif.Model.IO
import GeoVerif.Model.Units
import GeoVerif.Ops.InputFile
namespace GeoVerif.Ops
open GeoVerif.IO GeoVerif.Units

/-- a catalogue unit text -> product of atom powers (`kg/m**3`, `degF`, `1/year`, ``); `none` when some part is not a known atom -/
def parseUnit (s : String) : Option UExpr :=
  if s.contains '(' || s.contains ' ' then none else
  let parts := s.splitOn "/"
  let rec go (ps : List String) (first : Bool) : Option UExpr :=
    match ps with
    | [] => some []
    | p :: rest =>
      let ne : Option (String × Nat) := match p.splitOn "**" with
        | [n] => some (n, 1)
        | [n, e] => e.toNat?.map (fun k => (n, k))
        | _ => none
      match ne with
      | none => none
      | some (n, e) =>
        match Atom.ofString n, go rest false with
        | some a, some tl => some ((a, if first then (e : Int) else -(e : Int)) :: tl)
        | _, _ => none
  go parts true

def unitArg (a : Args) (k : String) : Option (Option U) :=
  (a.get? k).map (fun s => (parseUnit (String.ofList (pctDecode s.toList))).map evalExpr)

/-- `uconv id from=<pct unit> to=<pct unit> x=<rat>` -/
def opUConv (a : Args) : String :=
  match unitArg a "from", unitArg a "to", a.rat? "x" with
  | some (some u), some (some v), some x =>
    (match convert? u v x with
     | some y => "ok tag=conv value=" ++ showRat y
     | none => "ok tag=noconv")
  | some _, some _, some _ => "ok tag=unparsed"
  | _, _, _ => "bad-args"

/-- `readunit id given=<pct> cur=<pct> pref=<pct> found=0|1 x=<rat>` — stored value, and what the echo line shows (repaired / pinned reader) -/
def opReadUnit (a : Args) : String :=
  match unitArg a "given", unitArg a "cur", unitArg a "pref", a.bool? "found", a.rat? "x" with
  | some (some g), some (some c), some (some p), some found, some x =>
    if convertible g c && convertible c p then
      "ok tag=conv value=" ++ showRat (readFixed c g x).value ++ " echo=" ++ showRat (echo p (readFixed c g x)) ++
        " echoPinned=" ++ showRat (echo p (readPinned c g found x)) ++ " base=" ++ showRat (toBase g x)
    else "ok tag=noconv"
  | some _, some _, some _, some _, some _ => "ok tag=unparsed"
  | _, _, _, _, _ => "bad-args"

def prefixArg (a : Args) (k : String) : Option Prefix :=
  match a.get? k with
  | some "-" => some .none | some "K" => some .K | some "M" => some .M | _ => none

/-- `curprefix id cur=-|K|M pref=-|K|M x=<rat>` -/
def opCurPrefix (a : Args) : String :=
  match prefixArg a "cur", prefixArg a "pref", a.rat? "x" with
  | some c, some p, some x => "ok fixed=" ++ showRat (currencyReadFixed c p x) ++ " pinned=" ++ showRat (currencyReadPinned c p x) ++ " shown=" ++ showRat (currencyShow c p x)
  | _, _, _ => "bad-args"

def unitsOps : List (String × (Args → String)) := [("uconv", opUConv), ("readunit", opReadUnit), ("curprefix", opCurPrefix)]

end GeoVerif.Ops
