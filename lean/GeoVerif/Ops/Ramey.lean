import GeoVerif.Model.IO
import GeoVerif.Model.Ramey
namespace GeoVerif.Ops
open GeoVerif.IO

/-- `sign:mantissa:exp10` (value = ± mantissa · 10^exp10), the shortest round-tripping decimal of a Python float -/
def parseFloatSci (s : String) : Option Float :=
  match s.splitOn ":" with
  | [sg, m, e] =>
    match m.toNat?, e.toInt? with
    | some m, some e =>
      let v := if e ≥ 0 then Float.ofScientific (m * 10 ^ e.toNat) false 0 else Float.ofScientific m true (-e).toNat
      some (if sg == "-" then -v else v)
    | _, _ => none
  | _ => none

def Args.float? (a : Args) (k : String) : Option Float := a.get? k >>= parseFloatSci

/-- initial wellbore temperature drop of `RameyCalc` at `Float`, from the same generic definitions the theorems are about -/
def opRamey (a : Args) : String :=
  match Args.float? a "krock", Args.float? a "rhorock", Args.float? a "cprock", Args.float? a "welldiam", Args.float? a "t1",
        Args.float? a "util", Args.float? a "flow", Args.float? a "cpwater", Args.float? a "g", Args.float? a "depth" with
  | some k, some rho, some cp, some wd, some t1, some u, some flow, some cpw, some g, some depth =>
    let alpha := k / (rho * cp)
    let f := rameyF wd alpha t1 u
    let aa := rameyA floatAnalytic flow cpw f k
    let drop := rameyInitialDrop floatAnalytic g depth aa
    "ok f=" ++ toString f.toBits ++ " A=" ++ toString aa.toBits ++ " drop=" ++ toString drop.toBits
  | _, _, _, _, _, _, _, _, _, _ => "bad-args"

def rameyOps : List (String × (Args → String)) := [("ramey", opRamey)]

end GeoVerif.Ops
