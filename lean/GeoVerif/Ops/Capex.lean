import GeoVerif.Model.IO
import GeoVerif.Model.Capex
import GeoVerif.Model.WellCost
namespace GeoVerif.Ops
open GeoVerif.IO

def parseCfg : String → Option WellConfig
  | "uloop" => some .uloop | "coaxial" => some .coaxial | "vertical" => some .vertical | "l" => some .l | _ => none

/-- cost of one vertical well: `c2,c1,c0` are the coefficients the harness read from the live enum member -/
def opWellCost (a : Args) : String :=
  match a.rat? "c2", a.rat? "c1", a.rat? "c0", a.bool? "simple", a.rat? "depth", a.rat? "perM", a.rat? "adj" with
  | some c2, some c1, some c0, some simple, some depth, some perM, some adj =>
    let tag := if simple then "simple" else if depth < 500 then "fallback" else "correlation"
    "ok tag=" ++ tag ++ " cost=" ++ showRat (oneWellCost ⟨0, c2, c1, c0⟩ simple depth perM adj)
  | _, _, _, _, _, _, _ => "bad-args"

def opLateral (a : Args) : String :=
  match a.bool? "vertical", a.rat? "c2", a.rat? "c1", a.rat? "c0", a.bool? "simple", a.bool? "perMProvided",
        a.rat? "length", a.nat? "nsec", a.rat? "perM", a.bool? "cased", a.rat? "adj" with
  | some v, some c2, some c1, some c0, some simple, some pmp, some len, some nsec, some perM, some cased, some adj =>
    "ok cost=" ++ showRat (lateralCost v ⟨0, c2, c1, c0⟩ simple pmp len nsec perM cased adj)
  | _, _, _, _, _, _, _, _, _, _, _ => "bad-args"

def opDrill (a : Args) : String :=
  match a.get? "cfg" >>= parseCfg, a.nat? "nsec", a.rat? "nonvertKm", a.rat? "inKm", a.rat? "outKm", a.nat? "nprod", a.nat? "ninj" with
  | some cfg, some nsec, some nv, some i, some o, some np, some ni =>
    let r := drillLengths cfg nsec nv i o np ni
    "ok total=" ++ showRat r.1 ++ " vertical=" ++ showRat r.2.1 ++ " lateral=" ++ showRat r.2.2
  | _, _, _, _, _, _, _ => "bad-args"

/-- the whole capital-cost roll-up of one run -/
def opCapex (a : Args) : String :=
  let r := fun k => a.rat? k
  let b := fun k => a.bool? k
  match (do
    let wf : WellField := ⟨← b "perWellFixed", ← r "cProdGiven", ← b "cInjProvided", ← r "cInjGiven", ← r "cProdCorr",
      ← r "cInjCorr", ← r "lateral", ← a.nat? "nprod", ← a.nat? "ninj"⟩
    let well := wf.cost
    let stim := (Comp.mk (← b "stimFixed") (← r "stimGiven") (stimCorr (← r "stimAdj") wf.ninj)).value
    let gath := (Comp.mk (← b "gathFixed") (← r "gathGiven") (gathCorr (← r "gathAdj") wf.nprod wf.ninj (← r "cpumps"))).value
    let expl := (Comp.mk (← b "explFixed") (← r "explGiven") (explCorr (← r "explAdj") wf.cProd)).value
    -- plant: direct-use part or power-plant part, plus the end-use extra (chiller / heat pump / boiler / cogen heat plant)
    let powerPlant ← b "powerPlant"
    let plantAdj ← r "plantAdj"
    let plantCorrelation ← r "plantCorrelation"
    let maxHeat ← r "maxHeat"
    let plantExtra ← r "plantExtra"
    let plantCorr := (if powerPlant then plantPowerCorr plantAdj plantCorrelation
                      else plantDirectCorr plantAdj maxHeat) + plantExtra
    let plant := (Comp.mk (← b "plantFixed") (← r "plantGiven") plantCorr).value
    let piping := pipingCost (← r "pipingLen")
    let d : DistrictIn := ⟨← b "isDistrict", ← b "dhTotalProvided", ← r "dhTotalGiven", ← b "dhPipingLenProvided", ← r "dhPipingLen",
      ← b "dhRoadLenProvided", ← r "dhRoadLen", ← r "dhRate", ← b "dhPopProvided", ← r "dhPopulation", ← b "dhUnitsProvided",
      ← r "dhUnits", ← r "dhLandArea"⟩
    let district := districtCost d
    let s : CapexIn := ⟨← b "totalFixed", ← r "totalGiven", expl, well, stim, gath, plant, piping, district,
      ← b "ritcProvided", ← r "ritc", ← r "fees", ← r "incentives", ← r "grants"⟩
    let tag := (if s.totalFixed then "total-fixed" else "rollup") ++ "/" ++ (if wf.perWellFixed then "well-fixed" else "well-corr") ++ "/" ++
      (if s.ritcProvided then "itc" else "noitc")
    some ("ok tag=" ++ tag ++ " cprod=" ++ showRat wf.cProd ++ " cinj=" ++ showRat wf.cInj ++ " well=" ++ showRat well ++
      " stim=" ++ showRat stim ++ " gath=" ++ showRat gath ++
      " expl=" ++ showRat expl ++ " plant=" ++ showRat plant ++ " piping=" ++ showRat piping ++ " district=" ++ showRat district ++
      " itc=" ++ showRat (itcValue s) ++ " ccap=" ++ showRat (capex s))) with
  | some s => s
  | none => "bad-args"

def opOpex (a : Args) : String :=
  let r := fun k => a.rat? k
  let b := fun k => a.bool? k
  match (do
    let labor ← r "labor"
    let cplant ← r "cplant"
    let isChiller ← b "isChiller"
    let chillerCapex ← r "chillerCapex"
    let plantOM := (Comp.mk (← b "plantOMFixed") (← r "plantOMGiven")
      (plantOMCorr (← r "plantOMAdj") cplant (if isChiller then chillerCapex else 0) labor)).value
    let wellOM := (Comp.mk (← b "wellOMFixed") (← r "wellOMGiven") (wellOMCorr (← r "wellOMAdj") (← r "cwell") (← r "cgath") labor)).value
    let waterOM := (Comp.mk (← b "waterOMFixed") (← r "waterOMGiven")
      (waterOMCorr (← r "waterOMAdj") (← a.nat? "nprod") (← r "flow") (← r "loss") (← r "util"))).value
    let chOM := chillerOpex isChiller (← r "chillerOpexGiven") chillerCapex
    let dhOM := districtOM (← b "isDistrict") (← b "dhOMProvided") (← r "dhOMGiven") (← r "dhCapex") (← r "sumDemand") (← r "rate")
    let s : OpexIn := ⟨← b "totalFixed", ← r "totalGiven", wellOM, plantOM, waterOM, chOM, dhOM, ← a.nat? "redrill", ← r "cwell",
      ← r "cstim", ← a.nat? "L", ← r "annualFees", ← r "taxRelief"⟩
    let tag := (if s.totalFixed then "total-fixed" else "rollup") ++ "/" ++ (if 0 < s.redrill then "redrill" else "noredrill")
    some ("ok tag=" ++ tag ++ " plantOM=" ++ showRat plantOM ++ " wellOM=" ++ showRat wellOM ++ " waterOM=" ++ showRat waterOM ++
      " chillerOM=" ++ showRat chOM ++ " districtOM=" ++ showRat dhOM ++ " coam=" ++ showRat (opex s))) with
  | some s => s
  | none => "bad-args"

def capexOps : List (String × (Args → String)) :=
  [("wellcost", opWellCost), ("lateral", opLateral), ("drill", opDrill), ("capex", opCapex), ("opex", opOpex)]

end GeoVerif.Ops
