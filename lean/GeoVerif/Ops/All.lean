import GeoVerif.Ops.Schedules
import GeoVerif.Ops.Lcoe
import GeoVerif.Ops.CashFlow
/-! Everything the driver needs (import-free models + ops). -/
