import GeoVerif.Ops.Schedules
/-! Everything the driver needs (import-free models + ops). -/
