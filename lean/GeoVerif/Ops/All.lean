import GeoVerif.Ops.Schedules
import GeoVerif.Ops.Lcoe
import GeoVerif.Ops.CashFlow
import GeoVerif.Ops.Capex
/-! Everything the driver needs (import-free models + ops). -/
