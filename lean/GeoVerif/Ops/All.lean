import GeoVerif.Ops.Schedules
import GeoVerif.Ops.Lcoe
import GeoVerif.Ops.CashFlow
import GeoVerif.Ops.Capex
import GeoVerif.Ops.Plant
import GeoVerif.Ops.Reservoir
import GeoVerif.Ops.Pressure
import GeoVerif.Ops.Hip
import GeoVerif.Ops.Ramey
import GeoVerif.Ops.ReadParam
import GeoVerif.Ops.InputFile
import GeoVerif.Ops.Proc
import GeoVerif.Ops.Paths
import GeoVerif.Ops.Units
import GeoVerif.Ops.MC
import GeoVerif.Ops.Report
import GeoVerif.Ops.Client
/-! Everything the driver needs (import-free models + ops). -/
