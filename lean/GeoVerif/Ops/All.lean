import GeoVerif.Ops.Schedules
import GeoVerif.Ops.Lcoe
/-! Everything the driver needs (import-free models + ops). -/
