import GeoVerif.Model.IO
import GeoVerif.Model.Report
namespace GeoVerif.Ops
open GeoVerif.IO GeoVerif

def aggArg (a : Args) : Option Agg :=
  match a.get? "agg" with
  | some "scalar" => some .scalar | some "mean" => some .mean | some "max" => some .max | some "min" => some .min
  | some "first" => some .first | some "last" => some .last | some "sum" => some .sum | _ => none

/-- `figure id agg=<…> scale=<rat> d=<n> xs=<rats>` -> the text the report must show and the exact scaled value -/
def opFigure (a : Args) : String :=
  match aggArg a, a.rat? "scale", a.nat? "d", a.rats? "xs" with
  | some g, some sc, some d, some xs =>
    if xs.isEmpty then "ok tag=empty" else
    "ok tag=fig text=" ++ String.ofList (figure g sc d xs) ++ " exact=" ++ showRat (g.apply xs * sc)
  | _, _, _, _ => "bad-args"

/-- `profile id L=<n> n=<n> xs=<rats> d=<n>` -> rows `year:text,…` -/
def opProfile (a : Args) : String :=
  match a.nat? "L", a.nat? "n", a.nat? "d", a.rats? "xs" with
  | some L, some n, some d, some xs =>
    "ok rows=" ++ ",".intercalate ((profileRows ((a.nat? "first").getD 1) L n xs).map (fun r => toString r.1 ++ ":" ++ String.ofList (fmtF d r.2)))
  | _, _, _, _ => "bad-args"

/-- `figureg id p=<n> x=<rat>` -> Python's `.{p}g` text in its fixed-notation range -/
def opFigureG (a : Args) : String :=
  match a.nat? "p", a.rat? "x" with
  | some p, some x =>
    (match fmtG p x with
     | some t => "ok tag=fig text=" ++ String.ofList t ++ " exact=" ++ showRat x
     | none => "ok tag=scientific")
  | _, _ => "bad-args"

def reportOps : List (String × (Args → String)) := [("figure", opFigure), ("profile", opProfile), ("figureg", opFigureG)]

end GeoVerif.Ops
