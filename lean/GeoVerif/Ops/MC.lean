import GeoVerif.Model.IO
import GeoVerif.Model.MCSchedule
import GeoVerif.Model.MCRows
import GeoVerif.Ops.InputFile
namespace GeoVerif.Ops
open GeoVerif.IO GeoVerif.MC

def natList? (s : String) : Option (List Nat) := if s == "" then some [] else (s.splitOn ",").mapM String.toNat?

/-- `mcsched id d=<n> seeds=<csv> sched=<csv worker indices>` -> `ok samples=seed:start:len,…` -/
def opMcSched (a : Args) : String :=
  match a.nat? "d", (a.get? "seeds") >>= natList?, (a.get? "sched") >>= natList? with
  | some d, some seeds, some sched =>
    let ss := runSchedule d (poolReseeded seeds) sched
    "ok n=" ++ toString ss.length ++ " samples=" ++ ",".intercalate (ss.map (fun s => s!"{s.seed}:{s.start}:{s.len}"))
  | _, _, _ => "bad-args"

/-- `mcrow id outs=<pct;pct;…> report=<pct lines joined by ;>` -> values (found ones, in order) and per-header cells (`-` = skipped) -/
def opMcRow (a : Args) : String :=
  match a.get? "outs", a.get? "report" with
  | some outs, some report =>
    let dec := fun (s : String) => pctDecode s.toList
    let os := if outs == "" then [] else (outs.splitOn ";").map dec
    let ls := if report == "" then [] else (report.splitOn ";").map dec
    let enc := fun (l : List Char) => pctEncode (String.ofList l)
    "ok values=" ++ ";".intercalate ((rowValues os ls).map enc) ++
      " cells=" ++ ";".intercalate ((rowCells os ls).map (fun c => match c with | some v => enc v | none => "-"))
  | _, _ => "bad-args"

/-- `mcstats id xs=<rats>` -> exact min / max / median / mean / variance -/
def opMcStats (a : Args) : String :=
  match a.rats? "xs" with
  | some xs =>
    if xs.isEmpty then "ok tag=empty" else
    let s := GeoVerif.stats xs
    "ok tag=stats min=" ++ showRat s.min ++ " max=" ++ showRat s.max ++ " median=" ++ showRat s.median ++ " mean=" ++ showRat s.mean ++ " var=" ++ showRat s.var
  | none => "bad-args"

/-- `mcfile id outcomes=<csv of 0/1> order=<csv>` -> indices of the rows in the file, in file order -/
def opMcFile (a : Args) : String :=
  match (a.get? "outcomes") >>= natList?, (a.get? "order") >>= natList? with
  | some oc, some order =>
    let outcomes : List (Option Nat) := oc.zipIdx.map (fun (p : Nat × Nat) => if p.1 = 1 then some p.2 else none)
    "ok rows=" ++ ",".intercalate ((fileRows outcomes order).map toString)
  | _, _ => "bad-args"

/-- `mcparse id row=<pct>` -> the cells `main` reads from a row text -/
def opMcParse (a : Args) : String :=
  match a.get? "row" with
  | some r =>
    let cells := parseRowCells (pctDecode r.toList)
    "ok n=" ++ toString cells.length ++ " cells=" ++ ";".intercalate (cells.map (fun c => pctEncode (String.ofList c)))
  | none => "bad-args"

def mcOps : List (String × (Args → String)) := [("mcsched", opMcSched), ("mcrow", opMcRow), ("mcstats", opMcStats), ("mcfile", opMcFile), ("mcparse", opMcParse)]

end GeoVerif.Ops
