import GeoVerif.Model.IO
import GeoVerif.Model.Plant
namespace GeoVerif.Ops
open GeoVerif.IO

def parseCycle : String → Option Cycle
  | "elecOnly" => some .elecOnly | "topping" => some .topping | "bottoming" => some .bottoming | "parallel" => some .parallel
  | _ => none

/-- per-time-step series of one run: heat extracted, useful heat, heat towards electricity, net electricity -/
def opPlantStep (a : Args) : String :=
  match a.get? "kind", a.nat? "nprod", a.rat? "flow", a.rat? "cp", a.rat? "tinj", a.rats? "tprod" with
  | some kind, some nprod, some flow, some cp, some tinj, some tprod =>
    let ext := tprod.map (heatExtractedAt nprod flow cp tinj)
    let pre := "ok tag=" ++ kind ++ " ext=" ++ ",".intercalate (ext.map showRat)
    match kind with
    | "cogen" =>
      match a.get? "cycle" >>= parseCycle, a.rat? "eff", a.rats? "reinj", a.rat? "tbottom", a.rat? "chp", a.rats? "gross", a.rats? "pump" with
      | some c, some eff, some reinj, some tb, some chp, some gross, some pump =>
        let idx := List.range tprod.length
        let hp := idx.map (fun k => cogenHeatProducedAt c eff nprod flow cp tinj (tprod.getD k 0) (reinj.getD k 0) tb chp)
        let he := idx.map (fun k => heatToElecAt c nprod flow cp tinj (tprod.getD k 0) (reinj.getD k 0) tb chp)
        let net := idx.map (fun k => netElectricity (gross.getD k 0) (pump.getD k 0))
        pre ++ " produced=" ++ ",".intercalate (hp.map showRat) ++ " toElec=" ++ ",".intercalate (he.map showRat) ++
          " net=" ++ ",".intercalate (net.map showRat)
      | _, _, _, _, _, _, _ => "bad-args"
    | "industrial" =>
      match a.rat? "eff" with
      | some eff => pre ++ " produced=" ++ ",".intercalate ((ext.map (fun e => industrialHeat e eff)).map showRat)
      | none => "bad-args"
    | "heatpump" =>
      match a.rat? "eff", a.rat? "cop" with
      | some eff, some cop => pre ++ " produced=" ++ ",".intercalate ((ext.map (fun e => heatPumpHeat e cop eff)).map showRat) ++
          " hpelec=" ++ ",".intercalate ((ext.map (fun e => heatPumpElectricity e cop)).map showRat)
      | _, _ => "bad-args"
    | "chiller" =>
      match a.rat? "eff", a.rat? "cop" with
      | some eff, some cop => pre ++ " produced=" ++ ",".intercalate (ext.map showRat) ++
          " cooling=" ++ ",".intercalate ((ext.map (fun e => chillerCooling e cop eff)).map showRat)
      | _, _ => "bad-args"
    | _ => "bad-args"
  | _, _, _, _, _, _ => "bad-args"

/-- yearly integration of one power series: `util` is one factor or one per year -/
def opAnnual (a : Args) : String :=
  match a.rats? "series", a.nat? "L", a.nat? "n", a.rats? "util" with
  | some s, some L, some n, some util =>
    let u := fun i => if util.length = 1 then util.getD 0 0 else util.getD i 0
    let short := (List.range L).any (fun i => sliceLen s.length i n != n + 1)
    "ok tag=" ++ (if short then "short-last-slice" else "full-slices") ++ " annual=" ++ ",".intercalate ((annual s L n u).map showRat)
  | _, _, _, _ => "bad-args"

def opRemaining (a : Args) : String :=
  match a.rat? "init", a.rats? "E" with
  | some init, some e => "ok remaining=" ++ ",".intercalate ((remaining init e).map showRat)
  | _, _ => "bad-args"

/-- district heating: per-day geothermal and peaking supply for every year, from the daily demand and the heat output series -/
def opDistrict (a : Args) : String :=
  match a.rats? "demand", a.rats? "produced", a.nat? "L", a.nat? "n" with
  | some demand, some produced, some L, some n =>
    let days := (List.range (L * 365)).map (fun idx =>
      let i : Nat := idx / 365
      let j : Nat := idx % 365
      let t : Rat := (i : Rat) + (j : Rat) / 365
      let out := interpAt n produced t
      let d := demand.getD j 0 / 24
      (dhGeothermal d out, dhPeaking d out, out))
    let geoSum := (List.range L).map (fun i => ((days.drop (i * 365)).take 365).foldl (fun s x => s + x.1) 0)
    let outSum := (List.range L).map (fun i => ((days.drop (i * 365)).take 365).foldl (fun s x => s + x.2.2) 0)
    let ngSum := (List.range L).map (fun i => ((days.drop (i * 365)).take 365).foldl (fun s x => s + x.2.1) 0 * 24)
    let utilArr := (List.range L).map (fun i => geoSum.getD i 0 / outSum.getD i 0)
    "ok utilArray=" ++ ",".intercalate (utilArr.map showRat) ++ " annualNg=" ++ ",".intercalate (ngSum.map showRat) ++
      " geo=" ++ ",".intercalate ((days.map (·.1)).map showRat) ++ " ng=" ++ ",".intercalate ((days.map (·.2.1)).map showRat)
  | _, _, _, _ => "bad-args"

def plantOps : List (String × (Args → String)) :=
  [("plantstep", opPlantStep), ("annual", opAnnual), ("remaining", opRemaining), ("district", opDistrict)]

end GeoVerif.Ops
