import GeoVerif.Model.IO
import GeoVerif.Model.ReadParam
namespace GeoVerif.Ops
open GeoVerif.IO

def parsePyFloat (s : String) : Option PyFloat :=
  match s with
  | "nan" => some .nan
  | "inf" => some .posInf
  | "-inf" => some .negInf
  | _ => (parseRat s).map .fin

def parseOptRat (s : String) : Option (Option Rat) :=
  if s == "none" then some none else (parseRat s).map some

def showPyFloat : PyFloat → String
  | .nan => "nan" | .posInf => "inf" | .negInf => "-inf" | .fin q => showRat q

def opReadFloat (a : Args) : String :=
  match a.get? "min" >>= parseOptRat, a.get? "max" >>= parseOptRat, a.get? "dflt" >>= parseOptRat, a.get? "cur" >>= parsePyFloat,
        a.bool? "prov", a.bool? "valid", a.get? "v" >>= parsePyFloat with
  | some mn, some mx, some df, some cur, some prov, some valid, some v =>
    let st : FloatState := ⟨cur, prov, valid⟩
    let old := match readFloatOld mn mx df "P" st v with | .ok _ => "accept" | .error _ => "reject"
    match readFloat mn mx df "P" st v with
    | .ok st' =>
      let tag := if st'.value != v || v.beq' cur then "unchanged" else "accept"
      "ok tag=" ++ tag ++ " res=accept value=" ++ showPyFloat st'.value ++ " prov=" ++ (if st'.provided then "1" else "0") ++
        " valid=" ++ (if st'.valid then "1" else "0") ++ " old=" ++ old
    | .error _ =>
      let tag := if belowMin mn v then "reject-below" else if aboveMax mx v then "reject-above" else "reject-nan"
      "ok tag=" ++ tag ++ " res=reject old=" ++ old
  | _, _, _, _, _, _, _ => "bad-args"

def parseAllow (s : String) : Option AllowSet :=
  if s.startsWith "range:" then
    match (s.drop 6).toString.splitOn ":" with
    | [lo, hi] => do some (.range (← lo.toInt?) (← hi.toInt?))
    | _ => none
  else if s == "list:" then some (.list [])
  else if s.startsWith "list:" then ((s.drop 5).toString.splitOn ",").mapM String.toInt? |>.map .list
  else none

def opReadInt (a : Args) : String :=
  match a.get? "allow" >>= parseAllow, a.get? "dflt", a.int? "cur", a.bool? "prov", a.bool? "valid", a.int? "v" with
  | some allow, some df, some cur, some prov, some valid, some v =>
    let dflt : Option Int := if df == "none" then none else df.toInt?
    match readInt allow dflt "P" ⟨cur, prov, valid⟩ v with
    | .ok st' =>
      let tag := if st' == ⟨cur, prov, valid⟩ then "bypass" else "accept"
      "ok tag=" ++ tag ++ " res=accept value=" ++ toString st'.value ++ " prov=" ++ (if st'.provided then "1" else "0") ++
        " valid=" ++ (if st'.valid then "1" else "0")
    | .error _ => "ok tag=reject res=reject"
  | _, _, _, _, _, _ => "bad-args"

def readParamOps : List (String × (Args → String)) := [("readfloat", opReadFloat), ("readint", opReadInt)]

end GeoVerif.Ops
