import GeoVerif.Model.IO
import GeoVerif.Model.Pressure
import GeoVerif.Model.Friction
namespace GeoVerif.Ops
open GeoVerif.IO

def opResPressure (a : Args) : String :=
  match a.nat? "L", a.nat? "n", a.rat? "p0", a.rat? "pct", a.rat? "rate" with
  | some L, some n, some p0, some pct, some rate =>
    if pct = 100 then "ok tag=flat p=" ++ ",".intercalate ((resPressure L n p0 pct rate).map showRat)
    else if rate = 0 then "zero-division"
    else
      let steps : Int := ((100 / rate) * (n : Rat)).floor
      if steps = 0 then "zero-division" else
      let r := resPressure L n p0 pct rate
      let tag := if r.any (fun x => decide (x = p0)) && decide (pct ≠ 100) then "reaches-hydrostatic" else "declining"
      "ok tag=" ++ tag ++ " p=" ++ ",".intercalate (r.map showRat)
  | _, _, _, _, _ => "bad-args"

def opInjPressure (a : Args) : String :=
  match a.nat? "L", a.nat? "n", a.rat? "p0", a.rat? "rate" with
  | some L, some n, some p0, some rate =>
    "ok tag=" ++ (if rate = 0 then "flat" else "rising") ++ " p=" ++ ",".intercalate ((injPressure L n p0 rate).map showRat)
  | _, _, _, _ => "bad-args"

def opPumpTotal (a : Args) : String :=
  match a.bool? "pumped", a.rats? "inj", a.rats? "prod" with
  | some b, some inj, some prod => "ok total=" ++ ",".intercalate ((pumpTotal b inj prod).map showRat)
  | _, _, _ => "bad-args"

def pressureOps : List (String × (Args → String)) :=
  [("respressure", opResPressure), ("injpressure", opInjPressure), ("pumptotal", opPumpTotal)]

end GeoVerif.Ops
