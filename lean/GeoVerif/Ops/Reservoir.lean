import GeoVerif.Model.IO
import GeoVerif.Model.Reservoir
namespace GeoVerif.Ops
open GeoVerif.IO

/-- raw gradients / thicknesses as read -> normalised lists, max depth, capped depth, bottom-hole temperature -/
def opTrock (a : Args) : String :=
  match a.rat? "tsurf", a.rat? "tmax", a.rat? "depth", a.nat? "numseg", a.rats? "grads", a.rats? "thick" with
  | some t0, some tmax, some depth, some numseg, some grads, some thick =>
    let g := grads.map normGradient
    -- the last used segment is forced to 100 km
    let th := (List.range numseg).map (fun i => if i + 1 = numseg then (100000 : Rat) else normThickness (thick.getD i 0))
    let layers := layersOf numseg g th
    let md := maxDepth t0 tmax layers
    let cd := cappedDepth t0 tmax depth layers
    let tag := (if md < depth then "capped" else "uncapped") ++ "/seg" ++ toString numseg
    "ok tag=" ++ tag ++ " grads=" ++ ",".intercalate (g.map showRat) ++ " maxdepth=" ++ showRat md ++ " depth=" ++ showRat cd ++
      " trock=" ++ showRat (trock t0 tmax depth layers)
  | _, _, _, _, _, _ => "bad-args"

def opTdp (a : Args) : String :=
  match a.rat? "p", a.rat? "trock", a.rat? "tinj", a.rats? "time" with
  | some p, some tr, some ti, some tv => "ok tres=" ++ ",".intercalate ((tv.map (tdpAt p tr ti)).map showRat)
  | _, _, _, _ => "bad-args"

def opRedrill (a : Args) : String :=
  match a.rats? "tprod", a.rats? "tres", a.rat? "dd" with
  | some xs, some tres, some dd =>
    let r := redrill xs dd
    let k := firstBelow ((1 - dd) * xs.headD 0) xs
    let tres' := if 0 < k then tileTo tres k xs.length else tres
    "ok tag=" ++ (if r.2 = 0 then "none" else "redrilled") ++ " k=" ++ toString k ++ " count=" ++ toString r.2 ++
      " tprod=" ++ ",".intercalate (r.1.map showRat) ++ " tres=" ++ ",".intercalate (tres'.map showRat)
  | _, _, _ => "bad-args"

/-- percentage-drawdown chain of a whole run: Tres = tdp(time), Tprod = Tres − constant wellbore drop, then redrilling -/
def opTdpChain (a : Args) : String :=
  match a.rat? "p", a.rat? "trock", a.rat? "tinj", a.rats? "time", a.rat? "drop", a.rat? "dd" with
  | some p, some tr, some ti, some tv, some drop, some dd =>
    let tres := tv.map (tdpAt p tr ti)
    let tprod := tres.map (fun x => x - drop)
    let r := redrill tprod dd
    let k := firstBelow ((1 - dd) * tprod.headD 0) tprod
    let tres' := if 0 < k then tileTo tres k tprod.length else tres
    "ok tag=" ++ (if r.2 = 0 then "none" else "redrilled") ++ " k=" ++ toString k ++ " count=" ++ toString r.2 ++
      " tprod=" ++ ",".intercalate (r.1.map showRat) ++ " tres=" ++ ",".intercalate (tres'.map showRat)
  | _, _, _, _, _, _ => "bad-args"

def reservoirOps : List (String × (Args → String)) := [("trock", opTrock), ("tdp", opTdp), ("redrill", opRedrill), ("tdpchain", opTdpChain)]

end GeoVerif.Ops
