import GeoVerif.Model.IO
import GeoVerif.Model.Lcoe
namespace GeoVerif.Ops
open GeoVerif.IO

def parseEndUse : String → Option EndUse
  | "elec" => some .elec | "heat" => some .heat | "cogen" => some .cogen
  | "chiller" => some .chiller | "heatPump" => some .heatPump | "district" => some .district
  | _ => none

def parseEcon : String → Option Econ
  | "1" => some .fcr | "2" => some .slc | "3" => some .bicycle | _ => none

def parseLcoeIn (a : Args) : Option LcoeIn := do
  let econ ← a.get? "econ" >>= parseEcon
  let eu ← a.get? "eu" >>= parseEndUse
  let L ← a.nat? "L"
  let r : Rates := ⟨← a.rat? "fcr", ← a.rat? "ic", ← a.rat? "d", ← a.rat? "fib", ← a.rat? "bir", ← a.rat? "eir",
    ← a.rat? "ctr", ← a.rat? "gtr", ← a.rat? "ritc", ← a.rat? "ptr", ← a.rat? "rinfl"⟩
  some { econ, eu, L, r, ccap := ← a.rat? "ccap", coam := ← a.rat? "coam", ratio := ← a.rat? "ratio", rate := ← a.rat? "rate",
         net := ← a.rats? "net", heat := ← a.rats? "heat", cool := ← a.rats? "cool", pump := ← a.rats? "pump",
         hp := ← a.rats? "hp", ng := ← a.rats? "ng", demand := ← a.rat? "demand",
         avgPump := ← a.rat? "avgPump", avgHp := ← a.rat? "avgHp", avgNg := ← a.rat? "avgNg" }

def denOf (i : LcoeIn) : Option Product → Rat
  | none => 1
  | some p => levelizedDen i.econ i.r i.L p

/-- capital coefficient of the BICYCLE numerator *as the code computes it* (no annuity identity used) -/
def kappaRaw (r : Rates) (L : Nat) : Rat :=
  let i := iave r
  let sd := sumL (discB i L)
  let sw := sumL (zipMul (inflB r.rinfl L) (discB i L))
  (1 + r.ic) * crf i L * sd + (1 + r.ic) * r.ptr * sw
    + r.ctr / (1 - r.ctr) * ((1 + r.ic) * crf i L - 1 / (L : Rat)) * sd - (1 + r.ic) * r.ritc / (1 - r.ctr)

def opLcoe (a : Args) : String :=
  match parseLcoeIn a with
  | none => "bad-args"
  | some i =>
    let o := lcoe i
    let tag := (match i.econ with | .fcr => "fcr" | .slc => "slc" | .bicycle => "bicycle") ++ "/" ++ (a.get? "eu").getD "?"
    "ok tag=" ++ tag ++ " lcoe=" ++ showRat o.lcoe ++ " lcoh=" ++ showRat o.lcoh ++ " lcoc=" ++ showRat o.lcoc ++
      " denE=" ++ showRat (denOf i (elecProduct i)) ++ " denH=" ++ showRat (denOf i (heatProduct i)) ++
      " denC=" ++ showRat (denOf i (coolProduct i)) ++
      " kappa=" ++ showRat (if i.econ = .bicycle then kappaRaw i.r i.L else 1)

def lcoeOps : List (String × (Args → String)) := [("lcoe", opLcoe)]

end GeoVerif.Ops
