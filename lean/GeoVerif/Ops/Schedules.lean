import GeoVerif.Model.IO
import GeoVerif.Model.Schedules
/-! Driver ops for the price / PTC schedule builders. -/
namespace GeoVerif.Ops
open GeoVerif.IO

def opPricing (a : Args) : String :=
  match a.nat? "L", a.rat? "p0", a.rat? "p1", a.nat? "s", a.rat? "r", a.rats? "ptc" with
  | some L, some p0, some p1, some s, some r, some ptc =>
    -- branch tags: which base-price regimes occur
    let base := (List.range L).map (fun i => basePrice p0 p1 s r i)
    let clamped := (List.range L).any (fun i => decide (p1 < (if s ≤ i then p0 + ((i - s : Nat) : Rat) * r else p0)))
    let esc := (List.range L).any (fun i => decide (s < i)) && decide (r ≠ 0)
    let tag := (if clamped then "clamped" else "unclamped") ++ "/" ++ (if esc then "escalating" else "flat")
    "ok tag=" ++ tag ++ " base=" ++ ",".intercalate (base.map showRat) ++ " price=" ++
      ",".intercalate ((pricing L p0 p1 s r ptc).map showRat)
  | _, _, _, _, _, _ => "bad-args"

def opPtc (a : Args) : String :=
  match a.nat? "L", a.nat? "dur", a.rat? "v", a.bool? "adj", a.rat? "infl" with
  | some L, some dur, some v, some adj, some infl =>
    if dur > L then "index-error" else
    let tag := if dur = 0 then "none" else if adj then "inflated" else "flat"
    "ok tag=" ++ tag ++ " ptc=" ++ ",".intercalate ((ptcModel L dur v adj infl).map showRat)
  | _, _, _, _, _ => "bad-args"

def schedulesOps : List (String × (Args → String)) := [("pricing", opPricing), ("ptc", opPtc)]

end GeoVerif.Ops
