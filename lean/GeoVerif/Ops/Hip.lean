import GeoVerif.Model.IO
import GeoVerif.Model.Hip
namespace GeoVerif.Ops
open GeoVerif.IO

def opHip (a : Args) : String :=
  let r := fun k => a.rat? k
  match (do
    let i : HipIn := ⟨← r "area", ← r "thickness", ← r "porosity", ← r "rf", ← r "rockDensity", ← r "fluidDensity", ← r "rockHeatCap",
      ← r "rr", ← r "tRes", ← r "tRej", ← r "tRejK", ← r "dTK", ← r "life", ← r "hNet", ← r "sNet", ← r "utilEff"⟩
    let o := hip i
    let tag := (if i.tRes ≤ 90 then "low" else if 150 ≤ i.tRes then "high" else "mid") ++ "/" ++ (if i.tRej < i.tRes then "hotter" else "colder")
    some ("ok tag=" ++ tag ++ " volume=" ++ showRat o.volume ++ " volRock=" ++ showRat o.volRock ++ " volFluid=" ++ showRat o.volFluid ++
      " massRock=" ++ showRat o.massRock ++ " massReservoir=" ++ showRat o.massReservoir ++ " massFluid=" ++ showRat o.massFluid ++
      " enthalpyRock=" ++ showRat o.enthalpyRock ++ " enthalpyFluid=" ++ showRat o.enthalpyFluid ++ " enthalpyReservoir=" ++ showRat o.enthalpyReservoir ++
      " storedRock=" ++ showRat o.storedRock ++ " storedFluid=" ++ showRat o.storedFluid ++ " stored=" ++ showRat o.stored ++
      " available=" ++ showRat o.available ++ " producible=" ++ showRat o.producible ++ " recoveryFactor=" ++ showRat o.recoveryFactor ++
      " electricityMW=" ++ showRat o.electricityMW ++ " elecPerArea=" ++ showRat o.elecPerArea ++ " elecPerVolume=" ++ showRat o.elecPerVolume ++
      " heatPerArea=" ++ showRat o.heatPerArea ++ " heatPerVolume=" ++ showRat o.heatPerVolume)) with
  | some s => s
  | none => "bad-args"

def hipOps : List (String × (Args → String)) := [("hip", opHip)]

end GeoVerif.Ops
