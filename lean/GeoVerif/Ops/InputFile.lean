import GeoVerif.Model.IO
import GeoVerif.Model.InputFile
namespace GeoVerif.Ops
open GeoVerif.IO

def hexVal (c : Char) : Nat :=
  if '0' ≤ c && c ≤ '9' then c.toNat - '0'.toNat
  else if 'a' ≤ c && c ≤ 'f' then c.toNat - 'a'.toNat + 10
  else if 'A' ≤ c && c ≤ 'F' then c.toNat - 'A'.toNat + 10 else 0

/-- `%HH` / `%uHHHHHH` decoding of the text the harness sends (every byte outside [A-Za-z0-9] is escaped) -/
def pctDecode : List Char → List Char
  | '%' :: 'u' :: a :: b :: c :: d :: e :: f :: rest =>
    Char.ofNat (((((hexVal a * 16 + hexVal b) * 16 + hexVal c) * 16 + hexVal d) * 16 + hexVal e) * 16 + hexVal f) :: pctDecode rest
  | '%' :: a :: b :: rest => Char.ofNat (hexVal a * 16 + hexVal b) :: pctDecode rest
  | c :: rest => c :: pctDecode rest
  | [] => []

def hexDigit (n : Nat) : Char := if n < 10 then Char.ofNat (n + '0'.toNat) else Char.ofNat (n - 10 + 'a'.toNat)

def pctEncode (s : String) : String :=
  String.ofList (s.toList.flatMap (fun c =>
    if c.isAlphanum then [c]
    else
      let n := c.toNat
      if n < 256 then ['%', hexDigit (n / 16), hexDigit (n % 16)]
      else ['%', 'u', hexDigit (n / 1048576 % 16), hexDigit (n / 65536 % 16), hexDigit (n / 4096 % 16), hexDigit (n / 256 % 16),
            hexDigit (n / 16 % 16), hexDigit (n % 16)]))

def opInputFile (a : Args) : String :=
  match a.get? "text" with
  | some t =>
    let text := String.ofList (pctDecode t.toList)
    let d := fileDict text
    let es := parseFile (splitLines text.toList)
    let dup := es.length != d.length
    "ok tag=" ++ (if dup then "duplicates" else "distinct") ++ " n=" ++ toString d.length ++ " dict=" ++
      ",".intercalate (d.map (fun (k, v) => pctEncode k ++ ":" ++ pctEncode v))
  | none => "bad-args"

def inputFileOps : List (String × (Args → String)) := [("inputfile", opInputFile)]

end GeoVerif.Ops
