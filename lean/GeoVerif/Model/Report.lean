import GeoVerif.Model.Format
/-!
# Report figures (C09): rounding a computed value to its displayed precision, aggregates, profile-table rows

CPython's `format(x, '.df')` renders the *exact* binary value of the float `x`, correctly rounded half-to-even at `d` decimals.
The model does the same on the exact rational that the float denotes, so model and writer can be compared as strings.
Import-free.
-/
namespace GeoVerif

/-- `round(|x| · 10^d)` half-to-even, as a natural number -/
def roundHalfEvenNat (ax : Rat) (d : Nat) : Nat :=
  let y := ax * (10 : Rat) ^ d
  let f := y.floor.toNat
  let r := y - (f : Rat)
  if r < 1 / 2 then f else if r > 1 / 2 then f + 1 else (if f % 2 = 0 then f else f + 1)

/-- Python `f'{x:.{d}f}'` for a finite float given by its exact rational value (`-0.00` style sign kept for negative inputs, as CPython does) -/
def fmtF (d : Nat) (x : Rat) : List Char :=
  renderFixed (decide (x < 0)) d (roundHalfEvenNat (if x < 0 then -x else x) d)

inductive Agg | scalar | mean | max | min | first | last | sum
  deriving DecidableEq, Repr

def sumQ : List Rat → Rat
  | [] => 0
  | a :: as => a + sumQ as

def maxQ : List Rat → Rat
  | [] => 0
  | [a] => a
  | a :: as => let m := maxQ as; if a ≥ m then a else m

def minQ : List Rat → Rat
  | [] => 0
  | [a] => a
  | a :: as => let m := minQ as; if a ≤ m then a else m

def Agg.apply : Agg → List Rat → Rat
  | .scalar, xs => xs.headD 0
  | .first, xs => xs.headD 0
  | .last, xs => xs.getLastD 0
  | .mean, xs => sumQ xs / (xs.length : Rat)
  | .max, xs => maxQ xs
  | .min, xs => minQ xs
  | .sum, xs => sumQ xs

/-- what a report line shows for a quantity: aggregate, scale (×100 for fractions shown as %, /1000 …), round to `d` decimals -/
def figure (a : Agg) (scale : Rat) (d : Nat) (xs : List Rat) : List Char := fmtF d (a.apply xs * scale)

/-! ## profile tables -/

/-- the production-profile loop: `for i in range(L): row(first + i, series[i * n])` (one row per simulated year, `n` time steps per year;
the electricity table numbers its years from `first = 1`, the heat tables from `first = 0`) -/
def profileRows (first L n : Nat) (series : List Rat) : List (Nat × Rat) :=
  (List.range L).map (fun i => (first + i, series.getD (i * n) 0))

/-- the revenue / cash-flow profile: construction years then operating years, "year since start" ascending from 0 (`cy + L` rows) -/
def cashflowRows (cy L : Nat) (series : List Rat) : List (Nat × Rat) :=
  (List.range (cy + L)).map (fun i => (i, series.getD i 0))

end GeoVerif

namespace GeoVerif

/-- strip trailing zeros of the fraction part and a then-dangling point (what Python's `g` presentation does) -/
def stripTrailingZeros (s : List Char) : List Char :=
  if s.contains '.' then
    let r := (s.reverse.dropWhile (· == '0'))
    (match r with | '.' :: t => t | t => t).reverse
  else s

/-- the decimal exponent `e` with `10^e ≤ ax < 10^(e+1)` searched in `[-5, 15]` (`none` outside) -/
def decExp (ax : Rat) : Option Int :=
  ((List.range 21).map (fun (i : Nat) => (i : Int) - 5)).find? (fun e =>
    let lo : Rat := if e ≥ 0 then (10 : Rat) ^ e.toNat else 1 / (10 : Rat) ^ (-e).toNat
    decide (lo ≤ ax) && decide (ax < lo * 10))

/-- Python `f'{x:.{p}g}'` in its fixed-notation range (`-4 ≤ exponent < p`); `none` when Python would switch to scientific notation -/
def fmtG (p : Nat) (x : Rat) : Option (List Char) :=
  if x = 0 then some ['0'] else
  let ax := if x < 0 then -x else x
  match decExp ax with
  | none => none
  | some e0 =>
    -- rounding to p significant digits may carry into the next decade
    let dec0 : Int := (p : Int) - 1 - e0
    if dec0 < 0 then none else
    let k0 := roundHalfEvenNat ax dec0.toNat
    let e := if k0 ≥ 10 ^ p then e0 + 1 else e0
    if e < -4 || e ≥ (p : Int) then none else
    let dec : Int := (p : Int) - 1 - e
    if dec < 0 then none else
    some (stripTrailingZeros (renderFixed (decide (x < 0)) dec.toNat (roundHalfEvenNat ax dec.toNat)))

end GeoVerif
