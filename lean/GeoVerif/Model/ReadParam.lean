namespace GeoVerif

/-- what `float(s)` can produce -/
inductive PyFloat
  | nan | negInf | posInf
  | fin (q : Rat)
deriving DecidableEq, Repr

namespace PyFloat
/-- IEEE `<` : false whenever NaN is involved -/
def lt : PyFloat → PyFloat → Bool
  | nan, _ => false | _, nan => false
  | negInf, negInf => false | negInf, _ => true
  | _, negInf => false
  | posInf, _ => false
  | fin _, posInf => true
  | fin a, fin b => decide (a < b)
def beq' : PyFloat → PyFloat → Bool      -- IEEE `==`
  | nan, _ => false | _, nan => false
  | a, b => decide (a = b)
end PyFloat

structure FloatDecl where
  name : String
  min : Rat
  max : Rat
  dflt : Rat

structure FloatState where
  value : PyFloat
  provided : Bool
  valid : Bool

def errMsg (v : PyFloat) (name : String) : String :=
  "Error: Parameter given (" ++ reprStr v ++ ") for " ++ name ++ " outside of valid range."

/-- the float branch of `ReadParameter` as pinned: `New_val < Min or New_val > Max` -/
def readFloatPinned (d : FloatDecl) (st : FloatState) (v : PyFloat) : Except String FloatState :=
  let st1 := if v.beq' (.fin d.dflt) then { st with provided := true } else st
  if v.beq' st1.value then .ok st1
  else if v.lt (.fin d.min) || (PyFloat.fin d.max).lt v then .error (errMsg v d.name)
  else .ok { value := v, provided := true, valid := true }

/-- the repaired test: `not (Min <= New_val <= Max)` -/
def readFloatFixed (d : FloatDecl) (st : FloatState) (v : PyFloat) : Except String FloatState :=
  let st1 := if v.beq' (.fin d.dflt) then { st with provided := true } else st
  if v.beq' st1.value then .ok st1
  else if !( !(v.lt (.fin d.min)) && !((PyFloat.fin d.max).lt v) && v.beq' v) then .error (errMsg v d.name)
  else .ok { value := v, provided := true, valid := true }

end GeoVerif
