namespace GeoVerif

/-- what `float(s)` can produce -/
inductive PyFloat
  | nan | negInf | posInf
  | fin (q : Rat)
deriving DecidableEq, Repr

namespace PyFloat
/-- IEEE `<` : false whenever NaN is involved -/
def lt : PyFloat → PyFloat → Bool
  | nan, _ => false | _, nan => false
  | negInf, negInf => false | negInf, _ => true
  | _, negInf => false
  | posInf, _ => false
  | fin _, posInf => true
  | fin a, fin b => decide (a < b)
def beq' : PyFloat → PyFloat → Bool      -- IEEE `==`
  | nan, _ => false | _, nan => false
  | a, b => decide (a = b)
end PyFloat

structure FloatDecl where
  name : String
  min : Rat
  max : Rat
  dflt : Rat

structure FloatState where
  value : PyFloat
  provided : Bool
  valid : Bool
  deriving DecidableEq, Repr

def errMsg (v : PyFloat) (name : String) : String :=
  "Error: Parameter given (" ++ reprStr v ++ ") for " ++ name ++ " outside of valid range."

/-- the float branch of `ReadParameter` as pinned: `New_val < Min or New_val > Max` -/
def readFloatPinned (d : FloatDecl) (st : FloatState) (v : PyFloat) : Except String FloatState :=
  let st1 := if v.beq' (.fin d.dflt) then { st with provided := true } else st
  if v.beq' st1.value then .ok st1
  else if v.lt (.fin d.min) || (PyFloat.fin d.max).lt v then .error (errMsg v d.name)
  else .ok { value := v, provided := true, valid := true }

/-- the repaired test: `not (Min <= New_val <= Max)` -/
def readFloatFixed (d : FloatDecl) (st : FloatState) (v : PyFloat) : Except String FloatState :=
  let st1 := if v.beq' (.fin d.dflt) then { st with provided := true } else st
  if v.beq' st1.value then .ok st1
  else if !( !(v.lt (.fin d.min)) && !((PyFloat.fin d.max).lt v) && v.beq' v) then .error (errMsg v d.name)
  else .ok { value := v, provided := true, valid := true }

end GeoVerif

namespace GeoVerif

/-- a float parameter declaration as extracted from the repository (`none` = unbounded / not numeric) -/
structure FDecl where
  id : Nat
  min : Option Rat
  max : Option Rat
  dflt : Option Rat
  deriving DecidableEq, Repr

/-- the allowable set of an integer / option parameter: an explicit list, or a contiguous range `lo … hi` (the
repository writes `list(range(lo, hi + 1))`, sometimes with a million members) -/
inductive AllowSet
  | list (l : List Int)
  | range (lo hi : Int)
  deriving DecidableEq, Repr

def AllowSet.contains : AllowSet → Int → Bool
  | .list l, v => l.contains v
  | .range lo hi, v => decide (lo ≤ v) && decide (v ≤ hi)

def AllowSet.nonempty : AllowSet → Bool
  | .list l => !l.isEmpty
  | .range lo hi => decide (lo ≤ hi)

/-- an integer / option parameter declaration: the allowable set and the default -/
structure IDecl where
  id : Nat
  allow : AllowSet
  dflt : Option Int
  deriving DecidableEq, Repr

def FDecl.wellFormed (d : FDecl) : Bool :=
  match d.min, d.max with
  | some a, some b => decide (a ≤ b)
  | _, _ => true

def IDecl.wellFormed (d : IDecl) : Bool := d.allow.nonempty

structure IntState where
  value : Int
  provided : Bool
  valid : Bool
  deriving DecidableEq, Repr

/-- the int branch of `ReadParameter`: equal to the default ⇒ nothing happens (not even `Provided`); equal to the current
value ⇒ nothing; otherwise membership in the allowable set -/
def readInt (allow : AllowSet) (dflt : Option Int) (name : String) (st : IntState) (v : Int) : Except String IntState :=
  if dflt = some v then .ok st
  else if v = st.value then .ok st
  else if !(allow.contains v) then .error ("Error: Parameter given (" ++ toString v ++ ") for " ++ name ++ " outside of valid range.")
  else .ok { value := v, provided := true, valid := true }

def isDefault (dflt : Option Rat) (v : PyFloat) : Bool :=
  match dflt with
  | some d => v.beq' (.fin d)
  | none => false

/-- `v < Min` (an unbounded declaration has `Min = -inf`, below which nothing lies) -/
def belowMin (min : Option Rat) (v : PyFloat) : Bool :=
  match min with
  | some a => v.lt (.fin a)
  | none => false

def aboveMax (max : Option Rat) (v : PyFloat) : Bool :=
  match max with
  | some b => (PyFloat.fin b).lt v
  | none => false

def markProvided (b : Bool) (st : FloatState) : FloatState := if b then { st with provided := true } else st

/-- float branch of `ReadParameter` with optional (unbounded) limits and the repaired comparison `not (Min <= v <= Max)`:
a value equal to the default only sets `Provided`; a value equal to the current one changes nothing; otherwise the range test -/
def readFloat (min max dflt : Option Rat) (name : String) (st : FloatState) (v : PyFloat) : Except String FloatState :=
  if v.beq' (markProvided (isDefault dflt v) st).value then .ok (markProvided (isDefault dflt v) st)
  else if belowMin min v || aboveMax max v || !(v.beq' v) then .error (errMsg v name)
  else .ok { value := v, provided := true, valid := true }

/-- the comparison as it stood on the pinned tree: `v < Min or v > Max` (NaN passes) -/
def readFloatOld (min max dflt : Option Rat) (name : String) (st : FloatState) (v : PyFloat) : Except String FloatState :=
  if v.beq' (markProvided (isDefault dflt v) st).value then .ok (markProvided (isDefault dflt v) st)
  else if belowMin min v || aboveMax max v then .error (errMsg v name)
  else .ok { value := v, provided := true, valid := true }

end GeoVerif
