/-! Yearly series as lists of rationals: the few numpy idioms the economics code uses (no imports). -/
namespace GeoVerif

/-- `np.sum` -/
def sumL : List Rat → Rat
  | [] => 0
  | a :: as => a + sumL as

/-- element-wise product of two vectors (`a * b` on numpy arrays of equal length) -/
def zipMul : List Rat → List Rat → List Rat
  | a :: as, b :: bs => a * b :: zipMul as bs
  | _, _ => []

/-- element-wise sum -/
def zipAdd : List Rat → List Rat → List Rat
  | a :: as, b :: bs => (a + b) :: zipAdd as bs
  | _, _ => []

/-- `np.average` -/
def avgL (l : List Rat) : Rat := sumL l / (l.length : Rat)

/-- `1 / np.power(1 + d, np.linspace(0, L-1, L))` -/
def discA (d : Rat) (L : Nat) : List Rat := (List.range L).map (fun t => 1 / (1 + d) ^ t)

/-- `1 / np.power(1 + i, np.linspace(1, L, L))` -/
def discB (i : Rat) (L : Nat) : List Rat := (List.range L).map (fun t => 1 / (1 + i) ^ (t + 1))

/-- `np.power(1 + r, np.linspace(1, L, L))` -/
def inflB (r : Rat) (L : Nat) : List Rat := (List.range L).map (fun t => (1 + r) ^ (t + 1))

/-- capital recovery factor `i / (1 - (1+i)^-L)` -/
def crf (i : Rat) (L : Nat) : Rat := i / (1 - 1 / (1 + i) ^ L)

end GeoVerif
