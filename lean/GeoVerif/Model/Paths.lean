/-! POSIX path handling of the entry points (`__main__.py`, `GEOPHIRESv3.main`) over character lists, no imports. -/
namespace GeoVerif

abbrev PathS := List Char

def isAbsPath : PathS → Bool
  | '/' :: _ => true
  | _ => false

/-- `Path(cwd, p).absolute()` for an absolute `cwd`: absolute arguments win, nothing is normalised -/
def resolvePath (cwd p : PathS) : PathS := if isAbsPath p then p else cwd ++ '/' :: p

/-- last component (`Path.name`) -/
def baseName (p : PathS) : PathS := (p.reverse.takeWhile (· ≠ '/')).reverse
/-- everything before the last component, without the separating slash -/
def dirName (p : PathS) : PathS := ((p.reverse.dropWhile (· ≠ '/')).drop 1).reverse

/-- `Path.stem`: the name without its last suffix (a leading dot does not start a suffix) -/
def stemOf (name : PathS) : PathS :=
  let r := name.reverse
  let ext := r.takeWhile (· ≠ '.')
  let rest := r.dropWhile (· ≠ '.')
  match rest with
  | [] => name                         -- no dot
  | [_] => name                        -- the only dot is the first character
  | _ :: base => if ext.isEmpty then name else base.reverse

def isPrefixOfL : List Char → List Char → Bool
  | [], _ => true
  | _, [] => false
  | a :: as, b :: bs => a == b && isPrefixOfL as bs

/-- Python `s.replace(old, new)` for non-empty `old`: all non-overlapping occurrences, left to right (fuel = length) -/
def pyReplaceAux (old new : List Char) : Nat → List Char → List Char
  | 0, s => s
  | _, [] => []
  | fuel + 1, c :: cs =>
    if isPrefixOfL old (c :: cs) then new ++ pyReplaceAux old new fuel ((c :: cs).drop old.length)
    else c :: pyReplaceAux old new fuel cs

def pyReplace (s old new : List Char) : List Char := if old.isEmpty then s else pyReplaceAux old new (s.length + 1) s

/-- JSON path as derived on the pinned tree: `output_arg.replace(name, stem + '.json')` -/
def jsonPathPinned (out : PathS) : PathS := pyReplace out (baseName out) (stemOf (baseName out) ++ ".json".toList)

/-- JSON path as repaired: `Path(output_arg).with_suffix('.json')` — the sibling of the report -/
def jsonPathFixed (out : PathS) : PathS :=
  let d := dirName out
  let j := stemOf (baseName out) ++ ".json".toList
  if out.contains '/' then d ++ '/' :: j else j

structure CliPlan where
  input : PathS
  report : PathS
  json : PathS
  deriving DecidableEq, Repr

/-- `python -m geophires_x <input> [<output>]` started in `cwd` -/
def cliPlan (cwd input : PathS) (output : Option PathS) : CliPlan :=
  let rep := match output with
    | some o => resolvePath cwd o
    | none => resolvePath cwd "HDR.out".toList
  ⟨resolvePath cwd input, rep, jsonPathFixed rep⟩

end GeoVerif
