namespace GeoVerif

def sumR : List Rat → Rat
  | [] => 0
  | a :: as => a + sumR as

def ins (x : Rat) : List Rat → List Rat
  | [] => [x]
  | y :: ys => if x ≤ y then x :: y :: ys else y :: ins x ys

def isort : List Rat → List Rat
  | [] => []
  | x :: xs => ins x (isort xs)

def minR (l : List Rat) : Rat := (isort l).headD 0
def maxR (l : List Rat) : Rat := (isort l).getLastD 0
def meanR (l : List Rat) : Rat := sumR l / (l.length : Rat)
def varR (l : List Rat) : Rat := sumR (l.map (fun x => (x - meanR l) * (x - meanR l))) / (l.length : Rat)
/-- numpy median: middle element, or mean of the two middle ones -/
def medianR (l : List Rat) : Rat :=
  let s := isort l
  let n := s.length
  if n % 2 = 1 then s.getD (n / 2) 0 else (s.getD (n / 2 - 1) 0 + s.getD (n / 2) 0) / 2

structure Stats where
  min : Rat
  max : Rat
  median : Rat
  mean : Rat
  var : Rat
deriving DecidableEq

def stats (l : List Rat) : Stats := ⟨minR l, maxR l, medianR l, meanR l, varR l⟩

end GeoVerif
