/-!
# The client's report parser (C10), over character lists

`GeophiresXResult`: a field is looked up by the substring `"<indent spaces><name>: "`, the matching lines are put in a *set* and
one is popped (an arbitrary one — modelled as a choice function), the value/unit text is what remains after deleting `"<name>:"`,
newlines and every run of two or more blanks; tables are split on blank runs.  Import-free.
-/
namespace GeoVerif

def isBlankCh (c : Char) : Bool := c == ' ' || c == '\t' || c == '\n' || c == '\r'

/-- Python `str.split()` (no argument) on a character list -/
def splitWsAux : List Char → List Char → List (List Char)
  | [], acc => if acc.isEmpty then [] else [acc.reverse]
  | c :: cs, acc =>
    if isBlankCh c then
      (if acc.isEmpty then splitWsAux cs [] else acc.reverse :: splitWsAux cs [])
    else splitWsAux cs (c :: acc)

def splitWs (s : List Char) : List (List Char) := splitWsAux s []

/-- a table row as the writer emits it: cells separated (and possibly preceded / followed) by blank runs -/
def renderRow (lead : List Char) : List (List Char × List Char) → List Char
  | [] => lead
  | (cell, sep) :: rest => lead ++ cell ++ renderRow sep rest

namespace Client

abbrev Line := List Char

def isInfix (pat : Line) : Line → Bool
  | [] => pat.isEmpty
  | c :: cs => pat.isPrefixOf (c :: cs) || isInfix pat cs

/-- `str.replace(pat, '')` for a non-empty pattern (leftmost, non-overlapping) -/
def removeAll (pat : Line) (s : Line) : Line :=
  if pat.isEmpty then s else go s s.length
where
  go (s : Line) : Nat → Line
    | 0 => s
    | fuel + 1 =>
      match s with
      | [] => []
      | c :: cs => if pat.isPrefixOf (c :: cs) then go ((c :: cs).drop pat.length) fuel else c :: go cs fuel

/-- `re.sub(r'\s\s+', '', s)`: every maximal run of two or more blanks disappears, single blanks stay -/
def dropBlankRunsAux : Nat → Line → Line
  | 0, s => s
  | _, [] => []
  | fuel + 1, c :: cs =>
    if isBlankCh c then
      (if (cs.takeWhile isBlankCh).isEmpty then c :: dropBlankRunsAux fuel cs else dropBlankRunsAux fuel (cs.dropWhile isBlankCh))
    else c :: dropBlankRunsAux fuel cs

def dropBlankRuns (s : Line) : Line := dropBlankRunsAux s.length s

def stripBlanks (s : Line) : Line := ((s.dropWhile isBlankCh).reverse.dropWhile isBlankCh).reverse

def splitOnSpace (s : Line) : List Line :=
  (s.foldr (fun c acc => if c == ' ' then [] :: acc else match acc with | [] => [[c]] | h :: t => (c :: h) :: t) [[]])

/-- the field marker `"<indent spaces><name>: "` -/
def marker (indent : Nat) (name : Line) : Line := List.replicate indent ' ' ++ name ++ [':', ' ']

def matching (indent : Nat) (name : Line) (lines : List Line) : List Line := lines.filter (isInfix (marker indent name))

/-- value text and unit of one matching line -/
def valueUnit (name : Line) (line : Line) : Line × Option Line :=
  let rest := dropBlankRuns (removeAll ['\n'] (removeAll (name ++ [':']) line))
  match splitOnSpace (stripBlanks rest) with
  | [v, u] => (v, some u)
  | v :: _ => (v, if "Number".toList.isPrefixOf name then some "count".toList else none)
  | [] => ([], none)

/-- `_get_result_field` with the set's `pop()` as an arbitrary choice among the (distinct) matching lines -/
def getField (choose : List Line → Option Line) (indent : Nat) (name : Line) (lines : List Line) : Option (Line × Option Line) :=
  match matching indent name lines with
  | [] => none
  | ms => (choose ms.eraseDups).map (valueUnit name)

/-- every result any choice could give (for the differential: the real answer must be one of them, and they must all agree) -/
def fieldCandidates (indent : Nat) (name : Line) (lines : List Line) : List (Line × Option Line) :=
  ((matching indent name lines).map (valueUnit name)).eraseDups

/-! ## numbers -/

inductive Num | none | int (neg : Bool) (digits : Line) | dec (neg : Bool) (ip fp : Line)
  deriving DecidableEq, Repr

def allDigits (s : Line) : Bool := !s.isEmpty && s.all Char.isDigit

/-- `_parse_number`: `N/A` ↦ none, commas ignored, with a `.` a decimal, otherwise an integer; anything else ↦ none (a warning) -/
def splitSign : Line → Bool × Line
  | '-' :: r => (true, r)
  | r => (false, r)

def parseNumber (s : Line) : Num :=
  if s == "N/A".toList then .none else
  let t := s.filter (· != ',')
  let neg := (splitSign t).1
  let body := (splitSign t).2
  if body.contains '.' then
    let ip := body.takeWhile (· != '.')
    let fp := (body.dropWhile (· != '.')).drop 1
    if (ip.isEmpty || ip.all Char.isDigit) && fp.all Char.isDigit && !(ip.isEmpty && fp.isEmpty) then .dec neg ip fp else .none
  else if allDigits body then .int neg body else .none

end Client
end GeoVerif
