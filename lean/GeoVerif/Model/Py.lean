/-! Python list / range primitives used by the *generated* transcription of `/repo`'s pure functions
(`Generated/Code.lean`, written by `tools/py2lean.py`).  No imports.

`get` / `set` follow Python's indexing including the wrap of negative indices.  An index outside the list is where Python
raises `IndexError`; here `get` yields 0 and `set` leaves the list unchanged — every theorem about generated code therefore
carries the explicit length hypotheses under which Python does not raise (they are stated, never defaulted away). -/
namespace GeoVerif.Py

/-- position addressed by the Python index `i` in a list of length `n` (negative indices count from the end) -/
def pos (n : Nat) (i : Int) : Nat := if 0 ≤ i then i.toNat else n - (-i).toNat

/-- `-n ≤ i < n` : Python does not raise -/
def inRange (n : Nat) (i : Int) : Bool := decide (-(n : Int) ≤ i ∧ i < (n : Int))

def get (xs : List Rat) (i : Int) : Rat := xs.getD (pos xs.length i) 0

def set (xs : List Rat) (i : Int) (v : Rat) : List Rat := xs.set (pos xs.length i) v

/-- `range(a, b)` (step 1) -/
def range (a b : Int) : List Int := (List.range (b - a).toNat).map (fun (k : Nat) => a + (k : Int))

/-- `[v] * n` -/
def replicate (n : Int) (v : Rat) : List Rat := List.replicate n.toNat v

/-- `len(xs)` -/
def len (xs : List Rat) : Int := (xs.length : Int)

/-- `int(x)` : truncation towards zero -/
def trunc (x : Rat) : Int := if 0 ≤ x then x.floor else -((-x).floor)

/-- `xs[a:b]` for `0 ≤ a` (bounds beyond the end are clipped, as Python does) -/
def slice (xs : List Rat) (a b : Int) : List Rat := (xs.drop a.toNat).take (b.toNat - a.toNat)

def sum : List Rat → Rat
  | [] => 0
  | x :: xs => x + sum xs

/-- `np.trapz(ys, dx=d)` : `d · Σ (y_j + y_{j+1}) / 2` -/
def trapz (ys : List Rat) (d : Rat) : Rat :=
  d * sum ((List.range (ys.length - 1)).map (fun j => (ys.getD j 0 + ys.getD (j + 1) 0) / 2))

/-- `math.fabs` -/
def fabs (x : Rat) : Rat := if x < 0 then -x else x

end GeoVerif.Py
