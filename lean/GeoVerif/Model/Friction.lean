/-! Darcy–Weisbach wellbore friction (`WellPressureDrop`), rational part (no imports).  `pi` is a parameter (any positive
constant); the friction factor `f` is either laminar (64/Re) or supplied (Colebrook iterate, transcendental). -/
namespace GeoVerif

def velocity (pi q rho d : Rat) : Rat := q / rho / (pi / 4 * d ^ 2)
def reynolds (pi q mu d : Rat) : Rat := 4 * q / (mu * pi * d)

/-- pressure drop over the well [kPa] -/
def dpWell (f rho v depth d : Rat) : Rat := f * (rho * v ^ 2 / 2) * (depth / d) / 1000

def dpLaminar (pi q rho mu depth d : Rat) : Rat :=
  dpWell (64 / reynolds pi q mu d) rho (velocity pi q rho d) depth d

def dpWithFactor (pi q rho depth d f : Rat) : Rat := dpWell f rho (velocity pi q rho d) depth d

end GeoVerif
