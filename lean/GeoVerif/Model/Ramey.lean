/-! Ramey wellbore heat-loss model (`RameyCalc`), generic in the number type so that the *same* definition is executed
(at `Float`, by the driver) and reasoned about (at `ℝ`, in Lemmas/Ramey.lean).  No imports. -/
namespace GeoVerif

/-- the transcendental functions and constants the analytic models need -/
structure Analytic (α : Type) where
  exp : α → α
  log : α → α
  sqrt : α → α
  pi : α

section
variable {α : Type} [Add α] [Sub α] [Mul α] [Div α] [Neg α] [OfNat α 1] [OfNat α 2] [OfNat α 4]

/-- temperature drop along the production well at time 0 (reservoir temperature = rock temperature):
`g · (depth − A · (1 − e^{−depth/A}))` -/
def rameyInitialDrop (A : Analytic α) (g depth a : α) : α :=
  g * (depth - a * (1 - A.exp (-(depth / a))))

/-- `rameyA = flow · cp · f / 2 / π / k` -/
def rameyA (A : Analytic α) (flow cp f k : α) : α := flow * cp * f / 2 / A.pi / k

/-- general time step: `−((Trock − Tres) − g (depth − A) + (Tres − g A − Trock) e^{−depth/A})` -/
def rameyDrop (A : Analytic α) (trock tres g depth a : α) : α :=
  -((trock - tres) - g * (depth - a) + (tres - g * a - trock) * A.exp (-(depth / a)))

end

def floatAnalytic : Analytic Float := ⟨Float.exp, Float.log, Float.sqrt, 3.141592653589793⟩

/-- time function `f(t) = −log(1.1 (d/2) / √(4 α t · 365·24·3600 · u)) − 0.29` at `Float` -/
def rameyF (welldiam alpha t util : Float) : Float :=
  -(Float.log (1.1 * (welldiam / 2.0) / Float.sqrt (4.0 * alpha * t * 365.0 * 24.0 * 3600.0 * util))) - 0.29

end GeoVerif
