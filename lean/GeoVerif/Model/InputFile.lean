/-! Tokenisation of the input file (`GeoPHIRESUtils.read_input_file`) over character lists (no imports).
ASCII whitespace only; other Unicode whitespace is differential-tested, not modelled. -/
namespace GeoVerif

/-- characters removed by Python's `str.strip()` in the ASCII range -/
def isWs (c : Char) : Bool :=
  c = ' ' || c = '\t' || c = '\n' || c = '\r' || c = '\x0b' || c = '\x0c' || c = '\x1c' || c = '\x1d' || c = '\x1e' || c = '\x1f'

def lstrip (l : List Char) : List Char := l.dropWhile isWs
def rstrip (l : List Char) : List Char := (l.reverse.dropWhile isWs).reverse
def strip (l : List Char) : List Char := rstrip (lstrip l)

/-- `line.split(',')` -/
def splitComma : List Char → List (List Char)
  | [] => [[]]
  | c :: cs =>
    match splitComma cs with
    | [] => [[]]
    | f :: fs => if c = ',' then [] :: f :: fs else (c :: f) :: fs

/-- comment lines start with `#`, `--` or `*` (after stripping) -/
def isCommentLine : List Char → Bool
  | '#' :: _ => true
  | '*' :: _ => true
  | '-' :: '-' :: _ => true
  | _ => false

structure LineEntry where
  key : List Char
  val : List Char
  comment : List Char
  deriving DecidableEq, Repr

def commentOf : List (List Char) → List Char
  | [] => []
  | [c] => strip c
  | cs => cs.foldl (· ++ ·) []        -- more than three fields: concatenated without commas, unstripped

/-- a stripped line: `none` for comment lines, blank lines and lines without a comma -/
def parseStripped (line : List Char) : Option LineEntry :=
  if isCommentLine line then none
  else
    match splitComma line with
    | a :: b :: rest => some ⟨strip a, strip b, commentOf rest⟩
    | _ => none

/-- one line of the file -/
def parseLine (raw : List Char) : Option LineEntry := parseStripped (strip raw)

def parseFile (lines : List (List Char)) : List LineEntry := lines.filterMap parseLine

/-- dictionary semantics of `return_dict[description] = entry`: the last entry with that key governs -/
def lookupKey (k : List Char) (l : List LineEntry) : Option (List Char) :=
  ((l.filter (fun e => e.key == k)).getLast?).map (·.val)

/-- universal newlines: split a text at `\n`, `\r\n` and lone `\r` -/
def splitLinesAux : List Char → List Char → List (List Char)
  | [], cur => [cur.reverse]
  | '\r' :: '\n' :: rest, cur => cur.reverse :: splitLinesAux rest []
  | '\r' :: rest, cur => cur.reverse :: splitLinesAux rest []
  | '\n' :: rest, cur => cur.reverse :: splitLinesAux rest []
  | c :: rest, cur => splitLinesAux rest (c :: cur)

def splitLines (t : List Char) : List (List Char) := splitLinesAux t []

/-- the dictionary of a whole file text, in insertion order of first occurrence with the last value (Python dict semantics) -/
def fileDict (text : String) : List (String × String) :=
  let es := parseFile (splitLines text.toList)
  let keys := es.foldl (fun acc e => if acc.contains e.key then acc else acc ++ [e.key]) []
  keys.map (fun k => (String.ofList k, String.ofList ((lookupKey k es).getD [])))

end GeoVerif
