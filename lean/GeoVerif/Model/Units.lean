/-!
# Units: an independent (SI-definition) model of the unit catalogue and of the reader's / writer's conversions

`Units.py` lists, per kind of quantity, the units a user may write; `Parameter.ConvertUnits` converts a value given with
a unit to the parameter's working unit with pint, `ConvertUnitsBack` / `ConvertOutputUnits` convert before printing.

The model does not copy pint's factors: every atom below carries its *definition* in SI base units (exact rationals:
1 ft = 0.3048 m, 1 lb = 0.45359237 kg, 1 psi = 1 lbf/in², degF = 5/9 K + 459.67·5/9, 1 yr = 365.25 d, …), and a
unit text is a product of atom powers.  The correspondence check compares the real reader (pint) with this model on
every (parameter, catalogue unit) pair, so a wrong factor on either side shows as a difference.

Import-free, computable over `Rat` / `Int`.
-/
namespace GeoVerif.Units

/-- exponents of (length, mass, time, temperature, currency) -/
structure Dim where
  l : Int := 0
  m : Int := 0
  t : Int := 0
  k : Int := 0
  c : Int := 0
  deriving DecidableEq, Repr

def Dim.add (a b : Dim) : Dim := ⟨a.l + b.l, a.m + b.m, a.t + b.t, a.k + b.k, a.c + b.c⟩
def Dim.smul (n : Int) (a : Dim) : Dim := ⟨n * a.l, n * a.m, n * a.t, n * a.k, n * a.c⟩

/-- a unit: value in SI base units = `scale * x + offset` -/
structure U where
  scale : Rat
  offset : Rat := 0
  dim : Dim := {}
  deriving DecidableEq, Repr

inductive Atom
  | meter | centimeter | kilometer | ft | inch | mile
  | gram | kilogram | tonne | ton | kilotonne | pound | ounce | grain
  | degC | degF | kelvin
  | Pa | kPa | MPa | bar | kbar | psi
  | msec | sec | minute | hr | day | week | yr
  | W | kW | MW | GW | Wh | kWh | MWh | GWh | J | kJ | BTU | MMBTU
  | percent | one
  | USD | KUSD | MUSD | cents
  deriving DecidableEq, Repr

def dL : Dim := { l := 1 }
def dM : Dim := { m := 1 }
def dT : Dim := { t := 1 }
def dK : Dim := { k := 1 }
def dC : Dim := { c := 1 }
def dP : Dim := { l := -1, m := 1, t := -2 }   -- pressure
def dW : Dim := { l := 2, m := 1, t := -3 }    -- power
def dJ : Dim := { l := 2, m := 1, t := -2 }    -- energy

def lb : Rat := 45359237 / 100000000
def inchM : Rat := 254 / 10000
def gn : Rat := 980665 / 100000   -- standard gravity

def Atom.u : Atom → U
  | .meter => ⟨1, 0, dL⟩ | .centimeter => ⟨1 / 100, 0, dL⟩ | .kilometer => ⟨1000, 0, dL⟩
  | .ft => ⟨3048 / 10000, 0, dL⟩ | .inch => ⟨inchM, 0, dL⟩ | .mile => ⟨1609344 / 1000, 0, dL⟩
  | .gram => ⟨1 / 1000, 0, dM⟩ | .kilogram => ⟨1, 0, dM⟩ | .tonne => ⟨1000, 0, dM⟩ | .ton => ⟨2000 * lb, 0, dM⟩
  | .kilotonne => ⟨1000000, 0, dM⟩ | .pound => ⟨lb, 0, dM⟩ | .ounce => ⟨lb / 16, 0, dM⟩ | .grain => ⟨lb / 7000, 0, dM⟩
  | .degC => ⟨1, 27315 / 100, dK⟩ | .degF => ⟨5 / 9, (45967 / 100) * (5 / 9), dK⟩ | .kelvin => ⟨1, 0, dK⟩
  | .Pa => ⟨1, 0, dP⟩ | .kPa => ⟨1000, 0, dP⟩ | .MPa => ⟨1000000, 0, dP⟩ | .bar => ⟨100000, 0, dP⟩ | .kbar => ⟨100000000, 0, dP⟩
  | .psi => ⟨lb * gn / (inchM * inchM), 0, dP⟩
  | .msec => ⟨1 / 1000, 0, dT⟩ | .sec => ⟨1, 0, dT⟩ | .minute => ⟨60, 0, dT⟩ | .hr => ⟨3600, 0, dT⟩ | .day => ⟨86400, 0, dT⟩
  | .week => ⟨604800, 0, dT⟩ | .yr => ⟨31557600, 0, dT⟩
  | .W => ⟨1, 0, dW⟩ | .kW => ⟨1000, 0, dW⟩ | .MW => ⟨1000000, 0, dW⟩ | .GW => ⟨1000000000, 0, dW⟩
  | .Wh => ⟨3600, 0, dJ⟩ | .kWh => ⟨3600000, 0, dJ⟩ | .MWh => ⟨3600000000, 0, dJ⟩ | .GWh => ⟨3600000000000, 0, dJ⟩
  | .J => ⟨1, 0, dJ⟩ | .kJ => ⟨1000, 0, dJ⟩ | .BTU => ⟨1055056 / 1000, 0, dJ⟩ | .MMBTU => ⟨1055056000, 0, dJ⟩
  | .percent => ⟨1 / 100, 0, {}⟩ | .one => ⟨1, 0, {}⟩
  | .USD => ⟨1, 0, dC⟩ | .KUSD => ⟨1000, 0, dC⟩ | .MUSD => ⟨1000000, 0, dC⟩ | .cents => ⟨1 / 100, 0, dC⟩

def Atom.ofString : String → Option Atom
  | "meter" | "m" => some .meter | "centimeter" | "cm" => some .centimeter | "kilometer" | "km" => some .kilometer
  | "ft" => some .ft | "in" => some .inch | "mile" | "mi" => some .mile
  | "gram" => some .gram | "kilogram" | "kg" => some .kilogram | "tonne" | "t" => some .tonne | "ton" => some .ton
  | "kilotonne" => some .kilotonne | "pound" | "lb" | "lbs" => some .pound | "ounce" | "oz" => some .ounce | "gr" => some .grain
  | "degC" => some .degC | "degF" => some .degF | "degK" | "K" => some .kelvin
  | "Pa" => some .Pa | "kPa" => some .kPa | "MPa" => some .MPa | "bar" => some .bar | "kbar" => some .kbar | "psi" => some .psi
  | "msec" => some .msec | "sec" | "s" => some .sec | "min" => some .minute | "hr" => some .hr | "day" => some .day
  | "week" => some .week | "yr" | "year" => some .yr
  | "W" => some .W | "kW" => some .kW | "MW" => some .MW | "GW" => some .GW
  | "Wh" => some .Wh | "kWh" => some .kWh | "MWh" => some .MWh | "GWh" => some .GWh
  | "J" => some .J | "kJ" => some .kJ | "BTU" => some .BTU | "MMBTU" => some .MMBTU
  | "%" | "percent" => some .percent | "" | "1" => some .one
  | "USD" => some .USD | "KUSD" => some .KUSD | "MUSD" => some .MUSD | "cents" => some .cents
  | _ => none

def ratPow (q : Rat) : Nat → Rat
  | 0 => 1
  | n + 1 => q * ratPow q n

def ratZPow (q : Rat) (n : Int) : Rat := if n ≥ 0 then ratPow q n.toNat else 1 / ratPow q (-n).toNat

/-- a unit text as the program's catalogue writes it: a product of atom powers (`kg/m**3` = kg¹ · m⁻³) -/
abbrev UExpr := List (Atom × Int)

/-- a bare temperature atom keeps its offset; inside a compound every atom is multiplicative (temperature *difference*) -/
def evalExpr : UExpr → U
  | [(a, 1)] => a.u
  | e => e.foldl (fun acc (p : Atom × Int) => ⟨acc.scale * ratZPow p.1.u.scale p.2, 0, acc.dim.add (Dim.smul p.2 p.1.u.dim)⟩) ⟨1, 0, {}⟩

def toBase (u : U) (x : Rat) : Rat := u.scale * x + u.offset
def fromBase (u : U) (b : Rat) : Rat := (b - u.offset) / u.scale

/-- the value, in unit `v`, of the quantity that is `x` in unit `u` -/
def convert (u v : U) (x : Rat) : Rat := fromBase v (toBase u x)

def convertible (u v : U) : Bool := decide (u.dim = v.dim) && decide (u.scale ≠ 0) && decide (v.scale ≠ 0)

def convert? (u v : U) (x : Rat) : Option Rat := if convertible u v then some (convert u v x) else none

/-! ## the reader -/

/-- a parameter as the reader keeps it: the number and the unit the number is expressed in -/
structure PState where
  value : Rat
  cur : U

/-- `ConvertUnits` (pint branch): the given number is converted to the parameter's *declared current* unit.
`lookupFound` is whether the catalogue lookup of the converted quantity's canonical unit text succeeds.
*pinned*: when it does not, `CurrentUnits` is left at the unit the user wrote although the number has been converted. -/
def readPinned (declCur given : U) (lookupFound : Bool) (x : Rat) : PState :=
  { value := convert given declCur x, cur := if lookupFound then declCur else given }

/-- repaired reader: the number has been converted to the declared unit, which is what `CurrentUnits` records -/
def readFixed (declCur given : U) (x : Rat) : PState :=
  { value := convert given declCur x, cur := declCur }

/-- `ConvertUnitsBack` before printing: from the recorded unit to the preferred unit; the echo line prints this number with the preferred unit -/
def echo (pref : U) (st : PState) : Rat := convert st.cur pref st.value

/-! ## currency prefixes (`K` thousand, `M` million) -/

inductive Prefix | none | K | M
  deriving DecidableEq, Repr

def Prefix.mult : Prefix → Rat
  | .none => 1 | .K => 1000 | .M => 1000000

/-- the factor the input path multiplied by on the pinned tree: `currFactor * prefFactor` with
`currFactor = 1 / mult cur` and `prefFactor = mult pref` -/
def currencyFactorPinned (cur pref : Prefix) : Rat := (1 / cur.mult) * pref.mult

/-- repaired input path: divide by that factor -/
def currencyReadFixed (cur pref : Prefix) (x : Rat) : Rat := x / currencyFactorPinned cur pref
def currencyReadPinned (cur pref : Prefix) (x : Rat) : Rat := x * currencyFactorPinned cur pref

/-- output path (`ConvertOutputUnits`): a value held in the preferred unit is shown in the requested one -/
def currencyShow (pref shown : Prefix) (x : Rat) : Rat := x * ((1 / shown.mult) * pref.mult)

/-! ## the output-units directive -/

/-- `ConvertOutputUnits`: value and label after `Units:<output>, v` -/
def convertOutput (cur v : U) (x : Rat) : Rat := convert cur v x

/-! ## catalogue table shape (filled by the translator) -/

structure Member where
  name : String
  expr : Option UExpr     -- none: the translator could not tokenise the text into known atoms

structure UClass where
  className : String
  usedByInput : Bool      -- some scalar input parameter's preferred unit belongs to this enum
  members : List Member

def Member.unit? (m : Member) : Option U := m.expr.map evalExpr

/-- every member of a class used by an input either resolves to a unit of the same dimension as the class's first resolvable member, or is listed -/
def classCoherent (exceptions : List String) (c : UClass) : Bool :=
  match c.members.filterMap (fun m => m.unit?) with
  | [] => c.members.all (fun m => exceptions.contains m.name)
  | u0 :: _ => c.members.all (fun m =>
      match m.unit? with
      | some u => convertible u u0 || exceptions.contains m.name
      | none => exceptions.contains m.name)

end GeoVerif.Units
