/-! Line-protocol helpers for the driver (no imports): exact rationals in and out, key=value arguments. -/
namespace GeoVerif.IO

def parseRat (s : String) : Option Rat :=
  match s.splitOn "/" with
  | [n] => n.toInt?.map (fun k => (k : Rat))
  | [n, d] => do
      let a ← n.toInt?
      let b ← d.toNat?
      if b = 0 then none else some (mkRat a b)
  | _ => none

def natDigits (n : Nat) : Nat := (toString n).length

/-- exact `num/den` when both have at most 40 digits, otherwise `~m e k` meaning `m · 10^k` with a 40-digit
integer mantissa obtained by integer division (deterministic, relative error < 1e-39). -/
def showRat (q : Rat) : String :=
  let n := q.num.natAbs
  let d := q.den
  if natDigits n ≤ 40 && natDigits d ≤ 40 then s!"{q.num}/{q.den}"
  else
    -- scale so that the quotient has about 40 digits
    let dn := natDigits n
    let dd := natDigits d
    -- want n * 10^a / (d * 10^b) with ~40 digits: exponent k = dn - dd - 40
    let k : Int := (dn : Int) - (dd : Int) - 40
    let m : Nat := if k ≥ 0 then n / (d * 10 ^ k.toNat) else (n * 10 ^ (-k).toNat) / d
    let sign := if q.num < 0 then "-" else ""
    s!"~{sign}{m}e{k}"

def showRats (l : List Rat) : String := " ".intercalate (l.map showRat)

abbrev Args := List (String × String)

def parseArgs (toks : List String) : Args :=
  toks.filterMap (fun t =>
    match t.splitOn "=" with
    | [k, v] => some (k, v)
    | _ => none)

def Args.get? (a : Args) (k : String) : Option String := (a.find? (·.1 == k)).map (·.2)

def Args.rat? (a : Args) (k : String) : Option Rat := a.get? k >>= parseRat
def Args.nat? (a : Args) (k : String) : Option Nat := a.get? k >>= String.toNat?
def Args.int? (a : Args) (k : String) : Option Int := a.get? k >>= String.toInt?
def Args.bool? (a : Args) (k : String) : Option Bool :=
  match a.get? k with
  | some "1" => some true
  | some "0" => some false
  | _ => none
/-- `key=v1,v2,…` (empty list written as `key=`) -/
def Args.rats? (a : Args) (k : String) : Option (List Rat) :=
  match a.get? k with
  | none => none
  | some "" => some []
  | some s => (s.splitOn ",").mapM parseRat
def Args.str? (a : Args) (k : String) : Option String := a.get? k

end GeoVerif.IO
