import GeoVerif.Model.Series
/-!
Exact model of `Economics.CalculateLCOELCOHLCOC` (no Mathlib imports).

The code has one branch per economic model × end-use; every branch is "levelize (capital share, O&M share, a yearly
series of other annual costs, a yearly energy series)".  `products` is the branch selection (which capital / O&M share,
which other costs, which energy series and unit each end-use uses); `levelized` is the economic model.
-/
namespace GeoVerif

inductive EndUse | elec | heat | cogen | chiller | heatPump | district
  deriving DecidableEq, Repr

inductive Econ | fcr | slc | bicycle
  deriving DecidableEq, Repr

/-- rates read by the three economic models -/
structure Rates where
  fcr : Rat      -- fixed charge rate
  ic : Rat       -- inflation rate during construction
  d : Rat        -- discount rate (standard levelized cost)
  fib : Rat
  bir : Rat
  eir : Rat
  ctr : Rat
  gtr : Rat
  ritc : Rat
  ptr : Rat
  rinfl : Rat

/-- what one levelized figure is computed from -/
structure Product where
  ccap : Rat
  coam : Rat
  other : List Rat   -- yearly other annual costs (pumping / heat-pump electricity / peaking fuel), M$/yr
  otherAvg : Rat     -- the *reported* average of those costs (what the FCR model uses)
  energy : List Rat  -- yearly energy sold
  unit : Rat         -- 1e8 (¢/kWh), ×2.931 for $/MMBTU, 1e2 for district heating demand in GWh

def iave (r : Rates) : Rat := r.fib * r.bir * (1 - r.ctr) + (1 - r.fib) * r.eir

/-- numerator of the BICYCLE levelized cost: the six present-value terms exactly as the code forms them -/
def bicycleNumerator (r : Rates) (L : Nat) (p : Product) : Rat :=
  let i := iave r
  let dv := discB i L
  let iv := inflB r.rinfl L
  let w := zipMul iv dv
  let npvcap := sumL (dv.map (fun x => (1 + r.ic) * p.ccap * crf i L * x))
  let npvfc := sumL (w.map (fun x => (1 + r.ic) * p.ccap * r.ptr * x))
  let npvit := sumL (dv.map (fun x => r.ctr / (1 - r.ctr) * ((1 + r.ic) * p.ccap * crf i L - p.ccap / (L : Rat)) * x))
  let npvitc := (1 + r.ic) * p.ccap * r.ritc / (1 - r.ctr)
  let npvoandm := sumL (zipMul (p.other.map (fun x => p.coam + x)) w)
  let npvgrt := r.gtr / (1 - r.gtr) * (npvcap + npvoandm + npvfc + npvit - npvitc)
  npvcap + npvoandm + npvfc + npvit + npvgrt - npvitc

/-- weights of the BICYCLE model: inflation × discount, years 1..L -/
def wB (r : Rates) (L : Nat) : List Rat := zipMul (inflB r.rinfl L) (discB (iave r) L)

/-- capital coefficient κ of the BICYCLE numerator after the annuity identity (`CRF · Σ disc = 1`) -/
def kappa (r : Rates) (L : Nat) : Rat :=
  (1 + r.ic) + (1 + r.ic) * r.ptr * sumL (wB r L)
    + r.ctr / (1 - r.ctr) * ((1 + r.ic) - sumL (discB (iave r) L) / (L : Rat))
    - (1 + r.ic) * r.ritc / (1 - r.ctr)

/-- in-range rates of finding F15: investment tax credit 76.5 %, income tax 42 %, low interest -/
def f15Rates : Rates := ⟨0, 0, 7/100, 1/2, 1/50, 1/25, 42/100, 0, 765/1000, 0, 2/100⟩

def levelizedNum (e : Econ) (r : Rates) (L : Nat) (p : Product) : Rat :=
  match e with
  | .fcr => r.fcr * (1 + r.ic) * p.ccap + p.coam + p.otherAvg
  | .slc => (1 + r.ic) * p.ccap + sumL (zipMul (p.other.map (fun x => p.coam + x)) (discA r.d L))
  | .bicycle => bicycleNumerator r L p

def levelizedDen (e : Econ) (r : Rates) (L : Nat) (p : Product) : Rat :=
  match e with
  | .fcr => avgL p.energy
  | .slc => sumL (zipMul p.energy (discA r.d L))
  | .bicycle => sumL (zipMul p.energy (zipMul (inflB r.rinfl L) (discB (iave r) L)))

def levelized (e : Econ) (r : Rates) (L : Nat) (p : Product) : Rat :=
  levelizedNum e r L p / levelizedDen e r L p * p.unit

/-- raw quantities of one run, as the code reads them -/
structure LcoeIn where
  econ : Econ
  eu : EndUse
  L : Nat
  r : Rates
  ccap : Rat
  coam : Rat
  ratio : Rat              -- CHP electrical plant cost allocation ratio
  rate : Rat               -- electricity purchase rate, $/kWh
  net : List Rat           -- net kWh produced per year
  heat : List Rat          -- heat kWh produced per year
  cool : List Rat          -- cooling kWh produced per year
  pump : List Rat          -- pumping kWh per year
  hp : List Rat            -- heat-pump electricity kWh per year
  ng : List Rat            -- annual peaking-fuel cost series (as the economics object holds it), M$/yr
  demand : Rat             -- annual district heating demand, GWh/yr
  avgPump : Rat            -- reported average annual pumping cost
  avgHp : Rat              -- reported average annual heat-pump electricity cost
  avgNg : Rat              -- reported average annual peaking-fuel cost

def centsPerKWh : Rat := 100000000
def mmbtu : Rat := 2931 / 1000

def zeros (L : Nat) : List Rat := List.replicate L 0

def pumpCost (i : LcoeIn) : List Rat := i.pump.map (fun x => x * i.rate / 1000000)
def hpCost (i : LcoeIn) : List Rat := i.hp.map (fun x => x * i.rate / 1000000)

/-- the product sold as electricity, if the end-use sells any -/
def elecProduct (i : LcoeIn) : Option Product :=
  match i.eu with
  | .elec => some ⟨i.ccap, i.coam, zeros i.L, 0, i.net, centsPerKWh⟩
  | .cogen => some ⟨i.ccap * i.ratio, i.coam * i.ratio, zeros i.L, 0, i.net, centsPerKWh⟩
  | _ => none

/-- the product sold as heat.  Pumping cost is charged to heat: as the reported average in the FCR model, as the yearly
series in the standard model, and — for cogeneration only — not at all in BICYCLE. -/
def heatProduct (i : LcoeIn) : Option Product :=
  match i.eu with
  | .heat => some ⟨i.ccap, i.coam, pumpCost i, i.avgPump, i.heat, centsPerKWh * mmbtu⟩
  | .cogen =>
    some ⟨i.ccap * (1 - i.ratio), i.coam * (1 - i.ratio),
          (if i.econ = .bicycle then zeros i.L else pumpCost i), i.avgPump, i.heat, centsPerKWh * mmbtu⟩
  | .heatPump => some ⟨i.ccap, i.coam, zipAdd (pumpCost i) (hpCost i), i.avgPump + i.avgHp, i.heat, centsPerKWh * mmbtu⟩
  | .district => some ⟨i.ccap, i.coam, zipAdd (pumpCost i) i.ng, i.avgPump + i.avgNg, List.replicate i.L i.demand, 100 * mmbtu⟩
  | _ => none

def coolProduct (i : LcoeIn) : Option Product :=
  match i.eu with
  | .chiller => some ⟨i.ccap, i.coam, pumpCost i, i.avgPump, i.cool, centsPerKWh * mmbtu⟩
  | _ => none

structure Lcoe3 where
  lcoe : Rat
  lcoh : Rat
  lcoc : Rat
  deriving DecidableEq, Repr

def lev (i : LcoeIn) : Option Product → Rat
  | none => 0
  | some p => levelized i.econ i.r i.L p

/-- `CalculateLCOELCOHLCOC` -/
def lcoe (i : LcoeIn) : Lcoe3 := ⟨lev i (elecProduct i), lev i (heatProduct i), lev i (coolProduct i)⟩

end GeoVerif
