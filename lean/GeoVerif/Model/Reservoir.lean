namespace GeoVerif

/-- temperature at depth z below the top of a stack of layers (gradient, thickness); the last layer is unbounded -/
def tempAt (t0 : Rat) : List (Rat × Rat) → Rat → Rat
  | [], _ => t0
  | [(g, _)], z => t0 + g * z
  | (g, th) :: l :: rest, z =>
    if z ≤ th then t0 + g * z else tempAt (t0 + g * th) (l :: rest) (z - th)

/-- depth at which `tmax` is reached -/
def maxDepth (t0 tmax : Rat) : List (Rat × Rat) → Rat
  | [] => 0
  | [(g, _)] => (tmax - t0) / g
  | (g, th) :: l :: rest =>
    if tmax < t0 + g * th then (tmax - t0) / g else th + maxDepth (t0 + g * th) tmax (l :: rest)

def trock (t0 tmax depth : Rat) (layers : List (Rat × Rat)) : Rat :=
  tempAt t0 layers (min depth (maxDepth t0 tmax layers))

end GeoVerif

namespace GeoVerif

/-- magnitude heuristics applied after reading: gradients above 1 are taken as °C/km, zero gradients become 1e-6 °C/m -/
def normGradient (g : Rat) : Rat :=
  let g' := if 1 < g then g / 1000 else g
  if g' < 1 / 1000000 then 1 / 1000000 else g'

/-- thicknesses below 100 are taken as km -/
def normThickness (t : Rat) : Rat := if t < 100 then t * 1000 else t

/-- the layer stack the walk uses: the first `numseg` (gradient, thickness) pairs -/
def layersOf (numseg : Nat) (grads thick : List Rat) : List (Rat × Rat) :=
  (List.range numseg).map (fun i => (grads.getD i 0, thick.getD i 100000))

/-- depth after the cap (`if depth > maxdepth: depth = maxdepth`) -/
def cappedDepth (t0 tmax depth : Rat) (layers : List (Rat × Rat)) : Rat :=
  let md := maxDepth t0 tmax layers
  if md < depth then md else depth

/-- percentage (linear) thermal drawdown model -/
def tdpAt (p trock tinj t : Rat) : Rat := (1 - p * t) * (trock - tinj) + tinj

/-- a drawdown profile given by weights `w` (single-fracture model: `w = erf(c/√t)`) -/
def weightedAt (w trock tinj : Rat) : Rat := w * (trock - tinj) + tinj

/-- `np.argmax(xs < lim)` as an option: index of the first element below the limit -/
def firstBelowFrom (lim : Rat) : List Rat → Option Nat
  | [] => none
  | x :: xs => if x < lim then some 0 else (firstBelowFrom lim xs).map (· + 1)

/-- `np.argmax` returns 0 both for "first element" and for "none" -/
def firstBelow (lim : Rat) (xs : List Rat) : Nat := (firstBelowFrom lim xs).getD 0

/-- `np.tile(xs[0:k], r + 1)[0:n]` -/
def tileTo (xs : List Rat) (k n : Nat) : List Rat := (List.range n).map (fun j => xs.getD (j % k) 0)

/-- redrilling: produced-temperature series after tiling, and the number of redrillings -/
def redrill (xs : List Rat) (dd : Rat) : List Rat × Nat :=
  let lim := (1 - dd) * xs.headD 0
  let k := firstBelow lim xs
  if 0 < k then (tileTo xs k xs.length, xs.length / k) else (xs, 0)

end GeoVerif
