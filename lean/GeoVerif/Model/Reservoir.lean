namespace GeoVerif

/-- temperature at depth z below the top of a stack of layers (gradient, thickness); the last layer is unbounded -/
def tempAt (t0 : Rat) : List (Rat × Rat) → Rat → Rat
  | [], _ => t0
  | [(g, _)], z => t0 + g * z
  | (g, th) :: l :: rest, z =>
    if z ≤ th then t0 + g * z else tempAt (t0 + g * th) (l :: rest) (z - th)

/-- depth at which `tmax` is reached -/
def maxDepth (t0 tmax : Rat) : List (Rat × Rat) → Rat
  | [] => 0
  | [(g, _)] => (tmax - t0) / g
  | (g, th) :: l :: rest =>
    if tmax < t0 + g * th then (tmax - t0) / g else th + maxDepth (t0 + g * th) tmax (l :: rest)

def trock (t0 tmax depth : Rat) (layers : List (Rat × Rat)) : Rat :=
  tempAt t0 layers (min depth (maxDepth t0 tmax layers))

end GeoVerif
