import GeoVerif.Model.CashFlow
/-! Add-on economics (`EconomicsAddOns.Calculate`): totals of the add-on slots enter additively (no Mathlib imports). -/
namespace GeoVerif

structure AddOn where
  capex : Rat
  opex : Rat
  elecGain : Rat      -- kWh / year
  heatGain : Rat      -- kWh / year
  profit : Rat        -- MUSD / year

/-- the yearly energy series after the add-on gain has been added to every year -/
def addGain (g : Rat) (series : List Rat) : List Rat := series.map (fun x => x + g)

def adjustedCapex (ccap : Rat) (a : AddOn) : Rat := ccap + a.capex
def adjustedOpex (coam : Rat) (a : AddOn) : Rat := coam + a.opex

/-- add-on revenue of one operating year (MUSD) -/
def addOnRevenue (a : AddOn) (pe ph : Rat) : Rat :=
  a.elecGain * pe / 1000000 + a.heatGain * ph / 1000000 + a.profit - a.opex

/-- project cash flow of one operating year including the add-on: add-on revenue + project energy revenue − O&M -/
def projectCashWithAddOn (a : AddOn) (pe ph projE projH coam : Rat) : Rat :=
  addOnRevenue a pe ph + (projE * pe + projH * ph) / 1000000 - coam

def zeroAddOn : AddOn := ⟨0, 0, 0, 0, 0⟩

end GeoVerif
