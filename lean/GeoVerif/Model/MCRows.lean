import GeoVerif.Model.Stats
import GeoVerif.Model.InputFile
/-!
# Monte-Carlo result rows (C14)

`work_package` builds one text row per iteration from the case report: for each requested output, the report line
containing `"  <output>: "` is looked up — **an output matching no line or more than one line is skipped** — the number
after the colon is taken, and the sampled inputs are appended as `(name:value;…)`.  `main` later parses the rows back and
computes column statistics.  Lines are lists of characters; import-free apart from the statistics model.
-/
namespace GeoVerif.MC

abbrev Line := List Char

def isInfixOf (pat : Line) : Line → Bool
  | [] => pat.isEmpty
  | c :: cs => pat.isPrefixOf (c :: cs) || isInfixOf pat cs

/-- `f'  {output}: ' in line` -/
def matchesOutput (out : Line) (line : Line) : Bool := isInfixOf (' ' :: ' ' :: out ++ [':', ' ']) line

/-- `get_output`: the unique matching line, `none` when there are 0 or ≥ 2 matches -/
def getOutput (out : Line) (report : List Line) : Option Line :=
  match report.filter (matchesOutput out) with
  | [l] => some l
  | _ => none

def dropWhileSp (l : Line) : Line := l.dropWhile (· == ' ')

/-- `line.split(':')[1].strip().split(' ')[0].strip()` for a line with at least one colon (blank = space only here) -/
def extractValue (line : Line) : Line :=
  let afterColon := (line.dropWhile (· != ':')).drop 1
  let field := afterColon.takeWhile (· != ':')
  (dropWhileSp field).takeWhile (· != ' ')

/-- the output part of a row: one value per requested output **that was found** -/
def rowValues (outs : List Line) (report : List Line) : List Line :=
  outs.filterMap (fun o => (getOutput o report).map extractValue)

/-- what the row *should* hold: one cell per header column -/
def rowCells (outs : List Line) (report : List Line) : List (Option Line) :=
  outs.map (fun o => (getOutput o report).map extractValue)

/-! ## the shared result file -/

/-- rows appended atomically in completion order `order` (indices into the per-task outcomes) -/
def fileRows {ρ : Type} (outcomes : List (Option ρ)) (order : List Nat) : List ρ :=
  order.filterMap (fun i => (outcomes[i]?).join)

/-! ## the row as text, and `main`'s reading of it -/

/-- `"v1, v2, …, vn, "`: every found value followed by a comma and a blank (as `work_package` appends them) -/
def rowHead : List (List Char) → List Char
  | [] => []
  | v :: vs => v ++ ',' :: ' ' :: rowHead vs

/-- the row text: the values, then the sampled inputs in parentheses -/
def formatRow (vals : List (List Char)) (tail : List Char) : List Char := rowHead vals ++ '(' :: (tail ++ [')'])

/-- `line.partition(', (')[0]` -/
def beforeParen : List Char → List Char
  | [] => []
  | c :: cs => if [',', ' ', '('].isPrefixOf (c :: cs) then [] else c :: beforeParen cs

/-- `main`'s reading of a row: text before `", ("`, parentheses deleted, split on commas, each cell stripped (what `float()` tolerates) -/
def parseRowCells (row : List Char) : List (List Char) :=
  (splitComma ((beforeParen row).filter (fun c => c != '(' && c != ')'))).map strip


/-! ## the shared file as characters: appended rows vs rows written at a remembered position -/

/-- `O_APPEND` (mode `'a'`): the operating system puts the whole buffer at the *current* end of the file, whoever else wrote in between -/
def appendWrite (file row : List Char) : List Char := file ++ row

/-- a positioned write (mode `'r+'` after reading to the end): the buffer goes where the end of the file WAS when this worker looked -/
def writeAt (file : List Char) (pos : Nat) (row : List Char) : List Char := file.take pos ++ row ++ file.drop (pos + row.length)

end GeoVerif.MC
