namespace GeoVerif

/-- decimal digits, least significant first; `digitsRev 0 = []` -/
def digitsRev (n : Nat) : List Nat :=
  if h : n = 0 then [] else (n % 10) :: digitsRev (n / 10)
termination_by n
decreasing_by omega

def ofDigitsRev : List Nat → Nat
  | [] => 0
  | d :: ds => d + 10 * ofDigitsRev ds

/-- Python `'{:.{d}f}'` applied to the already rounded scaled integer `k = round(|x|·10^d)`:
    integer part (most significant first, at least one digit) and exactly `d` fraction digits -/
def fixedDigits (d k : Nat) : List Nat × List Nat :=
  let ds := digitsRev k
  let padded := ds ++ List.replicate (d + 1 - ds.length) 0
  ((padded.drop d).reverse, (padded.take d).reverse)

def digitChar (n : Nat) : Char := Char.ofNat (48 + n)
def charDigit (c : Char) : Nat := c.toNat - 48

def renderFixed (neg : Bool) (d k : Nat) : List Char :=
  let (ip, fp) := fixedDigits d k
  (if neg then ['-'] else []) ++ ip.map digitChar ++ (if d = 0 then [] else '.' :: fp.map digitChar)

/-- value of a most-significant-first digit list -/
def ofDigitsMsd (l : List Nat) : Nat := ofDigitsRev l.reverse

end GeoVerif
