/-! Well cost correlations and drilled lengths (no imports).  The coefficient table itself is generated from the
repository (`GeoVerif/Generated/WellCost.lean`). -/
namespace GeoVerif

/-- one member of `WellDrillingCostCorrelation`: cost($) = c2·m² + c1·m + c0 -/
structure WellCorr where
  id : Nat
  c2 : Rat
  c1 : Rat
  c0 : Rat
  deriving DecidableEq, Repr

/-- `calculate_cost_MUSD` -/
def WellCorr.cost (c : WellCorr) (m : Rat) : Rat := (c.c2 * m ^ 2 + c.c1 * m + c.c0) / 1000000

/-- `calculate_cost_of_one_vertical_well`: below 500 m (or with the SIMPLE correlation) the per-metre cost applies;
the adjustment factor multiplies the result -/
def oneWellCost (c : WellCorr) (isSimple : Bool) (depthM perM adj : Rat) : Rat :=
  adj * (if isSimple || decide (depthM < 500) then perM * depthM / 1000000 else c.cost depthM)

/-- `calculate_cost_of_non_vertical_section` -/
def lateralCost (vertical : Bool) (c : WellCorr) (isSimple perMProvided : Bool) (lengthM : Rat) (nsec : Nat)
    (perM : Rat) (cased : Bool) (adj : Rat) : Rat :=
  if vertical then 0 else
    let per := lengthM / (nsec : Rat)
    let cf : Rat := if cased then 1 else 1 / 2
    adj * (if perMProvided || isSimple || decide (per < 500)
           then cf * ((nsec : Rat) * perM * per) / 1000000
           else cf * (nsec : Rat) * c.cost per)

inductive WellConfig | uloop | coaxial | vertical | l
  deriving DecidableEq, Repr

/-- `calculate_total_drilling_lengths_m` for the four rational configurations: (total, vertical, lateral) in metres -/
def drillLengths (cfg : WellConfig) (nsec : Nat) (nonvertKm inKm outKm : Rat) (nprod ninj : Nat) : Rat × Rat × Rat :=
  let vert : Rat := match cfg with
    | .uloop => (nprod : Rat) * inKm * 1000 + (ninj : Rat) * outKm * 1000
    | _ => ((nprod : Rat) + (ninj : Rat)) * inKm * 1000
  let lat : Rat := match cfg with
    | .vertical => 0
    | _ => (nsec : Rat) * nonvertKm * 1000
  (vert + lat, vert, lat)

end GeoVerif
