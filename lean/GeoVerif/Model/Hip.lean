/-! Heat-in-place assessment `HIP_RA_X.Calculate` (volumetric method), no imports.  CoolProp values (net enthalpy / entropy of
the fluid between reservoir and rejection temperature), the utilisation-efficiency interpolation and a derived fluid
density / heat capacity are inputs: none of them depends on area or thickness. -/
namespace GeoVerif

structure HipIn where
  area : Rat           -- km²
  thickness : Rat      -- km
  porosity : Rat       -- %
  rf : Rat             -- recoverable fluid factor
  rockDensity : Rat    -- kg/km³
  fluidDensity : Rat   -- kg/km³
  rockHeatCap : Rat    -- kJ/km³/°C
  rr : Rat             -- recoverable heat from rock (fraction)
  tRes : Rat           -- °C
  tRej : Rat           -- °C
  tRejK : Rat          -- K (as the code converts it)
  dTK : Rat            -- reservoir − rejection temperature in K (as the code forms it)
  life : Rat           -- years
  hNet : Rat           -- kJ/kg
  sNet : Rat           -- kJ/kg/K
  utilEff : Rat

structure HipOut where
  volume : Rat
  volRock : Rat
  volFluid : Rat
  massRock : Rat
  massFluid0 : Rat        -- porosity-based recoverable fluid mass (enters reservoir mass and stored fluid heat)
  massReservoir : Rat
  massFluid : Rat         -- reported: amount of fluid produced = stored heat / net enthalpy
  enthalpyRock : Rat
  enthalpyFluid : Rat
  enthalpyReservoir : Rat
  storedRock : Rat
  storedFluid : Rat
  stored : Rat
  available : Rat
  producible : Rat
  recoveryFactor : Rat
  electricityMW : Rat
  elecPerArea : Rat
  elecPerVolume : Rat
  heatPerArea : Rat
  heatPerVolume : Rat
  deriving DecidableEq, Repr

/-- `RecoverableHeat`: 0.43 up to 90 °C, 0.66 from 150 °C, linear in between -/
def recoverableHeat (t : Rat) : Rat :=
  if t ≤ 90 then 43 / 100 else if 150 ≤ t then 66 / 100 else 38 / 10000 * t + 85 / 1000

def hip (i : HipIn) : HipOut :=
  let volume := i.area * i.thickness
  let volRock := volume * (1 - i.porosity / 100)
  let volFluid := volume * (i.porosity / 100) * i.rf
  let massRock := volRock * i.rockDensity
  let massFluid0 := volFluid * i.fluidDensity
  let enthalpyRock := i.rockHeatCap * i.dTK * volRock / massRock
  let storedRock := i.rr * enthalpyRock * massRock
  let storedFluid := i.hNet * massFluid0
  let stored := storedRock + storedFluid
  let amountFluid := stored / i.hNet
  let exergy := i.hNet - i.tRejK * i.sNet
  let available := amountFluid * exergy
  let producible := available * recoverableHeat i.tRes
  let maxPowerKW := available / (i.life * 365 * 24 * 3600)
  let elecMW := i.utilEff * maxPowerKW / 1000
  { volume, volRock, volFluid, massRock, massFluid0, massReservoir := massRock + massFluid0, massFluid := amountFluid,
    enthalpyRock, enthalpyFluid := exergy, enthalpyReservoir := enthalpyRock + exergy, storedRock, storedFluid, stored,
    available, producible, recoveryFactor := producible / stored, electricityMW := elecMW,
    elecPerArea := elecMW / i.area, elecPerVolume := elecMW / volume, heatPerArea := producible / i.area,
    heatPerVolume := producible / volume }

/-- multiply every extensive result by `k`, leave intensive ones; `ka` scales the per-area figures (1 for an area
scaling, `k` for a thickness scaling) -/
def HipOut.scale (k ka : Rat) (o : HipOut) : HipOut :=
  { o with volume := k * o.volume, volRock := k * o.volRock, volFluid := k * o.volFluid, massRock := k * o.massRock,
           massFluid0 := k * o.massFluid0, massReservoir := k * o.massReservoir, massFluid := k * o.massFluid,
           storedRock := k * o.storedRock, storedFluid := k * o.storedFluid, stored := k * o.stored,
           available := k * o.available, producible := k * o.producible, electricityMW := k * o.electricityMW,
           elecPerArea := ka * o.elecPerArea, heatPerArea := ka * o.heatPerArea }

end GeoVerif
