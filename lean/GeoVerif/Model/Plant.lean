import GeoVerif.Model.Series
import GeoVerif.Model.CashFlow
/-! Surface-plant energy bookkeeping (no Mathlib imports): per-time-step splits, yearly integration, remaining heat. -/
namespace GeoVerif

/-- heat extracted from the geofluid [MWth]: wells × flow × cp × (T_prod − T_inj) / 1e6 -/
def heatExtractedAt (nprod : Nat) (flow cp tinj tprod : Rat) : Rat :=
  (nprod : Rat) * flow * cp * (tprod - tinj) / 1000000

inductive Cycle | elecOnly | topping | bottoming | parallel
  deriving DecidableEq, Repr

/-- useful direct-use heat of a cogeneration cycle [MWth] (`electricity_heat_production`) -/
def cogenHeatProducedAt (c : Cycle) (eff : Rat) (nprod : Nat) (flow cp tinj tprod reinj tbottom chp : Rat) : Rat :=
  match c with
  | .elecOnly => 0
  | .topping => eff * (nprod : Rat) * flow * cp * (reinj - tinj) / 1000000
  | .bottoming => eff * (nprod : Rat) * flow * cp * (tprod - tbottom) / 1000000
  | .parallel => eff * chp * (nprod : Rat) * flow * cp * (tprod - tinj) / 1000000

/-- heat extracted towards electricity generation [MWth] -/
def heatToElecAt (c : Cycle) (nprod : Nat) (flow cp tinj tprod reinj tbottom chp : Rat) : Rat :=
  match c with
  | .elecOnly => heatExtractedAt nprod flow cp tinj tprod
  | .topping => (nprod : Rat) * flow * cp * (tprod - reinj) / 1000000
  | .bottoming => (nprod : Rat) * flow * cp * (tbottom - tinj) / 1000000
  | .parallel => (1 - chp) * (nprod : Rat) * flow * cp * (tprod - tinj) / 1000000

def industrialHeat (ext eff : Rat) : Rat := ext * eff
def heatPumpHeat (ext cop eff : Rat) : Rat := ext * cop / (cop - 1) * eff
def heatPumpElectricity (ext cop : Rat) : Rat := ext / (cop - 1)
def chillerCooling (ext cop eff : Rat) : Rat := ext * cop * eff
def netElectricity (gross pump : Rat) : Rat := gross - pump

/-- district heating, one day: geothermal supply = min(demand, what the wells deliver), peaking boiler covers the rest -/
def dhGeothermal (demandMW outputMW : Rat) : Rat := if outputMW < demandMW then outputMW else demandMW
def dhPeaking (demandMW outputMW : Rat) : Rat := if outputMW < demandMW then demandMW - outputMW else 0

/-- `np.interp(t, k/n, fp)` for sample points `0, 1/n, 2/n, …`; beyond the last point the last value -/
def interpAt (n : Nat) (fp : List Rat) (t : Rat) : Rat :=
  let x := t * (n : Rat)
  let k := x.floor.toNat
  if k + 1 < fp.length then fp.getD k 0 + (x - (k : Rat)) * (fp.getD (k + 1) 0 - fp.getD k 0)
  else fp.getLastD 0

/-- number of samples in the slice `series[i·n : (i+1)·n + 1]` -/
def sliceLen (len i n : Nat) : Nat := min (n + 1) (len - i * n)

def trapSum (f : Nat → Rat) (start m : Nat) : Rat :=
  sumL ((List.range m).map (fun j => (f (start + j) + f (start + j + 1)) / 2))

/-- `integrate_time_series_slice`: trapezoid over one year's slice, stretched to 8760 h, × 1000 × utilisation.
A one-sample slice is extended by linear extrapolation (only when `start − 1 > 0`). -/
def integrateF (f : Nat → Rat) (len i n : Nat) (util : Rat) : Rat :=
  let start := i * n
  let m := sliceLen len i n
  if m = 1 then
    let x0 := f start
    let x1 := if 1 < start then x0 + (f start - f (start - 1)) else x0
    8760 * ((x0 + x1) / 2) * 1000 * util
  else
    8760 / ((m - 1 : Nat) : Rat) * trapSum f start (m - 1) * 1000 * util

def integrateSlice (series : List Rat) (i n : Nat) (util : Rat) : Rat :=
  integrateF (fun k => series.getD k 0) series.length i n util

/-- yearly figures for years `0 … L-1` with one utilisation factor per year -/
def annual (series : List Rat) (L n : Nat) (util : Nat → Rat) : List Rat :=
  (List.range L).map (fun i => integrateSlice series i n (util i))

/-- remaining reservoir heat content [PJ] from yearly extracted heat [kWh] -/
def remaining (init : Rat) (extractedKWh : List Rat) : List Rat :=
  (cumsum extractedKWh).map (fun c => init - c * 3600 * 1000 / 1000000000000000)

end GeoVerif
