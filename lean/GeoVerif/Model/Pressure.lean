namespace GeoVerif

/-- ReservoirPressurePredictor for `pct ≠ 100`: `P0 = p0*pct/100`, `steps = int(100/rate*n)`, fill with `p0`,
    then overwrite while above `p0`; at the first value below `p0` write `p0` and `break`. -/
def pressLoop (p0 P0 dlt : Rat) : Nat → Nat → Bool → List Rat
  | 0, _, _ => []
  | k+1, t, stopped =>
    if stopped then p0 :: pressLoop p0 P0 dlt k (t+1) true
    else
      let v := P0 - dlt * (t : Rat)
      if v < p0 then p0 :: pressLoop p0 P0 dlt k (t+1) true
      else v :: pressLoop p0 P0 dlt k (t+1) false

def resPressure (L n : Nat) (p0 pct rate : Rat) : List Rat :=
  if pct = 100 then List.replicate (L * n) p0
  else
    let P0 := p0 * (pct / 100)
    let steps : Int := ((100 / rate) * (n : Rat)).floor   -- int(): truncation = floor for positive values
    let dlt := (P0 - p0) / (steps : Rat)
    match L * n with
    | 0 => []
    | m+1 => P0 :: pressLoop p0 P0 dlt m 1 false

end GeoVerif

namespace GeoVerif

/-- `InjectionReservoirPressurePredictor`: initial pressure + (rate / n) · t; constant when the rate is 0 -/
def injPressure (L n : Nat) (p0 rate : Rat) : List Rat :=
  if rate = 0 then List.replicate (L * n) p0
  else (List.range (L * n)).map (fun (t : Nat) => if t = 0 then p0 else p0 + rate / (n : Rat) * (t : Rat))

/-- negative pumping power becomes zero -/
def clamp0 (x : Rat) : Rat := if x < 0 then 0 else x

/-- pumping power of one well side from its pressure drop: clamp (ΔP · coefficient) -/
def pumpSide (dp : List Rat) (coef : Rat) : List Rat := dp.map (fun d => clamp0 (d * coef))

/-- total pumping power under the productivity/injectivity-index model -/
def pumpTotal (productionPumped : Bool) (inj prod : List Rat) : List Rat :=
  (List.range inj.length).map (fun t =>
    clamp0 (if productionPumped then inj.getD t 0 + prod.getD t 0 else inj.getD t 0))

end GeoVerif
