/-!
# Monte-Carlo scheduling model (C13)

`MC_GeoPHIRES3.main` submits `ITERATIONS` identical tasks to a process pool; each task (`work_package`) draws its inputs
from numpy's *global* generator of the worker process it happens to run in, simulates, and appends one row.

A worker's generator is abstracted as `(seed, pos)`: which stream it is on and how many numbers it has consumed.
A schedule is the list of worker indices in the order tasks are started (any assignment, any interleaving: tasks of one
worker are sequential in that worker, which is all the model needs).  Import-free.
-/
namespace GeoVerif.MC

structure Worker where
  seed : Nat
  pos  : Nat
  deriving DecidableEq, Repr

/-- the stream positions one iteration consumed -/
structure Sample where
  seed  : Nat
  start : Nat
  len   : Nat
  deriving DecidableEq, Repr

/-- worker `w` runs one task that draws `d` numbers -/
def runTask (d : Nat) (pool : List Worker) (w : Nat) : List Worker × Option Sample :=
  match pool[w]? with
  | none => (pool, none)
  | some wk => (pool.set w { wk with pos := wk.pos + d }, some ⟨wk.seed, wk.pos, d⟩)

def runSchedule (d : Nat) : List Worker → List Nat → List Sample
  | _, [] => []
  | pool, w :: ws =>
    match runTask d pool w with
    | (pool', some s) => s :: runSchedule d pool' ws
    | (pool', none)   => runSchedule d pool' ws

/-- pool created by fork *without* re-seeding: every worker is a copy of the parent's generator (pinned tree, F3) -/
def poolInherited (parent : Worker) (n : Nat) : List Worker := List.replicate n parent

/-- pool whose initializer re-seeds each worker: worker `i` gets seed `seeds[i]`, position 0 -/
def poolReseeded (seeds : List Nat) : List Worker := seeds.map (fun s => ⟨s, 0⟩)

/-- the numbers a sample consists of, for a generator `stream seed position` -/
def Sample.values {α : Type} (stream : Nat → Nat → α) (s : Sample) : List α :=
  (List.range s.len).map (fun i => stream s.seed (s.start + i))

/-! ## result file: one row per successful task, appended atomically -/

/-- a task either produces its row or fails (the simulation raised: nothing is appended) -/
abbrev Outcome (ρ : Type) := Option ρ

/-- file content after the tasks completed in the given order -/
def resultRows {ρ : Type} (completed : List (Outcome ρ)) : List ρ := completed.filterMap id

/-! ## sampling transforms (inverse-CDF form, `u ∈ [0,1)`) -/

def uniformOf (a b u : Rat) : Rat := a + (b - a) * u

/-- binomial(n, p) as a count of successes among n Bernoulli trials -/
def binomialOf (trials : List Bool) : Nat := (trials.filter id).length

end GeoVerif.MC
