/-! Exact transcription of BuildPricingModel / BuildPTCModel (no imports). -/
namespace GeoVerif

/-- `Price[i]` of BuildPricingModel, before the PTC addition -/
def basePrice (p0 p1 : Rat) (s : Nat) (r : Rat) (i : Nat) : Rat :=
  let p := if s ≤ i then p0 + ((i - s : Nat) : Rat) * r else p0
  if p1 < p then p1 else p

def pricing (L : Nat) (p0 p1 : Rat) (s : Nat) (r : Rat) (ptc : List Rat) : List Rat :=
  (List.range L).map (fun i => basePrice p0 p1 s r i + ptc.getD i 0)

/-- BuildPTCModel: the loop carries `Price[year-1]` -/
def ptcFrom (v infl : Rat) (adj : Bool) : Nat → Rat → Nat → List Rat
  | 0, _, _ => []
  | n+1, prev, year =>
    let x := if adj && year > 0 then prev * (1 + infl) else v
    x :: ptcFrom v infl adj n x (year + 1)

def ptcModel (L dur : Nat) (v : Rat) (adj : Bool) (infl : Rat) : List Rat :=
  ptcFrom v infl adj dur 0 0 ++ List.replicate (L - dur) 0

end GeoVerif

namespace GeoVerif

/-- `for i in range(cy): Price.insert(0, 0.0)` -/
def padFront : Nat → List Rat → List Rat
  | 0, xs => xs
  | n+1, xs => padFront n (0 :: xs)

/-- investment tax credit, then one-time fees, incentives and grants (Economics.py, after the CCap roll-up) -/
def capexAdjust (ccap ritc : Rat) (ritcProvided : Bool) (fees incentives grants : Rat) : Rat :=
  let c := if ritcProvided then ccap - ritc * ccap else ccap
  c + fees - incentives - grants

/-- annual fees and tax relief on total O&M -/
def opexAdjust (coam annualFees taxRelief : Rat) : Rat := coam + annualFees - taxRelief

end GeoVerif
