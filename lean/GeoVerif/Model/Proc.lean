namespace GeoVerif

structure Proc where
  cwd   : String
  argv  : List String
  cache : List ((String × String) × String)   -- ((path, content), report); pinned client ignores the content part
  files : List (String × String)              -- path ↦ content, first match wins
deriving Repr

inductive Op
  | request (path : String) (caching : Bool)
  | rewrite (path content : String)
  | chdir (dir : String)
deriving Repr

inductive Out
  | report (r : String)
  | failed
  | none
deriving DecidableEq, Repr

def pkgDir : String := "/site-packages/geophires_x"

def readFile (p : Proc) (path : String) : String := ((p.files.find? (·.1 == path)).map (·.2)).getD ""

def cacheGet (c : List ((String × String) × String)) (k : String × String) : Option String :=
  (c.find? (·.1 == k)).map (·.2)

/-- the repaired client: key = (path, content), restore in `finally` -/
def stepFixed (sim : String → Option String) (p : Proc) : Op → Proc × Out
  | .rewrite path content => ({ p with files := (path, content) :: p.files }, .none)
  | .chdir d => ({ p with cwd := d }, .none)
  | .request path caching =>
    let content := readFile p path
    match (if caching then cacheGet p.cache (path, content) else none) with
    | some r => (p, .report r)
    | none =>
      -- main() runs with cwd = pkgDir and argv rewritten; both are restored in `finally`
      match sim content with
      | some r => ({ p with cache := if caching then ((path, content), r) :: p.cache else p.cache }, .report r)
      | none => (p, .failed)

/-- the pinned client: key = path only, no restore on the failure path -/
def stepPinned (sim : String → Option String) (p : Proc) : Op → Proc × Out
  | .rewrite path content => ({ p with files := (path, content) :: p.files }, .none)
  | .chdir d => ({ p with cwd := d }, .none)
  | .request path caching =>
    let content := readFile p path
    match (if caching then cacheGet p.cache (path, "") else none) with
    | some r => (p, .report r)
    | none =>
      match sim content with
      | some r => ({ p with cache := if caching then ((path, ""), r) :: p.cache else p.cache }, .report r)
      | none => ({ p with cwd := pkgDir, argv := ["", path, "out"] }, .failed)

def run (step : Proc → Op → Proc × Out) : Proc → List Op → Proc × List Out
  | p, [] => (p, [])
  | p, op :: ops =>
    let (p', o) := step p op
    let (p'', os) := run step p' ops
    (p'', o :: os)

end GeoVerif

namespace GeoVerif

/-- the abstract specification: a process is its working directory and its files; a request is answered by simulating
the *current* content of the file — no cache, no argv, no history -/
structure SpecProc where
  cwd : String
  files : List (String × String)

def specRead (s : SpecProc) (path : String) : String := ((s.files.find? (·.1 == path)).map (·.2)).getD ""

def specStep (sim : String → Option String) (s : SpecProc) : Op → SpecProc × Out
  | .rewrite path content => ({ s with files := (path, content) :: s.files }, .none)
  | .chdir d => ({ s with cwd := d }, .none)
  | .request path _ => (s, match sim (specRead s path) with | some r => .report r | none => .failed)

def specRun (sim : String → Option String) : SpecProc → List Op → SpecProc × List Out
  | s, [] => (s, [])
  | s, op :: ops =>
    let (s', o) := specStep sim s op
    let (s'', os) := specRun sim s' ops
    (s'', o :: os)

def Proc.abs (p : Proc) : SpecProc := ⟨p.cwd, p.files⟩

/-- memoisation (`functools.lru_cache`): look the argument up in a table, otherwise compute and remember -/
def memo (f : String → String) (tbl : List (String × String)) (x : String) : String × List (String × String) :=
  match tbl.find? (·.1 == x) with
  | some e => (e.2, tbl)
  | none => (f x, (x, f x) :: tbl)

end GeoVerif
