namespace GeoVerif

structure Proc where
  cwd   : String
  argv  : List String
  cache : List ((String × String) × String)   -- ((path, content), report); pinned client ignores the content part
  files : List (String × String)              -- path ↦ content, first match wins
deriving Repr

inductive Op
  | request (path : String) (caching : Bool)
  | rewrite (path content : String)
  | chdir (dir : String)
deriving Repr

inductive Out
  | report (r : String)
  | failed
  | none
deriving DecidableEq, Repr

def pkgDir : String := "/site-packages/geophires_x"

def readFile (p : Proc) (path : String) : String := ((p.files.find? (·.1 == path)).map (·.2)).getD ""

def cacheGet (c : List ((String × String) × String)) (k : String × String) : Option String :=
  (c.find? (·.1 == k)).map (·.2)

/-- the repaired client: key = (path, content), restore in `finally` -/
def stepFixed (sim : String → Option String) (p : Proc) : Op → Proc × Out
  | .rewrite path content => ({ p with files := (path, content) :: p.files }, .none)
  | .chdir d => ({ p with cwd := d }, .none)
  | .request path caching =>
    let content := readFile p path
    match (if caching then cacheGet p.cache (path, content) else none) with
    | some r => (p, .report r)
    | none =>
      -- main() runs with cwd = pkgDir and argv rewritten; both are restored in `finally`
      match sim content with
      | some r => ({ p with cache := if caching then ((path, content), r) :: p.cache else p.cache }, .report r)
      | none => (p, .failed)

/-- the pinned client: key = path only, no restore on the failure path -/
def stepPinned (sim : String → Option String) (p : Proc) : Op → Proc × Out
  | .rewrite path content => ({ p with files := (path, content) :: p.files }, .none)
  | .chdir d => ({ p with cwd := d }, .none)
  | .request path caching =>
    let content := readFile p path
    match (if caching then cacheGet p.cache (path, "") else none) with
    | some r => (p, .report r)
    | none =>
      match sim content with
      | some r => ({ p with cache := if caching then ((path, ""), r) :: p.cache else p.cache }, .report r)
      | none => ({ p with cwd := pkgDir, argv := ["", path, "out"] }, .failed)

def run (step : Proc → Op → Proc × Out) : Proc → List Op → Proc × List Out
  | p, [] => (p, [])
  | p, op :: ops =>
    let (p', o) := step p op
    let (p'', os) := run step p' ops
    (p'', o :: os)

end GeoVerif
