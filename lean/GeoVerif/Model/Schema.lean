/-! Records of the schema tables (strings interned to ids by the translator), no imports. -/
namespace GeoVerif

structure SEntry where
  name : Nat
  typ : Nat
  units : Option Nat
  dflt : Option Rat
  min : Option Rat
  max : Option Rat
  required : Bool
  canon : Nat          -- id of the canonical JSON text of the whole schema property
  deriving DecidableEq, Repr

def absQ (x : Rat) : Rat := if x < 0 then -x else x

/-- equal up to the generator's documented floating-point repair (`0.30000000000000004 ↦ '0.3'`) -/
def closeQ (a b : Rat) : Bool := decide (absQ (a - b) ≤ (1 / 1000000000) * (if absQ b < 1 then 1 else absQ b))

def closeOpt : Option Rat → Option Rat → Bool
  | none, none => true
  | some a, some b => closeQ a b
  | _, _ => false

/-- does the schema entry state what the module declaration enforces (type, unit, bounds; default when numeric)? -/
def SEntry.matchesDecl (s d : SEntry) : Bool :=
  s.name == d.name && s.typ == d.typ && s.units == d.units && closeOpt s.min d.min && closeOpt s.max d.max &&
    (match d.dflt with | some _ => closeOpt s.dflt d.dflt | none => true)

def lookupEntry (n : Nat) (l : List SEntry) : Option SEntry := l.find? (·.name == n)

/-- strictly increasing (so: sorted, no duplicates) -/
def strictlyIncreasing : List Nat → Bool
  | a :: b :: rest => decide (a < b) && strictlyIncreasing (b :: rest)
  | _ => true

end GeoVerif
