import GeoVerif.Model.Schedules
/-! Capital-cost and O&M roll-ups of `Economics.Calculate` (no Mathlib imports).  Correlations that contain `log`/`pow`
(plant cost, labour, pump cost) enter as observed numbers; everything else is computed here. -/
namespace GeoVerif

/-- a cost component: the user-fixed figure when it is valid, the built-in correlation otherwise -/
structure Comp where
  fixed : Bool
  given : Rat
  corr : Rat

def Comp.value (c : Comp) : Rat := if c.fixed then c.given else c.corr

structure WellField where
  perWellFixed : Bool      -- `Well Drilling and Completion Capital Cost` valid
  cProdGiven : Rat
  cInjProvided : Bool
  cInjGiven : Rat
  cProdCorr : Rat          -- cost of one production well from the correlation (adjustment factor included)
  cInjCorr : Rat
  lateral : Rat            -- cost of the whole (multi-)lateral section
  nprod : Nat
  ninj : Nat

def WellField.cProd (w : WellField) : Rat := if w.perWellFixed then w.cProdGiven else w.cProdCorr
def WellField.cInj (w : WellField) : Rat :=
  if w.perWellFixed then (if w.cInjProvided then w.cInjGiven else w.cProdGiven) else w.cInjCorr

/-- well-field cost: per-well costs × numbers of wells; with correlated costs plus laterals and 5 % indirect costs -/
def WellField.cost (w : WellField) : Rat :=
  if w.perWellFixed then w.cProd * (w.nprod : Rat) + w.cInj * (w.ninj : Rat)
  else 105 / 100 * (w.cProd * (w.nprod : Rat) + w.cInj * (w.ninj : Rat) + w.lateral)

def stimCorr (adj : Rat) (ninj : Nat) : Rat := 105 / 100 * (115 / 100) * adj * (ninj : Rat) * (125 / 100)
def explCorr (adj cProd : Rat) : Rat := 115 / 100 * adj * (112 / 100) * (1 + cProd * (6 / 10))
def gathCorr (adj : Rat) (nprod ninj : Nat) (cpumps : Rat) : Rat :=
  115 / 100 * adj * (112 / 100) * (((nprod : Rat) + (ninj : Rat)) * 750 * 500 + cpumps) / 1000000
/-- direct-use surface plant: 250 $/kW of peak extracted heat, 15 % contingency, 12 % indirect -/
def plantDirectCorr (adj maxHeatMW : Rat) : Rat := 112 / 100 * (115 / 100) * adj * (250 / 1000000) * maxHeatMW * 1000
/-- power plant from the (observed) correlation value -/
def plantPowerCorr (adj corr : Rat) : Rat := 112 / 100 * (115 / 100) * adj * corr * (102 / 100) * (110 / 100)
def pipingCost (lengthKm : Rat) : Rat := 750 / 1000 * lengthKm

/-- district-heating network cost -/
structure DistrictIn where
  isDistrict : Bool
  totalProvided : Bool
  totalGiven : Rat
  pipingLenProvided : Bool
  pipingLen : Rat
  roadLenProvided : Bool
  roadLen : Rat
  rate : Rat               -- piping cost rate $/m
  popProvided : Bool
  population : Rat
  unitsProvided : Bool
  housingUnits : Rat
  landArea : Rat

def districtDensity (d : DistrictIn) : Rat :=
  if d.popProvided then d.population / d.landArea
  else if d.unitsProvided then d.housingUnits * (26 / 10) / d.landArea
  else d.population / d.landArea

def districtPipingLen (d : DistrictIn) : Rat :=
  let dens := districtDensity d
  if 1000 < dens then 75 / 10 * d.landArea
  else max (dens / 1000 * (75 / 10) * d.landArea) d.landArea

def districtCost (d : DistrictIn) : Rat :=
  if !d.isDistrict then 0
  else if d.totalProvided then d.totalGiven
  else if d.pipingLenProvided then d.pipingLen * d.rate / 1000
  else if d.roadLenProvided then d.roadLen * (75 / 100) * d.rate / 1000
  else d.rate * districtPipingLen d / 1000

structure CapexIn where
  totalFixed : Bool
  totalGiven : Rat
  expl : Rat
  well : Rat
  stim : Rat
  gath : Rat
  plant : Rat
  piping : Rat
  district : Rat
  ritcProvided : Bool
  ritc : Rat
  fees : Rat
  incentives : Rat
  grants : Rat

def capexBase (s : CapexIn) : Rat :=
  if s.totalFixed then s.totalGiven
  else s.expl + s.well + s.stim + s.gath + s.plant + s.piping + s.district

/-- total capital cost -/
def capex (s : CapexIn) : Rat := capexAdjust (capexBase s) s.ritc s.ritcProvided s.fees s.incentives s.grants

def itcValue (s : CapexIn) : Rat := if s.ritcProvided then s.ritc * capexBase s else 0

/-! ### O&M -/

def plantOMCorr (adj cplant chillerCapex labor : Rat) : Rat := adj * (15 / 1000 * (cplant - chillerCapex) + 75 / 100 * labor)
def wellOMCorr (adj cwell cgath labor : Rat) : Rat := adj * (1 / 100 * (cwell + cgath) + 25 / 100 * labor)
def waterOMCorr (adj : Rat) (nprod : Nat) (flow loss util : Rat) : Rat :=
  adj * ((nprod : Rat) * flow * loss * util * 365 * 24 * 3600 / 1000000 * 925 / 1000000)
/-- chiller O&M: the user's figure, or 2 % of chiller capital cost when the sentinel −1 was left -/
def chillerOpex (isChiller : Bool) (given chillerCapex : Rat) : Rat :=
  if isChiller then (if given = -1 then chillerCapex * 2 / 100 else given) else 0
def districtOM (isDistrict provided : Bool) (given districtCapex sumDailyDemand rate : Rat) : Rat :=
  if !isDistrict then 0 else if provided then given else 1 / 100 * districtCapex + 2 / 100 * sumDailyDemand * rate / 1000

structure OpexIn where
  totalFixed : Bool
  totalGiven : Rat
  wellOM : Rat
  plantOM : Rat
  waterOM : Rat
  chillerOM : Rat
  districtOM : Rat
  redrill : Nat
  cwell : Rat
  cstim : Rat
  L : Nat
  annualFees : Rat
  taxRelief : Rat

def opexBase (s : OpexIn) : Rat :=
  if s.totalFixed then s.totalGiven else s.wellOM + s.plantOM + s.waterOM + s.chillerOM + s.districtOM

def redrillAmortised (s : OpexIn) : Rat :=
  if 0 < s.redrill then (s.cwell + s.cstim) * (s.redrill : Rat) / (s.L : Rat) else 0

/-- total annual O&M -/
def opex (s : OpexIn) : Rat := opexAdjust (opexBase s + redrillAmortised s) s.annualFees s.taxRelief

end GeoVerif
