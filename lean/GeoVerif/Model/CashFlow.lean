/-! Exact model of the cash-flow bookkeeping (no imports). -/
namespace GeoVerif

/-- running sum, as the code's loop `cum[i] = cum[i-1] + cf[i]` with `cum[0] = cf[0]` -/
def cumsumFrom (acc : Rat) : List Rat → List Rat
  | [] => []
  | x :: xs => (acc + x) :: cumsumFrom (acc + x) xs

def cumsum (cf : List Rat) : List Rat := cumsumFrom 0 cf

/-- Python `xs[i-1]` : index -1 wraps to the last element -/
def pyPrev (xs : List Rat) (i : Nat) : Rat :=
  if i = 0 then xs.getLastD 0 else xs.getD (i - 1) 0

/-- one step of the payback scan at index `i` (keeps the last crossing, like the code) -/
def paybackStep (cum : List Rat) (prevIdx : Nat → Rat) (p : Rat) (i : Nat) : Rat :=
  let c := cum.getD i 0
  let q := prevIdx i
  if 0 < c ∧ q ≤ 0 then (i : Rat) + (-q) / (c + (-q)) else p

/-- the pinned loop: `for i in range(0, len(cum))` -/
def paybackPinned (cum : List Rat) : Rat :=
  (List.range cum.length).foldl (paybackStep cum (pyPrev cum)) 0

/-- the repaired loop: `for i in range(1, len(cum))` -/
def paybackFixed (cum : List Rat) : Rat :=
  ((List.range cum.length).drop 1).foldl (paybackStep cum (fun i => cum.getD (i - 1) 0)) 0

end GeoVerif
