/-! Exact model of the cash-flow bookkeeping (no imports). -/
namespace GeoVerif

/-- running sum, as the code's loop `cum[i] = cum[i-1] + cf[i]` with `cum[0] = cf[0]` -/
def cumsumFrom (acc : Rat) : List Rat → List Rat
  | [] => []
  | x :: xs => (acc + x) :: cumsumFrom (acc + x) xs

def cumsum (cf : List Rat) : List Rat := cumsumFrom 0 cf

/-- Python `xs[i-1]` : index -1 wraps to the last element -/
def pyPrev (xs : List Rat) (i : Nat) : Rat :=
  if i = 0 then xs.getLastD 0 else xs.getD (i - 1) 0

/-- one step of the payback scan at index `i` (keeps the last crossing, like the code) -/
def paybackStep (cum : List Rat) (prevIdx : Nat → Rat) (p : Rat) (i : Nat) : Rat :=
  let c := cum.getD i 0
  let q := prevIdx i
  if 0 < c ∧ q ≤ 0 then (i : Rat) + (-q) / (c + (-q)) else p

/-- the pinned loop: `for i in range(0, len(cum))` -/
def paybackPinned (cum : List Rat) : Rat :=
  (List.range cum.length).foldl (paybackStep cum (pyPrev cum)) 0

/-- the repaired loop: `for i in range(1, len(cum))` -/
def paybackFixed (cum : List Rat) : Rat :=
  ((List.range cum.length).drop 1).foldl (paybackStep cum (fun i => cum.getD (i - 1) 0)) 0

end GeoVerif

namespace GeoVerif

/-- which products an end-use sells (cash-flow view): electricity, heat, cooling -/
inductive Sells | elec | heat | cool | both
  deriving DecidableEq, Repr

structure CashIn where
  cy : Nat                 -- construction years
  L : Nat                  -- plant lifetime
  sells : Sells
  net : List Rat           -- net kWh / year
  heat : List Rat          -- heat kWh / year
  cool : List Rat          -- cooling kWh / year
  pe : List Rat            -- electricity price per operating year ($/kWh)
  ph : List Rat
  pc : List Rat
  pcarbon : List Rat       -- carbon price per operating year ($/lb)
  carbonOn : Bool
  grid : Rat               -- grid CO2 intensity lb/kWh
  ngi : Rat                -- natural-gas CO2 intensity lb/kWh
  ccap : Rat
  coam : Rat

/-- `CalculateRevenue`, operating year `i` (MUSD) -/
def yearRevenue (E P : List Rat) (i : Nat) : Rat := E.getD i 0 * P.getD i 0 / 1000000

/-- energy revenue of operating year `i` for the products the end-use sells -/
def productRevenue (s : CashIn) (i : Nat) : Rat :=
  match s.sells with
  | .elec => yearRevenue s.net s.pe i
  | .heat => yearRevenue s.heat s.ph i
  | .cool => yearRevenue s.cool s.pc i
  | .both => yearRevenue s.net s.pe i + yearRevenue s.heat s.ph i

/-- `CalculateCarbonRevenue`, operating year `i` (MUSD): avoided CO2 × carbon price -/
def carbonRevenue (s : CashIn) (i : Nat) : Rat :=
  let e := match s.sells with | .elec => s.net.getD i 0 | .both => s.net.getD i 0 | _ => 0
  let h := match s.sells with | .elec => 0 | _ => s.heat.getD i 0
  (e * s.grid + h * s.ngi) * s.pcarbon.getD i 0 / 1000000

def operatingCash (s : CashIn) (i : Nat) : Rat :=
  productRevenue s i + (if s.carbonOn then carbonRevenue s i else 0) - s.coam

/-- the project cash-flow series: equal CAPEX shares in the construction years, then revenue − O&M -/
def assemble (s : CashIn) : List Rat :=
  List.replicate s.cy (-1 * (s.ccap / (s.cy : Rat))) ++ (List.range s.L).map (operatingCash s)

/-- `numpy_financial.npv(rate, values)` = Σ values[t] / (1+rate)^t -/
def npvFrom (r : Rat) : Nat → List Rat → Rat
  | _, [] => 0
  | t, x :: xs => x / (1 + r) ^ t + npvFrom r (t + 1) xs

/-- `calculate_npv`: optionally Excel-style (a zero prepended, i.e. every flow discounted one more year) -/
def npv (r : Rat) (cf : List Rat) (discountInitialYear : Bool) : Rat :=
  if discountInitialYear then npvFrom r 0 (0 :: cf) else npvFrom r 0 cf

def vir (npvValue ccap : Rat) : Rat := 1 + npvValue / ccap
def moic (cum : List Rat) (ccap coam : Rat) (L : Nat) : Rat := cum.getLastD 0 / (ccap + coam * (L : Rat))

end GeoVerif
