import GeoVerif.Model.Report
import GeoVerif.Lemmas.C09
import Mathlib.Algebra.Order.Floor.Ring
import Mathlib.Algebra.Order.Field.Rat
import Mathlib.Data.Rat.Floor
import Mathlib.Tactic.Linarith
import Mathlib.Tactic.FieldSimp
import Mathlib.Tactic.Positivity

/-!
# C09 — the case report states what was computed
-/
namespace GeoVerif.C09
open GeoVerif

/-- **rounded to the displayed precision**: the integer the digits denote is within half a unit of the last displayed digit of the
computed magnitude, for every value and every precision -/
theorem round_error (ax : Rat) (h0 : 0 ≤ ax) (d : Nat) :
    |(roundHalfEvenNat ax d : Rat) - ax * (10 : Rat) ^ d| ≤ 1 / 2 := by
  unfold roundHalfEvenNat
  set y := ax * (10 : Rat) ^ d with hy
  have hy0 : 0 ≤ y := by positivity
  have hfl : ((y.floor.toNat : Nat) : Rat) = (y.floor : Rat) := by
    have : 0 ≤ y.floor := Int.floor_nonneg.mpr hy0
    have h := Int.toNat_of_nonneg this
    exact_mod_cast congrArg (fun z : Int => (z : Rat)) h
  have h1 : (y.floor : Rat) ≤ y := Int.floor_le y
  have h2 : y < (y.floor : Rat) + 1 := Int.lt_floor_add_one y
  simp only []
  split_ifs with ha hb hc
  · rw [hfl, abs_le]; constructor <;> linarith
  · push_cast; rw [hfl, abs_le]; constructor <;> linarith
  · rw [hfl, abs_le]; constructor <;> linarith
  · push_cast; rw [hfl, abs_le]; constructor <;> linarith

/-- a value already on the display grid is shown unchanged -/
theorem round_exact (k d : Nat) : roundHalfEvenNat ((k : Rat) / (10 : Rat) ^ d) d = k := by
  unfold roundHalfEvenNat
  have hp : ((10 : Rat) ^ d) ≠ 0 := by positivity
  have hy : (k : Rat) / (10 : Rat) ^ d * (10 : Rat) ^ d = (k : Rat) := by field_simp
  simp only [hy]
  have : ((k : Rat)).floor = (k : Int) := by exact_mod_cast Int.floor_natCast (R := Rat) k
  simp [this]

/-- **the printed digits are that rounded value**: integer part · 10^d + fraction part = round(|x|·10^d), exactly `d` fraction
digits, at least one integer digit — for every magnitude, i.e. also when the number overflows its column -/
theorem printed_digits_value (d : Nat) (x : Rat) :
    let k := roundHalfEvenNat (if x < 0 then -x else x) d
    let (ip, fp) := fixedDigits d k
    ofDigitsMsd ip * 10 ^ d + ofDigitsMsd fp = k ∧ fp.length = d ∧ 1 ≤ ip.length :=
  fixedDigits_value d _

/-- kernel-evaluated rendering examples (ties go to the even digit; sign kept; no fraction point at 0 decimals) -/
theorem fmt_examples :
    fmtF 2 (1 / 8) = "0.12".toList ∧ fmtF 2 (3 / 8) = "0.38".toList ∧ fmtF 1 (-5 / 4) = "-1.2".toList
    ∧ fmtF 0 (5 / 2) = "2".toList ∧ fmtF 0 (7 / 2) = "4".toList ∧ fmtF 2 12345678 = "12345678.00".toList
    ∧ fmtF 2 (-1 / 1000) = "-0.00".toList := by decide +kernel

/-! ## profile tables: exactly one row per simulated (and construction) year, in order -/

theorem profile_rows (first L n : Nat) (s : List Rat) :
    (profileRows first L n s).length = L ∧ ∀ i (h : i < L), (profileRows first L n s)[i]'(by simp [profileRows]; exact h) = (first + i, s.getD (i * n) 0) := by
  constructor
  · simp [profileRows]
  · intro i h; simp [profileRows]

/-- the stride never leaves the series when it holds `L·n` points -/
theorem stride_in_bounds (L n : Nat) (s : List Rat) (hlen : s.length = L * n) (hn : 0 < n) : ∀ i < L, i * n < s.length := by
  intro i hi
  rw [hlen]
  exact Nat.mul_lt_mul_of_pos_right hi hn

/-- so every profile row shows an actual point of the series (never the out-of-range default) -/
theorem profile_rows_from_series (first L n : Nat) (s : List Rat) (hlen : s.length = L * n) (hn : 0 < n) (i : Nat) (hi : i < L) :
    (profileRows first L n s)[i]'(by simp [profileRows]; exact hi) = (first + i, s[i * n]'(stride_in_bounds L n s hlen hn i hi)) := by
  rw [(profile_rows first L n s).2 i hi]
  simp [List.getD_eq_getElem?_getD, List.getElem?_eq_getElem (stride_in_bounds L n s hlen hn i hi)]

theorem profile_years_ascending (first L n : Nat) (s : List Rat) : (profileRows first L n s).map (·.1) = (List.range L).map (first + ·) := by
  simp [profileRows, List.map_map, Function.comp_def]

theorem cashflow_rows (cy L : Nat) (s : List Rat) :
    (cashflowRows cy L s).length = cy + L ∧ (cashflowRows cy L s).map (·.1) = List.range (cy + L) := by
  simp [cashflowRows, List.map_map, Function.comp_def]

/-- aggregates are what their names say (the max is attained and dominates; the mean times the count is the sum) -/
theorem maxQ_ge (xs : List Rat) : ∀ x ∈ xs, x ≤ maxQ xs := by
  induction xs with
  | nil => intro x hx; simp at hx
  | cons a as ih =>
    intro x hx
    cases as with
    | nil => simp at hx; simp [maxQ, hx]
    | cons b bs =>
      simp only [maxQ]
      rcases List.mem_cons.mp hx with h | h
      · subst h; split <;> [exact le_refl _; (rename_i hlt; exact le_of_lt (not_le.mp hlt))]
      · have := ih x h
        split
        · rename_i hge; exact le_trans this hge
        · exact this

theorem minQ_le (xs : List Rat) : ∀ x ∈ xs, minQ xs ≤ x := by
  induction xs with
  | nil => intro x hx; simp at hx
  | cons a as ih =>
    intro x hx
    cases as with
    | nil => simp at hx; simp [minQ, hx]
    | cons b bs =>
      simp only [minQ]
      rcases List.mem_cons.mp hx with h | h
      · subst h; split <;> [exact le_refl _; (rename_i hlt; exact le_of_lt (not_le.mp hlt))]
      · have := ih x h
        split
        · rename_i hle; exact le_trans hle this
        · exact this

/-- kernel-evaluated `.4g` examples (the geothermal-gradient lines): trailing zeros and a dangling point are dropped, four significant
digits are kept, a carry into the next decade is handled, values Python prints in scientific notation are declined -/
theorem fmtG_examples :
    fmtG 4 50 = some "50".toList ∧ fmtG 4 (367 / 10) = some "36.7".toList ∧ fmtG 4 (123456 / 1000) = some "123.5".toList
    ∧ fmtG 4 (5 / 100) = some "0.05".toList ∧ fmtG 4 (99996 / 100000) = some "1".toList ∧ fmtG 4 (-3 / 2) = some "-1.5".toList
    ∧ fmtG 4 99999 = none ∧ fmtG 4 (1 / 100000) = none := by decide +kernel

end GeoVerif.C09
