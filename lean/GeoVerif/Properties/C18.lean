import GeoVerif.Lemmas.C18
import GeoVerif.Lemmas.Ramey
import GeoVerif.Generated.WellCost
/-!
# C18 — Outputs respond monotonically where the model says they must

All clauses are statements `∀ x ≤ y` (other arguments fixed) over models introduced for C01/C03/C04/C05, plus the Ramey
model (generic definition, reasoned about at ℝ, executed at Float).  The models are tied to the code by the
C01/C03/C04/C05 correspondences and by ordered pairs of real runs in the C18 check.
-/
namespace GeoVerif.C18
open GeoVerif

/-- bottom-hole temperature does not decrease when the depth increases … -/
theorem trock_mono_depth (l : List (Rat × Rat)) (hl : PosLayers l) (t0 tmax d d' : Rat) (hd : d ≤ d') :
    trock t0 tmax d l ≤ trock t0 tmax d' l := GeoVerif.trock_mono_depth l hl t0 tmax d d' hd

/-- … nor when a gradient increases (thicknesses fixed; the Tmax cap included) -/
theorem trock_mono_gradient (l l' : List (Rat × Rat)) (hg : GradLE l l') (hne : l ≠ []) (hl : PosLayers l)
    (t0 tmax depth : Rat) (h : t0 ≤ tmax) (hd : 0 ≤ depth) :
    trock t0 tmax depth l ≤ trock t0 tmax depth l' := trock_mono_grad l l' hg hne hl t0 tmax depth h hd

/-- percentage-drawdown model: a higher drawdown rate never gives a higher reservoir temperature, at any time -/
theorem tdp_antitone_in_rate (p p' trock tinj t : Rat) (hp : p ≤ p') (hT : tinj ≤ trock) (ht : 0 ≤ t) :
    tdpAt p' trock tinj t ≤ tdpAt p trock tinj t := tdp_antitone_rate p p' trock tinj t hp hT ht

/-- Ramey model: the initial wellbore temperature drop does not increase with flow rate, i.e. the initial production
temperature `T_rock − drop` does not decrease (non-negative gradient, positive depth, positive time function) -/
theorem ramey_initial_temp_mono_flow (g d flow flow' cp f k trock : ℝ) (hg : 0 ≤ g) (hd : 0 < d) (hflow : 0 < flow)
    (hcp : 0 < cp) (hf : 0 < f) (hk : 0 < k) (h : flow ≤ flow') :
    trock - rameyInitialDrop realAnalytic g d (rameyA realAnalytic flow cp f k)
      ≤ trock - rameyInitialDrop realAnalytic g d (rameyA realAnalytic flow' cp f k) := by
  have ha : 0 < rameyA realAnalytic flow cp f k := by
    unfold rameyA; simp only [realAnalytic]; have := Real.pi_pos; positivity
  have := rameyInitialDrop_antitone g d _ _ hg hd ha (rameyA_mono flow flow' cp f k (le_of_lt hcp) (le_of_lt hf) hk h)
  linarith

/-- every tabulated drilling-cost correlation is non-decreasing in depth on [500 m, 15 km] (whole regenerated table) -/
theorem well_cost_table_monotone : ∀ c ∈ Generated.wellCostTable, c.monoOn 500 15000 := by decide +kernel

/-- hence the cost of a well does not decrease with depth wherever the chosen correlation applies -/
theorem well_cost_mono (c : WellCorr) (hc : c ∈ Generated.wellCostTable) (perM adj : Rat) (hadj : 0 ≤ adj)
    (d₁ d₂ : Rat) (h1 : 500 ≤ d₁) (h12 : d₁ ≤ d₂) (h2 : d₂ ≤ 15000) :
    oneWellCost c false d₁ perM adj ≤ oneWellCost c false d₂ perM adj :=
  oneWellCost_mono c 500 15000 (le_refl _) (well_cost_table_monotone c hc) perM adj hadj d₁ d₂ h1 h12 h2

/-- the per-metre option is monotone on every depth -/
theorem well_cost_simple_mono (c : WellCorr) (perM adj : Rat) (hadj : 0 ≤ adj) (hp : 0 ≤ perM) (d₁ d₂ : Rat) (h : d₁ ≤ d₂) :
    oneWellCost c true d₁ perM adj ≤ oneWellCost c true d₂ perM adj := oneWellCost_simple_mono c perM adj hadj hp d₁ d₂ h

/-- each capital component and each O&M component enters its total with a non-negative coefficient -/
theorem capex_mono (s : CapexIn) (d : Rat) (hd : 0 ≤ d) (hritc : s.ritcProvided = true → s.ritc ≤ 1) (hfix : s.totalFixed = false) :
    capex s ≤ capex { s with well := s.well + d } ∧ capex s ≤ capex { s with plant := s.plant + d } ∧
    capex s ≤ capex { s with stim := s.stim + d } ∧ capex s ≤ capex { s with gath := s.gath + d } ∧
    capex s ≤ capex { s with expl := s.expl + d } := capex_mono_component s d hd hritc hfix

theorem opex_mono (s : OpexIn) (d : Rat) (hd : 0 ≤ d) (hfix : s.totalFixed = false) :
    opex s ≤ opex { s with wellOM := s.wellOM + d } ∧ opex s ≤ opex { s with plantOM := s.plantOM + d } ∧
    opex s ≤ opex { s with waterOM := s.waterOM + d } := opex_mono_component s d hd hfix

/-- cost adjustment factors multiply non-negative correlation values -/
theorem adjustment_factors_monotone (a a' : Rat) (h : a ≤ a') (n np ni : Nat) (c m cp : Rat) (hc : 0 ≤ c) (hm : 0 ≤ m) (hcp : 0 ≤ cp) :
    stimCorr a n ≤ stimCorr a' n ∧ plantPowerCorr a c ≤ plantPowerCorr a' c ∧ plantDirectCorr a m ≤ plantDirectCorr a' m ∧
    explCorr a c ≤ explCorr a' c ∧ gathCorr a np ni cp ≤ gathCorr a' np ni cp :=
  ⟨stimCorr_mono a a' h n, plantPowerCorr_mono a a' c h hc, plantDirectCorr_mono a a' m h hm, explCorr_mono a a' c h hc,
   gathCorr_mono a a' h np ni cp hcp⟩

/-- NPV does not increase when capital cost or annual O&M increases -/
theorem npv_antitone_in_cost (s : CashIn) (c' o' : Rat) (hc : s.ccap ≤ c') (ho : s.coam ≤ o') (r : Rat) (hr : 0 < 1 + r) :
    npv r (assemble { s with ccap := c', coam := o' }) false ≤ npv r (assemble s) false := npv_antitone_cost s c' o' hc ho r hr

/-- levelized cost does not decrease with capital cost: fixed-charge-rate and standard models (positive energy) -/
theorem lcoe_mono_in_capital_fcr (r : Rates) (L : Nat) (p : Product) (c' : Rat) (hc : p.ccap ≤ c') (hf : 0 ≤ r.fcr)
    (hic : 0 ≤ 1 + r.ic) (hden : 0 < levelizedDen .fcr r L p) (hu : 0 ≤ p.unit) :
    levelized .fcr r L p ≤ levelized .fcr r L { p with ccap := c' } :=
  levelized_mono_of_num .fcr r L p _ rfl rfl hden hu (num_mono_ccap_fcr r L p c' hc hf hic)

theorem lcoe_mono_in_capital_slc (r : Rates) (L : Nat) (p : Product) (c' : Rat) (hc : p.ccap ≤ c') (hic : 0 ≤ 1 + r.ic)
    (hden : 0 < levelizedDen .slc r L p) (hu : 0 ≤ p.unit) :
    levelized .slc r L p ≤ levelized .slc r L { p with ccap := c' } :=
  levelized_mono_of_num .slc r L p _ rfl rfl hden hu (num_mono_ccap_slc r L p c' hc hic)

/-- BICYCLE, PARTIAL: the full statement has no hypothesis `0 ≤ κ`.  κ is the capital coefficient of the BICYCLE numerator
(`bicycleNumerator_closed`); it is negative when RITC/(1−CTR) is large (the ITC is deducted from capital cost and
subtracted again as NPVitc) and the clause then fails on the real code — finding F15. -/
theorem lcoe_mono_in_capital_bicycle_partial (r : Rates) (L : Nat) (p : Product) (c' : Rat) (hc : p.ccap ≤ c')
    (hg : 0 < 1 - r.gtr) (hi : 0 < iave r) (hL : 0 < L) (hk : 0 ≤ kappa r L)
    (hden : 0 < levelizedDen .bicycle r L p) (hu : 0 ≤ p.unit) :
    levelized .bicycle r L p ≤ levelized .bicycle r L { p with ccap := c' } :=
  levelized_mono_of_num .bicycle r L p _ rfl rfl hden hu (num_mono_ccap_bicycle r L p c' hc hg hi hL hk)

/-- the excluded case is real: rates in range with κ < 0 (kernel-evaluated) -/
theorem bicycle_kappa_can_be_negative : kappa f15Rates 30 < 0 := by decide +kernel

/-- levelized cost does not decrease with annual O&M, all three models -/
theorem lcoe_mono_in_oam (e : Econ) (r : Rates) (L : Nat) (p : Product) (o' : Rat) (ho : p.coam ≤ o') (hd : -1 < r.d)
    (hg : 0 < 1 - r.gtr) (hr : -1 < r.rinfl) (hi : -1 < iave r) (hden : 0 < levelizedDen e r L p) (hu : 0 ≤ p.unit) :
    levelized e r L p ≤ levelized e r L { p with coam := o' } := by
  cases e with
  | fcr => exact levelized_mono_of_num .fcr r L p _ rfl rfl hden hu (num_mono_coam_fcr r L p o' ho)
  | slc => exact levelized_mono_of_num .slc r L p _ rfl rfl hden hu (num_mono_coam_slc r L p o' ho hd)
  | bicycle => exact levelized_mono_of_num .bicycle r L p _ rfl rfl hden hu (num_mono_coam_bicycle r L p o' ho hg hr hi)

end GeoVerif.C18
