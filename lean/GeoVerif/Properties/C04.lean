import GeoVerif.Lemmas.C04
import GeoVerif.Lemmas.Irr
import GeoVerif.Lemmas.CodeCashFlow
import GeoVerif.Lemmas.CodeCarbon
/-!
# C04 — Cash flow, NPV, IRR, VIR, MOIC and payback are mutually consistent

Models (Model/CashFlow.lean): `assemble` (CAPEX shares in the construction years, product revenue + carbon revenue − O&M
in the operating years), `cumsum`, `npv` (both discounting conventions), `paybackFixed` / `paybackPinned` (the loop as
repaired / as pinned, with Python's `cum[i-1]` wrap-around at `i = 0`), `vir`, `moic`.  All statements hold for every
construction period, lifetime and series.  IRR is numerical (`numpy_financial.irr`) and is treated as an observed value:
the check evaluates the model's exact `npv` at the reported rate.
-/
namespace GeoVerif.C04
open GeoVerif

theorem cashflow_length (s : CashIn) : (assemble s).length = s.cy + s.L := assemble_length s

/-- each construction year carries an equal share of total capital cost, negative -/
theorem cashflow_construction (s : CashIn) (i : Nat) (hi : i < s.cy) :
    (assemble s).getD i 0 = -(s.ccap / (s.cy : Rat)) := assemble_construction s i hi

/-- each operating year is product revenue (+ carbon revenue when enabled) − annual O&M -/
theorem cashflow_operating (s : CashIn) (i : Nat) (hi : i < s.L) :
    (assemble s).getD (s.cy + i) 0 =
      productRevenue s i + (if s.carbonOn then carbonRevenue s i else 0) - s.coam := assemble_operating s i hi

/-- revenue of a product in a year is energy sold that year × that year's price (MUSD) -/
theorem revenue_def (E P : List Rat) (i : Nat) : yearRevenue E P i = E.getD i 0 * P.getD i 0 / 1000000 := rfl

/-- the cumulative series is the running sum of the cash flow -/
theorem cum_is_running_sum (cf : List Rat) (i : Nat) (hi : i < cf.length) :
    (cumsum cf).getD i 0 = sumL (cf.take (i + 1)) := cumsum_getD cf i hi

theorem cum_step (cf : List Rat) (i : Nat) (hi : i + 1 < cf.length) :
    (cumsum cf).getD (i + 1) 0 = (cumsum cf).getD i 0 + cf.getD (i + 1) 0 := cumsum_step cf i hi

/-- NPV is Σ cf[t]/(1+r)^t … -/
theorem npv_def (r : Rat) (cf : List Rat) :
    npv r cf false = sumL ((List.range cf.length).map (fun t => cf.getD t 0 / (1 + r) ^ t)) := by
  simp only [npv, Bool.false_eq_true, if_false]
  have := npvFrom_closed r 0 cf
  simpa using this

/-- … and the Excel-style convention is the same sum discounted one more year -/
theorem npv_excel_convention (r : Rat) (hr : 1 + r ≠ 0) (cf : List Rat) :
    npv r cf true = npv r cf false / (1 + r) := npv_conventions r hr cf

/-- a reported (non-zero) payback period lies within a year in which cumulative cash flow turns from non-positive to positive -/
theorem payback_within_turn_year (cum : List Rat) (h : paybackFixed cum ≠ 0) :
    ∃ j, IsTurn cum j ∧ (j : Rat) ≤ paybackFixed cum ∧ paybackFixed cum ≤ j + 1 :=
  GeoVerif.payback_within_turn_year cum h

/-- when cumulative cash flow never turns positive the payback is 0, which the report renders as 'N/A' -/
theorem payback_na (cum : List Rat) (hno : ∀ j, ¬ IsTurn cum j) : paybackFixed cum = 0 := GeoVerif.payback_na cum hno

/-- the loop as it stood on the pinned tree (`range(0, …)`, `cum[-1]` wraps) violates the clause: defect F5 -/
theorem pinned_payback_counterexample :
    let cum : List Rat := [962, 900, 400, -350]
    paybackPinned cum ≠ 0 ∧ ¬ ∃ j, IsTurn cum j := GeoVerif.pinned_payback_counterexample

theorem vir_def (n c : Rat) : vir n c = 1 + n / c := rfl
theorem moic_def (cum : List Rat) (c o : Rat) (L : Nat) : moic cum c o L = cum.getLastD 0 / (c + o * (L : Rat)) := rfl

/-- NPV responds monotonically to every year's cash flow (basis of C11 price clause and C18 cost clause) -/
theorem npv_mono (r : Rat) (hr : 0 < 1 + r) (cf cf' : List Rat) (hl : cf.length = cf'.length)
    (h : ∀ i, cf.getD i 0 ≤ cf'.getD i 0) : npv r cf false ≤ npv r cf' false := by
  simp only [npv, Bool.false_eq_true, if_false]; exact npvFrom_mono r hr 0 cf cf' hl h

/-- non-vacuity -/
example : paybackFixed (cumsum [-10, 4, 4, 4]) = 3 + 1/2 := by decide +kernel
example : IsTurn (cumsum [-10, 4, 4, 4]) 3 := by
  refine ⟨by decide, by decide, ?_, ?_⟩ <;> decide +kernel


/-! ## IRR: the rate that zeroes the NPV is unique for a conventional project cash flow -/

/-- **the IRR is unique**: a conventional cash flow (outlays in the first `m ≥ 1` years, returns afterwards, at least one positive
return) has at most one rate above −100 % at which its net present value is zero -/
theorem irr_unique (cf : List Rat) (m : Nat) (hm : 1 ≤ m) (hc : ConvFrom m 0 cf) (hr : HasReturnFrom m 0 cf)
    (r₁ r₂ : Rat) (h₁ : -1 < r₁) (h₂ : -1 < r₂) (z₁ : npvFrom r₁ 0 cf = 0) (z₂ : npvFrom r₂ 0 cf = 0) : r₁ = r₂ := by
  by_contra hne
  rw [npvFrom_eq_poly] at z₁ z₂
  have p₁ : 0 < 1 + r₁ := by linarith
  have p₂ : 0 < 1 + r₂ := by linarith
  rcases lt_or_gt_of_ne hne with hlt | hgt
  · -- r₁ < r₂: discount factor x₂ < x₁
    have hx : (0 : Rat) < 1 / (1 + r₂) := by positivity
    have hxy : 1 / (1 + r₂) < 1 / (1 + r₁) := one_div_lt_one_div_of_lt p₁ (by linarith)
    have := cross_pos _ _ hx hxy m hm 0 cf hc hr
    rw [z₁, z₂] at this; simp at this
  · have hx : (0 : Rat) < 1 / (1 + r₁) := by positivity
    have hxy : 1 / (1 + r₁) < 1 / (1 + r₂) := one_div_lt_one_div_of_lt p₂ (by linarith)
    have := cross_pos _ _ hx hxy m hm 0 cf hc hr
    rw [z₁, z₂] at this; simp at this

/-- non-vacuity: −10, −5, 6, 6, 6 is conventional with m = 2 and has a positive return -/
example : ConvFrom 2 0 [-10, -5, 6, 6, 6] ∧ HasReturnFrom 2 0 [-10, -5, 6, 6, 6] := by
  simp [ConvFrom, HasReturnFrom]


/-! ## Tie by translation

`Generated/Code.lean` holds the transcription of the *current* source of `CalculateRevenue`, `CalculateCarbonRevenue` and of two statement runs of `Economics.Calculate`
(`tools/py2lean.py`).  For every lifetime, every construction period ≥ 1 (the parameter's minimum; with 0 Python's `cum[-1]` would wrap)
and all series: the first result is the list model, the second is its running sum. -/

theorem code_CalculateRevenue_is_model (L cy : Nat) (hcy : 1 ≤ cy) (E P : List Rat) :
    Code.CalculateRevenue (L : Int) (cy : Int) E P = (revenueSeries L cy E P, cumsum (revenueSeries L cy E P)) :=
  code_revenue_eq L cy hcy E P

/-- revenue of operating year `i` in the translated source: energy sold that year × that year's price; nothing in construction years -/
theorem code_revenue_year (L cy : Nat) (hcy : 1 ≤ cy) (E P : List Rat) (j : Nat) :
    (Code.CalculateRevenue (L : Int) (cy : Int) E P).1.getD j 0 =
      if cy ≤ j ∧ j < cy + L then yearRevenue E P (j - cy) else 0 := by
  rw [code_revenue_eq L cy hcy E P]; exact revenueSeries_getD L cy E P j

/-- **The cash flow `Economics.Calculate` reports.**  The module no longer calls `CalculateTotalRevenue`; it assembles the project cash flow in
place (`ProjectCAPEXPerConstructionYear = …`, the construction-year loop, the O&M loop, the cumulative loop).  Those statements, transcribed
from the current source (`Code.CashFlowFragment`), give — for every lifetime, every construction period ≥ 1, all costs and every revenue
series of the full length — the model's series and its running sum. -/
theorem code_cashflow_fragment_is_model (L cy : Nat) (hcy : 1 ≤ cy) (capex opex : Rat) (rev cum0 : List Rat)
    (hr : rev.length = L + cy) (hc : cum0.length = L + cy) :
    Code.CashFlowFragment rev cum0 capex opex (cy : Int) (L : Int) =
      (totalSeries L cy capex opex rev, cumsum (totalSeries L cy capex opex rev)) :=
  code_cashflow_fragment_eq L cy hcy capex opex rev cum0 hr hc

/-- … which is the model's `assemble` when the revenue series carries, in each operating year, the revenue of the products the end-use sells -/
theorem code_fragment_is_assemble (s : CashIn) (hcy : 1 ≤ s.cy) (rev cum0 : List Rat)
    (hr : rev.length = s.L + s.cy) (hc : cum0.length = s.L + s.cy)
    (hrev : ∀ i, i < s.L → rev.getD (s.cy + i) 0 = productRevenue s i + (if s.carbonOn then carbonRevenue s i else 0)) :
    Code.CashFlowFragment rev cum0 s.ccap s.coam (s.cy : Int) (s.L : Int) = (assemble s, cumsum (assemble s)) := by
  rw [code_cashflow_fragment_eq s.L s.cy hcy s.ccap s.coam rev cum0 hr hc]
  have h : totalSeries s.L s.cy s.ccap s.coam rev = assemble s := by
    simp only [totalSeries, assemble]
    congr 1
    apply List.map_congr_left
    intro i hi
    simp only [operatingCash, hrev i (List.mem_range.mp hi)]
  rw [h]

/-- the reported payback follows from the reported cash flow: fragment ∘ fragment, as the source has them -/
example : Code.PaybackFragment (Code.CashFlowFragment [0, 0, 6, 6, 6, 6] [0, 0, 0, 0, 0, 0] 10 1 2 4).2 = 4 := by decide +kernel

/-- and the cumulative series the module reports is the running sum of the cash flow it reports -/
theorem code_cumulative_is_running_sum (L cy : Nat) (hcy : 1 ≤ cy) (capex opex : Rat) (rev cum0 : List Rat)
    (hr : rev.length = L + cy) (hc : cum0.length = L + cy) :
    (Code.CashFlowFragment rev cum0 capex opex (cy : Int) (L : Int)).2 =
      cumsum (Code.CashFlowFragment rev cum0 capex opex (cy : Int) (L : Int)).1 := by
  rw [code_cashflow_fragment_eq L cy hcy capex opex rev cum0 hr hc]

/-- the payback statements of `Economics.Calculate` (the `for i in range(1, len(cum))` scan), as they stand in the source, are the model
`paybackFixed` — for every cumulative series; with `payback_within_turn_year` this puts the reported payback inside the year in which
the cumulative cash flow turns positive, for the code as written -/
theorem code_payback_is_model (cum : List Rat) : Code.PaybackFragment cum = paybackFixed cum := code_payback_eq cum

/-- the twins in `SBTEconomics.Calculate` (closed-loop SBT reservoirs) are the same functions: every theorem above holds of them too.  On the
pinned tree the SBT payback scan still started at index 0 (defect F29, repaired in /repo): this obligation is what keeps the twins together. -/
theorem code_sbt_payback_is_model (cum : List Rat) : Code.PaybackFragmentSBT cum = paybackFixed cum := by
  rw [sbt_payback_same]; exact code_payback_eq cum

theorem code_sbt_cashflow_fragment_is_model (L cy : Nat) (hcy : 1 ≤ cy) (capex opex : Rat) (rev cum0 : List Rat)
    (hr : rev.length = L + cy) (hc : cum0.length = L + cy) :
    Code.CashFlowFragmentSBT rev cum0 capex opex (cy : Int) (L : Int) =
      (totalSeries L cy capex opex rev, cumsum (totalSeries L cy capex opex rev)) := by
  rw [sbt_cashflow_same]; exact code_cashflow_fragment_eq L cy hcy capex opex rev cum0 hr hc

example : Code.PaybackFragment (Code.CashFlowFragment [0, 4, 4, 4, 4] [0, 0, 0, 0, 0] 10 0 1 4).2 = 3 + 1/2 := by decide +kernel
/-- a cumulative of exactly zero at a year end counts as "not yet positive": the crossing is found in the next year -/
example : Code.PaybackFragment [-40, -30, -20, -10, 0, 10, 20] = 5 := by decide +kernel

/-- `CalculateCarbonRevenue` as it stands in the source (a loop over four variables, the end-use test against the two enum members `E ≠ …`):
carbon cash flow, its running sum, the annual avoided pounds and their accumulated total — for every lifetime, construction period ≥ 1,
end-use code and all series -/
theorem code_CalculateCarbonRevenue_is_model (L cy : Nat) (hcy : 1 ≤ cy) (eu E H : Int) (net heat price : List Rat) (grid ngi : Rat) :
    Code.CalculateCarbonRevenue (L : Int) (cy : Int) price grid ngi net heat eu E H =
      (carbonSeries L cy eu E H net heat price grid ngi, cumsum (carbonSeries L cy eu E H net heat price grid ngi),
       carbonAnnual L cy eu E H net heat grid ngi,
       (List.range L).foldl (fun (T : Rat) (k : Nat) => T + carbonLbs eu E H net heat grid ngi k) 0) :=
  code_carbon_eq L cy hcy eu E H net heat price grid ngi

/-- … and operating year `k` of that cash flow is the model's `carbonRevenue` (avoided CO2 × that year's carbon price) for the products the end-use sells -/
theorem code_carbon_year (s : CashIn) (hcy : 1 ≤ s.cy) (eu E H : Int)
    (hs : s.sells = (if eu = E then Sells.elec else if eu = H then Sells.heat else Sells.both)) (k : Nat) (hk : k < s.L) :
    (Code.CalculateCarbonRevenue (s.L : Int) (s.cy : Int) s.pcarbon s.grid s.ngi s.net s.heat eu E H).1.getD (s.cy + k) 0 =
      carbonRevenue s k := by
  rw [code_carbon_eq s.L s.cy hcy]
  simp only [carbonSeries, append_map_getD]
  have h : s.cy ≤ s.cy + k ∧ s.cy + k < s.cy + s.L := by omega
  rw [if_pos h, Nat.add_sub_cancel_left]
  unfold carbonRevenue carbonLbs
  by_cases e1 : eu = E
  · simp [hs, e1]
  · by_cases e2 : eu = H
    · have e3 : ¬ H = E := fun h => e1 (e2.trans h)
      simp [hs, e2, e3]
    · simp [hs, e1, e2]

example : Code.CalculateCarbonRevenue 2 1 [1/10, 1/5] 2 3 [1000000, 1000000] [500000, 500000] 7 1 2 =
    ([0, 7/20, 7/10], [0, 7/20, 21/20], [0, 3500000, 3500000], 7000000) := by decide +kernel

example : Code.CashFlowFragment [0, 0, 4, 4, 4] [0, 0, 0, 0, 0] 10 1 2 3 = ([-5, -5, 3, 3, 3], [-5, -10, -7, -4, -1]) := by decide +kernel
example : Code.CalculateRevenue 2 1 [1000000, 2000000] [1/2, 1/4] = ([0, 1/2, 1/2], [0, 1/2, 1]) := by decide +kernel

end GeoVerif.C04
