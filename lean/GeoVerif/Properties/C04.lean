import GeoVerif.Lemmas.C04
/-!
# C04 — Cash flow, NPV, IRR, VIR, MOIC and payback are mutually consistent

Models (Model/CashFlow.lean): `assemble` (CAPEX shares in the construction years, product revenue + carbon revenue − O&M
in the operating years), `cumsum`, `npv` (both discounting conventions), `paybackFixed` / `paybackPinned` (the loop as
repaired / as pinned, with Python's `cum[i-1]` wrap-around at `i = 0`), `vir`, `moic`.  All statements hold for every
construction period, lifetime and series.  IRR is numerical (`numpy_financial.irr`) and is treated as an observed value:
the check evaluates the model's exact `npv` at the reported rate.
-/
namespace GeoVerif.C04
open GeoVerif

theorem cashflow_length (s : CashIn) : (assemble s).length = s.cy + s.L := assemble_length s

/-- each construction year carries an equal share of total capital cost, negative -/
theorem cashflow_construction (s : CashIn) (i : Nat) (hi : i < s.cy) :
    (assemble s).getD i 0 = -(s.ccap / (s.cy : Rat)) := assemble_construction s i hi

/-- each operating year is product revenue (+ carbon revenue when enabled) − annual O&M -/
theorem cashflow_operating (s : CashIn) (i : Nat) (hi : i < s.L) :
    (assemble s).getD (s.cy + i) 0 =
      productRevenue s i + (if s.carbonOn then carbonRevenue s i else 0) - s.coam := assemble_operating s i hi

/-- revenue of a product in a year is energy sold that year × that year's price (MUSD) -/
theorem revenue_def (E P : List Rat) (i : Nat) : yearRevenue E P i = E.getD i 0 * P.getD i 0 / 1000000 := rfl

/-- the cumulative series is the running sum of the cash flow -/
theorem cum_is_running_sum (cf : List Rat) (i : Nat) (hi : i < cf.length) :
    (cumsum cf).getD i 0 = sumL (cf.take (i + 1)) := cumsum_getD cf i hi

theorem cum_step (cf : List Rat) (i : Nat) (hi : i + 1 < cf.length) :
    (cumsum cf).getD (i + 1) 0 = (cumsum cf).getD i 0 + cf.getD (i + 1) 0 := cumsum_step cf i hi

/-- NPV is Σ cf[t]/(1+r)^t … -/
theorem npv_def (r : Rat) (cf : List Rat) :
    npv r cf false = sumL ((List.range cf.length).map (fun t => cf.getD t 0 / (1 + r) ^ t)) := by
  simp only [npv, Bool.false_eq_true, if_false]
  have := npvFrom_closed r 0 cf
  simpa using this

/-- … and the Excel-style convention is the same sum discounted one more year -/
theorem npv_excel_convention (r : Rat) (hr : 1 + r ≠ 0) (cf : List Rat) :
    npv r cf true = npv r cf false / (1 + r) := npv_conventions r hr cf

/-- a reported (non-zero) payback period lies within a year in which cumulative cash flow turns from non-positive to positive -/
theorem payback_within_turn_year (cum : List Rat) (h : paybackFixed cum ≠ 0) :
    ∃ j, IsTurn cum j ∧ (j : Rat) ≤ paybackFixed cum ∧ paybackFixed cum ≤ j + 1 :=
  GeoVerif.payback_within_turn_year cum h

/-- when cumulative cash flow never turns positive the payback is 0, which the report renders as 'N/A' -/
theorem payback_na (cum : List Rat) (hno : ∀ j, ¬ IsTurn cum j) : paybackFixed cum = 0 := GeoVerif.payback_na cum hno

/-- the loop as it stood on the pinned tree (`range(0, …)`, `cum[-1]` wraps) violates the clause: defect F5 -/
theorem pinned_payback_counterexample :
    let cum : List Rat := [962, 900, 400, -350]
    paybackPinned cum ≠ 0 ∧ ¬ ∃ j, IsTurn cum j := GeoVerif.pinned_payback_counterexample

theorem vir_def (n c : Rat) : vir n c = 1 + n / c := rfl
theorem moic_def (cum : List Rat) (c o : Rat) (L : Nat) : moic cum c o L = cum.getLastD 0 / (c + o * (L : Rat)) := rfl

/-- NPV responds monotonically to every year's cash flow (basis of C11 price clause and C18 cost clause) -/
theorem npv_mono (r : Rat) (hr : 0 < 1 + r) (cf cf' : List Rat) (hl : cf.length = cf'.length)
    (h : ∀ i, cf.getD i 0 ≤ cf'.getD i 0) : npv r cf false ≤ npv r cf' false := by
  simp only [npv, Bool.false_eq_true, if_false]; exact npvFrom_mono r hr 0 cf cf' hl h

/-- non-vacuity -/
example : paybackFixed (cumsum [-10, 4, 4, 4]) = 3 + 1/2 := by decide +kernel
example : IsTurn (cumsum [-10, 4, 4, 4]) 3 := by
  refine ⟨by decide, by decide, ?_, ?_⟩ <;> decide +kernel

end GeoVerif.C04
