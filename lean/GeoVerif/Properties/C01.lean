import GeoVerif.Lemmas.Lcoe
/-!
# C01 — Levelized cost equals its documented definition

`lcoe : LcoeIn → Lcoe3` (Model/Lcoe.lean) is the model of `Economics.CalculateLCOELCOHLCOC`, shaped like the code
(vectors, `np.sum`, `np.average`, one product per end-use).  The theorems below state that, for **every** lifetime `L`,
every yearly series of that length and all rational costs and rates, the model equals the documented closed forms:

* fixed charge rate:  `(FCR·(1+i_c)·C + O + Ā) / mean(E) · u`
* standard levelized cost: `((1+i_c)·C + Σ_{t<L} (O + X_t)/(1+d)^t) / Σ_{t<L} E_t/(1+d)^t · u`  (first year undiscounted)
* BICYCLE: `(κ·C + Σ_{t<L} (O + X_t)·w_t) / (1 − GTR) / Σ E_t·w_t · u`, `w_t = (1+RINFL)^{t+1}/(1+i)^{t+1}`, where the
  capital-recovery term has been reduced with the annuity identity `CRF · Σ (1+i)^{-t} = 1`.

The model is tied to the code by the C01 correspondence check (whole runs through the observer hook).
-/
namespace GeoVerif.C01
open GeoVerif

theorem fcr_eq_spec (r : Rates) (L : Nat) (p : Product) :
    levelized .fcr r L p = (r.fcr * (1 + r.ic) * p.ccap + p.coam + p.otherAvg) / avgL p.energy * p.unit :=
  fcr_closed r L p

theorem slc_eq_spec (r : Rates) (L : Nat) (p : Product) (ho : p.other.length = L) (he : p.energy.length = L) :
    levelized .slc r L p =
      ((1 + r.ic) * p.ccap + idxSum L (fun t => (p.coam + p.other.getD t 0) * (1 / (1 + r.d) ^ t))) /
        idxSum L (fun t => p.energy.getD t 0 * (1 / (1 + r.d) ^ t)) * p.unit :=
  slc_closed r L p ho he

theorem bicycle_eq_spec (r : Rates) (L : Nat) (p : Product) (hg : 1 - r.gtr ≠ 0) (hi : 0 < iave r) (hL : 0 < L) :
    levelized .bicycle r L p =
      (p.ccap * kappa r L + sumL (zipMul (p.other.map (fun x => p.coam + x)) (wB r L))) / (1 - r.gtr) /
        sumL (zipMul p.energy (wB r L)) * p.unit := by
  unfold levelized
  simp only [levelizedNum, levelizedDen]
  rw [bicycleNumerator_closed r L p hg hi hL]
  rfl

/-- the standard model's discount exponent starts at 0 (first operating year undiscounted) … -/
theorem slc_discount_exponent (d : Rat) (L t : Nat) (h : t < L) : (discA d L).getD t 0 = 1 / (1 + d) ^ t :=
  discA_getD d L t h

/-- … BICYCLE's discount and inflation exponents start at 1 -/
theorem bicycle_discount_exponent (i : Rat) (L t : Nat) (h : t < L) : (discB i L).getD t 0 = 1 / (1 + i) ^ (t + 1) :=
  discB_getD i L t h

theorem bicycle_inflation_exponent (r : Rat) (L t : Nat) (h : t < L) : (inflB r L).getD t 0 = (1 + r) ^ (t + 1) :=
  inflB_getD r L t h

/-- capital recovery: the present value of `L` payments of `CRF` is exactly 1 -/
theorem bicycle_annuity (i : Rat) (hi : 0 < i) (L : Nat) (hL : 0 < L) : crf i L * sumL (discB i L) = 1 :=
  GeoVerif.bicycle_annuity i hi L hL

/-- every end-use reports exactly the levelized costs of the products it sells -/
theorem electricity_only (i : LcoeIn) (h : i.eu = .elec) : (lcoe i).lcoh = 0 ∧ (lcoe i).lcoc = 0 := lcoe_elec_only i h
theorem heat_only (i : LcoeIn) (h : i.eu = .heat ∨ i.eu = .heatPump ∨ i.eu = .district) :
    (lcoe i).lcoe = 0 ∧ (lcoe i).lcoc = 0 := lcoe_heat_only i h
theorem cooling_only (i : LcoeIn) (h : i.eu = .chiller) : (lcoe i).lcoe = 0 ∧ (lcoe i).lcoh = 0 := lcoe_cool_only i h
theorem cogen_no_cooling (i : LcoeIn) (h : i.eu = .cogen) : (lcoe i).lcoc = 0 := lcoe_cogen_no_cooling i h

/-- cogeneration splits capital and O&M between the two products without loss -/
theorem cogen_split (i : LcoeIn) (pe ph : Product) (h : i.eu = .cogen)
    (he : elecProduct i = some pe) (hh : heatProduct i = some ph) :
    pe.ccap + ph.ccap = i.ccap ∧ pe.coam + ph.coam = i.coam := by
  simp only [elecProduct, heatProduct, h, Option.some.injEq] at he hh
  subst he; subst hh
  constructor <;> simp only <;> ring

/-- the heat pump is charged its own electricity, district heating its peaking fuel, on top of pumping -/
theorem heat_pump_other_costs (i : LcoeIn) (p : Product) (h : i.eu = .heatPump) (hp : heatProduct i = some p) :
    p.other = zipAdd (pumpCost i) (hpCost i) ∧ p.otherAvg = i.avgPump + i.avgHp := by
  simp only [heatProduct, h, Option.some.injEq] at hp
  subst hp; exact ⟨rfl, rfl⟩

theorem district_other_costs (i : LcoeIn) (p : Product) (h : i.eu = .district) (hp : heatProduct i = some p) :
    p.other = zipAdd (pumpCost i) i.ng ∧ p.otherAvg = i.avgPump + i.avgNg ∧ p.energy = List.replicate i.L i.demand := by
  simp only [heatProduct, h, Option.some.injEq] at hp
  subst hp; exact ⟨rfl, rfl, rfl⟩

/-- non-vacuity: a two-year electricity case under the standard model, evaluated by the kernel -/
example :
    levelized .slc ⟨0, 1/20, 1/4, 0, 0, 0, 0, 0, 0, 0, 0⟩ 2 ⟨100, 4, [0, 0], 0, [50000000, 40000000], 100000000⟩
      = (105 + (4 + 4 * (4/5))) / (50000000 + 40000000 * (4/5)) * 100000000 := by decide +kernel

end GeoVerif.C01
