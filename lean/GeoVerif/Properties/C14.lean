import GeoVerif.Model.MCRows
import GeoVerif.Lemmas.C14
import GeoVerif.Lemmas.MCRows
import GeoVerif.Generated.MCWrite
import Mathlib.Data.List.Perm.Basic
import Mathlib.Tactic.Linarith
import Mathlib.Tactic.Positivity
import Mathlib.Tactic.FieldSimp

/-!
# C14 — Monte-Carlo rows are reproducible and the statistics describe them
-/
namespace GeoVerif.C14
open GeoVerif GeoVerif.MC

/-! ## column alignment -/

/-- when every requested output is found exactly once, the row has one value per header column, in header order -/
theorem row_aligned (outs report : List Line) (h : ∀ o ∈ outs, (getOutput o report).isSome) :
    (rowValues outs report).map some = rowCells outs report := by
  unfold rowValues rowCells
  induction outs with
  | nil => rfl
  | cons o os ih =>
    have ho := h o (List.mem_cons_self ..)
    have ih' := ih (fun o' ho' => h o' (List.mem_cons_of_mem _ ho'))
    cases hg : getOutput o report with
    | none => simp [hg] at ho
    | some l => simp [List.filterMap_cons, hg, ih']

theorem row_aligned_length (outs report : List Line) (h : ∀ o ∈ outs, (getOutput o report).isSome) :
    (rowValues outs report).length = outs.length := by
  have := congrArg List.length (row_aligned outs report h)
  simpa [rowCells] using this

/-- in general the row is the header's cells with the missing ones *removed*, so later columns shift left (finding F12) -/
theorem row_is_cells_compacted (outs report : List Line) : rowValues outs report = (rowCells outs report).filterMap id := by
  unfold rowValues rowCells
  rw [List.filterMap_map]; rfl

/-- F12 witness: outputs A, B, C requested, the report has no line for B: the second column (header B) holds C's value -/
theorem skipped_output_shifts :
    let report : List Line := ["  A: 1.00 MW".toList, "  C: 3.00 MW".toList]
    rowValues ["A".toList, "B".toList, "C".toList] report = ["1.00".toList, "3.00".toList]
    ∧ rowCells ["A".toList, "B".toList, "C".toList] report = [some "1.00".toList, none, some "3.00".toList] := by decide

/-- F12 witness, second way: a label that is a substring-match of two lines is skipped as well -/
theorem ambiguous_output_skipped :
    let report : List Line := ["  Total CAPEX: 10.00 MUSD".toList, "    Total CAPEX: 12.00 MUSD".toList, "  LCOE: 5.00 cents/kWh".toList]
    rowValues ["Total CAPEX".toList, "LCOE".toList] report = ["5.00".toList] := by decide

theorem extract_example : extractValue "      Electricity breakeven price:                           15.56 cents/kWh".toList = "15.56".toList := by decide

/-! ## rows are never torn; order is the only freedom -/

/-- whatever order the workers complete in (any permutation of the tasks), the file holds a permutation of the successful
tasks' rows — every row whole, none duplicated, none lost -/
theorem fileRows_identity {ρ : Type} (outcomes : List (Option ρ)) :
    (List.range outcomes.length).filterMap (fun i => (outcomes[i]?).join) = outcomes.filterMap id := by
  induction outcomes using List.reverseRecOn with
  | nil => rfl
  | append_singleton os o ih =>
    rw [List.length_append, List.length_singleton, List.range_succ, List.filterMap_append, List.filterMap_append]
    congr 1
    · rw [← ih]
      apply List.filterMap_congr
      intro i hi
      have : i < os.length := List.mem_range.mp hi
      simp [List.getElem?_append_left this]
    · cases o <;> simp

theorem appends_permute {ρ : Type} (outcomes : List (Option ρ)) (order : List Nat)
    (hperm : order.Perm (List.range outcomes.length)) :
    (fileRows outcomes order).Perm (outcomes.filterMap id) := by
  unfold fileRows
  have h1 := hperm.filterMap (fun i => (outcomes[i]?).join)
  rw [fileRows_identity] at h1
  exact h1

/-- **an iteration that fails affects only its own row** -/
theorem failure_is_local {ρ : Type} (before after : List (Option ρ)) (r : ρ) :
    (before ++ [none] ++ after).filterMap id = (before ++ after).filterMap id
    ∧ (before ++ [some r] ++ after).filterMap id = before.filterMap id ++ [r] ++ after.filterMap id := by
  simp [List.filterMap_append]

/-! ## the statistics describe the rows -/

theorem ins_mem (x y : Rat) (l : List Rat) : y ∈ ins x l ↔ y = x ∨ y ∈ l := by
  rw [ins_eq]; exact List.mem_orderedInsert _

theorem isort_mem (y : Rat) (l : List Rat) : y ∈ isort l ↔ y ∈ l := by
  rw [isort_eq]; exact (List.perm_insertionSort _ l).mem_iff

theorem isort_sorted (l : List Rat) : (isort l).Pairwise (· ≤ ·) := by
  rw [isort_eq]; exact List.pairwise_insertionSort _ l

theorem isort_length (l : List Rat) : (isort l).length = l.length := by
  rw [isort_eq]; exact List.length_insertionSort _ l

/-- reported minimum: a value of the column, below every value -/
theorem min_spec (l : List Rat) (hne : l ≠ []) : minR l ∈ l ∧ ∀ x ∈ l, minR l ≤ x := by
  unfold minR
  have hlen := isort_length l
  cases hs : isort l with
  | nil => simp [hs] at hlen; exact absurd hlen.symm (by simpa using hne)
  | cons a as =>
    have hsorted := isort_sorted l
    rw [hs] at hsorted
    refine ⟨(isort_mem a l).mp (by rw [hs]; exact List.mem_cons_self ..), ?_⟩
    intro x hx
    have hx' : x ∈ a :: as := by rw [← hs]; exact (isort_mem x l).mpr hx
    simp only [List.headD_cons]
    rcases List.mem_cons.mp hx' with h | h
    · exact h ▸ le_refl _
    · exact (List.pairwise_cons.mp hsorted).1 x h

/-- reported maximum: a value of the column, above every value -/
theorem max_spec (l : List Rat) (hne : l ≠ []) : maxR l ∈ l ∧ ∀ x ∈ l, x ≤ maxR l := by
  unfold maxR
  have hlen := isort_length l
  have hne' : isort l ≠ [] := by
    intro h; rw [h] at hlen; exact hne (List.length_eq_zero_iff.mp hlen.symm)
  have hlast : ∀ (s : List Rat) (hs : s ≠ []), s.getLastD 0 = s.getLast hs := by
    intro s hs
    cases s with
    | nil => exact absurd rfl hs
    | cons a as => rw [List.getLastD_cons, List.getLast_eq_getLastD]
  rw [hlast _ hne']
  refine ⟨(isort_mem _ l).mp (List.getLast_mem hne'), ?_⟩
  intro x hx
  have hx' := (isort_mem x l).mpr hx
  have hsorted := isort_sorted l
  -- in a sorted list every element is ≤ the last
  have key : ∀ (s : List Rat) (hs : s ≠ []), s.Pairwise (· ≤ ·) → ∀ x ∈ s, x ≤ s.getLast hs := by
    intro s
    induction s with
    | nil => intro hs; exact absurd rfl hs
    | cons a as ih =>
      intro _ hp x hx
      cases as with
      | nil => simp at hx; simp [hx]
      | cons b bs =>
        rw [List.getLast_cons (by simp)]
        rcases List.mem_cons.mp hx with h | h
        · subst h
          exact (List.pairwise_cons.mp hp).1 _ (List.getLast_mem _)
        · exact ih (by simp) (List.pairwise_cons.mp hp).2 x h
  exact key _ hne' hsorted x hx'

/-- reported mean × n = Σ values -/
theorem mean_spec (l : List Rat) (hne : l ≠ []) : meanR l * (l.length : Rat) = sumR l := by
  unfold meanR
  have : (l.length : Rat) ≠ 0 := by
    have : 0 < l.length := List.length_pos_iff.mpr hne
    exact_mod_cast this.ne'
  field_simp

theorem sumR_nonneg (l : List Rat) (h : ∀ x ∈ l, 0 ≤ x) : 0 ≤ sumR l := by
  induction l with
  | nil => simp [sumR]
  | cons a as ih =>
    simp only [sumR]
    have := h a (List.mem_cons_self ..)
    have := ih (fun x hx => h x (List.mem_cons_of_mem _ hx))
    linarith

/-- reported variance (std²) × n = Σ (x − mean)², and it is non-negative -/
theorem var_spec (l : List Rat) (hne : l ≠ []) :
    varR l * (l.length : Rat) = sumR (l.map (fun x => (x - meanR l) * (x - meanR l))) ∧ 0 ≤ varR l := by
  have hn : (0 : Rat) < (l.length : Rat) := by
    have : 0 < l.length := List.length_pos_iff.mpr hne
    exact_mod_cast this
  constructor
  · unfold varR; field_simp
  · unfold varR
    apply div_nonneg _ hn.le
    apply sumR_nonneg
    intro x hx
    rcases List.mem_map.mp hx with ⟨y, _, rfl⟩
    exact mul_self_nonneg _

/-- the mean lies between the minimum and the maximum -/
theorem mean_between (l : List Rat) (hne : l ≠ []) : minR l ≤ meanR l ∧ meanR l ≤ maxR l := by
  have hn : (0 : Rat) < (l.length : Rat) := by
    have : 0 < l.length := List.length_pos_iff.mpr hne
    exact_mod_cast this
  have hmin := (min_spec l hne).2
  have hmax := (max_spec l hne).2
  have lo : ∀ (s : List Rat) (c : Rat), (∀ x ∈ s, c ≤ x) → c * (s.length : Rat) ≤ sumR s := by
    intro s c h
    induction s with
    | nil => simp [sumR]
    | cons a as ih =>
      simp only [sumR, List.length_cons, Nat.cast_succ]
      have := h a (List.mem_cons_self ..)
      have := ih (fun x hx => h x (List.mem_cons_of_mem _ hx))
      linarith
  have hi : ∀ (s : List Rat) (c : Rat), (∀ x ∈ s, x ≤ c) → sumR s ≤ c * (s.length : Rat) := by
    intro s c h
    induction s with
    | nil => simp [sumR]
    | cons a as ih =>
      simp only [sumR, List.length_cons, Nat.cast_succ]
      have := h a (List.mem_cons_self ..)
      have := ih (fun x hx => h x (List.mem_cons_of_mem _ hx))
      linarith
  unfold meanR
  constructor
  · rw [le_div_iff₀ hn]; exact lo l _ hmin
  · rw [div_le_iff₀ hn]; exact hi l _ hmax

/-- the statistics do not depend on the order in which the workers appended their rows -/
theorem stats_order_independent (l₁ l₂ : List Rat) (h : l₁.Perm l₂) : stats l₁ = stats l₂ := stats_perm_invariant l₁ l₂ h

/-- kernel-evaluated example (numpy's conventions: median of an even count = mean of the two middle values; population variance) -/
theorem stats_example : stats [3, 1, 4, 2] = ⟨1, 4, 5 / 2, 5 / 2, 5 / 4⟩ := by decide +kernel

/-- the statistics describe the *list* of rows (a multiset, by `stats_order_independent`), not the set of distinct rows: iterations that
legitimately produced the same figures (all sampled inputs discrete) each count — a summary over the distinct rows is a different summary -/
theorem repeated_rows_count :
    (stats [2, 2, 2, 5]).mean = 11 / 4 ∧ (stats ([2, 2, 2, 5] : List Rat).eraseDups).mean = 7 / 2 ∧
    (stats [2, 2, 2, 5]).median = 2 ∧ (stats ([2, 2, 2, 5] : List Rat).eraseDups).median = 7 / 2 := by decide +kernel

/-! ## the row as text: what the statistics step reads back is what the worker wrote, in header order -/

/-- **header order survives the round trip**: what `main` reads back from a row, cell by cell, is exactly the list of values `work_package`
put into it — for any number of values and any sampled-input text — provided each value is a blank-trimmed token without comma or parenthesis -/
theorem parse_format_row (vals : List (List Char)) (tail : List Char) (hne : vals ≠ []) (ht : ∀ v ∈ vals, Token v)
    (hp : ∀ v ∈ vals, NoParen v) : parseRowCells (formatRow vals tail) = vals := by
  unfold parseRowCells formatRow
  rw [rowHead_eq vals hne]
  have hj := joined_noOpen vals hp
  have hb : beforeParen ((joined vals ++ [',', ' ']) ++ '(' :: (tail ++ [')'])) = joined vals := by
    have := beforeParen_append (joined vals) (tail ++ [')']) (fun c hc => (hj c hc).1)
    simpa using this
  rw [hb]
  have hf : (joined vals).filter (fun c => c != '(' && c != ')') = joined vals := by
    apply List.filter_eq_self.mpr
    intro c hc
    have := hj c hc
    simp [this.1, this.2]
  rw [hf]
  exact split_joined vals hne ht


/-- together with `row_aligned`: when every requested output is found exactly once, the cells `main` reads from the row text are the
header's cells, one per column, in order -/
theorem row_text_aligned (outs report : List Line) (tail : List Char) (hne : outs ≠ [])
    (h : ∀ o ∈ outs, (getOutput o report).isSome)
    (ht : ∀ v ∈ rowValues outs report, Token v) (hp : ∀ v ∈ rowValues outs report, NoParen v) :
    (parseRowCells (formatRow (rowValues outs report) tail)).map some = rowCells outs report := by
  have hlen := row_aligned_length outs report h
  have hne' : rowValues outs report ≠ [] := by
    intro hnil
    rw [hnil] at hlen
    exact hne (List.length_eq_zero_iff.mp hlen.symm)
  rw [parse_format_row _ tail hne' ht hp]
  exact row_aligned outs report h

/-- kernel-evaluated instance on a real row -/
theorem parse_row_example :
    parseRowCells "3.62e+14, 215.74, (Formation Porosity:14.099034815472761;Reservoir Area:71.8093735367408;)".toList
      = ["3.62e+14".toList, "215.74".toList] := by decide +kernel

/-! ## rows are never torn — without relying on the file lock (which is advisory and racy, see F24) -/

/-- appended rows stay whole under ANY order of the writes, with or without mutual exclusion: the file is the header followed by the rows, each intact -/
theorem appended_rows_whole (header : List Char) (rows : List (List Char)) :
    rows.foldl appendWrite header = header ++ rows.flatten := by
  induction rows generalizing header with
  | nil => simp
  | cons r rs ih => simp [List.foldl_cons, appendWrite, ih, List.append_assoc]

/-- whereas two workers that both looked at the end of the file before either wrote overwrite each other when they write at the position they saw
(kernel-evaluated witness: the second row replaces the first, a fragment of the longer one is left) -/
theorem positioned_writes_tear :
    writeAt (writeAt "h\n".toList 2 "1.50, (a:1;)\n".toList) 2 "2.5, (a:2;)\n".toList = "h\n2.5, (a:2;)\n\n".toList := by decide +kernel

/-- the code does write each row as ONE flushed append: facts read off `work_package` by the translator on every run (the results file is opened in
append mode under the lock, written once per row, flushed, and not otherwise read or repositioned) — so `appended_rows_whole` applies to it -/
theorem row_write_is_single_flushed_append :
    GeoVerif.Generated.mcLockerMode = "a" ∧ GeoVerif.Generated.mcWritesPerRow = 1 ∧ 1 ≤ GeoVerif.Generated.mcFlushes
    ∧ GeoVerif.Generated.mcOtherFileUses = 0 := by decide

end GeoVerif.C14
