import GeoVerif.Model.Paths
/-!
# C20 — All entry points give the same answer

Model (Model/Paths.lean): how the command line turns its arguments into the three paths it touches — the input file, the
report and the JSON — independent of the internal `chdir` into the package directory; the JSON name as derived on the
pinned tree (`str.replace`) and as repaired (`with_suffix`).  That the report *content* is the same through the command
line, the client and the Monte-Carlo driver is the correspondence part of the check (subprocess vs in-process runs).
-/
namespace GeoVerif.C20
open GeoVerif

/-- the report goes to the requested path — relative paths against the directory the user started in — or to
`HDR.out` there; the internal working directory never enters -/
theorem cli_report_path (cwd input : PathS) (o : PathS) :
    (cliPlan cwd input (some o)).report = (if isAbsPath o then o else cwd ++ '/' :: o) ∧
    (cliPlan cwd input none).report = cwd ++ '/' :: "HDR.out".toList := by
  constructor
  · simp [cliPlan, resolvePath]
  · simp [cliPlan, resolvePath, isAbsPath]

theorem cli_absolute_output_kept (cwd input o : PathS) (h : isAbsPath o = true) :
    (cliPlan cwd input (some o)).report = o := by simp [cliPlan, resolvePath, h]

theorem cli_input_resolved (cwd input : PathS) (o : Option PathS) :
    (cliPlan cwd input o).input = (if isAbsPath input then input else cwd ++ '/' :: input) := by
  simp [cliPlan, resolvePath]

/-- the JSON is written next to the report: same directory, stem + `.json` -/
theorem json_is_sibling (out : PathS) (h : out.contains '/' = true) :
    jsonPathFixed out = dirName out ++ '/' :: (stemOf (baseName out) ++ ".json".toList) := by
  unfold jsonPathFixed
  simp only [h, if_true]

/-- the derivation of the pinned tree replaced *every* occurrence of the file name — defect F4 (kernel-evaluated witness):
the report `a.out.d/a.out` got the JSON path `a.json.d/a.json`, in a directory that does not exist -/
theorem pinned_json_path_counterexample :
    jsonPathPinned "a.out.d/a.out".toList = "a.json.d/a.json".toList ∧
    jsonPathFixed "a.out.d/a.out".toList = "a.out.d/a.json".toList := by decide +kernel

/-- on ordinary paths both derivations agree (examples evaluated by the kernel) -/
theorem pinned_and_fixed_agree_on_examples :
    jsonPathPinned "/tmp/run 1/result.out".toList = jsonPathFixed "/tmp/run 1/result.out".toList ∧
    jsonPathPinned "/w/HDR.out".toList = "/w/HDR.json".toList ∧ jsonPathFixed "/w/HDR.out".toList = "/w/HDR.json".toList ∧
    jsonPathFixed "/w/report".toList = "/w/report.json".toList ∧ jsonPathFixed "/w/a.tar.gz".toList = "/w/a.tar.json".toList ∧
    jsonPathFixed "/w/.hidden".toList = "/w/.hidden.json".toList := by decide +kernel

theorem stem_examples :
    stemOf "a.out".toList = "a".toList ∧ stemOf "a".toList = "a".toList ∧ stemOf ".out".toList = ".out".toList ∧
    stemOf "a.b.c".toList = "a.b".toList ∧ baseName "/x/y/z.out".toList = "z.out".toList ∧ dirName "/x/y/z.out".toList = "/x/y".toList := by
  decide +kernel

end GeoVerif.C20
