import GeoVerif.Model.Units
import GeoVerif.Generated.Units
import Mathlib.Tactic.FieldSimp
import Mathlib.Tactic.Ring
import Mathlib.Tactic.Linarith

/-!
# C06 — results do not depend on the units in which inputs are written

Theorems over `Model/Units.lean`.  `toBase u x` is the physical quantity (in SI base units) that "x u" denotes.
-/
namespace GeoVerif.C06
open GeoVerif.Units

/-- conversion preserves the denoted quantity -/
theorem convert_denotes (u v : U) (hv : v.scale ≠ 0) (x : Rat) : toBase v (convert u v x) = toBase u x := by
  unfold convert toBase fromBase
  field_simp
  ring

theorem convert_self (u : U) (hu : u.scale ≠ 0) (x : Rat) : convert u u x = x := by
  unfold convert toBase fromBase
  field_simp
  ring

theorem convert_trans (u v w : U) (hv : v.scale ≠ 0) (x : Rat) : convert v w (convert u v x) = convert u w x := by
  unfold convert
  rw [show toBase v (fromBase v (toBase u x)) = toBase u x from convert_denotes u v hv x]

theorem convert_round_trip (u v : U) (hu : u.scale ≠ 0) (hv : v.scale ≠ 0) (x : Rat) : convert v u (convert u v x) = x := by
  rw [convert_trans u v u hv, convert_self u hu]

/-- two numbers denote the same quantity in `v` only if they are equal -/
theorem toBase_injective (v : U) (hv : v.scale ≠ 0) (x y : Rat) (h : toBase v x = toBase v y) : x = y := by
  unfold toBase at h
  have : v.scale * x = v.scale * y := by linarith
  exact mul_left_cancel₀ hv this

/-- **first clause, reader level**: whatever catalogue unit the user writes the value in, the reader stores the same
number as for the equivalent value written in the declared unit -/
theorem read_unit_invariant (declCur given : U) (hd : declCur.scale ≠ 0) (x x0 : Rat)
    (hsame : toBase given x = toBase declCur x0) :
    (readFixed declCur given x).value = x0 ∧ (readPinned declCur given true x).value = x0 ∧ (readPinned declCur given false x).value = x0 := by
  have h : convert given declCur x = x0 := by
    apply toBase_injective declCur hd
    rw [convert_denotes given declCur hd, hsame]
  exact ⟨h, h, h⟩

/-- the repaired reader leaves a consistent state: the stored number *in the recorded unit* is the quantity the user wrote -/
theorem read_state_consistent (declCur given : U) (hd : declCur.scale ≠ 0) (x : Rat) :
    toBase (readFixed declCur given x).cur (readFixed declCur given x).value = toBase given x := by
  simp only [readFixed]
  exact convert_denotes given declCur hd x

/-- **echo clause**: the echoed number with the preferred unit denotes the quantity the user supplied -/
theorem echo_faithful (pref declCur given : U) (hp : pref.scale ≠ 0) (hd : declCur.scale ≠ 0) (x : Rat) :
    toBase pref (echo pref (readFixed declCur given x)) = toBase given x := by
  unfold echo
  rw [convert_denotes _ pref hp]
  exact read_state_consistent declCur given hd x

/-- on the pinned tree the echo is faithful when the catalogue lookup of the converted unit succeeds (lengths, pressures, power) … -/
theorem echo_pinned_faithful_when_lookup_found (pref declCur given : U) (hp : pref.scale ≠ 0) (hd : declCur.scale ≠ 0) (x : Rat) :
    toBase pref (echo pref (readPinned declCur given true x)) = toBase given x := by
  unfold echo
  rw [convert_denotes _ pref hp]
  simp only [readPinned, if_true]
  exact convert_denotes given declCur hd x

/-- … and in general only at fixed points of the conversion: the number is converted a second time -/
theorem echo_pinned_is_double_conversion (pref given : U) (x : Rat) :
    echo pref (readPinned pref given false x) = convert given pref (convert given pref x) := rfl

/-- F8 witness (pinned tree): `Injection Temperature, 122 degF` is stored as 50 degC and echoed as 10 degC -/
theorem echo_pinned_counterexample :
    (readPinned Atom.degC.u Atom.degF.u false 122).value = 50 ∧ echo Atom.degC.u (readPinned Atom.degC.u Atom.degF.u false 122) = 10
    ∧ echo Atom.degC.u (readFixed Atom.degC.u Atom.degF.u 122) = 50 := by decide +kernel

/-- a declaration whose current unit differs from its preferred unit stores a number that is *not* in preferred units
(witness: `Well Separation`, declared current unit metre … preferred unit ft on the pinned tree; 1000 m is stored as 1000) -/
theorem read_declared_mismatch_witness :
    (readFixed Atom.meter.u Atom.meter.u 1000).value = 1000 ∧ toBase Atom.ft.u 1000 ≠ toBase Atom.meter.u 1000 := by decide +kernel

/-! ## currency prefixes -/

theorem prefix_mult_ne_zero (p : Prefix) : p.mult ≠ 0 := by cases p <;> decide +kernel

/-- repaired input path: the amount of money is preserved for every prefix pair -/
theorem currency_prefix_correct (cur pref : Prefix) (x : Rat) : pref.mult * currencyReadFixed cur pref x = cur.mult * x := by
  have hc := prefix_mult_ne_zero cur
  have hp := prefix_mult_ne_zero pref
  unfold currencyReadFixed currencyFactorPinned
  field_simp

/-- the output path is right as it stands: shown value × its prefix = held value × preferred prefix -/
theorem currency_show_correct (pref shown : Prefix) (x : Rat) : shown.mult * currencyShow pref shown x = pref.mult * x := by
  have hs := prefix_mult_ne_zero shown
  unfold currencyShow
  field_simp

/-- F6 witness (pinned tree): `0.005 KUSD` for a parameter held in MUSD is read as 5 (million), the repaired path reads 5000 KUSD as 5 -/
theorem currency_pinned_counterexample :
    currencyReadPinned .K .M (5 / 1000) = 5 ∧ currencyReadFixed .K .M 5000 = 5 ∧ currencyReadPinned .K .M 5000 = 5000000 := by decide +kernel

/-- the pinned factor is right only when both prefixes agree -/
theorem currency_pinned_right_iff (cur pref : Prefix) (x : Rat) (hx : x ≠ 0) :
    pref.mult * currencyReadPinned cur pref x = cur.mult * x ↔ cur = pref := by
  cases cur <;> cases pref <;> simp [currencyReadPinned, currencyFactorPinned, Prefix.mult] <;>
    (intro h; apply hx; linarith)

/-! ## output-units directive -/

/-- the displayed value denotes the same quantity under the requested label -/
theorem output_conversion_denotes (cur v : U) (hv : v.scale ≠ 0) (x : Rat) : toBase v (convertOutput cur v x) = toBase cur x :=
  convert_denotes cur v hv x

/-- for multiplicative units the displayed value is the computed value times the exact factor `cur.scale / v.scale` -/
theorem output_conversion_exact (cur v : U) (hv : v.scale ≠ 0) (h0 : cur.offset = 0) (h0' : v.offset = 0) (x : Rat) :
    convertOutput cur v x = x * (cur.scale / v.scale) := by
  unfold convertOutput convert toBase fromBase
  rw [h0, h0']
  field_simp
  ring

/-- converting for display and back changes nothing (the writer restores working units after printing) -/
theorem output_round_trip (cur v : U) (hc : cur.scale ≠ 0) (hv : v.scale ≠ 0) (x : Rat) :
    convertOutput v cur (convertOutput cur v x) = x := convert_round_trip cur v hc hv x

/-! ## the catalogue and the declarations, as regenerated from the source on every run -/

/-- catalogue members the property's quantifier excludes ("dimensionally convertible"): another currency (needs an exchange rate), a different
dimension than the class's first member, or text that is not a product of known unit atoms (angles have an irrational factor, outside `Rat`) -/
def notConvertible : List String :=
  ["degrees", "radians", "MEUR", "KEUR", "EUR", "MMXN", "KMXN", "MXN", "MEUR/yr", "KEUR/yr", "EUR/yr", "MXN/yr", "KMXN/yr",
   "USD/kW", "cents/kW", "USD/MCF", "kWh/MCF", "cents/mt", "USD/mt", "1/year", "kJ/km**3C", "kJ/kgC", "GPa.s/m**3", "k/kWh", "kW/t", "PaSec"]

/-- every other member of every unit class used by an input parameter is a product of atoms the model defines, of the class's dimension —
so renaming a catalogue unit into something that no longer parses, or moving it to a class of another dimension, breaks this obligation -/
theorem catalogue_coherent :
    (GeoVerif.Generated.unitClasses.filter (·.usedByInput)).all (classCoherent notConvertible) = true := by decide +kernel

/-- the listed exclusions are really needed (none of them resolves to a unit convertible with its class): the list cannot silently grow stale -/
theorem notConvertible_tight :
    GeoVerif.Generated.unitClasses.all (fun c => c.members.all (fun m => !(notConvertible.contains m.name) || !(classCoherent [] { c with members := c.members.filter (fun m' => m'.name = m.name || (c.members.head?.map (·.name) = some m'.name)) }))) = true := by
  decide +kernel

/-- float inputs declared with a current unit different from the preferred one (the reader converts to the *current* unit, the range and
the calculations assume the *preferred* one): exactly the three known ones (finding F22) -/
theorem declared_units_consistent :
    GeoVerif.Generated.declaredUnitMismatch = ["Circulation Pump Efficiency", "Inflation Rate During Construction", "Well Separation"] := by decide +kernel

/-! ## sanity of the SI table (kernel-evaluated) -/

theorem si_examples :
    convert Atom.ft.u Atom.meter.u 10000 = 3048
    ∧ convert Atom.degF.u Atom.degC.u 212 = 100 ∧ convert Atom.kelvin.u Atom.degC.u (27315 / 100) = 0
    ∧ convert Atom.bar.u Atom.kPa.u 1 = 100
    ∧ convert (evalExpr [(.pound, 1), (.ft, -3)]) (evalExpr [(.kilogram, 1), (.meter, -3)]) 1 = 45359237 / 100000000 / ((3048 / 10000) * (3048 / 10000) * (3048 / 10000))
    ∧ convert (evalExpr [(.degC, 1), (.meter, -1)]) (evalExpr [(.degC, 1), (.kilometer, -1)]) (5 / 100) = 50
    ∧ convert Atom.percent.u Atom.one.u 7 = 7 / 100 := by decide +kernel

/-- every atom has a non-zero scale (so every conversion between convertible units is a bijection) -/
theorem atom_scale_ne_zero (a : Atom) : a.u.scale ≠ 0 := by cases a <;> decide +kernel

/-- non-vacuity: the hypotheses of the reader theorems are met by real catalogue units -/
example : toBase Atom.degF.u 122 = toBase Atom.degC.u 50 ∧ Atom.degC.u.scale ≠ 0 := by decide +kernel

end GeoVerif.C06
