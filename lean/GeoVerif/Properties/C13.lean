import GeoVerif.Model.MCSchedule
import Mathlib.Tactic.Linarith
import Mathlib.Tactic.NormNum
import Mathlib.Data.List.Basic
import Mathlib.Data.List.Nodup
import Mathlib.Algebra.Order.Field.Rat

/-!
# C13 — Monte-Carlo iterations are independent draws from the requested distributions

For every pool size, every number of iterations and every assignment / interleaving of tasks to workers (the schedule is an
arbitrary list of worker indices).
-/
namespace GeoVerif.C13
open GeoVerif.MC

def Overlap (a b : Sample) : Prop :=
  a.seed = b.seed ∧ a.start < b.start + b.len ∧ b.start < a.start + a.len

/-- seeds of the pool are pairwise distinct (what re-seeding from OS entropy provides; checked on the real pool by the hook log) -/
def FreshSeeds (pool : List Worker) : Prop := (pool.map (·.seed)).Nodup

theorem seeds_set (pool : List Worker) (w : Nat) (wk : Worker) (d : Nat) (hw : pool[w]? = some wk) :
    (pool.set w { wk with pos := wk.pos + d }).map (·.seed) = pool.map (·.seed) := by
  have hwk : pool[w]'(by rcases List.getElem?_eq_some_iff.mp hw with ⟨h, _⟩; exact h) = wk := by
    rcases List.getElem?_eq_some_iff.mp hw with ⟨_, h⟩; exact h
  apply List.ext_getElem
  · simp
  · intro i h1 h2
    simp only [List.getElem_map, List.getElem_set]
    split
    · rename_i h; subst h; simp [hwk]
    · rfl

/-- every sample produced from a pool state starts at or after the current position of the (unique) worker on its stream -/
theorem later_samples_after (d : Nat) (pool : List Worker) (ws : List Nat) :
    ∀ s ∈ runSchedule d pool ws, ∃ wk ∈ pool, wk.seed = s.seed ∧ wk.pos ≤ s.start ∧ s.len = d := by
  induction ws generalizing pool with
  | nil => intro s hs; simp [runSchedule] at hs
  | cons w ws ih =>
    intro s hs
    unfold runSchedule at hs
    unfold runTask at hs
    cases hw : pool[w]? with
    | none =>
      simp only [hw] at hs
      exact ih pool s hs
    | some wk =>
      simp only [hw] at hs
      have hwlt : w < pool.length := by
        rcases List.getElem?_eq_some_iff.mp hw with ⟨h, _⟩; exact h
      have hwk : pool[w] = wk := by
        rcases List.getElem?_eq_some_iff.mp hw with ⟨_, h⟩; exact h
      rcases List.mem_cons.mp hs with h | h
      · subst h
        exact ⟨wk, by rw [← hwk]; exact List.getElem_mem hwlt, rfl, le_refl _, rfl⟩
      · obtain ⟨wk', hmem, hseed, hpos, hlen⟩ := ih _ s h
        rcases List.mem_iff_getElem.mp hmem with ⟨i, hi, hget⟩
        simp only [List.getElem_set] at hget
        split at hget
        · subst hget
          exact ⟨wk, by rw [← hwk]; exact List.getElem_mem hwlt, hseed, by simp at hpos; omega, hlen⟩
        · exact ⟨wk', by rw [← hget]; exact List.getElem_mem (by simpa using hi), hseed, hpos, hlen⟩

/-- in a pool with pairwise distinct seeds a seed identifies its worker -/
theorem worker_of_seed (pool : List Worker) (hf : FreshSeeds pool) (a b : Worker) (ha : a ∈ pool) (hb : b ∈ pool)
    (hs : a.seed = b.seed) : a = b := by
  unfold FreshSeeds at hf
  rcases List.mem_iff_getElem.mp ha with ⟨i, hi, rfl⟩
  rcases List.mem_iff_getElem.mp hb with ⟨j, hj, rfl⟩
  have := (List.Nodup.getElem_inj_iff hf (i := i) (j := j) (hi := by simpa using hi) (hj := by simpa using hj)).mp (by simpa using hs)
  subst this; rfl

/-- **draws are never replicated**: with pairwise distinct worker seeds no two iterations of any schedule consume overlapping
stream positions — whatever the number of workers and however the pool assigns and interleaves the tasks -/
theorem disjoint_draws (d : Nat) (pool : List Worker) (ws : List Nat) (hf : FreshSeeds pool) :
    (runSchedule d pool ws).Pairwise (fun a b => ¬ Overlap a b) := by
  induction ws generalizing pool with
  | nil => simp [runSchedule]
  | cons w ws ih =>
    unfold runSchedule runTask
    cases hw : pool[w]? with
    | none => simpa [hw] using ih pool hf
    | some wk =>
      simp only [hw]
      have hwlt : w < pool.length := by
        rcases List.getElem?_eq_some_iff.mp hw with ⟨h, _⟩; exact h
      have hf' : FreshSeeds (pool.set w { wk with pos := wk.pos + d }) := by
        unfold FreshSeeds at *
        rw [seeds_set pool w wk d hw]; exact hf
      refine List.pairwise_cons.mpr ⟨?_, ih _ hf'⟩
      intro s hs ⟨hseed, h1, h2⟩
      obtain ⟨wk', hmem, hseed', hpos, hlen⟩ := later_samples_after d _ ws s hs
      -- the worker on that stream in the updated pool is the updated `wk`
      have hupd : ({ wk with pos := wk.pos + d } : Worker) ∈ pool.set w { wk with pos := wk.pos + d } :=
        List.mem_iff_getElem.mpr ⟨w, by simpa using hwlt, by simp⟩
      have : wk' = { wk with pos := wk.pos + d } :=
        worker_of_seed _ hf' _ _ hmem hupd (by simp [hseed', ← hseed])
      subst this
      simp at hpos h1 h2
      omega

/-- the same, as distinct sample vectors: for a generator that never repeats a number (`stream` injective — the ideal-PRNG
assumption for continuous distributions) and at least one drawn input, all iterations' sample vectors differ -/
theorem distinct_samples {α : Type} (stream : Nat → Nat → α) (hinj : ∀ s p s' p', stream s p = stream s' p' → s = s' ∧ p = p')
    (d : Nat) (hd : 0 < d) (pool : List Worker) (ws : List Nat) (hf : FreshSeeds pool) :
    ((runSchedule d pool ws).map (Sample.values stream)).Pairwise (· ≠ ·) := by
  rw [List.pairwise_map]
  have hlen : ∀ s ∈ runSchedule d pool ws, s.len = d := fun s hs => by
    obtain ⟨_, _, _, _, h⟩ := later_samples_after d pool ws s hs; exact h
  have hdis := disjoint_draws d pool ws hf
  -- strengthen Pairwise with membership facts
  have : (runSchedule d pool ws).Pairwise (fun a b => a.len = d → b.len = d → Sample.values stream a ≠ Sample.values stream b) := by
    refine hdis.imp ?_
    intro a b hno ha hb heq
    apply hno
    have h0 : (Sample.values stream a)[0]? = (Sample.values stream b)[0]? := by rw [heq]
    simp only [Sample.values, List.getElem?_map, List.getElem?_range, ha, hb, hd, ↓reduceIte, Option.map_some, Nat.add_zero, Option.some.injEq] at h0
    obtain ⟨hs, hp⟩ := hinj _ _ _ _ h0
    exact ⟨hs, by omega, by omega⟩
  exact (List.Pairwise.and_mem.mp this).imp (fun ⟨ha, hb, h⟩ => h (hlen _ ha) (hlen _ hb)) |>.imp id

/-- **pinned behaviour (F3)**: when forked workers inherit the parent's generator unchanged, the first task of any worker draws
exactly the positions the first task of any other worker draws -/
theorem inherited_state_duplicates (parent : Worker) (n d : Nat) (w₁ w₂ : Nat) (h1 : w₁ < n) (h2 : w₂ < n) (hne : w₁ ≠ w₂) :
    runSchedule d (poolInherited parent n) [w₁, w₂] = [⟨parent.seed, parent.pos, d⟩, ⟨parent.seed, parent.pos, d⟩] := by
  simp [runSchedule, runTask, poolInherited, h1, h2, List.getElem?_set, hne, List.getElem?_replicate]

/-- the re-seeded pool satisfies the freshness hypothesis exactly when the seeds handed out are pairwise distinct -/
theorem reseeded_fresh (seeds : List Nat) (h : seeds.Nodup) : FreshSeeds (poolReseeded seeds) := by
  unfold FreshSeeds poolReseeded
  simpa [List.map_map, Function.comp_def] using h

/-! ## support of the sampled values -/

theorem uniform_in_support (a b u : Rat) (hab : a < b) (h0 : 0 ≤ u) (h1 : u < 1) :
    a ≤ uniformOf a b u ∧ uniformOf a b u < b := by
  unfold uniformOf
  constructor
  · nlinarith
  · nlinarith

/-- triangular(left, mode, right), lower branch of the inverse CDF: `left + y` with `y² = u·(right-left)·(mode-left)`, `u ≤ (mode-left)/(right-left)` -/
theorem triangular_lower_in_support (l m r u y : Rat) (hlm : l < m) (hmr : m ≤ r) (hu0 : 0 ≤ u) (hu : u * (r - l) ≤ (m - l))
    (hy0 : 0 ≤ y) (hy : y * y = u * (r - l) * (m - l)) : l ≤ l + y ∧ l + y ≤ m := by
  constructor
  · linarith
  · by_contra hgt
    rw [not_le] at hgt
    have h1 : m - l < y := by linarith
    have h2 : (m - l) * (m - l) < y * y := by nlinarith
    have h3 : u * (r - l) * (m - l) ≤ (m - l) * (m - l) := by nlinarith
    linarith

theorem binomial_in_support (trials : List Bool) : binomialOf trials ≤ trials.length := by
  unfold binomialOf
  exact List.length_filter_le _ _

/-! ## one row per successfully simulated iteration -/

theorem one_row_per_success {ρ : Type} (completed : List (Outcome ρ)) :
    (resultRows completed).length = (completed.filter Option.isSome).length := by
  induction completed with
  | nil => rfl
  | cons o os ih => cases o <;> simp [resultRows, List.filterMap_cons] at ih ⊢ <;> omega

theorem all_succeed_all_rows {ρ : Type} (completed : List (Outcome ρ)) (h : ∀ o ∈ completed, o.isSome) :
    (resultRows completed).length = completed.length := by
  rw [one_row_per_success, List.filter_eq_self.mpr h]

/-- non-vacuity: a 3-worker pool, 5 tasks in an interleaved schedule -/
example : runSchedule 2 (poolReseeded [11, 22, 33]) [0, 1, 0, 2, 1] =
    [⟨11, 0, 2⟩, ⟨22, 0, 2⟩, ⟨11, 2, 2⟩, ⟨33, 0, 2⟩, ⟨22, 2, 2⟩] := by decide

end GeoVerif.C13
