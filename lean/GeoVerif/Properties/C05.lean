import GeoVerif.Lemmas.C05
/-!
# C05 — Resource temperature and thermal drawdown obey the model definition

Models (Model/Reservoir.lean): the layer walk `tempAt` / `maxDepth` / `trock` as structural recursions over the list of
(gradient, thickness) pairs with an unbounded bottom layer, the depth cap, the magnitude heuristics applied on reading,
the percentage-drawdown profile `tdpAt`, a weighted profile `weightedAt` (single fracture: weight = erf(c/√t)), and
redrilling by tiling (`firstBelow` with `np.argmax` semantics, `tileTo`, `redrill`).
All statements hold for every number of layers, every depth, every series length.
-/
namespace GeoVerif.C05
open GeoVerif

/-- bottom-hole temperature = surface temperature + integral of the segment gradients down to the capped depth -/
theorem trock_is_integral (t0 tmax depth : Rat) (l : List (Rat × Rat)) :
    trock t0 tmax depth l = tempAt t0 l (cappedDepth t0 tmax depth l) := trock_eq_tempAt_capped t0 tmax depth l

/-- the depth is reduced exactly as needed: capped depth = min(depth, depth at which Tmax is reached) -/
theorem depth_capped (t0 tmax depth : Rat) (l : List (Rat × Rat)) :
    cappedDepth t0 tmax depth l = min depth (maxDepth t0 tmax l) := cappedDepth_eq_min t0 tmax depth l

/-- at the cap depth the temperature is exactly the maximum temperature … -/
theorem temp_at_cap (l : List (Rat × Rat)) (hne : l ≠ []) (hl : PosLayers l) (t0 tmax : Rat) (h : t0 ≤ tmax) :
    tempAt t0 l (maxDepth t0 tmax l) = tmax := tempAt_maxDepth l hne hl t0 tmax h

/-- … hence bottom-hole temperature never exceeds the maximum allowed temperature -/
theorem trock_le_tmax (l : List (Rat × Rat)) (hne : l ≠ []) (hl : PosLayers l) (t0 tmax depth : Rat) (h : t0 ≤ tmax) :
    trock t0 tmax depth l ≤ tmax := GeoVerif.trock_le_tmax l hne hl t0 tmax depth h

/-- single segment: surface temperature + gradient × depth -/
theorem single_segment (t0 g th z : Rat) : tempAt t0 [(g, th)] z = t0 + g * z := rfl

/-- two segments: the second gradient applies below the first thickness -/
theorem two_segments (t0 g1 th1 g2 th2 z : Rat) (hz : th1 < z) :
    tempAt t0 [(g1, th1), (g2, th2)] z = t0 + g1 * th1 + g2 * (z - th1) := by
  simp [tempAt, not_le.mpr hz]

/-- the gradient heuristic never yields a non-positive gradient -/
theorem gradient_positive (g : Rat) : 0 < normGradient g := normGradient_pos g
theorem gradient_per_metre_kept (g : Rat) (h1 : 1 / 1000000 ≤ g) (h2 : g ≤ 1) : normGradient g = g := normGradient_id g h1 h2
theorem gradient_per_km_converted (g : Rat) (h : 1 < g) : normGradient g = g / 1000 := normGradient_per_km g h

/-- percentage-drawdown model: starts at bottom-hole temperature, never rises, never exceeds it -/
theorem tdp_starts_at_bht (p trock tinj : Rat) : tdpAt p trock tinj 0 = trock := tdp_start p trock tinj
theorem tdp_antitone (p trock tinj t t' : Rat) (hp : 0 ≤ p) (hT : tinj ≤ trock) (ht : t ≤ t') :
    tdpAt p trock tinj t' ≤ tdpAt p trock tinj t := tdp_antitone_time p trock tinj t t' hp hT ht
theorem tdp_le_bht (p trock tinj t : Rat) (hp : 0 ≤ p) (hT : tinj ≤ trock) (ht : 0 ≤ t) :
    tdpAt p trock tinj t ≤ trock := tdp_le_trock p trock tinj t hp hT ht

/-- single-fracture model, given that its weight erf(c/√t) lies in [0,1] and does not increase with time (properties of
`erf` and `√` — trusted, see DESIGN §5): temperature ≤ bottom-hole temperature and non-increasing -/
theorem sf_le_bht (w trock tinj : Rat) (hw : w ≤ 1) (hT : tinj ≤ trock) : weightedAt w trock tinj ≤ trock :=
  weighted_le_trock w trock tinj hw hT
theorem sf_antitone (w w' trock tinj : Rat) (hw : w' ≤ w) (hT : tinj ≤ trock) :
    weightedAt w' trock tinj ≤ weightedAt w trock tinj := weighted_mono w w' trock tinj hw hT

/-- after redrilling the production temperature never falls below the drawdown limit (that fraction of its initial
value) — unless already the first sample is below it, which needs a negative initial temperature -/
theorem tiling_respects_limit (xs : List Rat) (dd : Rat) (j : Nat) (hj : j < xs.length) :
    ¬ (redrill xs dd).1.getD j 0 < (1 - dd) * xs.headD 0 ∨ firstBelowFrom ((1 - dd) * xs.headD 0) xs = some 0 :=
  redrill_respects_limit xs dd j hj

/-- the profile restarts from its beginning at each redrilling; the count is ⌊n / k⌋ -/
theorem tiling_restarts (xs : List Rat) (dd : Rat) (k : Nat) (hk : 0 < k)
    (hfb : firstBelowFrom ((1 - dd) * xs.headD 0) xs = some k) (j : Nat) (hj : j < xs.length) :
    (redrill xs dd).1.getD j 0 = xs.getD (j % k) 0 ∧ (redrill xs dd).2 = xs.length / k :=
  redrill_restarts xs dd k hk hfb j hj

theorem no_redrilling_when_limit_not_reached (xs : List Rat) (dd : Rat)
    (h : firstBelowFrom ((1 - dd) * xs.headD 0) xs = none) : redrill xs dd = (xs, 0) := redrill_none xs dd h

/-- non-vacuity -/
example : redrill [100, 95, 90, 85, 80, 75] (1/10) = ([100, 95, 90, 100, 95, 90], 2) := by decide +kernel
example : trock 15 200 3000 [(1/20, 1000), (1/10, 100000)] = 200 := by decide +kernel
example : trock 15 400 3000 [(1/20, 1000), (1/10, 100000)] = 265 := by decide +kernel

end GeoVerif.C05
