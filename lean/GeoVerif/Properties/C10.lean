import GeoVerif.Model.ClientParse
import GeoVerif.Lemmas.C10
import GeoVerif.Lemmas.RoundTrip
import GeoVerif.Lemmas.Ambiguity
import GeoVerif.Generated.Labels

/-!
# C10 — the client returns exactly what the report says
-/
namespace GeoVerif.C10
open GeoVerif GeoVerif.Client

/-- **same structure on every invocation / hash seed**: the set's `pop()` may return any matching line; when all matching
lines carry the same value and unit, every choice gives the same field -/
theorem field_choice_irrelevant (indent : Nat) (name : Line) (lines : List Line)
    (hsame : ∀ l₁ ∈ matching indent name lines, ∀ l₂ ∈ matching indent name lines, valueUnit name l₁ = valueUnit name l₂)
    (choose₁ choose₂ : List Line → Option Line)
    (h₁ : ∀ ms, ms ≠ [] → ∃ l ∈ ms, choose₁ ms = some l) (h₂ : ∀ ms, ms ≠ [] → ∃ l ∈ ms, choose₂ ms = some l) :
    getField choose₁ indent name lines = getField choose₂ indent name lines := by
  unfold getField
  cases hm : matching indent name lines with
  | nil => rfl
  | cons m ms =>
    simp only []
    have hne : (m :: ms).eraseDups ≠ [] := by
      intro h
      have : m ∈ (m :: ms).eraseDups := List.mem_eraseDups.mpr (List.mem_cons_self ..)
      rw [h] at this; exact absurd this (List.not_mem_nil)
    obtain ⟨l₁, hl₁, e₁⟩ := h₁ _ hne
    obtain ⟨l₂, hl₂, e₂⟩ := h₂ _ hne
    rw [e₁, e₂]
    have m₁ : l₁ ∈ matching indent name lines := by rw [hm]; exact List.mem_eraseDups.mp hl₁
    have m₂ : l₂ ∈ matching indent name lines := by rw [hm]; exact List.mem_eraseDups.mp hl₂
    simp [hsame l₁ m₁ l₂ m₂]

/-- the answer is always read off one of the matching lines (never "from another line") -/
theorem field_from_matching_line (choose : List Line → Option Line) (hch : ∀ ms l, choose ms = some l → l ∈ ms)
    (indent : Nat) (name : Line) (lines : List Line) (r : Line × Option Line)
    (h : getField choose indent name lines = some r) :
    ∃ l ∈ lines, isInfix (marker indent name) l = true ∧ r = valueUnit name l := by
  unfold getField at h
  cases hm : matching indent name lines with
  | nil => simp [hm] at h
  | cons m ms =>
    simp only [hm] at h
    cases hc : choose (m :: ms).eraseDups with
    | none => simp [hc] at h
    | some l =>
      simp [hc] at h
      have hl : l ∈ matching indent name lines := by rw [hm]; exact List.mem_eraseDups.mp (hch _ _ hc)
      unfold matching at hl
      rcases List.mem_filter.mp hl with ⟨hmem, hinf⟩
      exact ⟨l, hmem, hinf, h.symm⟩

/-- **no shifted column, no dropped cell**: splitting a table row on blank runs recovers every cell, whatever the widths
of the separating runs (i.e. also when figures overflow their columns), provided cells are non-empty and blank-free -/
theorem row_round_trip (lead : List Char) (hl : Blank lead) (cells : List (List Char × List Char))
    (hc : ∀ p ∈ cells, Solid p.1)
    (hsep : ∀ i (h : i + 1 < cells.length), (cells[i]'(by omega)).2 ≠ [] ∧ Blank (cells[i]'(by omega)).2)
    (hlast : ∀ p ∈ cells, Blank p.2) :
    splitWs (renderRow lead cells) = cells.map (·.1) :=
  GeoVerif.row_round_trip lead hl cells hc hsep hlast

/-- kernel-evaluated field examples: ordinary line, figure overflowing its column, value without unit, `Number…` field,
a label that is a substring of another line's label but not at the required indentation -/
theorem field_examples :
    valueUnit "Electricity breakeven price".toList "      Electricity breakeven price:                           15.56 cents/kWh\n".toList
      = ("15.56".toList, some "cents/kWh".toList)
    ∧ valueUnit "Project NPV".toList "      Project NPV:                                  -1234567890.12 MUSD\n".toList = ("-1234567890.12".toList, some "MUSD".toList)
    ∧ valueUnit "Project MOIC".toList "      Project MOIC:                                         -0.51\n".toList = ("-0.51".toList, none)
    ∧ valueUnit "Number of Production Wells".toList "      Number of Production Wells:                             2\n".toList = ("2".toList, some "count".toList)
    ∧ matching 4 "Total capital costs".toList ["      Total capital costs:    42.21 MUSD\n".toList, "   Adjusted Total capital costs:    1.00 MUSD\n".toList]
      = ["      Total capital costs:    42.21 MUSD\n".toList] := by decide +kernel

/-- the number parser: `N/A` ↦ none, thousands separators ignored, `.` ↦ decimal, otherwise integer, garbage ↦ none -/
theorem parse_number_spec :
    parseNumber "N/A".toList = .none ∧ parseNumber "1,234,567.80".toList = .dec false "1234567".toList "80".toList
    ∧ parseNumber "-0.51".toList = .dec true "0".toList "51".toList ∧ parseNumber "30".toList = .int false "30".toList
    ∧ parseNumber "-4".toList = .int true "4".toList ∧ parseNumber "1e5".toList = .none ∧ parseNumber "".toList = .none := by decide +kernel

/-- a field line whose two copies differ in their figure is a genuine ambiguity: the candidates differ -/
theorem ambiguous_label_witness :
    fieldCandidates 4 "Well depth".toList ["      Well depth:   3.0 kilometer\n".toList, "      Well depth:   3.5 kilometer\n".toList]
      = [("3.0".toList, some "kilometer".toList), ("3.5".toList, some "kilometer".toList)] := by decide +kernel

/-! ## end to end with the writer (C09): what the client returns for a printed figure -/

/-- for every computed value `x` and every display precision `d > 0`: the client's number parser, applied to the text the report writer
prints for `x`, returns a decimal with the sign of `x` whose digit strings denote exactly `x` rounded half-to-even to `d` decimals
(integer part · 10^d + fraction part = round(|x|·10^d)), with exactly `d` fraction digits — never another number -/
theorem client_reads_rounded_value (d : Nat) (hd : 0 < d) (x : Rat) :
    ∃ ip fp : List Nat,
      parseNumber (fmtF d x) = .dec (decide (x < 0)) (ip.map digitChar) (fp.map digitChar)
      ∧ ofDigitsMsd ip * 10 ^ d + ofDigitsMsd fp = roundHalfEvenNat (if x < 0 then -x else x) d
      ∧ fp.length = d ∧ 1 ≤ ip.length := by
  refine ⟨(fixedDigits d (roundHalfEvenNat (if x < 0 then -x else x) d)).1, (fixedDigits d (roundHalfEvenNat (if x < 0 then -x else x) d)).2, ?_, ?_⟩
  · unfold fmtF
    exact parse_render _ d _ hd
  · exact fixedDigits_value d _

/-- kernel-evaluated instance: 1234.565 at two decimals (a tie, to even) and a negative value -/
theorem client_reads_examples :
    parseNumber (fmtF 2 (1234565 / 1000)) = .dec false "1234".toList "56".toList
    ∧ parseNumber (fmtF 2 (-51 / 100)) = .dec true "0".toList "51".toList
    ∧ parseNumber (fmtF 0 7) = .int false "7".toList := by decide +kernel

/-! ## never a value taken from another line — for every report line of the standard shape, by tables regenerated from the writers and the client -/

/-- kernel-decided over the regenerated tables: every client field name is non-empty without a leading blank; every label the writers
can print (static labels from the AST of `Outputs*.py`, display names and names of all parameters) has no leading blank, and nothing a
marker could pick up from its line besides the label itself — what follows a run of four blanks, what precedes an inner `": "` — is a client field -/
theorem labels_safe : labelsSafe GeoVerif.Generated.clientFieldChars GeoVerif.Generated.writerLabelChars = true := by decide +kernel

/-- hence: for every client field `a`, every writer label `b`, any indentation and any colon-free figure text, the client's marker for `a`
matches the line `<blanks>b: <figure>` only if `a` is `b` — a field can never be filled from a line that carries another label -/
theorem field_never_from_another_label (a b : List Char) (ha : a ∈ GeoVerif.Generated.clientFieldChars) (hb : b ∈ GeoVerif.Generated.writerLabelChars)
    (sp rest : List Char) (hsp : AllSp sp) (hrest : ∀ c ∈ rest, c ≠ ':')
    (hm : isInfix (marker 4 a) (sp ++ b ++ ':' :: ' ' :: rest) = true) : a = b :=
  unambiguous_of_labelsSafe _ _ labels_safe a b ha hb sp rest hsp hrest hm

end GeoVerif.C10
