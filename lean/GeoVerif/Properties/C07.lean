import GeoVerif.Lemmas.C07
import GeoVerif.Generated.Params
/-!
# C07 — Out-of-range and invalid inputs are rejected, never silently altered

Models (Model/ReadParam.lean): `PyFloat` = what `float(s)` can produce, with IEEE comparison semantics; `readFloat` /
`readInt` = the float / int branches of `Parameter.ReadParameter` (default-equals, unchanged-equals, range / membership
tests in the code's order).  `Generated/Params.lean` holds every float and integer declaration of every module class
in every configuration family, re-extracted from the repository on every run.
The theorems hold for **every** declaration (any Min, Max, default, allowable set) and every value.
-/
namespace GeoVerif.C07
open GeoVerif

/-- a value below Min or above Max is rejected; the error message names the parameter -/
theorem float_rejects_outside (min max dflt : Option Rat) (name : String) (st : FloatState) (v : Rat)
    (hcur : st.value ≠ .fin v) (hout : (∃ a, min = some a ∧ v < a) ∨ (∃ b, max = some b ∧ b < v)) :
    readFloat min max dflt name st (.fin v) = .error (errMsg (.fin v) name) ∧
    errMsg (.fin v) name = ("Error: Parameter given (" ++ reprStr (PyFloat.fin v) ++ ") for ") ++ name ++ " outside of valid range." :=
  ⟨readFloat_rejects_outside min max dflt name st v hcur hout, rfl⟩

/-- values exactly at the bounds (and inside) are accepted and used as given -/
theorem float_accepts_bounds (min max dflt : Option Rat) (name : String) (st : FloatState) (v : Rat)
    (hcur : st.value ≠ .fin v) (hmin : ∀ a, min = some a → a ≤ v) (hmax : ∀ b, max = some b → v ≤ b) :
    readFloat min max dflt name st (.fin v) = .ok { value := .fin v, provided := true, valid := true } :=
  readFloat_accepts_inside min max dflt name st v hcur hmin hmax

/-- never clamped, never replaced by a default: an accepted read stores the given value or leaves the stored value as it was -/
theorem float_no_alteration (min max dflt : Option Rat) (name : String) (st st' : FloatState) (v : PyFloat)
    (h : readFloat min max dflt name st v = .ok st') : st'.value = v ∨ st'.value = st.value :=
  readFloat_no_alteration min max dflt name st st' v h

/-- NaN is rejected (repaired comparison) … -/
theorem nan_rejected (min max dflt : Option Rat) (name : String) (st : FloatState) :
    readFloat min max dflt name st .nan = .error (errMsg .nan name) := readFloat_rejects_nan min max dflt name st

/-- … the comparison of the pinned tree (`v < Min or v > Max`) accepted it: defect F11 -/
theorem pinned_accepts_nan (min max dflt : Option Rat) (name : String) (st : FloatState) :
    readFloatOld min max dflt name st .nan = .ok { value := .nan, provided := true, valid := true } :=
  readFloatOld_accepts_nan min max dflt name st

theorem inf_rejected (min dflt : Option Rat) (b : Rat) (name : String) (st : FloatState) (hcur : st.value ≠ .posInf) :
    readFloat min (some b) dflt name st .posInf = .error (errMsg .posInf name) := readFloat_rejects_posInf min dflt b name st hcur

/-- an option / integer value outside the allowable set is rejected, naming the parameter -/
theorem int_rejects_nonmember (allow : AllowSet) (dflt : Option Int) (name : String) (st : IntState) (v : Int)
    (hd : dflt ≠ some v) (hc : v ≠ st.value) (hm : allow.contains v = false) :
    ∃ msg, readInt allow dflt name st v = .error msg ∧
      msg = ("Error: Parameter given (" ++ toString v ++ ") for ") ++ name ++ " outside of valid range." :=
  readInt_rejects_nonmember allow dflt name st v hd hc hm

theorem int_accepts_member (allow : AllowSet) (dflt : Option Int) (name : String) (st : IntState) (v : Int)
    (hd : dflt ≠ some v) (hc : v ≠ st.value) (hm : allow.contains v = true) :
    readInt allow dflt name st v = .ok { value := v, provided := true, valid := true } :=
  readInt_accepts_member allow dflt name st v hd hc hm

/-- the documented sentinel (a value equal to the declared default) and the current value are the only bypasses, and
they leave the parameter exactly as it was -/
theorem sentinel_is_the_only_bypass (allow : AllowSet) (dflt : Option Int) (name : String) (st st' : IntState) (v : Int)
    (h : readInt allow dflt name st v = .ok st') : (st'.value = v ∧ allow.contains v = true) ∨ st' = st :=
  readInt_no_alteration allow dflt name st st' v h

/-- every extracted float declaration has Min ≤ Max and every integer declaration a non-empty allowable set: the
acceptance theorems are not vacuous for any parameter of the program -/
theorem decls_well_formed :
    (∀ d ∈ Generated.floatDecls, d.wellFormed = true) ∧ (∀ d ∈ Generated.intDecls, d.wellFormed = true) := by
  constructor <;> decide +kernel

/-- non-vacuity on a concrete declaration (`Reservoir Depth`-like: [0.1, 15], default 3) -/
example : (readFloat (some (1/10)) (some 15) (some 3) "Reservoir Depth" ⟨.fin 3, false, false⟩ (.fin 15)).toOption =
    some ⟨.fin 15, true, true⟩ := by decide +kernel
example : (readFloat (some (1/10)) (some 15) (some 3) "Reservoir Depth" ⟨.fin 3, false, false⟩ (.fin (151/10))).toOption = none := by
  decide +kernel

end GeoVerif.C07
