import GeoVerif.Lemmas.Plant
import GeoVerif.Lemmas.CodeIntegrate
/-!
# C02 — Energy flows balance at every time step and over every year

Models (Model/Plant.lean): per-time-step heat extraction and end-use splits of every plant type, `integrateF` /
`integrateSlice` (= `integrate_time_series_slice`), `annual`, `remaining`, the district-heating daily split.
The statements hold for every time step, every year, every lifetime `L` and every number `n` of time steps per year.
Gross electricity (availability × conversion efficiency × flow, which contains a logarithm) and the water heat capacity
are observed inputs.
-/
namespace GeoVerif.C02
open GeoVerif

/-- heat extracted = wells × flow × heat capacity × (production − injection temperature) -/
theorem heat_extracted_def (nprod : Nat) (flow cp tinj tprod : Rat) :
    heatExtractedAt nprod flow cp tinj tprod = (nprod : Rat) * flow * cp * (tprod - tinj) / 1000000 := rfl

/-- first law for every cogeneration cycle: heat towards electricity + useful heat / efficiency = heat extracted -/
theorem cogen_first_law (c : Cycle) (hc : c ≠ .elecOnly) (eff : Rat) (he : eff ≠ 0) (nprod : Nat)
    (flow cp tinj tprod reinj tbottom chp : Rat) :
    heatToElecAt c nprod flow cp tinj tprod reinj tbottom chp
      + cogenHeatProducedAt c eff nprod flow cp tinj tprod reinj tbottom chp / eff
      = heatExtractedAt nprod flow cp tinj tprod := by
  cases c with
  | elecOnly => exact absurd rfl hc
  | topping => simp only [heatToElecAt, cogenHeatProducedAt, heatExtractedAt]; field_simp; ring
  | bottoming => simp only [heatToElecAt, cogenHeatProducedAt, heatExtractedAt]; field_simp; ring
  | parallel => simp only [heatToElecAt, cogenHeatProducedAt, heatExtractedAt]; field_simp; ring

theorem electricity_only_first_law (nprod : Nat) (flow cp tinj tprod reinj tbottom chp : Rat) :
    heatToElecAt .elecOnly nprod flow cp tinj tprod reinj tbottom chp = heatExtractedAt nprod flow cp tinj tprod := rfl

/-- net electricity = gross − pumping power -/
theorem net_electricity_def (g p : Rat) : netElectricity g p = g - p := rfl

/-- industrial direct use: useful heat = extracted heat × end-use efficiency -/
theorem industrial_heat_def (ext eff : Rat) : industrialHeat ext eff = ext * eff := rfl

/-- heat pump: delivered heat / efficiency = extracted heat + electricity used (COP ≠ 1) -/
theorem heat_pump_first_law (ext cop eff : Rat) (hc : cop - 1 ≠ 0) (he : eff ≠ 0) :
    heatPumpHeat ext cop eff / eff = ext + heatPumpElectricity ext cop := by
  unfold heatPumpHeat heatPumpElectricity; field_simp; ring

theorem heat_pump_cop (ext cop : Rat) (hc : cop - 1 ≠ 0) :
    ext + heatPumpElectricity ext cop = cop * heatPumpElectricity ext cop := by
  unfold heatPumpElectricity; field_simp; ring

/-- absorption chiller: cooling = extracted heat × COP × efficiency -/
theorem chiller_def (ext cop eff : Rat) : chillerCooling ext cop eff = ext * cop * eff := rfl

/-- district heating, every day: geothermal + peaking supply = demand, geothermal supply ≤ what the wells deliver,
peaking supply ≥ 0 -/
theorem dh_split (d s : Rat) :
    dhGeothermal d s + dhPeaking d s = d ∧ dhGeothermal d s ≤ s ∧ 0 ≤ dhPeaking d s ∧ dhGeothermal d s ≤ d := by
  unfold dhGeothermal dhPeaking
  split
  · rename_i h; exact ⟨by ring, le_refl _, by linarith, le_of_lt h⟩
  · rename_i h; exact ⟨by ring, not_lt.mp h, le_refl _, le_refl _⟩

/-- yearly integration is linear in the power series … -/
theorem integrate_linear (a b : Rat) (f g : Nat → Rat) (len i n : Nat) (u : Rat) :
    integrateF (fun k => a * f k + b * g k) len i n u = a * integrateF f len i n u + b * integrateF g len i n u := by
  rw [integrateF_add, integrateF_smul, integrateF_smul]

/-- … hence annual net electricity = annual gross − annual pumping energy, in every year -/
theorem annual_net (gross pump : Nat → Rat) (len i n : Nat) (u : Rat) :
    integrateF (fun k => netElectricity (gross k) (pump k)) len i n u
      = integrateF gross len i n u - integrateF pump len i n u := by
  simp only [netElectricity]; exact integrateF_sub gross pump len i n u

/-- … and annual useful heat = efficiency × annual extracted heat -/
theorem annual_heat (eff : Rat) (ext : Nat → Rat) (len i n : Nat) (u : Rat) :
    integrateF (fun k => industrialHeat (ext k) eff) len i n u = eff * integrateF ext len i n u := by
  have : (fun k => industrialHeat (ext k) eff) = (fun k => eff * ext k) := by funext k; simp [industrialHeat]; ring
  rw [this, integrateF_smul]

/-- a full year's slice is the trapezoid rule with step 8760/n hours, × 1000 × utilisation -/
theorem integrate_trapezoid (f : Nat → Rat) (len i n : Nat) (u : Rat) (hn : 1 ≤ n) (hfull : sliceLen len i n = n + 1) :
    integrateF f len i n u = 8760 / (n : Rat) * trapSum f (i * n) n * 1000 * u := integrateF_full f len i n u hn hfull

/-- constant power P delivers P × 8760 h × utilisation (× 1000 for kW) in every year -/
theorem integrate_constant (c : Rat) (len i n : Nat) (u : Rat) (hm : 1 ≤ sliceLen len i n) :
    integrateF (fun _ => c) len i n u = 8760 * c * 1000 * u := integrateF_const c len i n u hm

/-- remaining reservoir heat = initial heat content − cumulative extracted heat (kWh → PJ) -/
theorem remaining_telescopes (init : Rat) (E : List Rat) (y : Nat) (hy : y < E.length) :
    (remaining init E).getD y 0 = init - sumL (E.take (y + 1)) * 3600 * 1000 / 1000000000000000 :=
  remaining_getD init E y hy

/-- non-vacuity: one year, four steps (five samples), rising power -/
example : integrateSlice [1, 2, 3, 4, 5, 6] 0 4 (9/10) = 8760 / 4 * (3/2 + 5/2 + 7/2 + 9/2) * 1000 * (9/10) := by
  decide +kernel

/-! ## Tie by translation
`Generated/Code.lean` holds the transcription of the current source of `SurfacePlant.integrate_time_series_slice` — the slice
`series[i·n : (i+1)·n + 1]`, the one-sample extrapolation, `np.trapz(…, dx = 1/steps · 365 · 24)` (`tools/py2lean.py`; `np.trapz` is
given its definition `dx · Σ (y_j + y_{j+1})/2` in `Model/Py.lean`).  It is the model `integrateSlice` for every series, year index,
number of time steps per year and utilisation factor; the theorems above about yearly integration therefore speak about the code as written. -/
theorem code_integrate_is_model (series : List Rat) (i n : Nat) (u : Rat) :
    Code.integrate_time_series_slice series (i : Int) (n : Int) u = integrateSlice series i n u := code_integrate_eq series i n u

/-- in the source as written, annual net electricity is annual gross minus annual pumping energy, for every year and every pair of series -/
theorem code_annual_net (gross pump : List Rat) (hl : gross.length = pump.length) (i n : Nat) (u : Rat) :
    Code.integrate_time_series_slice ((List.range gross.length).map (fun k => netElectricity (gross.getD k 0) (pump.getD k 0))) (i : Int) (n : Int) u =
      Code.integrate_time_series_slice gross (i : Int) (n : Int) u - Code.integrate_time_series_slice pump (i : Int) (n : Int) u := by
  rw [code_integrate_eq, code_integrate_eq, code_integrate_eq]
  unfold integrateSlice
  simp only [List.length_map, List.length_range]
  have hf : ∀ k, k < gross.length →
      ((List.range gross.length).map (fun k => netElectricity (gross.getD k 0) (pump.getD k 0))).getD k 0 = gross.getD k 0 - pump.getD k 0 := by
    intro k hk
    simp [List.getD_eq_getElem?_getD, List.getElem?_range hk, netElectricity]
  have hz : ∀ k, gross.length ≤ k →
      ((List.range gross.length).map (fun k => netElectricity (gross.getD k 0) (pump.getD k 0))).getD k 0 = gross.getD k 0 - pump.getD k 0 := by
    intro k hk
    have h1 : gross.getD k 0 = 0 := by simp [List.getD_eq_getElem?_getD, List.getElem?_eq_none hk]
    have h2 : pump.getD k 0 = 0 := by simp [List.getD_eq_getElem?_getD, List.getElem?_eq_none (hl ▸ hk)]
    have h3 : ((List.range gross.length).map (fun k => netElectricity (gross.getD k 0) (pump.getD k 0))).getD k 0 = 0 := by
      simp [List.getD_eq_getElem?_getD, List.getElem?_eq_none, hk]
    rw [h1, h2, h3]; ring
  have hall : (fun k => ((List.range gross.length).map (fun k => netElectricity (gross.getD k 0) (pump.getD k 0))).getD k 0) =
      (fun k => gross.getD k 0 - pump.getD k 0) := by
    funext k
    by_cases hk : k < gross.length
    · exact hf k hk
    · exact hz k (Nat.le_of_not_lt hk)
  rw [hall, ← hl]
  exact integrateF_sub _ _ _ _ _ _

/-- four quarterly samples of one year: 8760 h × the trapezoid mean × 1000 × utilisation -/
example : Code.integrate_time_series_slice [1, 2, 3, 4, 5] 0 4 (9/10) = 8760 / 4 * (3/2 + 5/2 + 7/2 + 9/2) * 1000 * (9/10) := by decide +kernel
/-- the last year's one-sample slice is extended by linear extrapolation -/
example : Code.integrate_time_series_slice [1, 2, 3, 4, 5] 1 4 1 = 8760 * ((5 + 6) / 2) * 1000 := by decide +kernel

end GeoVerif.C02
