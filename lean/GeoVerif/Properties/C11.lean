import GeoVerif.Lemmas.C11
import GeoVerif.Lemmas.C16
/-!
# C11 — Economic results scale the way the definitions require

Corollaries of the C01 / C04 / C16 models, for **all** scale factors `k`, all base inputs, all three economic models and
all end-uses.  The models themselves are tied to the code by the C01 / C04 / C16 correspondence; the C11 check adds
paired real runs (costs × k, price changes, efficiency halved, zero add-on, zero ITC, zero grant).
-/
namespace GeoVerif.C11
open GeoVerif

/-- all cost inputs × k (capital, O&M, electricity purchase rate, peaking-fuel cost, reported averages) ⇒ every levelized cost × k -/
theorem lcoe_homogeneous (k : Rat) (i : LcoeIn) :
    lcoe (i.scaleCosts k) = ⟨k * (lcoe i).lcoe, k * (lcoe i).lcoh, k * (lcoe i).lcoc⟩ := lcoe_scaleCosts k i

/-- sale prices are not an input of the levelized cost: `lcoe` is a function of `LcoeIn`, which has no price field;
two runs that differ only in prices have the same `LcoeIn` and hence the same levelized costs -/
theorem lcoe_price_free (i i' : LcoeIn) (h : i = i') : lcoe i = lcoe i' := by rw [h]

/-- with energy sold in some year, raising that year's price (others not lowered) raises NPV strictly -/
theorem npv_strict_mono_price (s : CashIn) (pe' : List Rat) (r : Rat) (hr : 0 < 1 + r)
    (hs : s.sells = .elec) (hE : ∀ i, 0 ≤ s.net.getD i 0) (hp : ∀ i, s.pe.getD i 0 ≤ pe'.getD i 0)
    (j : Nat) (hj : j < s.L) (hEj : 0 < s.net.getD j 0) (hpj : s.pe.getD j 0 < pe'.getD j 0) :
    npv r (assemble s) false < npv r (assemble { s with pe := pe' }) false :=
  npv_strict_mono_elec_price s pe' r hr hs hE hp j hj hEj hpj

/-- halving the end-use efficiency halves the heat sold (costs fixed) and therefore doubles its levelized cost — any model -/
theorem lcoh_doubles_when_efficiency_halves (e : Econ) (r : Rates) (L : Nat) (p : Product) :
    levelized e r L { p with energy := p.energy.map (fun x => (1 / 2) * x) } = 2 * levelized e r L p := by
  rw [levelized_energy_scale]; ring

/-- general form: energy × c ⇒ levelized cost ÷ c -/
theorem levelized_inverse_in_energy (e : Econ) (r : Rates) (L : Nat) (p : Product) (c : Rat) :
    levelized e r L { p with energy := p.energy.map (fun x => c * x) } = levelized e r L p / c :=
  levelized_energy_scale e r L p c

/-- an add-on with zero cost and zero gains changes nothing -/
theorem addon_zero_neutral (ccap coam pe ph e h : Rat) (series : List Rat) :
    adjustedCapex ccap zeroAddOn = ccap ∧ adjustedOpex coam zeroAddOn = coam ∧ addGain 0 series = series ∧
    projectCashWithAddOn zeroAddOn pe ph e h coam = (e * pe + h * ph) / 1000000 - coam :=
  ⟨zero_addon_capex ccap, zero_addon_opex coam, addGain_zero series, zero_addon_cash pe ph e h coam⟩

/-- a zero-rate tax credit and zero grants / fees / incentives change nothing -/
theorem itc_zero_neutral (ccap : Rat) (b : Bool) : capexAdjust ccap 0 b 0 0 0 = ccap := by
  rw [capexAdjust_zero]; ring

theorem grant_zero_neutral (ccap ritc : Rat) (b : Bool) (fees inc : Rat) :
    capexAdjust ccap ritc b fees inc 0 = (if b then ccap - ritc * ccap else ccap) + fees - inc := by
  simp [capexAdjust]

theorem fees_zero_neutral (coam : Rat) : opexAdjust coam 0 0 = coam := by simp [opexAdjust]

end GeoVerif.C11
