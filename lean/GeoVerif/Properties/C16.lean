import GeoVerif.Lemmas.C16
import GeoVerif.Lemmas.CodeSchedules
/-!
# C16 — Price and incentive schedules have the documented shape

Property theorems only (helper lemmas live in `GeoVerif/Lemmas/C16.lean`).  The models `pricing`, `ptcModel`,
`padFront`, `capexAdjust`, `opexAdjust` are the transcriptions of `BuildPricingModel`, `BuildPTCModel`, the
`insert(0, 0.0)` loop and the ITC / grant / fee arithmetic of `Economics.Calculate`; they are tied to the code by the
C16 correspondence check (direct calls of the two builders, whole runs for the rest).
All statements hold for every lifetime `L`, escalation start `s`, duration, construction years `cy` and all rational
prices / rates — no bound on any of them.
-/
namespace GeoVerif.C16
open GeoVerif

/-- the price in year `i` is the start price plus linear escalation from the start year, capped at the end price,
plus that year's production tax credit -/
theorem price_closed (L : Nat) (p0 p1 : Rat) (s : Nat) (r : Rat) (ptc : List Rat) (i : Nat) (hi : i < L) :
    (pricing L p0 p1 s r ptc).getD i 0 =
      min (p0 + (if s ≤ i then ((i - s : Nat) : Rat) * r else 0)) p1 + ptc.getD i 0 :=
  pricing_closed L p0 p1 s r ptc i hi

theorem price_length (L : Nat) (p0 p1 : Rat) (s : Nat) (r : Rat) (ptc : List Rat) :
    (pricing L p0 p1 s r ptc).length = L := pricing_length L p0 p1 s r ptc

/-- the base price never exceeds the ending price (also when start > end) -/
theorem price_le_end (p0 p1 : Rat) (s : Nat) (r : Rat) (i : Nat) : basePrice p0 p1 s r i ≤ p1 :=
  base_le_end p0 p1 s r i

/-- the schedule starts at the starting price whenever that does not exceed the ending price -/
theorem price_start (p0 p1 : Rat) (s : Nat) (r : Rat) (h : p0 ≤ p1) : basePrice p0 p1 s r 0 = p0 :=
  base_start p0 p1 s r h

/-- before the escalation start year the price is the (capped) starting price -/
theorem price_before_start (p0 p1 : Rat) (s : Nat) (r : Rat) (i : Nat) (hi : i < s) :
    basePrice p0 p1 s r i = min p0 p1 := base_before_start p0 p1 s r i hi

/-- with a non-negative escalation rate the price never falls -/
theorem price_monotone (p0 p1 : Rat) (s : Nat) (r : Rat) (hr : 0 ≤ r) (i j : Nat) (hij : i ≤ j) :
    basePrice p0 p1 s r i ≤ basePrice p0 p1 s r j := base_mono p0 p1 s r hr i j hij

/-- from the escalation start year on, and while still below the cap, the price rises by exactly the rate each year -/
theorem price_linear_segment (p0 p1 : Rat) (s : Nat) (r : Rat) (i : Nat) (hs : s ≤ i)
    (hcap : p0 + ((i + 1 - s : Nat) : Rat) * r ≤ p1) (hcap' : p0 + ((i - s : Nat) : Rat) * r ≤ p1) :
    basePrice p0 p1 s r (i + 1) - basePrice p0 p1 s r i = r := base_linear_segment p0 p1 s r i hs hcap hcap'

/-- the production tax credit is paid exactly during its duration: `v·(1+infl)^i` if inflation-adjusted, `v` if not,
and nothing afterwards -/
theorem ptc_closed (L dur : Nat) (v infl : Rat) (adj : Bool) (hd : dur ≤ L) (i : Nat) (hi : i < L) :
    (ptcModel L dur v adj infl).getD i 0 =
      if i < dur then (if adj then v * (1 + infl) ^ i else v) else 0 := ptcModel_closed L dur v infl adj hd i hi

theorem ptc_length (L dur : Nat) (v infl : Rat) (adj : Bool) (hd : dur ≤ L) :
    (ptcModel L dur v adj infl).length = L := ptcModel_length L dur v infl adj hd

/-- prices in the construction years are zero and the operating-year prices follow unchanged -/
theorem padding (cy : Nat) (xs : List Rat) : padFront cy xs = List.replicate cy 0 ++ xs := padFront_eq cy xs

theorem padding_construction_zero (cy : Nat) (xs : List Rat) (i : Nat) (hi : i < cy) :
    (padFront cy xs).getD i 0 = 0 := padFront_lt cy xs i hi

theorem padding_operating (cy : Nat) (xs : List Rat) (i : Nat) :
    (padFront cy xs).getD (cy + i) 0 = xs.getD i 0 := padFront_ge cy xs i

/-- an investment tax credit lowers capital cost by exactly rate × cost; fees, incentives and grants enter with
coefficient ±1 -/
theorem itc_exact (ccap ritc fees inc gr : Rat) :
    capexAdjust ccap ritc true fees inc gr = ccap - ritc * ccap + fees - inc - gr := rfl

theorem itc_absent (ccap ritc fees inc gr : Rat) :
    capexAdjust ccap ritc false fees inc gr = ccap + fees - inc - gr := rfl

theorem itc_zero_rate (ccap fees inc gr : Rat) (b : Bool) :
    capexAdjust ccap 0 b fees inc gr = ccap + fees - inc - gr := capexAdjust_zero ccap fees inc gr b

theorem opex_fees_exact (coam fees relief : Rat) : opexAdjust coam fees relief = coam + fees - relief := rfl

/-- non-vacuity: a concrete schedule that escalates, hits the cap and carries an inflation-adjusted credit -/
example : pricing 5 (1/10) (3/10) 1 (1/10) (ptcModel 5 3 (1/2) true (1/10)) =
    [3/5, 13/20, 161/200, 3/10, 3/10] := by decide +kernel

/-! ## Tie by translation

`Generated/Code.lean` is written on every run by `tools/py2lean.py` from the *current* source text of `BuildPricingModel` and
`BuildPTCModel` (assignments, list item assignment with Python's index semantics, `for … in range`, `if`).  The next theorems say
that what the source says **is** the model the theorems above are about — for every lifetime, start year, duration, every rational
price / rate and every credit list.  A change of either function changes the generated definition and these proofs are re-checked
against it.  (Guards: `plantlifetime`, `EscalationStartYear`, `duration` are natural numbers as the parameter ranges make them;
`L ≤ ptc.length` / `dur ≤ L` are where Python would raise `IndexError` otherwise.) -/

theorem code_BuildPricingModel_is_model (L s : Nat) (p0 p1 r : Rat) (ptc : List Rat) (_hlen : L ≤ ptc.length) :
    Code.BuildPricingModel (L : Int) p0 p1 (s : Int) r ptc = pricing L p0 p1 s r ptc := code_pricing_eq L s p0 p1 r ptc

theorem code_BuildPTCModel_is_model (L dur : Nat) (v infl : Rat) (adj : Bool) (hd : dur ≤ L) :
    Code.BuildPTCModel (L : Int) (dur : Int) v adj infl = ptcModel L dur v adj infl := code_ptc_eq L dur v infl adj hd

/-- the documented shape, stated directly about the translated source: year `i` of the price schedule built from the PTC schedule -/
theorem code_price_shape (L s dur : Nat) (p0 p1 r v infl : Rat) (adj : Bool) (hd : dur ≤ L) (i : Nat) (hi : i < L) :
    (Code.BuildPricingModel (L : Int) p0 p1 (s : Int) r (Code.BuildPTCModel (L : Int) (dur : Int) v adj infl)).getD i 0 =
      min (p0 + (if s ≤ i then ((i - s : Nat) : Rat) * r else 0)) p1
        + (if i < dur then (if adj then v * (1 + infl) ^ i else v) else 0) := by
  rw [code_ptc_eq L dur v infl adj hd, code_pricing_eq, pricing_closed L p0 p1 s r _ i hi, ptcModel_closed L dur v infl adj hd i hi]

/-- non-vacuity: the translated source evaluated on a concrete schedule -/
example : Code.BuildPricingModel 5 (1/10) (3/10) 1 (1/10) (Code.BuildPTCModel 5 3 (1/2) true (1/10)) =
    [3/5, 13/20, 161/200, 3/10, 3/10] := by decide +kernel

end GeoVerif.C16
