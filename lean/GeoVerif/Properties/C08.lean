import GeoVerif.Lemmas.C08
/-!
# C08 — A run is a pure function of its input; runs do not contaminate each other

Model (Model/Proc.lean): a process = (cwd, argv, client cache, files); operations = request a file (caching on/off) |
rewrite a file | chdir.  `stepFixed` is the client as repaired in /repo (cache keyed on path *and* content, cwd/argv
restored in `finally`), `stepPinned` the client as it stood on the pinned tree.  `sim : content → Option report` is an
arbitrary function — the simulator; that the real simulator *is* a function of the file content is what the correspondence
check tests (same request in different histories, working directories, hash seeds).
The specification `specStep` has no cache, no argv and no history at all.  All theorems hold for every finite history.
-/
namespace GeoVerif.C08
open GeoVerif

/-- refinement: for every history the client's outputs are exactly those of the specification — every result is the
simulation of the content the file has at the moment of the request -/
theorem result_is_of_current_content (sim : String → Option String) (ops : List Op) (p : Proc) (h : CacheOk sim p) :
    (run (stepFixed sim) p ops).2 = (specRun sim p.abs ops).2 := (run_fixed_refines sim ops p h).1

/-- the argument vector is never changed, by any history of successful and failing requests -/
theorem argv_invariant (sim : String → Option String) (ops : List Op) (p : Proc) (h : CacheOk sim p) :
    (run (stepFixed sim) p ops).1.argv = p.argv := (run_fixed_refines sim ops p h).2.2

/-- the working directory is moved only by the caller's own `chdir`s -/
theorem cwd_invariant (sim : String → Option String) (ops : List Op) (p : Proc) (h : CacheOk sim p) :
    (run (stepFixed sim) p ops).1.cwd = lastChdir p.cwd ops := run_fixed_cwd sim ops p h

/-- the cache never holds a result computed from other content than its key says -/
theorem cache_coherent (sim : String → Option String) (ops : List Op) (p : Proc) (h : CacheOk sim p) :
    CacheOk sim (run (stepFixed sim) p ops).1 := (run_fixed_invariant sim ops p h).1

/-- history independence: a request appended to two histories that leave the file with the same content gives the same
answer (specification level: the answer reads nothing but the current content) -/
theorem history_independent (sim : String → Option String) (s₁ s₂ : SpecProc) (path : String) (c₁ c₂ : Bool)
    (h : specRead s₁ path = specRead s₂ path) :
    (specStep sim s₁ (.request path c₁)).2 = (specStep sim s₂ (.request path c₂)).2 := by
  simp only [specStep, h]

/-- `lru_cache` memo tables are transparent as long as they hold graph pairs only -/
theorem memo_transparent (f : String → String) (tbl : List (String × String)) (x : String) (hinv : ∀ e ∈ tbl, e.2 = f e.1) :
    (memo f tbl x).1 = f x ∧ ∀ e ∈ (memo f tbl x).2, e.2 = f e.1 := GeoVerif.memo_transparent f tbl x hinv

/-- the client as it stood on the pinned tree violates both clauses (defects F1, F2; kernel-evaluated witnesses) -/
theorem pinned_leaves_cwd_argv :
    (run (stepPinned simEx) p0 [.request "g" true]).1.cwd ≠ p0.cwd ∧
    (run (stepPinned simEx) p0 [.request "g" true]).1.argv ≠ p0.argv := GeoVerif.pinned_leaves_cwd_argv

theorem pinned_serves_stale :
    (run (stepPinned simEx) p0 [.request "f" true, .rewrite "f" "good4", .request "f" true]).2
      = [.report "report:good3", .none, .report "report:good3"] := GeoVerif.pinned_serves_stale

theorem fixed_serves_fresh :
    (run (stepFixed simEx) p0 [.request "f" true, .rewrite "f" "good4", .request "f" true]).2
      = [.report "report:good3", .none, .report "report:good4"] := GeoVerif.fixed_serves_fresh

end GeoVerif.C08
