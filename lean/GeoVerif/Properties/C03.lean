import GeoVerif.Lemmas.Capex
import GeoVerif.Generated.WellCost
/-!
# C03 — Capital and O&M totals are the sum of their parts

Models: `capex`, `opex`, `WellField.cost`, `Comp.value`, the rational correlations (`stimCorr`, `explCorr`, `gathCorr`,
`plantDirectCorr`, `plantPowerCorr`, `pipingCost`, `districtCost`, `plantOMCorr`, `wellOMCorr`, `waterOMCorr`,
`chillerOpex`, `districtOM`), `oneWellCost` / `lateralCost` / `drillLengths` and the *generated* table of the 17
drilling-cost correlations (Generated/WellCost.lean, re-extracted from the repository on every run).
-/
namespace GeoVerif.C03
open GeoVerif

/-- total capital cost = Σ components − ITC + one-time fees − incentives − grants -/
theorem capex_total (s : CapexIn) (h : s.totalFixed = false) :
    capex s = (s.expl + s.well + s.stim + s.gath + s.plant + s.piping + s.district) - itcValue s
              + s.fees - s.incentives - s.grants := capex_unfixed s h

/-- a user-supplied total is used in place of the roll-up, exactly -/
theorem capex_total_fixed (s : CapexIn) (h : s.totalFixed = true) :
    capex s = s.totalGiven - itcValue s + s.fees - s.incentives - s.grants := capex_fixed s h

/-- a user-supplied component figure is used exactly … -/
theorem component_override (c : Comp) (h : c.fixed = true) : c.value = c.given := by simp [Comp.value, h]
/-- … and the correlation otherwise -/
theorem component_correlated (c : Comp) (h : c.fixed = false) : c.value = c.corr := by simp [Comp.value, h]

/-- well-field cost from correlations: (per-well costs × numbers of wells + laterals) × 1.05 -/
theorem wellfield (w : WellField) (h : w.perWellFixed = false) :
    w.cost = 105 / 100 * (w.cProdCorr * (w.nprod : Rat) + w.cInjCorr * (w.ninj : Rat) + w.lateral) := by
  simp [WellField.cost, WellField.cProd, WellField.cInj, h]

/-- user-fixed per-well cost: exactly that figure × numbers of wells, no indirect factor; the injection well costs
what the production well costs unless its own figure was provided -/
theorem wellfield_fixed (w : WellField) (h : w.perWellFixed = true) :
    w.cost = w.cProdGiven * (w.nprod : Rat) + (if w.cInjProvided then w.cInjGiven else w.cProdGiven) * (w.ninj : Rat) := by
  simp [WellField.cost, WellField.cProd, WellField.cInj, h]

/-- total annual O&M = Σ components + amortised redrilling + annual fees − tax relief -/
theorem opex_total (s : OpexIn) (h : s.totalFixed = false) :
    opex s = s.wellOM + s.plantOM + s.waterOM + s.chillerOM + s.districtOM + redrillAmortised s
             + s.annualFees - s.taxRelief := opex_unfixed s h

theorem opex_total_fixed (s : OpexIn) (h : s.totalFixed = true) :
    opex s = s.totalGiven + redrillAmortised s + s.annualFees - s.taxRelief := opex_fixed s h

theorem redrilling_amortised (s : OpexIn) (h : 0 < s.redrill) :
    redrillAmortised s = (s.cwell + s.cstim) * (s.redrill : Rat) / (s.L : Rat) := by simp [redrillAmortised, h]

theorem no_redrilling (s : OpexIn) (h : s.redrill = 0) : redrillAmortised s = 0 := by simp [redrillAmortised, h]

/-- the chiller's capital cost is not counted twice in plant O&M -/
theorem chiller_not_double_counted (adj base chiller labor : Rat) :
    plantOMCorr adj (base + chiller) chiller labor = adj * (15 / 1000 * base + 75 / 100 * labor) := by
  unfold plantOMCorr; ring

/-- drilled length: total = vertical + lateral; a vertical configuration has no lateral part -/
theorem drill_lengths (cfg : WellConfig) (nsec : Nat) (nv i o : Rat) (np ni : Nat) :
    (drillLengths cfg nsec nv i o np ni).1 =
      (drillLengths cfg nsec nv i o np ni).2.1 + (drillLengths cfg nsec nv i o np ni).2.2 := rfl

theorem drill_vertical_no_lateral (nsec : Nat) (nv i o : Rat) (np ni : Nat) :
    (drillLengths .vertical nsec nv i o np ni).2.2 = 0 := rfl

theorem drill_vertical_length (nsec : Nat) (nv i o : Rat) (np ni : Nat) :
    (drillLengths .vertical nsec nv i o np ni).1 = ((np : Rat) + (ni : Rat)) * i * 1000 := by
  simp [drillLengths]

/-- the regenerated correlation table is the one the theorems are about: 17 members, ids 1..17 in order, member 5 simple -/
theorem well_cost_table_shape :
    Generated.wellCostTable.map (·.id) = (List.range 17).map (· + 1) ∧ Generated.simpleCorrelationId = 5 := by
  decide +kernel

/-- every tabulated correlation gives a positive cost on its domain of validity endpoints -/
theorem well_cost_table_positive :
    ∀ c ∈ Generated.wellCostTable, 0 < c.cost 500 ∧ 0 < c.cost 7000 := by decide +kernel

/-- non-vacuity: a concrete roll-up -/
example : capex ⟨false, 0, 1, 20, 3, 2, 30, 1/2, 0, true, 3/10, 1, 2, 3⟩ = (565/10) * (7/10) + 1 - 2 - 3 := by
  decide +kernel

end GeoVerif.C03
