import GeoVerif.Lemmas.Hip
/-!
# C17 — Heat-in-place assessment adds up and scales with reservoir size

`hip : HipIn → HipOut` (Model/Hip.lean) is the model of `HIP_RA_X.Calculate`.  CoolProp values and the utilisation-efficiency
interpolation are inputs (they do not depend on area or thickness).  Statements hold for all rational inputs.
-/
namespace GeoVerif.C17
open GeoVerif

/-- rock and recoverable-fluid volumes are the stated porosity fractions of reservoir volume = area × thickness -/
theorem volumes (i : HipIn) :
    (hip i).volume = i.area * i.thickness ∧ (hip i).volRock = (hip i).volume * (1 - i.porosity / 100) ∧
    (hip i).volFluid = (hip i).volume * (i.porosity / 100) * i.rf := ⟨rfl, rfl, rfl⟩

/-- stored heat = rock part + fluid part -/
theorem stored_additive (i : HipIn) : (hip i).stored = (hip i).storedRock + (hip i).storedFluid := rfl

theorem mass_additive (i : HipIn) : (hip i).massReservoir = (hip i).massRock + (hip i).massFluid0 := rfl

/-- available heat = stored heat × (1 − T_rej·Δs/Δh): the exergy fraction -/
theorem available_is_exergy_fraction (i : HipIn) (h : i.hNet ≠ 0) :
    (hip i).available = (hip i).stored * (1 - i.tRejK * i.sNet / i.hNet) := hip_available_eq i h

/-- available heat never exceeds stored heat — for a reservoir hotter than the rejection temperature
(`0 < Δh`, `0 ≤ T_rej·Δs`, `0 ≤ stored`); the program accepts the opposite ordering, where the clause fails (finding F14) -/
theorem available_le_stored (i : HipIn) (hh : 0 < i.hNet) (hs : 0 ≤ i.tRejK * i.sNet) (hst : 0 ≤ (hip i).stored) :
    (hip i).available ≤ (hip i).stored := hip_available_le_stored i hh hs hst

/-- producible heat never exceeds available heat -/
theorem producible_le_available (i : HipIn) (ha : 0 ≤ (hip i).available) : (hip i).producible ≤ (hip i).available :=
  hip_producible_le_available i ha

/-- the conversion efficiency lies in [0.427, 0.66] for every temperature -/
theorem recoverable_heat_range (t : Rat) : 427 / 1000 ≤ recoverableHeat t ∧ recoverableHeat t ≤ 66 / 100 :=
  recoverableHeat_bounds t

/-- area × k ⇒ every extensive result × k; per-area, per-volume, per-mass and percentage results unchanged -/
theorem area_homogeneous (i : HipIn) (hr : i.Regular) (k : Rat) (hk : k ≠ 0) :
    hip { i with area := k * i.area } = (hip i).scale k 1 := hip_area_scale i hr k hk

/-- thickness × k ⇒ every extensive result × k, per-area results × k; per-volume, per-mass and percentage results unchanged -/
theorem thickness_homogeneous (i : HipIn) (hr : i.Regular) (k : Rat) (hk : k ≠ 0) :
    hip { i with thickness := k * i.thickness } = (hip i).scale k k := hip_thickness_scale i hr k hk

/-- the excluded ordering is a real counterexample of the model: rejection hotter than reservoir gives negative stored
heat with positive available heat (numbers of the replayed run, rounded) -/
example : ∃ i : HipIn, (hip i).stored < 0 ∧ (hip i).stored < (hip i).available := by
  refine ⟨⟨81, 1/4, 18, 1/2, 2550000000000, 983000000000, 2840000000000, 3/4, 60, 150, 42315/100, -90, 30, -381, -106/100, 1/10⟩, ?_, ?_⟩ <;>
    decide +kernel

end GeoVerif.C17
