import GeoVerif.Lemmas.C15
import GeoVerif.Lemmas.Friction
import GeoVerif.Lemmas.CodePressure
/-!
# C15 — Pumping power and modelled pressures stay physical

Models: `resPressure` (= `ReservoirPressurePredictor`, including `int(…)` as floor and the `break`), `injPressure`
(= `InjectionReservoirPressurePredictor`), `clamp0` / `pumpSide` / `pumpTotal` (the negative-to-zero clamps and the total
under the productivity/injectivity-index model), Darcy–Weisbach friction with the laminar factor or a supplied factor.
-/
namespace GeoVerif.C15
open GeoVerif

/-- with an overpressure other than 100 % the production-reservoir pressure starts at that multiple of hydrostatic -/
theorem pressure_start (L n : Nat) (p0 pct rate : Rat) (hp : pct ≠ 100) (hL : 0 < L * n) :
    (resPressure L n p0 pct rate).getD 0 0 = p0 * (pct / 100) := resPressure_start L n p0 pct rate hp hL

/-- it declines linearly at the stated depletion rate until it reaches hydrostatic, where it stays (the `break`) -/
theorem pressure_closed (L n : Nat) (p0 pct rate : Rat) (hp : pct ≠ 100)
    (hd : 0 ≤ (p0 * (pct / 100) - p0) / ((((100 / rate) * (n : Rat)).floor : Int) : Rat)) (t : Nat) (ht : t + 1 < L * n) :
    (resPressure L n p0 pct rate).getD (t + 1) 0 =
      max p0 (p0 * (pct / 100) - (p0 * (pct / 100) - p0) / ((((100 / rate) * (n : Rat)).floor : Int) : Rat) * ((t + 1 : Nat) : Rat)) :=
  resPressure_closed L n p0 pct rate hp hd t ht

/-- the decline is monotone and never goes below hydrostatic (loop form, any start index) -/
theorem pressure_antitone (p0 P0 dlt : Rat) (hd : 0 ≤ dlt) (k t i j : Nat) (hij : i ≤ j) (hj : j < k) :
    (pressLoop p0 P0 dlt k t false).getD j 0 ≤ (pressLoop p0 P0 dlt k t false).getD i 0 :=
  pressLoop_antitone p0 P0 dlt hd k t i j hij hj

theorem pressure_ge_hydrostatic (p0 P0 dlt : Rat) (hd : 0 ≤ dlt) (k t j : Nat) (hj : j < k) :
    p0 ≤ (pressLoop p0 P0 dlt k t false).getD j 0 := pressLoop_ge_hydrostatic p0 P0 dlt hd k t j hj

/-- at exactly 100 % the pressure is hydrostatic throughout -/
theorem pressure_flat_at_100 (L n : Nat) (p0 rate : Rat) (t : Nat) (ht : t < L * n) :
    (resPressure L n p0 100 rate).getD t 0 = p0 := resPressure_flat L n p0 rate t ht

/-- injection-reservoir pressure rises at its stated rate: initial + (rate / steps per year) · t -/
theorem injection_rises (L n : Nat) (p0 rate : Rat) (t : Nat) (ht : t < L * n) :
    (injPressure L n p0 rate).getD t 0 = p0 + rate / (n : Rat) * (t : Rat) := injPressure_closed L n p0 rate t ht

theorem injection_monotone (L n : Nat) (p0 rate : Rat) (hr : 0 ≤ rate) (i j : Nat) (hij : i ≤ j) (hj : j < L * n) :
    (injPressure L n p0 rate).getD i 0 ≤ (injPressure L n p0 rate).getD j 0 := injPressure_mono L n p0 rate hr i j hij hj

/-- pumping power is never negative: every code path ends in the clamp -/
theorem pumping_nonneg_side (dp : List Rat) (coef : Rat) : ∀ x ∈ pumpSide dp coef, 0 ≤ x := pumpSide_nonneg dp coef
theorem pumping_nonneg_total (b : Bool) (inj prod : List Rat) : ∀ x ∈ pumpTotal b inj prod, 0 ≤ x := pumpTotal_nonneg b inj prod

/-- where both pumps are modelled, total pumping power is the sum of the two -/
theorem pumping_total (inj prod : List Rat) (t : Nat) (ht : t < inj.length) (hi : 0 ≤ inj.getD t 0) (hp : 0 ≤ prod.getD t 0) :
    (pumpTotal true inj prod).getD t 0 = inj.getD t 0 + prod.getD t 0 := pumpTotal_sum inj prod t ht hi hp

/-- laminar flow: frictional pressure loss ∝ D⁻⁴, so it does not increase when the diameter is enlarged -/
theorem friction_laminar_closed (pi q rho mu depth d : Rat) (hpi : 0 < pi) (hrho : 0 < rho) (hd : 0 < d) (hq : q ≠ 0) :
    dpLaminar pi q rho mu depth d = 128 * mu * q * depth / (pi * rho * 1000) / d ^ 4 :=
  dpLaminar_closed pi q rho mu depth d hpi hrho hd hq

theorem friction_laminar_antitone (pi q rho mu depth d₁ d₂ : Rat) (hpi : 0 < pi) (hrho : 0 < rho) (hmu : 0 ≤ mu) (hq : 0 < q)
    (hdep : 0 ≤ depth) (hd₁ : 0 < d₁) (h : d₁ ≤ d₂) :
    dpLaminar pi q rho mu depth d₂ ≤ dpLaminar pi q rho mu depth d₁ :=
  dpLaminar_antitone pi q rho mu depth d₁ d₂ hpi hrho hmu hq hdep hd₁ h

/-- any friction factor: ΔP = f · K / D⁵ -/
theorem friction_structure (pi q rho depth d f : Rat) (hpi : 0 < pi) (hrho : 0 < rho) (hd : 0 < d) :
    dpWithFactor pi q rho depth d f = f * (8 * q ^ 2 * depth / (pi ^ 2 * rho * 1000)) / d ^ 5 :=
  dpWithFactor_closed pi q rho depth d f hpi hrho hd

/-- turbulent flow, PARTIAL: the full statement is `d₁ ≤ d₂ → ΔP(d₂) ≤ ΔP(d₁)` with `f` the sixth Colebrook iterate (log₁₀, pow 0.9,
√ — not rational).  Proved here up to the hypothesis that the friction factor grows no faster than D⁵ between the two
diameters; that hypothesis is evaluated numerically by the check on every pair it runs (support, not proof). -/
theorem friction_turbulent_partial (pi q rho depth d₁ d₂ f₁ f₂ : Rat) (hpi : 0 < pi) (hrho : 0 < rho) (hdep : 0 ≤ depth)
    (hd₁ : 0 < d₁) (hd₂ : 0 < d₂) (hf : f₂ * d₁ ^ 5 ≤ f₁ * d₂ ^ 5) :
    dpWithFactor pi q rho depth d₂ f₂ ≤ dpWithFactor pi q rho depth d₁ f₁ :=
  dpWithFactor_antitone pi q rho depth d₁ d₂ f₁ f₂ hpi hrho hdep hd₁ hd₂ hf

/-- non-vacuity: 150 % overpressure, 25 %/yr depletion, 2 steps per year, 3 years: reaches hydrostatic and stays -/
example : resPressure 3 2 1000 150 50 = [1500, 1375, 1250, 1125, 1000, 1000] := by decide +kernel
example : resPressure 5 1 1000 150 50 = [1500, 1250, 1000, 1000, 1000] := by decide +kernel
example : injPressure 2 2 100 10 = [100, 105, 110, 115] := by decide +kernel

/-! ## Tie by translation
`Generated/Code.lean` holds the transcription of the current source of `InjectionReservoirPressurePredictor` (`tools/py2lean.py`); it is
the model `injPressure` for every lifetime, every number of time steps per year and all rational pressures / rates. -/
theorem code_InjectionReservoirPressurePredictor_is_model (L n : Nat) (p0 rate : Rat) :
    Code.InjectionReservoirPressurePredictor (L : Int) (n : Int) p0 rate = injPressure L n p0 rate := code_injPressure_eq L n p0 rate

/-- so the source as written rises at its stated rate … -/
theorem code_injection_rises (L n : Nat) (p0 rate : Rat) (t : Nat) (ht : t < L * n) :
    (Code.InjectionReservoirPressurePredictor (L : Int) (n : Int) p0 rate).getD t 0 = p0 + rate / (n : Rat) * (t : Rat) := by
  rw [code_injPressure_eq]; exact injPressure_closed L n p0 rate t ht

/-- … and never falls when the rate is non-negative -/
theorem code_injection_monotone (L n : Nat) (p0 rate : Rat) (hr : 0 ≤ rate) (i j : Nat) (hij : i ≤ j) (hj : j < L * n) :
    (Code.InjectionReservoirPressurePredictor (L : Int) (n : Int) p0 rate).getD i 0 ≤
      (Code.InjectionReservoirPressurePredictor (L : Int) (n : Int) p0 rate).getD j 0 := by
  rw [code_injPressure_eq]; exact injPressure_mono L n p0 rate hr i j hij hj

example : Code.InjectionReservoirPressurePredictor 2 2 100 4 = [100, 102, 104, 106] := by decide +kernel

/-- `ReservoirPressurePredictor` as it stands in the source — fill, early return at 100 %, `int(…)`, the loop and its `break` — is the model
`resPressure`, for every lifetime, steps per year and all rational pressures / percentages / rates with a non-negative step count
(`int` truncates, the model floors; Python raises `ZeroDivisionError` where the step count is 0 — there both sides divide by 0 in `Rat`) -/
theorem code_ReservoirPressurePredictor_is_model (L n : Nat) (p0 pct rate : Rat) (hnn : 0 ≤ (100 / rate) * (n : Rat)) :
    Code.ReservoirPressurePredictor (L : Int) (n : Int) p0 pct rate = resPressure L n p0 pct rate :=
  code_resPressure_eq L n p0 pct rate hnn

/-- the source as written: linear decline at the stated depletion rate down to hydrostatic, where it stays -/
theorem code_pressure_closed (L n : Nat) (p0 pct rate : Rat) (hp : pct ≠ 100) (hnn : 0 ≤ (100 / rate) * (n : Rat))
    (hd : 0 ≤ (p0 * (pct / 100) - p0) / ((((100 / rate) * (n : Rat)).floor : Int) : Rat)) (t : Nat) (ht : t + 1 < L * n) :
    (Code.ReservoirPressurePredictor (L : Int) (n : Int) p0 pct rate).getD (t + 1) 0 =
      max p0 (p0 * (pct / 100) - (p0 * (pct / 100) - p0) / ((((100 / rate) * (n : Rat)).floor : Int) : Rat) * ((t + 1 : Nat) : Rat)) := by
  rw [code_resPressure_eq L n p0 pct rate hnn]; exact resPressure_closed L n p0 pct rate hp hd t ht

/-- 150 % overpressure, 50 %/yr, 2 steps per year: 1500, 1375, 1250, 1125, then hydrostatic (the `break`) -/
example : Code.ReservoirPressurePredictor 4 2 1000 150 50 = [1500, 1375, 1250, 1125, 1000, 1000, 1000, 1000] := by decide +kernel

end GeoVerif.C15
