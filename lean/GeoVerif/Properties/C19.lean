import GeoVerif.Generated.Schema
/-!
# C19 — The published parameter schema matches what the simulator accepts

Everything here is a statement about finite tables that `tools/extract.py` regenerates from the repository on every run
(`Generated/Schema.lean`): the request schema the generator produces now, the three committed schema files, the
declarations of the 21 enumerated parameter sources, the names accepted by the modules of *every* configuration family,
the result-schema fields and the client's field list.  Strings are interned to ids; both sides of every comparison are
emitted sorted by name, and sortedness is itself checked here.  All obligations are closed by `decide +kernel`.
-/
namespace GeoVerif.C19
open GeoVerif Generated

/-- the tables are sorted without duplicates (the comparisons below are positional) -/
theorem tables_sorted :
    strictlyIncreasing enumeratedNames = true ∧ strictlyIncreasing acceptedNames = true ∧ strictlyIncreasing parserFields = true := by
  decide +kernel

/-- the generated request schema lists exactly the union of the parameters of the enumerated sources — none missing, none extra -/
theorem schema_names_eq_union :
    genRequest.all (fun s => enumeratedNames.contains s.name) = true ∧
    enumeratedNames.all (fun n => genRequest.any (·.name == n)) = true ∧
    genRequest.length = enumeratedNames.length := by decide +kernel

/-- for every parameter defined identically in all sources declaring it, the schema's type, unit, bounds (and numeric default)
are the ones the module declaration enforces (except the listed known finding F20, by name) -/
theorem schema_matches_modules :
    moduleDecls.all (fun d => knownDiffering.contains d.name ||
      (match lookupEntry d.name genRequest with | some s => s.matchesDecl d | none => false)) = true := by
  decide +kernel

/-- the committed schema files equal the generated ones: request, result, HIP-RA-X request (entry by entry, canonical JSON) -/
theorem committed_eq_generated :
    committedRequest = genRequest ∧ committedHipRequest = genHipRequest ∧ committedResultFields = genResultFields ∧
    committedTop = genTop := by decide +kernel

/-- every result field named in the (committed) result schema is one the client extracts from a report -/
theorem result_fields_extractable :
    ∀ f ∈ committedResultFields, parserFields.contains f.2.1 = true := by decide +kernel

/-- parameters accepted by some module of some configuration family but absent from the schema are exactly the listed
known finding F13 (a new omission breaks this obligation) -/
theorem missing_from_schema_is_known :
    acceptedNames.all (fun n => genRequest.any (·.name == n) || knownMissing.contains n) = true ∧
    knownMissing.all (fun n => acceptedNames.contains n && !(genRequest.any (·.name == n))) = true := by
  decide +kernel

/-- nothing in the schema is unknown to the simulator: every schema name is accepted by some module -/
theorem schema_has_no_extra : ∀ s ∈ genRequest, acceptedNames.contains s.name = true := by decide +kernel

end GeoVerif.C19
