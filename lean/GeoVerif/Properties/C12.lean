import GeoVerif.Lemmas.InputFile
/-!
# C12 — Input-file layout is irrelevant

Model (Model/InputFile.lean, over character lists): `strip` (Python `str.strip()` on ASCII whitespace), `splitComma`,
`isCommentLine`, `parseLine`, `parseFile`, `lookupKey` (dictionary semantics: the last entry with a name governs),
`splitLines` (universal newlines).  Every module then looks names up in that dictionary in its *own* order, so a run is a
function of the dictionary.  The statements hold for every file, every permutation and every decoration.
-/
namespace GeoVerif.C12
open GeoVerif

/-- the order of parameter lines is irrelevant: any permutation of entries with distinct names gives the same dictionary -/
theorem order_irrelevant (l₁ l₂ : List LineEntry) (hp : l₁.Perm l₂) (hd : (l₁.map (·.key)).Nodup) :
    ∀ k, lookupKey k l₁ = lookupKey k l₂ := lookupKey_perm_distinct l₁ l₂ hp hd

/-- more generally: two files whose lines agree *per name* (same sub-sequence for every name) give the same dictionary —
this is exactly "permutations that keep duplicates in their relative order" -/
theorem order_irrelevant_with_duplicates (l₁ l₂ : List LineEntry)
    (h : ∀ k, l₁.filter (fun e => e.key == k) = l₂.filter (fun e => e.key == k)) :
    ∀ k, lookupKey k l₁ = lookupKey k l₂ := lookupKey_of_same_subsequences l₁ l₂ h

/-- when a parameter appears more than once the last occurrence governs -/
theorem last_wins (l l' : List LineEntry) (k v cmt : List Char) (h : ∀ e ∈ l', e.key ≠ k) :
    lookupKey k (l ++ [⟨k, v, cmt⟩] ++ l') = some v := lookupKey_last_wins l l' k v cmt h

/-- blank lines carry nothing -/
theorem blank_line_ignored (w : List Char) (hw : AllWs w) : parseLine w = none := parseLine_blank w hw

/-- comment lines (`#`, `*`, `--`, also indented) carry nothing -/
theorem comment_line_ignored (w rest : List Char) (hw : AllWs w) (d : Char) (m : List Char) (hd : isWs d = false) :
    parseLine (w ++ '#' :: (m ++ [d])) = none ∧ parseLine (w ++ '*' :: (m ++ [d])) = none ∧
    parseLine (w ++ '-' :: '-' :: (m ++ [d])) = none := parseLine_comment w rest hw d m hd

/-- inserting or deleting such a line anywhere changes nothing -/
theorem skipped_lines_irrelevant (a b : List (List Char)) (l : List Char) (h : parseLine l = none) :
    parseFile (a ++ l :: b) = parseFile (a ++ b) := parseFile_skip a b l h

/-- whitespace around the name, the comma and the value is irrelevant -/
theorem whitespace_decoration_ignored (name val w₁ w₂ w₃ w₄ : List Char) (hn : Token name) (hv : Token val)
    (h₁ : AllWs w₁) (h₂ : AllWs w₂) (h₃ : AllWs w₃) (h₄ : AllWs w₄) (hnc : isCommentLine name = false)
    (hlen : 2 ≤ name.length) :
    parseLine (w₁ ++ name ++ w₂ ++ ',' :: (w₃ ++ val ++ w₄)) = some ⟨name, val, []⟩ :=
  parseLine_name_value name val w₁ w₂ w₃ w₄ hn hv h₁ h₂ h₃ h₄ hnc hlen

/-- a trailing comment after the value is irrelevant for name and value -/
theorem trailing_comment_ignored (name val cmt : List Char) (hn : Token name) (hv : Token val) (hc : Token cmt)
    (hnc : isCommentLine name = false) (hlen : 2 ≤ name.length) :
    (parseLine (name ++ ',' :: (val ++ ',' :: cmt))).map (fun e => (e.key, e.val)) = some (name, val) :=
  parseLine_trailing_comment name val cmt hn hv hc hnc hlen

/-- line-ending style: the carriage return of a CRLF ending (and any other trailing / leading blank) is irrelevant -/
theorem crlf_irrelevant (l : List Char) : parseLine (l ++ ['\r']) = parseLine l := parseLine_crlf l
theorem line_decoration_irrelevant (w₁ w₂ l : List Char) (h₁ : AllWs w₁) (h₂ : AllWs w₂) :
    parseLine (w₁ ++ l ++ w₂) = parseLine l := parseLine_decorated w₁ w₂ l h₁ h₂

/-- the client appends override parameters after the base file, so they govern -/
theorem client_override (base over : List LineEntry) (k v cmt : List Char) (h : ∀ e ∈ over, e.key ≠ k) :
    lookupKey k (base ++ [⟨k, v, cmt⟩] ++ over) = some v := lookupKey_last_wins base over k v cmt h

/-- non-vacuity: a decorated file, a duplicate, CRLF and a lone CR -/
example : fileDict "# c\r\n  Reservoir Depth ,\t3 , km\rGradient 1, 50\n\n* x\nReservoir Depth, 4.5\n-- y" =
    [("Reservoir Depth", "4.5"), ("Gradient 1", "50")] := by decide +kernel

end GeoVerif.C12
