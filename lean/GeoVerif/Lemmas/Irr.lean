import GeoVerif.Model.CashFlow
import Mathlib.Algebra.Order.Field.Rat
import Mathlib.Algebra.Order.Field.Power
import Mathlib.Tactic.Linarith
import Mathlib.Tactic.Ring
import Mathlib.Tactic.Positivity
import Mathlib.Tactic.FieldSimp
namespace GeoVerif

/-- Σ cf[j] · x^(k+j) -/
def polyFrom (x : Rat) : Nat → List Rat → Rat
  | _, [] => 0
  | k, c :: cs => c * x ^ k + polyFrom x (k + 1) cs

/-- a conventional cash flow seen from index `k`: flows before year `m` are outlays (≤ 0), flows from year `m` on are returns (≥ 0) -/
def ConvFrom (m : Nat) : Nat → List Rat → Prop
  | _, [] => True
  | k, c :: cs => (k < m → c ≤ 0) ∧ (m ≤ k → 0 ≤ c) ∧ ConvFrom m (k + 1) cs

def HasReturnFrom (m : Nat) : Nat → List Rat → Prop
  | _, [] => False
  | k, c :: cs => (m ≤ k ∧ 0 < c) ∨ HasReturnFrom m (k + 1) cs

theorem pow_cross_le (x y : Rat) (hx : 0 < x) (hxy : x ≤ y) (k e : Nat) (hk : k ≤ e) : y ^ k * x ^ e ≤ x ^ k * y ^ e := by
  obtain ⟨d, rfl⟩ := Nat.exists_eq_add_of_le hk
  have hy : 0 < y := lt_of_lt_of_le hx hxy
  have h1 : x ^ d ≤ y ^ d := pow_le_pow_left₀ hx.le hxy d
  have hxk : 0 < x ^ k := pow_pos hx k
  have hyk : 0 < y ^ k := pow_pos hy k
  rw [pow_add, pow_add]
  nlinarith [mul_pos hxk hyk, mul_le_mul_of_nonneg_left h1 (mul_pos hxk hyk).le]

theorem pow_cross_lt (x y : Rat) (hx : 0 < x) (hxy : x < y) (k e : Nat) (hk : e < k) : x ^ k * y ^ e < y ^ k * x ^ e := by
  obtain ⟨d, rfl⟩ := Nat.exists_eq_add_of_lt hk
  have hy : 0 < y := lt_trans hx hxy
  have h1 : x ^ (d + 1) < y ^ (d + 1) := pow_lt_pow_left₀ hxy hx.le (by omega)
  have hxe : 0 < x ^ e := pow_pos hx e
  have hye : 0 < y ^ e := pow_pos hy e
  have : x ^ (e + d + 1) = x ^ e * x ^ (d + 1) := by rw [← pow_add]; ring_nf
  rw [this]
  have : y ^ (e + d + 1) = y ^ e * y ^ (d + 1) := by rw [← pow_add]; ring_nf
  rw [this]
  nlinarith [mul_pos hxe hye, mul_lt_mul_of_pos_left h1 (mul_pos hxe hye)]

/-- the cross difference `P(y)·x^e − P(x)·y^e` (with `e = m − 1`) is a sum of non-negative terms … -/
theorem cross_nonneg (x y : Rat) (hx : 0 < x) (hxy : x < y) (m : Nat) (hm : 1 ≤ m) (k : Nat) (cf : List Rat) (hc : ConvFrom m k cf) :
    0 ≤ polyFrom y k cf * x ^ (m - 1) - polyFrom x k cf * y ^ (m - 1) := by
  induction cf generalizing k with
  | nil => simp [polyFrom]
  | cons c cs ih =>
    obtain ⟨h1, h2, h3⟩ := hc
    have := ih (k + 1) h3
    simp only [polyFrom]
    have hterm : 0 ≤ c * (y ^ k * x ^ (m - 1) - x ^ k * y ^ (m - 1)) := by
      by_cases hk : k < m
      · have hle := pow_cross_le x y hx hxy.le k (m - 1) (by omega)
        have := h1 hk
        nlinarith
      · have hlt := pow_cross_lt x y hx hxy k (m - 1) (by omega)
        have := h2 (by omega)
        nlinarith
    nlinarith

/-- … and strictly positive as soon as one return is positive -/
theorem cross_pos (x y : Rat) (hx : 0 < x) (hxy : x < y) (m : Nat) (hm : 1 ≤ m) (k : Nat) (cf : List Rat) (hc : ConvFrom m k cf)
    (hr : HasReturnFrom m k cf) :
    0 < polyFrom y k cf * x ^ (m - 1) - polyFrom x k cf * y ^ (m - 1) := by
  induction cf generalizing k with
  | nil => exact absurd hr (by simp [HasReturnFrom])
  | cons c cs ih =>
    obtain ⟨h1, h2, h3⟩ := hc
    simp only [polyFrom]
    have hrest := cross_nonneg x y hx hxy m hm (k + 1) cs h3
    have hterm : 0 ≤ c * (y ^ k * x ^ (m - 1) - x ^ k * y ^ (m - 1)) := by
      by_cases hk : k < m
      · have hle := pow_cross_le x y hx hxy.le k (m - 1) (by omega)
        have := h1 hk
        nlinarith
      · have hlt := pow_cross_lt x y hx hxy k (m - 1) (by omega)
        have := h2 (by omega)
        nlinarith
    rcases hr with ⟨hmk, hcpos⟩ | hr'
    · have hlt := pow_cross_lt x y hx hxy k (m - 1) (by omega)
      have : 0 < c * (y ^ k * x ^ (m - 1) - x ^ k * y ^ (m - 1)) := mul_pos hcpos (by linarith)
      nlinarith
    · have := ih (k + 1) h3 hr'
      nlinarith

/-- the discounted sum is that polynomial in the discount factor `1/(1+r)` -/
theorem npvFrom_eq_poly (r : Rat) (k : Nat) (cf : List Rat) : npvFrom r k cf = polyFrom (1 / (1 + r)) k cf := by
  induction cf generalizing k with
  | nil => simp [npvFrom, polyFrom]
  | cons c cs ih => simp [npvFrom, polyFrom, ih, div_eq_mul_inv]

end GeoVerif
