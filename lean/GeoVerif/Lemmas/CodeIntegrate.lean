import GeoVerif.Lemmas.PyLoops
import Mathlib.Tactic.NormNum
import GeoVerif.Lemmas.Series
import GeoVerif.Model.Plant
import GeoVerif.Generated.Code
/-! The generated transcription of `SurfacePlant.integrate_time_series_slice` equals the model `integrateSlice` — for all arguments. -/
namespace GeoVerif
open Py

theorem pysum_eq_sumL (l : List Rat) : Py.sum l = sumL l := by
  induction l with
  | nil => rfl
  | cons x xs ih => simp [Py.sum, sumL, ih]

theorem slice_nat (xs : List Rat) (a b : Nat) : Py.slice xs (a : Int) (b : Int) = (xs.drop a).take (b - a) := by
  simp [Py.slice]

theorem take_drop_getD (xs : List Rat) (a c j : Nat) :
    ((xs.drop a).take c).getD j 0 = if j < c then xs.getD (a + j) 0 else 0 := by
  by_cases h : j < c
  · simp [List.getD_eq_getElem?_getD, List.getElem?_take, h]
  · simp [List.getD_eq_getElem?_getD, List.getElem?_take, h]

theorem take_drop_length (xs : List Rat) (a c : Nat) : ((xs.drop a).take c).length = min c (xs.length - a) := by
  simp

theorem code_integrate_eq (series : List Rat) (i n : Nat) (u : Rat) :
    Code.integrate_time_series_slice series (i : Int) (n : Int) u = integrateSlice series i n u := by
  unfold Code.integrate_time_series_slice integrateSlice integrateF
  have es : (i : Int) * (n : Int) = ((i * n : Nat) : Int) := by push_cast; ring
  have ee : ((i : Int) + 1) * (n : Int) + 1 = (((i + 1) * n + 1 : Nat) : Int) := by push_cast; ring
  have ec : (i + 1) * n + 1 - i * n = n + 1 := by
    have : (i + 1) * n = i * n + n := by ring
    omega
  simp only [es, ee, slice_nat, ec, Py.len, take_drop_length, sliceLen]
  generalize hm : min (n + 1) (series.length - i * n) = m
  have hget : ∀ j, ((List.drop (i * n) series).take (n + 1)).getD j 0 = if j < n + 1 then series.getD (i * n + j) 0 else 0 :=
    fun j => take_drop_getD series (i * n) (n + 1) j
  have hlen : ((List.drop (i * n) series).take (n + 1)).length = m := by rw [take_drop_length, hm]
  by_cases h1 : m = 1
  · -- a one-sample slice, extended by linear extrapolation
    subst h1
    have hc : ((1 : Nat) : Int) = 1 := rfl
    simp only [hc, if_true]
    have hsl : (List.drop (i * n) series).take (n + 1) = [series.getD (i * n) 0] := by
      apply ext_getD
      · rw [hlen]; rfl
      · intro j hj
        rw [hlen] at hj
        have : j = 0 := by omega
        subst this
        rw [hget 0]; simp
    rw [hsl]
    have e0 : Py.get [series.getD (i * n) 0] (0 : Int) = series.getD (i * n) 0 := by
      have := get_nat [series.getD (i * n) 0] 0
      simp only [Nat.cast_zero] at this
      rw [this]; rfl
    have e1 : Py.get series ((i * n : Nat) : Int) = series.getD (i * n) 0 := get_nat series (i * n)
    have hcond : (((i * n : Nat) : Int) - 1 > 0) ↔ 1 < i * n := by omega
    have htr : ∀ (x0 x1 d : Rat), Py.trapz ([x0] ++ [x1]) d = d * ((x0 + x1) / 2) := by
      intro x0 x1 d
      simp [Py.trapz, Py.sum, List.getD_eq_getElem?_getD]
    have hdx : (((([series.getD (i * n) 0] : List Rat).length : Int) - 1 : Int) : Rat) = 0 := by simp
    by_cases hs : 1 < i * n
    · have e2 : Py.get series (((i * n : Nat) : Int) - 1) = series.getD (i * n - 1) 0 := by
        have : ((i * n : Nat) : Int) - 1 = ((i * n - 1 : Nat) : Int) := by omega
        rw [this, get_nat]
      simp only [hcond, hs, if_true, e0, e1, e2, htr]
      simp only [List.length_append, List.length_cons, List.length_nil]
      norm_num
    · simp only [hcond, hs, if_false, e0, htr]
      simp only [List.length_append, List.length_cons, List.length_nil]
      norm_num
  · have hne : ¬ ((m : Int) = 1) := by omega
    simp only [hne, if_false, h1]
    simp only [Py.trapz, hlen, pysum_eq_sumL, trapSum]
    have hmap : (List.range (m - 1)).map (fun j => (((List.drop (i * n) series).take (n + 1)).getD j 0 +
          ((List.drop (i * n) series).take (n + 1)).getD (j + 1) 0) / 2) =
        (List.range (m - 1)).map (fun j => (series.getD (i * n + j) 0 + series.getD (i * n + j + 1) 0) / 2) := by
      apply List.map_congr_left
      intro j hj
      have hj' : j < m - 1 := List.mem_range.mp hj
      have hmle : m ≤ n + 1 := by rw [← hm]; exact Nat.min_le_left _ _
      rw [hget j, hget (j + 1), if_pos (by omega), if_pos (by omega)]
      congr 2
    rw [hmap]
    have hd : ((m : Int) - 1 : Int) = ((m - 1 : Nat) : Int) ∨ m = 0 := by omega
    rcases hd with hd | hd
    · rw [hd]
      simp only [Int.cast_natCast]
      ring
    · subst hd
      simp [sumL]

end GeoVerif
