import Mathlib.Data.List.Perm.Basic
import Mathlib.Data.List.Nodup
import GeoVerif.Model.InputFile
/-! Lemmas for C12: strip / split / dictionary semantics. -/
namespace GeoVerif

def AllWs (w : List Char) : Prop := ∀ c ∈ w, isWs c = true

theorem lstrip_append_ws (w l : List Char) (hw : AllWs w) : lstrip (w ++ l) = lstrip l := by
  unfold lstrip
  induction w with
  | nil => rfl
  | cons c cs ih =>
    have hc : isWs c = true := hw c (by simp)
    simp only [List.cons_append, List.dropWhile_cons, hc, if_true]
    exact ih (fun d hd => hw d (by simp [hd]))

theorem lstrip_cons_nonws (c : Char) (l : List Char) (hc : isWs c = false) : lstrip (c :: l) = c :: l := by
  simp [lstrip, List.dropWhile_cons, hc]

theorem rstrip_append_ws (l w : List Char) (hw : AllWs w) : rstrip (l ++ w) = rstrip l := by
  unfold rstrip
  rw [List.reverse_append]
  have : AllWs w.reverse := fun c hc => hw c (by simpa using hc)
  have h := lstrip_append_ws w.reverse l.reverse this
  unfold lstrip at h
  rw [h]

theorem rstrip_snoc_nonws (l : List Char) (c : Char) (hc : isWs c = false) : rstrip (l ++ [c]) = l ++ [c] := by
  unfold rstrip
  rw [List.reverse_append]
  simp [List.dropWhile_cons, hc]

theorem lstrip_all_ws (w : List Char) (hw : AllWs w) : lstrip w = [] := by
  have := lstrip_append_ws w [] hw
  simpa [lstrip] using this

theorem strip_all_ws (w : List Char) (hw : AllWs w) : strip w = [] := by
  unfold strip; rw [lstrip_all_ws w hw]; rfl

/-- a list that starts and ends with non-whitespace is its own strip -/
theorem strip_solid (c d : Char) (m : List Char) (hc : isWs c = false) (hd : isWs d = false) :
    strip (c :: m ++ [d]) = c :: m ++ [d] := by
  unfold strip
  rw [show c :: m ++ [d] = c :: (m ++ [d]) by simp, lstrip_cons_nonws c _ hc]
  rw [show c :: (m ++ [d]) = (c :: m) ++ [d] by simp]
  exact rstrip_snoc_nonws _ d hd

theorem strip_single (c : Char) (hc : isWs c = false) : strip [c] = [c] := by
  unfold strip
  rw [lstrip_cons_nonws c [] hc]
  exact rstrip_snoc_nonws [] c hc

/-- whitespace around a line is irrelevant -/
theorem strip_decorated (w₁ w₂ l : List Char) (h₁ : AllWs w₁) (h₂ : AllWs w₂) :
    strip (w₁ ++ l ++ w₂) = strip l := by
  unfold strip
  rw [List.append_assoc, lstrip_append_ws w₁ _ h₁]
  -- lstrip (l ++ w₂): either l has a non-ws char or not
  by_cases hl : AllWs l
  · have : AllWs (l ++ w₂) := by
      intro c hc
      rcases List.mem_append.mp hc with h | h
      · exact hl c h
      · exact h₂ c h
    rw [lstrip_all_ws _ this, lstrip_all_ws l hl]
  · -- split l at its first non-ws character
    unfold AllWs at hl
    push_neg at hl
    obtain ⟨c, hc, hcw⟩ := hl
    have key : ∀ (l : List Char), (∃ c ∈ l, isWs c ≠ true) → lstrip (l ++ w₂) = lstrip l ++ w₂ := by
      intro l
      induction l with
      | nil => intro ⟨c, hc, _⟩; simp at hc
      | cons a as ih =>
        intro hex
        by_cases ha : isWs a = true
        · have hex' : ∃ c ∈ as, isWs c ≠ true := by
            obtain ⟨c, hc, hcw⟩ := hex
            rcases List.mem_cons.mp hc with rfl | h
            · exact absurd ha hcw
            · exact ⟨c, h, hcw⟩
          simp only [lstrip, List.cons_append, List.dropWhile_cons, ha, if_true]
          exact ih hex'
        · have ha' : isWs a = false := by simpa using ha
          simp [lstrip, List.dropWhile_cons, ha']
    rw [key l ⟨c, hc, hcw⟩]
    exact rstrip_append_ws _ w₂ h₂

/-! ### splitting on commas -/

def NoComma (l : List Char) : Prop := ∀ c ∈ l, c ≠ ','

theorem splitComma_ne_nil (l : List Char) : splitComma l ≠ [] := by
  induction l with
  | nil => simp [splitComma]
  | cons c cs ih =>
    simp only [splitComma]
    cases h : splitComma cs with
    | nil => simp
    | cons f fs => simp only []; split <;> simp

theorem splitComma_noComma (a : List Char) (ha : NoComma a) : splitComma a = [a] := by
  induction a with
  | nil => rfl
  | cons c cs ih =>
    have hc : c ≠ ',' := ha c (by simp)
    have := ih (fun d hd => ha d (by simp [hd]))
    simp [splitComma, this, hc]

theorem splitComma_append (a b : List Char) (ha : NoComma a) : splitComma (a ++ ',' :: b) = a :: splitComma b := by
  induction a with
  | nil =>
    simp only [List.nil_append, splitComma]
    cases h : splitComma b with
    | nil => exact absurd h (splitComma_ne_nil b)
    | cons f fs => simp
  | cons c cs ih =>
    have hc : c ≠ ',' := ha c (by simp)
    have := ih (fun d hd => ha d (by simp [hd]))
    simp [splitComma, this, hc]

/-! ### lines -/

theorem parseLine_of_strip_eq (l l' : List Char) (h : strip l = strip l') : parseLine l = parseLine l' := by
  unfold parseLine; rw [h]

/-- leading / trailing blanks, tabs and the `\r` of a CRLF line ending are irrelevant -/
theorem parseLine_decorated (w₁ w₂ l : List Char) (h₁ : AllWs w₁) (h₂ : AllWs w₂) :
    parseLine (w₁ ++ l ++ w₂) = parseLine l :=
  parseLine_of_strip_eq _ _ (strip_decorated w₁ w₂ l h₁ h₂)

theorem parseLine_crlf (l : List Char) : parseLine (l ++ ['\r']) = parseLine l := by
  have := parseLine_decorated [] ['\r'] l (by intro c hc; simp at hc) (by intro c hc; simp at hc; subst hc; rfl)
  simpa using this

/-- blank lines are skipped -/
theorem parseLine_blank (w : List Char) (hw : AllWs w) : parseLine w = none := by
  unfold parseLine
  rw [strip_all_ws w hw]
  simp [parseStripped, isCommentLine, splitComma]

/-- comment lines (`#`, `*`, `--`, after optional indentation) are skipped -/
theorem parseLine_comment (w rest : List Char) (hw : AllWs w) (d : Char) (m : List Char) (hd : isWs d = false) :
    parseLine (w ++ '#' :: (m ++ [d])) = none ∧ parseLine (w ++ '*' :: (m ++ [d])) = none ∧
    parseLine (w ++ '-' :: '-' :: (m ++ [d])) = none := by
  have hs : ∀ (c : Char) (x : List Char), isWs c = false → strip (w ++ c :: (x ++ [d])) = c :: (x ++ [d]) := by
    intro c x hc
    have := strip_decorated w [] (c :: (x ++ [d])) hw (by intro e he; simp at he)
    simp only [List.append_nil] at this
    rw [this]
    have := strip_solid c d x hc hd
    simpa using this
  refine ⟨?_, ?_, ?_⟩
  · unfold parseLine; rw [hs '#' m (by decide)]; simp [parseStripped, isCommentLine]
  · unfold parseLine; rw [hs '*' m (by decide)]; simp [parseStripped, isCommentLine]
  · unfold parseLine
    have := hs '-' ('-' :: m) (by decide)
    simp only [List.cons_append] at this
    rw [this]; simp [parseStripped, isCommentLine]

/-- a non-empty token without blanks at its ends, without commas -/
structure Token (t : List Char) : Prop where
  noComma : NoComma t
  shape : ∃ c m, t = c :: m ∧ isWs c = false ∧ (m = [] ∨ ∃ m' d, m = m' ++ [d] ∧ isWs d = false)

theorem Token.strip_eq {t : List Char} (ht : Token t) : strip t = t := by
  obtain ⟨c, m, rfl, hc, hm⟩ := ht.shape
  rcases hm with rfl | ⟨m', d, rfl, hd⟩
  · exact strip_single c hc
  · have := strip_solid c d m' hc hd
    simpa using this

theorem Token.strip_decorated {t : List Char} (ht : Token t) (w₁ w₂ : List Char) (h₁ : AllWs w₁) (h₂ : AllWs w₂) :
    strip (w₁ ++ t ++ w₂) = t := by
  rw [GeoVerif.strip_decorated w₁ w₂ t h₁ h₂, ht.strip_eq]

theorem allWs_noComma (w : List Char) (hw : AllWs w) : NoComma w := by
  intro c hc hcc
  have := hw c hc
  subst hcc
  simp [isWs] at this

theorem NoComma.append {a b : List Char} (ha : NoComma a) (hb : NoComma b) : NoComma (a ++ b) := by
  intro c hc
  rcases List.mem_append.mp hc with h | h
  · exact ha c h
  · exact hb c h

/-- `name , value` with arbitrary blanks around the name, the comma and the value gives exactly (name, value) -/
theorem parseLine_name_value (name val w₁ w₂ w₃ w₄ : List Char) (hn : Token name) (hv : Token val)
    (h₁ : AllWs w₁) (h₂ : AllWs w₂) (h₃ : AllWs w₃) (h₄ : AllWs w₄) (hnc : isCommentLine name = false)
    (hlen : 2 ≤ name.length) :
    parseLine (w₁ ++ name ++ w₂ ++ ',' :: (w₃ ++ val ++ w₄)) = some ⟨name, val, []⟩ := by
  -- outer strip removes w₁ and w₄
  have hrew : w₁ ++ name ++ w₂ ++ ',' :: (w₃ ++ val ++ w₄) = w₁ ++ (name ++ w₂ ++ ',' :: (w₃ ++ val)) ++ w₄ := by simp
  rw [hrew, parseLine_decorated w₁ w₄ _ h₁ h₄]
  -- the core starts with a non-ws char of `name` and ends with a non-ws char of `val`
  obtain ⟨c, m, hcm, hc, _⟩ := hn.shape
  obtain ⟨vc, vm, hvm, hvc, hvend⟩ := hv.shape
  have hcore : strip (name ++ w₂ ++ ',' :: (w₃ ++ val)) = name ++ w₂ ++ ',' :: (w₃ ++ val) := by
    rcases hvend with rfl | ⟨m', d, rfl, hd⟩
    · -- val = [vc]
      subst hcm; subst hvm
      have := strip_solid c vc (m ++ w₂ ++ ',' :: w₃) hc hvc
      simpa using this
    · subst hcm; subst hvm
      have := strip_solid c d (m ++ w₂ ++ ',' :: (w₃ ++ vc :: m')) hc hd
      simpa using this
  unfold parseLine
  rw [hcore]
  unfold parseStripped
  have hcomment : isCommentLine (name ++ w₂ ++ ',' :: (w₃ ++ val)) = false := by
    subst hcm
    cases m with
    | nil => simp at hlen
    | cons m0 ms =>
      simp only [List.cons_append] at hnc ⊢
      revert hnc
      unfold isCommentLine
      intro hnc
      split <;> simp_all
  rw [hcomment]
  have hsplit : splitComma (name ++ w₂ ++ ',' :: (w₃ ++ val)) = (name ++ w₂) :: [w₃ ++ val] := by
    rw [splitComma_append (name ++ w₂) (w₃ ++ val) (hn.noComma.append (allWs_noComma w₂ h₂))]
    rw [splitComma_noComma (w₃ ++ val) ((allWs_noComma w₃ h₃).append hv.noComma)]
  simp only [Bool.false_eq_true, if_false, hsplit, commentOf]
  have e1 : strip (name ++ w₂) = name := by
    have := hn.strip_decorated [] w₂ (by intro e he; simp at he) h₂
    simpa using this
  have e2 : strip (w₃ ++ val) = val := by
    have := hv.strip_decorated w₃ [] h₃ (by intro e he; simp at he)
    simpa using this
  rw [e1, e2]

/-- a trailing comment after a second comma does not change name and value -/
theorem parseLine_trailing_comment (name val cmt : List Char) (hn : Token name) (hv : Token val) (hc : Token cmt)
    (hnc : isCommentLine name = false) (hlen : 2 ≤ name.length) :
    (parseLine (name ++ ',' :: (val ++ ',' :: cmt))).map (fun e => (e.key, e.val)) = some (name, val) := by
  obtain ⟨c, m, hcm, hcw, _⟩ := hn.shape
  obtain ⟨cc, cm, hccm, hccw, hcend⟩ := hc.shape
  have hcore : strip (name ++ ',' :: (val ++ ',' :: cmt)) = name ++ ',' :: (val ++ ',' :: cmt) := by
    rcases hcend with rfl | ⟨m', d, rfl, hd⟩
    · subst hcm; subst hccm
      have := strip_solid c cc (m ++ ',' :: (val ++ [','])) hcw hccw
      simpa using this
    · subst hcm; subst hccm
      have := strip_solid c d (m ++ ',' :: (val ++ ',' :: cc :: m')) hcw hd
      simpa using this
  unfold parseLine
  rw [hcore]
  unfold parseStripped
  have hcomment : isCommentLine (name ++ ',' :: (val ++ ',' :: cmt)) = false := by
    subst hcm
    cases m with
    | nil => simp at hlen
    | cons m0 ms =>
      simp only [List.cons_append] at hnc ⊢
      revert hnc; unfold isCommentLine; intro hnc
      split <;> simp_all
  rw [hcomment]
  have hsplit : splitComma (name ++ ',' :: (val ++ ',' :: cmt)) = name :: val :: [cmt] := by
    rw [splitComma_append name _ hn.noComma, splitComma_append val _ hv.noComma, splitComma_noComma cmt hc.noComma]
  simp only [Bool.false_eq_true, if_false, hsplit, Option.map_some, hn.strip_eq, hv.strip_eq]

/-! ### whole files -/

theorem parseFile_append (a b : List (List Char)) : parseFile (a ++ b) = parseFile a ++ parseFile b := by
  simp [parseFile, List.filterMap_append]

/-- inserting or deleting a line that carries no entry (comment, blank, no comma) changes nothing -/
theorem parseFile_skip (a b : List (List Char)) (l : List Char) (h : parseLine l = none) :
    parseFile (a ++ l :: b) = parseFile (a ++ b) := by
  simp [parseFile, List.filterMap_append, List.filterMap_cons, h]

theorem lookupKey_of_same_subsequences (l₁ l₂ : List LineEntry)
    (h : ∀ k, l₁.filter (fun e => e.key == k) = l₂.filter (fun e => e.key == k)) :
    ∀ k, lookupKey k l₁ = lookupKey k l₂ := by
  intro k; unfold lookupKey; rw [h k]

/-- any permutation of entries with pairwise distinct names yields the same dictionary -/
theorem lookupKey_perm_distinct (l₁ l₂ : List LineEntry) (hp : l₁.Perm l₂) (hd : (l₁.map (·.key)).Nodup) :
    ∀ k, lookupKey k l₁ = lookupKey k l₂ := by
  apply lookupKey_of_same_subsequences
  intro k
  have hperm : (l₁.filter (fun e => e.key == k)).Perm (l₂.filter (fun e => e.key == k)) := hp.filter _
  have hlen : ∀ l : List LineEntry, (l.map (·.key)).Nodup → (l.filter (fun e => e.key == k)).length ≤ 1 := by
    intro l hl
    induction l with
    | nil => simp
    | cons a as ih =>
      simp only [List.map_cons, List.nodup_cons] at hl
      by_cases hak : (a.key == k) = true
      · have hnone : as.filter (fun e => e.key == k) = [] := by
          rw [List.filter_eq_nil_iff]
          intro e he hek
          apply hl.1
          have h1 : a.key = k := by simpa using hak
          have h2 : e.key = k := by simpa using hek
          rw [h1, ← h2]
          exact List.mem_map_of_mem he
        simp [List.filter_cons, hak, hnone]
      · have : (a.key == k) = false := by simpa using hak
        simp only [List.filter_cons, this, Bool.false_eq_true, if_false]
        exact ih hl.2
  have h1 := hlen l₁ hd
  have h2 : (l₂.filter (fun e => e.key == k)).length ≤ 1 := by rw [← hperm.length_eq]; exact h1
  generalize l₁.filter (fun e => e.key == k) = A at hperm h1
  generalize l₂.filter (fun e => e.key == k) = B at hperm h2
  match A, B, hperm, h1, h2 with
  | [], [], _, _, _ => rfl
  | [], b :: bs, hperm, _, _ => exact absurd hperm.length_eq (by simp)
  | a :: as, [], hperm, _, _ => exact absurd hperm.length_eq (by simp)
  | [a], [b], hperm, _, _ => simpa using hperm
  | a :: a' :: as, _, _, h1, _ => simp at h1
  | _, b :: b' :: bs, _, _, h2 => simp at h2

/-- when a parameter appears more than once the last occurrence governs -/
theorem lookupKey_last_wins (l l' : List LineEntry) (k v cmt : List Char) (h : ∀ e ∈ l', e.key ≠ k) :
    lookupKey k (l ++ [⟨k, v, cmt⟩] ++ l') = some v := by
  unfold lookupKey
  have h1 : l'.filter (fun e => e.key == k) = [] := by
    rw [List.filter_eq_nil_iff]
    intro e he hek
    exact h e he (by simpa using hek)
  simp [List.filter_append, h1]

end GeoVerif
