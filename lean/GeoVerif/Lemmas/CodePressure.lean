import GeoVerif.Lemmas.PyLoops
import GeoVerif.Model.Pressure
import GeoVerif.Generated.Code
/-! The generated transcription of `InjectionReservoirPressurePredictor` equals the model `injPressure` — for all arguments. -/
namespace GeoVerif
open Py

theorem code_injPressure_eq (L n : Nat) (p0 rate : Rat) :
    Code.InjectionReservoirPressurePredictor (L : Int) (n : Int) p0 rate = injPressure L n p0 rate := by
  unfold Code.InjectionReservoirPressurePredictor injPressure
  have em : (L : Int) * (n : Int) = ((L * n : Nat) : Int) := by push_cast; ring
  simp only [em, replicate_nat, Int.cast_zero, Int.cast_natCast]
  generalize L * n = m
  by_cases hr : rate = 0
  · simp [hr]
  · simp only [hr, if_false]
    cases m with
    | zero => simp [Py.range, Py.set]
    | succ k =>
      have e1 : ((k + 1 : Nat) : Int) = ((1 : Nat) : Int) + (k : Int) := by push_cast; ring
      rw [e1]
      have e0 : Py.set (List.replicate (k + 1) p0) ((0 : Nat) : Int) p0 = (List.replicate (k + 1) p0).set 0 p0 := set_nat _ 0 p0
      simp only [Nat.cast_zero] at e0
      obtain ⟨hl, hin, hout⟩ := foldl_rec 1 k (fun j _ => p0 + rate / (n : Rat) * (j : Rat))
        (fun (pressure : List Rat) (current_timestep : Int) =>
          let pressure := Py.set pressure current_timestep (p0 + ((rate / (n : Rat)) * ((current_timestep : Int) : Rat)))
          pressure)
        ((List.replicate (k + 1) p0).set 0 p0) (by simp; omega) (by intros; rfl) (by
          intro xs j _ _
          simp only [set_add]
          congr 2
          all_goals (push_cast; ring))
      simp only [Nat.cast_one] at hl hin hout ⊢
      rw [e0]
      apply ext_getD
      · rw [hl]; simp
      · intro j hj
        rw [hl] at hj
        simp only [List.length_set, List.length_replicate] at hj
        have hj' : j < k + 1 := hj
        by_cases h0 : j = 0
        · subst h0
          rw [hout 0 (by omega), getD_set_self _ _ _ (by simp)]
          simp [List.getD_eq_getElem?_getD]
        · rw [hin j (by omega) (by omega)]
          simp [List.getD_eq_getElem?_getD, List.getElem?_range hj', h0]

end GeoVerif
