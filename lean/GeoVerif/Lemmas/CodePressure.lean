import GeoVerif.Lemmas.PyLoops
import GeoVerif.Model.Pressure
import GeoVerif.Generated.Code
/-! The generated transcription of `InjectionReservoirPressurePredictor` equals the model `injPressure` — for all arguments. -/
namespace GeoVerif
open Py

theorem code_injPressure_eq (L n : Nat) (p0 rate : Rat) :
    Code.InjectionReservoirPressurePredictor (L : Int) (n : Int) p0 rate = injPressure L n p0 rate := by
  unfold Code.InjectionReservoirPressurePredictor injPressure
  have em : (L : Int) * (n : Int) = ((L * n : Nat) : Int) := by push_cast; ring
  simp only [em, replicate_nat, Int.cast_zero, Int.cast_natCast]
  generalize L * n = m
  by_cases hr : rate = 0
  · simp [hr]
  · simp only [hr, if_false]
    cases m with
    | zero => simp [Py.range, Py.set]
    | succ k =>
      have e1 : ((k + 1 : Nat) : Int) = ((1 : Nat) : Int) + (k : Int) := by push_cast; ring
      rw [e1]
      have e0 : Py.set (List.replicate (k + 1) p0) ((0 : Nat) : Int) p0 = (List.replicate (k + 1) p0).set 0 p0 := set_nat _ 0 p0
      simp only [Nat.cast_zero] at e0
      obtain ⟨hl, hin, hout⟩ := foldl_rec 1 k (fun j _ => p0 + rate / (n : Rat) * (j : Rat))
        (fun (pressure : List Rat) (current_timestep : Int) =>
          let pressure := Py.set pressure current_timestep (p0 + ((rate / (n : Rat)) * ((current_timestep : Int) : Rat)))
          pressure)
        ((List.replicate (k + 1) p0).set 0 p0) (by simp; omega) (by intros; rfl) (by
          intro xs j _ _
          simp only [set_add]
          congr 2
          all_goals (push_cast; ring))
      simp only [Nat.cast_one] at hl hin hout ⊢
      rw [e0]
      apply ext_getD
      · rw [hl]; simp
      · intro j hj
        rw [hl] at hj
        simp only [List.length_set, List.length_replicate] at hj
        have hj' : j < k + 1 := hj
        by_cases h0 : j = 0
        · subst h0
          rw [hout 0 (by omega), getD_set_self _ _ _ (by simp)]
          simp [List.getD_eq_getElem?_getD]
        · rw [hin j (by omega) (by omega)]
          simp [List.getD_eq_getElem?_getD, List.getElem?_range hj', h0]

end GeoVerif

namespace GeoVerif
open Py

theorem pressLoop_length (p0 P0 dlt : Rat) (k t : Nat) (s : Bool) : (pressLoop p0 P0 dlt k t s).length = k := by
  induction k generalizing t s with
  | zero => simp [pressLoop]
  | succ m ih =>
    unfold pressLoop
    by_cases hs : s = true
    · simp [hs, ih]
    · simp only [hs]
      by_cases hv : P0 - dlt * (t : Rat) < p0 <;> simp [hv, ih]

/-- one iteration of the transcribed loop body of `ReservoirPressurePredictor` (with the `break` flag) -/
def rppStep (p0 dlt : Rat) (st : List Rat × Bool) (timestep : Int) : List Rat × Bool :=
  let pressure := st.1
  let brk_ := st.2
  if brk_ = true then (pressure, brk_) else (
    let pressure := Py.set pressure timestep ((Py.get pressure (0 : Int)) - (dlt * ((timestep : Int) : Rat)))
    let st := if ((Py.get pressure timestep) < p0) then (
        let pressure := Py.set pressure timestep p0
        let brk_ := true
        (pressure, brk_)) else (
        (pressure, brk_))
    let pressure := st.1
    let brk_ := st.2
    (pressure, brk_))

/-- the loop from time step `t` on, started in any state whose untouched tail still holds the fill value `p0`: pointwise it is `pressLoop` -/
theorem rpp_loop (p0 P0 dlt : Rat) (j : Nat) : ∀ (t : Nat) (xs : List Rat) (s : Bool), 1 ≤ t → t + j ≤ xs.length →
    xs.getD 0 0 = P0 → (∀ i, t ≤ i → i < xs.length → xs.getD i 0 = p0) →
    let res := ((List.range j).map (fun (k : Nat) => (t : Int) + (k : Int))).foldl (rppStep p0 dlt) (xs, s)
    res.1.length = xs.length ∧
    ∀ i, res.1.getD i 0 = if t ≤ i ∧ i < t + j then (pressLoop p0 P0 dlt j t s).getD (i - t) 0 else xs.getD i 0 := by
  induction j with
  | zero =>
    intro t xs s _ _ _ _
    simp
  | succ m ih =>
    intro t xs s ht hlen h0 htail
    simp only [List.range_succ_eq_map, List.map_cons, List.map_map, List.foldl_cons, Nat.cast_zero, add_zero]
    -- the state after the iteration at `t`
    have hstep : ∃ (v : Rat) (s' : Bool), rppStep p0 dlt (xs, s) (t : Int) = (xs.set t v, s') ∧
        pressLoop p0 P0 dlt (m + 1) t s = v :: pressLoop p0 P0 dlt m (t + 1) s' ∧ (s = true → v = p0) := by
      have htl : t < xs.length := by omega
      by_cases hs : s = true
      · refine ⟨p0, true, ?_, ?_, fun _ => rfl⟩
        · have : xs.set t p0 = xs := by
            apply ext_getD _ _ (by simp)
            intro i _
            by_cases hi : t = i
            · subst hi; rw [getD_set_self _ _ _ htl, htail t (le_refl _) htl]
            · rw [getD_set_ne _ _ _ _ hi]
          simp [rppStep, hs, this]
        · subst hs; rw [pressLoop]; simp
      · have hs' : s = false := by cases s <;> simp_all
        subst hs'
        have e0 : Py.get xs (0 : Int) = P0 := by
          have := get_nat xs 0
          simp only [Nat.cast_zero] at this
          rw [this, h0]
        by_cases hv : P0 - dlt * (t : Rat) < p0
        · refine ⟨p0, true, ?_, ?_, fun h => by simp at h⟩
          · simp [rppStep, set_nat, get_nat, e0, List.getElem?_set_self htl, hv, List.set_set]
          · rw [pressLoop]; simp [hv]
        · refine ⟨P0 - dlt * (t : Rat), false, ?_, ?_, fun h => by simp at h⟩
          · simp [rppStep, set_nat, get_nat, e0, List.getElem?_set_self htl, hv]
          · rw [pressLoop]; simp [hv]
    obtain ⟨v, s', hst, hpl, _⟩ := hstep
    rw [hst]
    have hfun : ((fun (k : Nat) => (t : Int) + (k : Int)) ∘ Nat.succ) = (fun (k : Nat) => ((t + 1 : Nat) : Int) + (k : Int)) := by
      funext k; simp only [Function.comp]; push_cast; ring
    rw [hfun]
    have htl : t < xs.length := by omega
    obtain ⟨hl, hp⟩ := ih (t + 1) (xs.set t v) s' (by omega) (by simp; omega)
      (by rw [getD_set_ne _ _ _ _ (by omega)]; exact h0)
      (by intro i hi hil; rw [getD_set_ne _ _ _ _ (by omega)]; exact htail i (by omega) (by simpa using hil))
    refine ⟨by simpa using hl, ?_⟩
    intro i
    rw [hp i, hpl]
    by_cases hi : t = i
    · subst hi
      have : ¬ (t + 1 ≤ t ∧ t < t + 1 + m) := by omega
      simp [this, List.getElem?_set_self htl]
    · rw [getD_set_ne _ _ _ _ hi]
      by_cases h1 : t + 1 ≤ i ∧ i < t + 1 + m
      · have h2 : t ≤ i ∧ i < t + (m + 1) := by omega
        have e : i - t = (i - (t + 1)) + 1 := by omega
        simp [h1, h2, e]
      · have h2 : ¬ (t ≤ i ∧ i < t + (m + 1)) := by omega
        simp [h1, h2]

theorem trunc_of_nonneg (x : Rat) (h : 0 ≤ x) : Py.trunc x = x.floor := by simp [Py.trunc, h]

/-- the transcription of `ReservoirPressurePredictor` is the model `resPressure` (guard: `int(…)` truncates, the model floors — equal for the
non-negative step counts that non-negative depletion rates give) -/
theorem code_resPressure_eq (L n : Nat) (p0 pct rate : Rat) (hnn : 0 ≤ (100 / rate) * (n : Rat)) :
    Code.ReservoirPressurePredictor (L : Int) (n : Int) p0 pct rate = resPressure L n p0 pct rate := by
  unfold Code.ReservoirPressurePredictor resPressure
  have em : (L : Int) * (n : Int) = ((L * n : Nat) : Int) := by push_cast; ring
  simp only [em, replicate_nat, Int.cast_natCast, trunc_of_nonneg _ hnn, Int.cast_ofNat]
  generalize L * n = m
  by_cases hp : pct = 100
  · simp [hp]
  · simp only [hp, if_false]
    cases m with
    | zero => simp [Py.range, Py.set]
    | succ k =>
      simp only
      have e0 : Py.set (List.replicate (k + 1) p0) (0 : Int) (p0 * (pct / 100)) = (List.replicate (k + 1) p0).set 0 (p0 * (pct / 100)) := by
        have := set_nat (List.replicate (k + 1) p0) 0 (p0 * (pct / 100))
        simpa using this
      have eg : Py.get ((List.replicate (k + 1) p0).set 0 (p0 * (pct / 100))) (0 : Int) = p0 * (pct / 100) := by
        have := get_nat ((List.replicate (k + 1) p0).set 0 (p0 * (pct / 100))) 0
        simp only [Nat.cast_zero] at this
        rw [this, getD_set_self _ _ _ (by simp)]
      rw [e0, eg]
      have er : Py.range (1 : Int) ((k + 1 : Nat) : Int) = (List.range k).map (fun (j : Nat) => ((1 : Nat) : Int) + (j : Int)) := by
        have : (((k + 1 : Nat) : Int) - 1).toNat = k := by omega
        simp [Py.range, this]
      rw [er]
      obtain ⟨hl, hpt⟩ := rpp_loop p0 (p0 * (pct / 100)) ((p0 * (pct / 100) - p0) / (((100 / rate * (n : Rat)).floor : Int) : Rat)) k 1
        ((List.replicate (k + 1) p0).set 0 (p0 * (pct / 100))) false (le_refl _) (by simp; omega)
        (getD_set_self _ _ _ (by simp))
        (by intro i hi hil; rw [getD_set_ne _ _ _ _ (by omega), getD_replicate]; simp at hil; simp [hil])
      change (List.foldl (rppStep p0 ((p0 * (pct / 100) - p0) / (((100 / rate * (n : Rat)).floor : Int) : Rat))) _ _).1 = _
      apply ext_getD
      · rw [hl]; simp [pressLoop_length]
      · intro i hi
        rw [hpt i]
        by_cases h1 : 1 ≤ i ∧ i < 1 + k
        · have e : i = (i - 1) + 1 := by omega
          rw [if_pos h1]
          conv_rhs => rw [e]
          simp
        · rw [if_neg h1]
          rw [hl] at hi
          simp only [List.length_set, List.length_replicate] at hi
          have : i = 0 := by omega
          subst this
          rw [getD_set_self _ _ _ (by simp)]
          simp

end GeoVerif
