import Mathlib.Tactic.Linarith
import Mathlib.Data.List.Basic
namespace GeoVerif

/-- a worker's view of its RNG: which stream (seed) and how many numbers consumed so far -/
structure Worker where
  seed : Nat
  pos  : Nat
deriving DecidableEq, Repr

/-- a sample = the stream positions one iteration consumed -/
structure Sample where
  seed  : Nat
  start : Nat
  len   : Nat
deriving DecidableEq, Repr

/-- schedule event: worker `w` (index into the pool) runs one iteration drawing `d` numbers -/
def runTask (d : Nat) (pool : List Worker) (w : Nat) : List Worker × Option Sample :=
  match pool[w]? with
  | none => (pool, none)
  | some wk => (pool.set w { wk with pos := wk.pos + d }, some ⟨wk.seed, wk.pos, d⟩)

def runSchedule (d : Nat) : List Worker → List Nat → List Sample
  | _, [] => []
  | pool, w :: ws =>
    match runTask d pool w with
    | (pool', some s) => s :: runSchedule d pool' ws
    | (pool', none)   => runSchedule d pool' ws

def Overlap (a b : Sample) : Prop :=
  a.seed = b.seed ∧ a.start < b.start + b.len ∧ b.start < a.start + a.len

/-- pool invariant: seeds are pairwise distinct -/
def FreshSeeds (pool : List Worker) : Prop := (pool.map (·.seed)).Nodup

/-- every sample produced later starts at or after the current position of its worker -/
theorem later_samples_after (d : Nat) (pool : List Worker) (ws : List Nat) (hf : FreshSeeds pool) :
    ∀ s ∈ runSchedule d pool ws, ∃ wk ∈ pool, wk.seed = s.seed ∧ wk.pos ≤ s.start ∧ s.len = d := by
  induction ws generalizing pool with
  | nil => intro s hs; simp [runSchedule] at hs
  | cons w ws ih =>
    intro s hs
    unfold runSchedule at hs
    unfold runTask at hs
    cases hw : pool[w]? with
    | none =>
      simp only [hw] at hs
      exact ih pool hf s hs
    | some wk =>
      simp only [hw] at hs
      have hwlt : w < pool.length := by
        rcases List.getElem?_eq_some_iff.mp hw with ⟨h, _⟩; exact h
      have hwk : pool[w] = wk := by
        rcases List.getElem?_eq_some_iff.mp hw with ⟨_, h⟩; exact h
      have hf' : FreshSeeds (pool.set w { wk with pos := wk.pos + d }) := by
        unfold FreshSeeds at *
        have : (pool.set w { wk with pos := wk.pos + d }).map (·.seed) = pool.map (·.seed) := by
          apply List.ext_getElem
          · simp
          · intro i h1 h2
            simp only [List.getElem_map, List.getElem_set]
            split
            · rename_i h; subst h; simp [hwk]
            · rfl
        rw [this]; exact hf
      rcases List.mem_cons.mp hs with h | h
      · subst h
        exact ⟨wk, by rw [← hwk]; exact List.getElem_mem hwlt, rfl, le_refl _, rfl⟩
      · obtain ⟨wk', hmem, hseed, hpos, hlen⟩ := ih _ hf' s h
        rcases List.mem_iff_getElem.mp hmem with ⟨i, hi, hget⟩
        simp only [List.getElem_set] at hget
        split at hget
        · subst hget
          exact ⟨wk, by rw [← hwk]; exact List.getElem_mem hwlt, hseed, by simp at hpos; omega, hlen⟩
        · exact ⟨wk', by rw [← hget]; exact List.getElem_mem (by simpa using hi), hseed, hpos, hlen⟩

#print axioms later_samples_after
end GeoVerif
