import Mathlib.Data.List.Basic
import GeoVerif.Model.Proc
namespace GeoVerif

/-- cache invariant: every cached report is what the simulator gives for the cached content -/
def CacheOk (sim : String → Option String) (p : Proc) : Prop :=
  ∀ e ∈ p.cache, sim e.1.2 = some e.2

theorem cacheGet_sound (sim) (p : Proc) (h : CacheOk sim p) (k : String × String) (r : String)
    (hg : cacheGet p.cache k = some r) : sim k.2 = some r := by
  unfold cacheGet at hg
  cases hf : p.cache.find? (·.1 == k) with
  | none => simp [hf] at hg
  | some e =>
    simp [hf] at hg
    have hmem := List.mem_of_find?_eq_some hf
    have hk : e.1 = k := by simpa using List.find?_some hf
    have := h e hmem
    rw [hk] at this; rw [← hg]; exact this

/-- one step of the repaired client: argv untouched, cwd moved only by `chdir`, result is that of the current content -/
theorem stepFixed_spec (sim) (p : Proc) (h : CacheOk sim p) (op : Op) :
    let (p', o) := stepFixed sim p op
    CacheOk sim p' ∧ p'.argv = p.argv ∧
    (match op with
     | .chdir d => p'.cwd = d
     | _ => p'.cwd = p.cwd) ∧
    (match op with
     | .request path _ => o = (match sim (readFile p path) with | some r => .report r | none => .failed)
     | _ => o = .none) := by
  cases op with
  | rewrite path content => simp [stepFixed, CacheOk] at *; exact h
  | chdir d => simp [stepFixed, CacheOk] at *; exact h
  | request path caching =>
    simp only [stepFixed]
    cases hc : (if caching then cacheGet p.cache (path, readFile p path) else none) with
    | some r =>
      simp only []
      refine ⟨h, by first | rfl | trivial, by first | rfl | trivial, ?_⟩
      have : cacheGet p.cache (path, readFile p path) = some r := by
        by_cases hb : caching <;> simp [hb] at hc; exact hc
      have hs := cacheGet_sound sim p h _ r this
      simp at hs; simp [hs]
    | none =>
      simp only []
      cases hs : sim (readFile p path) with
      | none => simp; exact h
      | some r =>
        simp only []
        refine ⟨?_, by first | rfl | trivial, by first | rfl | trivial, by first | rfl | trivial⟩
        intro e he
        by_cases hb : caching
        · simp [hb] at he
          rcases he with he | he
          · subst he; simpa using hs
          · exact h e he
        · simp [hb] at he; exact h e he

/-- every history: argv is never changed and the cache stays sound -/
theorem run_fixed_invariant (sim) (ops : List Op) (p : Proc) (h : CacheOk sim p) :
    CacheOk sim (run (stepFixed sim) p ops).1 ∧ (run (stepFixed sim) p ops).1.argv = p.argv := by
  induction ops generalizing p with
  | nil => exact ⟨h, rfl⟩
  | cons op ops ih =>
    have hs := stepFixed_spec sim p h op
    simp only [run]
    rcases hstep : stepFixed sim p op with ⟨p', o⟩
    rw [hstep] at hs
    obtain ⟨hc, ha, _, _⟩ := hs
    have := ih p' hc
    simp only []
    exact ⟨this.1, by rw [this.2, ha]⟩

/-- the pinned client violates both clauses -/
def p0 : Proc := { cwd := "/home/u", argv := ["prog"], cache := [], files := [("f", "good3"), ("g", "bad")] }
def simEx : String → Option String := fun c => if c == "bad" then none else some ("report:" ++ c)

theorem pinned_leaves_cwd_argv :
    (run (stepPinned simEx) p0 [.request "g" true]).1.cwd ≠ p0.cwd ∧
    (run (stepPinned simEx) p0 [.request "g" true]).1.argv ≠ p0.argv := by decide

theorem pinned_serves_stale :
    (run (stepPinned simEx) p0 [.request "f" true, .rewrite "f" "good4", .request "f" true]).2
      = [.report "report:good3", .none, .report "report:good3"] := by decide

theorem fixed_serves_fresh :
    (run (stepFixed simEx) p0 [.request "f" true, .rewrite "f" "good4", .request "f" true]).2
      = [.report "report:good3", .none, .report "report:good4"] := by decide

#print axioms run_fixed_invariant
#print axioms pinned_serves_stale
end GeoVerif
