import Mathlib.Data.List.Basic
import GeoVerif.Model.Proc
namespace GeoVerif

/-- cache invariant: every cached report is what the simulator gives for the cached content -/
def CacheOk (sim : String → Option String) (p : Proc) : Prop :=
  ∀ e ∈ p.cache, sim e.1.2 = some e.2

theorem cacheGet_sound (sim) (p : Proc) (h : CacheOk sim p) (k : String × String) (r : String)
    (hg : cacheGet p.cache k = some r) : sim k.2 = some r := by
  unfold cacheGet at hg
  cases hf : p.cache.find? (·.1 == k) with
  | none => simp [hf] at hg
  | some e =>
    simp [hf] at hg
    have hmem := List.mem_of_find?_eq_some hf
    have hk : e.1 = k := by simpa using List.find?_some hf
    have := h e hmem
    rw [hk] at this; rw [← hg]; exact this

/-- one step of the repaired client: argv untouched, cwd moved only by `chdir`, result is that of the current content -/
theorem stepFixed_spec (sim) (p : Proc) (h : CacheOk sim p) (op : Op) :
    let (p', o) := stepFixed sim p op
    CacheOk sim p' ∧ p'.argv = p.argv ∧
    (match op with
     | .chdir d => p'.cwd = d
     | _ => p'.cwd = p.cwd) ∧
    (match op with
     | .request path _ => o = (match sim (readFile p path) with | some r => .report r | none => .failed)
     | _ => o = .none) := by
  cases op with
  | rewrite path content => simp [stepFixed, CacheOk] at *; exact h
  | chdir d => simp [stepFixed, CacheOk] at *; exact h
  | request path caching =>
    simp only [stepFixed]
    cases hc : (if caching then cacheGet p.cache (path, readFile p path) else none) with
    | some r =>
      simp only []
      refine ⟨h, by first | rfl | trivial, by first | rfl | trivial, ?_⟩
      have : cacheGet p.cache (path, readFile p path) = some r := by
        by_cases hb : caching <;> simp [hb] at hc; exact hc
      have hs := cacheGet_sound sim p h _ r this
      simp at hs; simp [hs]
    | none =>
      simp only []
      cases hs : sim (readFile p path) with
      | none => simp; exact h
      | some r =>
        simp only []
        refine ⟨?_, by first | rfl | trivial, by first | rfl | trivial, by first | rfl | trivial⟩
        intro e he
        by_cases hb : caching
        · simp [hb] at he
          rcases he with he | he
          · subst he; simpa using hs
          · exact h e he
        · simp [hb] at he; exact h e he

/-- every history: argv is never changed and the cache stays sound -/
theorem run_fixed_invariant (sim) (ops : List Op) (p : Proc) (h : CacheOk sim p) :
    CacheOk sim (run (stepFixed sim) p ops).1 ∧ (run (stepFixed sim) p ops).1.argv = p.argv := by
  induction ops generalizing p with
  | nil => exact ⟨h, rfl⟩
  | cons op ops ih =>
    have hs := stepFixed_spec sim p h op
    simp only [run]
    rcases hstep : stepFixed sim p op with ⟨p', o⟩
    rw [hstep] at hs
    obtain ⟨hc, ha, _, _⟩ := hs
    have := ih p' hc
    simp only []
    exact ⟨this.1, by rw [this.2, ha]⟩

/-- the pinned client violates both clauses -/
def p0 : Proc := { cwd := "/home/u", argv := ["prog"], cache := [], files := [("f", "good3"), ("g", "bad")] }
def simEx : String → Option String := fun c => if c == "bad" then none else some ("report:" ++ c)

theorem pinned_leaves_cwd_argv :
    (run (stepPinned simEx) p0 [.request "g" true]).1.cwd ≠ p0.cwd ∧
    (run (stepPinned simEx) p0 [.request "g" true]).1.argv ≠ p0.argv := by decide

theorem pinned_serves_stale :
    (run (stepPinned simEx) p0 [.request "f" true, .rewrite "f" "good4", .request "f" true]).2
      = [.report "report:good3", .none, .report "report:good3"] := by decide

theorem fixed_serves_fresh :
    (run (stepFixed simEx) p0 [.request "f" true, .rewrite "f" "good4", .request "f" true]).2
      = [.report "report:good3", .none, .report "report:good4"] := by decide

#print axioms run_fixed_invariant
#print axioms pinned_serves_stale
end GeoVerif

namespace GeoVerif

theorem abs_read (p : Proc) (path : String) : specRead p.abs path = readFile p path := rfl

/-- one step of the repaired client refines the specification step -/
theorem stepFixed_refines (sim) (p : Proc) (h : CacheOk sim p) (op : Op) :
    (stepFixed sim p op).1.abs = (specStep sim p.abs op).1 ∧ (stepFixed sim p op).2 = (specStep sim p.abs op).2 ∧
    CacheOk sim (stepFixed sim p op).1 ∧ (stepFixed sim p op).1.argv = p.argv := by
  have hs := stepFixed_spec sim p h op
  cases op with
  | rewrite path content =>
    simp only [stepFixed, specStep, Proc.abs] at hs ⊢
    exact ⟨trivial, trivial, hs.1, hs.2.1⟩
  | chdir d =>
    simp only [stepFixed, specStep, Proc.abs] at hs ⊢
    exact ⟨trivial, trivial, hs.1, hs.2.1⟩
  | request path caching =>
    have hf : (stepFixed sim p (.request path caching)).1.files = p.files := by
      simp only [stepFixed]
      split
      · rfl
      · split <;> rfl
    generalize hst : stepFixed sim p (.request path caching) = st at hs hf ⊢
    obtain ⟨p', o⟩ := st
    simp only at hs hf
    obtain ⟨h1, h2, h3, h4⟩ := hs
    refine ⟨?_, ?_, h1, h2⟩
    · simp only [Proc.abs, specStep]
      rw [hf, h3]
    · simp only [specStep, abs_read]
      exact h4

/-- every history: the outputs of the (repaired) client are those of the specification — a result is always the
simulation of the file content at the moment of the request, whatever ran before, with or without caching -/
theorem run_fixed_refines (sim) (ops : List Op) (p : Proc) (h : CacheOk sim p) :
    (run (stepFixed sim) p ops).2 = (specRun sim p.abs ops).2 ∧ (run (stepFixed sim) p ops).1.abs = (specRun sim p.abs ops).1 ∧
    (run (stepFixed sim) p ops).1.argv = p.argv := by
  induction ops generalizing p with
  | nil => exact ⟨rfl, rfl, rfl⟩
  | cons op ops ih =>
    obtain ⟨ha, ho, hc, hargv⟩ := stepFixed_refines sim p h op
    have := ih (stepFixed sim p op).1 hc
    simp only [run, specRun]
    rw [← ha, ← ho]
    refine ⟨by rw [this.1], this.2.1, by rw [this.2.2, hargv]⟩

/-- the working directory after any history is the argument of the last `chdir` (or the initial one): requests,
successful or failed, never move it -/
def lastChdir (init : String) : List Op → String
  | [] => init
  | .chdir d :: ops => lastChdir d ops
  | _ :: ops => lastChdir init ops

theorem specRun_cwd (sim) (ops : List Op) (s : SpecProc) : (specRun sim s ops).1.cwd = lastChdir s.cwd ops := by
  induction ops generalizing s with
  | nil => rfl
  | cons op ops ih =>
    cases op with
    | rewrite path content => simp only [specRun, specStep, lastChdir]; rw [ih]
    | chdir d => simp only [specRun, specStep, lastChdir]; rw [ih]
    | request path c => simp only [specRun, specStep, lastChdir]; rw [ih]

theorem run_fixed_cwd (sim) (ops : List Op) (p : Proc) (h : CacheOk sim p) :
    (run (stepFixed sim) p ops).1.cwd = lastChdir p.cwd ops := by
  have := (run_fixed_refines sim ops p h).2.1
  have h2 := specRun_cwd sim ops p.abs
  rw [← this] at h2
  exact h2

/-- memoisation is transparent when the table only holds pairs of the function's graph -/
theorem memo_transparent (f : String → String) (tbl : List (String × String)) (x : String)
    (hinv : ∀ e ∈ tbl, e.2 = f e.1) :
    (memo f tbl x).1 = f x ∧ ∀ e ∈ (memo f tbl x).2, e.2 = f e.1 := by
  unfold memo
  cases hf : tbl.find? (·.1 == x) with
  | some e =>
    have hmem := List.mem_of_find?_eq_some hf
    have hk : e.1 = x := by simpa using List.find?_some hf
    exact ⟨by simp only; rw [hinv e hmem, hk], hinv⟩
  | none =>
    refine ⟨rfl, ?_⟩
    intro e he
    simp only [List.mem_cons] at he
    rcases he with rfl | he
    · rfl
    · exact hinv e he

end GeoVerif
