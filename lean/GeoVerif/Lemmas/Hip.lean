import Mathlib.Tactic.Linarith
import Mathlib.Tactic.Ring
import Mathlib.Tactic.Positivity
import Mathlib.Tactic.FieldSimp
import Mathlib.Algebra.Order.Field.Rat
import GeoVerif.Model.Hip
namespace GeoVerif

theorem recoverableHeat_bounds (t : Rat) : 427 / 1000 ≤ recoverableHeat t ∧ recoverableHeat t ≤ 66 / 100 := by
  unfold recoverableHeat
  split
  · norm_num
  · split
    · norm_num
    · rename_i h1 h2
      have a := not_le.mp h1
      have b := not_le.mp h2
      constructor <;> linarith

theorem hip_available_eq (i : HipIn) (h : i.hNet ≠ 0) :
    (hip i).available = (hip i).stored * (1 - i.tRejK * i.sNet / i.hNet) := by
  simp only [hip]; field_simp

theorem hip_available_le_stored (i : HipIn) (hh : 0 < i.hNet) (hs : 0 ≤ i.tRejK * i.sNet) (hst : 0 ≤ (hip i).stored) :
    (hip i).available ≤ (hip i).stored := by
  rw [hip_available_eq i (ne_of_gt hh)]
  have : 0 ≤ i.tRejK * i.sNet / i.hNet := div_nonneg hs (le_of_lt hh)
  nlinarith

theorem hip_producible_le_available (i : HipIn) (ha : 0 ≤ (hip i).available) : (hip i).producible ≤ (hip i).available := by
  have hb := (recoverableHeat_bounds i.tRes).2
  have : (hip i).producible = (hip i).available * recoverableHeat i.tRes := rfl
  rw [this]
  nlinarith

/-- non-degenerate inputs: positive area / thickness / rock density, porosity below 100 %, non-zero net enthalpy -/
structure HipIn.Regular (i : HipIn) : Prop where
  area : i.area ≠ 0
  thickness : i.thickness ≠ 0
  rock : 1 - i.porosity / 100 ≠ 0
  density : i.rockDensity ≠ 0
  enthalpy : i.hNet ≠ 0

theorem hip_area_scale (i : HipIn) (hr : i.Regular) (k : Rat) (hk : k ≠ 0) :
    hip { i with area := k * i.area } = (hip i).scale k 1 := by
  obtain ⟨ha, ht, hp, hd, hh⟩ := hr
  simp only [hip, HipOut.scale, HipOut.mk.injEq]
  refine ⟨by ring, by ring, by ring, by ring, by ring, by ring, ?_, ?_, trivial, ?_, ?_, by ring, ?_, ?_, ?_, ?_, ?_, ?_, ?_, ?_, ?_⟩
  all_goals (field_simp; try ring)

theorem hip_thickness_scale (i : HipIn) (hr : i.Regular) (k : Rat) (hk : k ≠ 0) :
    hip { i with thickness := k * i.thickness } = (hip i).scale k k := by
  obtain ⟨ha, ht, hp, hd, hh⟩ := hr
  simp only [hip, HipOut.scale, HipOut.mk.injEq]
  refine ⟨by ring, by ring, by ring, by ring, by ring, by ring, ?_, ?_, trivial, ?_, ?_, by ring, ?_, ?_, ?_, ?_, ?_, ?_, ?_, ?_, ?_⟩
  all_goals (field_simp; try ring)

end GeoVerif
