import Mathlib.Tactic.Linarith
import Mathlib.Tactic.Ring
import Mathlib.Tactic.Positivity
import Mathlib.Algebra.Order.Field.Rat
import GeoVerif.Model.Schedules
namespace GeoVerif

theorem pricing_length (L p0 p1 s r ptc) : (pricing L p0 p1 s r ptc).length = L := by
  simp [pricing]

theorem pricing_closed (L : Nat) (p0 p1 : Rat) (s : Nat) (r : Rat) (ptc : List Rat) (i : Nat) (hi : i < L) :
    (pricing L p0 p1 s r ptc).getD i 0 =
      min (p0 + (if s ≤ i then ((i - s : Nat) : Rat) * r else 0)) p1 + ptc.getD i 0 := by
  simp only [pricing, List.getD_eq_getElem?_getD, List.getElem?_map, List.getElem?_range hi, Option.map_some, Option.getD_some]
  congr 1
  unfold basePrice
  by_cases hs : s ≤ i <;> simp only [hs, if_true, if_false, add_zero] <;> split <;> rename_i h
  · rw [min_eq_right (le_of_lt h)]
  · rw [min_eq_left (not_lt.mp h)]
  · rw [min_eq_right (le_of_lt h)]
  · rw [min_eq_left (not_lt.mp h)]

theorem basePrice_eq_min (p0 p1 : Rat) (s : Nat) (r : Rat) (i : Nat) :
    basePrice p0 p1 s r i = min (if s ≤ i then p0 + ((i - s : Nat) : Rat) * r else p0) p1 := by
  unfold basePrice
  simp only
  generalize (if s ≤ i then p0 + ((i - s : Nat) : Rat) * r else p0) = p
  by_cases h : p1 < p
  · rw [if_pos h, min_eq_right (le_of_lt h)]
  · rw [if_neg h, min_eq_left (not_lt.mp h)]

theorem base_le_end (p0 p1 : Rat) (s : Nat) (r : Rat) (i : Nat) : basePrice p0 p1 s r i ≤ p1 := by
  rw [basePrice_eq_min]; exact min_le_right _ _

theorem base_mono (p0 p1 : Rat) (s : Nat) (r : Rat) (hr : 0 ≤ r) (i j : Nat) (hij : i ≤ j) :
    basePrice p0 p1 s r i ≤ basePrice p0 p1 s r j := by
  have key : (if s ≤ i then p0 + ((i - s : Nat) : Rat) * r else p0) ≤ (if s ≤ j then p0 + ((j - s : Nat) : Rat) * r else p0) := by
    by_cases hi : s ≤ i
    · have hj : s ≤ j := le_trans hi hij
      simp only [hi, hj, if_true]
      have : ((i - s : Nat) : Rat) ≤ ((j - s : Nat) : Rat) := by exact_mod_cast Nat.sub_le_sub_right hij s
      nlinarith
    · by_cases hj : s ≤ j
      · simp only [hi, hj, if_true, if_false]
        have : (0:Rat) ≤ ((j - s : Nat) : Rat) := by positivity
        nlinarith
      · simp [hi, hj]
  rw [basePrice_eq_min, basePrice_eq_min]
  exact min_le_min key (le_refl _)

theorem ptcFrom_closed (v infl : Rat) (n : Nat) (year : Nat) (prev : Rat)
    (hprev : 0 < year → prev = v * (1 + infl) ^ (year - 1)) (k : Nat) (hk : k < n) :
    (ptcFrom v infl true n prev year).getD k 0 = v * (1 + infl) ^ (year + k) := by
  induction n generalizing year prev k with
  | zero => omega
  | succ m ih =>
    unfold ptcFrom
    by_cases hy : year > 0
    · simp only [Bool.true_and, decide_eq_true_eq, hy, if_true]
      cases k with
      | zero =>
        simp [hprev hy]
        have : year = (year - 1) + 1 := by omega
        conv_rhs => rw [this, pow_succ]
        ring
      | succ k' =>
        simp only [List.getD_cons_succ]
        rw [ih (year + 1) (prev * (1 + infl)) (by
          intro _; rw [hprev hy]
          have : year + 1 - 1 = (year - 1) + 1 := by omega
          rw [this, pow_succ]; ring) k' (by omega)]
        congr 2; omega
    · have hy0 : year = 0 := by omega
      subst hy0
      simp only [Bool.true_and, decide_eq_true_eq, gt_iff_lt, lt_self_iff_false, if_false]
      cases k with
      | zero => simp
      | succ k' =>
        simp only [List.getD_cons_succ]
        rw [ih 1 v (by intro _; simp) k' (by omega)]
        congr 2; omega

#print axioms pricing_closed
#print axioms base_mono
#print axioms ptcFrom_closed
end GeoVerif

namespace GeoVerif

theorem base_start (p0 p1 : Rat) (s : Nat) (r : Rat) (h : p0 ≤ p1) : basePrice p0 p1 s r 0 = p0 := by
  rw [basePrice_eq_min]
  by_cases hs : s ≤ 0
  · have : s = 0 := by omega
    subst this; simp [h]
  · simp [hs, h]

theorem base_before_start (p0 p1 : Rat) (s : Nat) (r : Rat) (i : Nat) (hi : i < s) :
    basePrice p0 p1 s r i = min p0 p1 := by
  rw [basePrice_eq_min]
  have : ¬ s ≤ i := by omega
  simp [this]

theorem base_linear_segment (p0 p1 : Rat) (s : Nat) (r : Rat) (i : Nat) (hs : s ≤ i)
    (hcap : p0 + ((i + 1 - s : Nat) : Rat) * r ≤ p1) (hcap' : p0 + ((i - s : Nat) : Rat) * r ≤ p1) :
    basePrice p0 p1 s r (i + 1) - basePrice p0 p1 s r i = r := by
  rw [basePrice_eq_min, basePrice_eq_min]
  have hs' : s ≤ i + 1 := by omega
  simp only [hs, hs', if_true]
  rw [min_eq_left hcap, min_eq_left hcap']
  have : ((i + 1 - s : Nat) : Rat) = ((i - s : Nat) : Rat) + 1 := by
    have : i + 1 - s = (i - s) + 1 := by omega
    rw [this]; push_cast; ring
  rw [this]; ring

theorem ptcFrom_length (v infl : Rat) (adj : Bool) (n : Nat) (prev : Rat) (year : Nat) :
    (ptcFrom v infl adj n prev year).length = n := by
  induction n generalizing prev year with
  | zero => simp [ptcFrom]
  | succ m ih => simp [ptcFrom, ih]

theorem ptcFrom_flat (v infl : Rat) (n : Nat) (prev : Rat) (year : Nat) (k : Nat) (hk : k < n) :
    (ptcFrom v infl false n prev year).getD k 0 = v := by
  induction n generalizing prev year k with
  | zero => omega
  | succ m ih =>
    unfold ptcFrom
    cases k with
    | zero => simp
    | succ k' =>
      simp only [List.getD_cons_succ]
      exact ih _ _ k' (by omega)

theorem ptcModel_length (L dur : Nat) (v infl : Rat) (adj : Bool) (hd : dur ≤ L) :
    (ptcModel L dur v adj infl).length = L := by
  simp [ptcModel, ptcFrom_length]; omega

theorem ptcModel_closed (L dur : Nat) (v infl : Rat) (adj : Bool) (hd : dur ≤ L) (i : Nat) (hi : i < L) :
    (ptcModel L dur v adj infl).getD i 0 =
      if i < dur then (if adj then v * (1 + infl) ^ i else v) else 0 := by
  unfold ptcModel
  by_cases h : i < dur
  · simp only [h, if_true]
    rw [List.getD_eq_getElem?_getD, List.getElem?_append_left (by rw [ptcFrom_length]; exact h),
      ← List.getD_eq_getElem?_getD]
    cases adj with
    | true =>
      simp only [if_true]
      have := ptcFrom_closed v infl dur 0 0 (by intro h0; omega) i h
      simpa using this
    | false =>
      simp only [Bool.false_eq_true, if_false]
      exact ptcFrom_flat v infl dur 0 0 i h
  · simp only [h, if_false]
    rw [List.getD_eq_getElem?_getD, List.getElem?_append_right (by rw [ptcFrom_length]; omega)]
    simp only [List.getElem?_replicate]
    split <;> rfl

theorem padFront_eq (cy : Nat) (xs : List Rat) : padFront cy xs = List.replicate cy 0 ++ xs := by
  induction cy generalizing xs with
  | zero => simp [padFront]
  | succ n ih =>
    simp only [padFront, ih]
    rw [List.replicate_succ']
    simp

theorem padFront_lt (cy : Nat) (xs : List Rat) (i : Nat) (hi : i < cy) : (padFront cy xs).getD i 0 = 0 := by
  rw [padFront_eq, List.getD_eq_getElem?_getD, List.getElem?_append_left (by simpa using hi)]
  simp [hi]

theorem padFront_ge (cy : Nat) (xs : List Rat) (i : Nat) : (padFront cy xs).getD (cy + i) 0 = xs.getD i 0 := by
  rw [padFront_eq, List.getD_eq_getElem?_getD, List.getElem?_append_right (by simp)]
  simp [List.getD_eq_getElem?_getD]

theorem capexAdjust_zero (ccap fees inc gr : Rat) (b : Bool) :
    capexAdjust ccap 0 b fees inc gr = ccap + fees - inc - gr := by
  cases b <;> simp [capexAdjust]

end GeoVerif
