import Mathlib.Tactic.Linarith
import Mathlib.Tactic.Ring
import Mathlib.Tactic.Positivity
import Mathlib.Algebra.Order.Field.Rat
import GeoVerif.Model.Schedules
namespace GeoVerif

theorem pricing_length (L p0 p1 s r ptc) : (pricing L p0 p1 s r ptc).length = L := by
  simp [pricing]

theorem pricing_closed (L : Nat) (p0 p1 : Rat) (s : Nat) (r : Rat) (ptc : List Rat) (i : Nat) (hi : i < L) :
    (pricing L p0 p1 s r ptc).getD i 0 =
      min (p0 + (if s ≤ i then ((i - s : Nat) : Rat) * r else 0)) p1 + ptc.getD i 0 := by
  simp only [pricing, List.getD_eq_getElem?_getD, List.getElem?_map, List.getElem?_range hi, Option.map_some, Option.getD_some]
  congr 1
  unfold basePrice
  by_cases hs : s ≤ i <;> simp only [hs, if_true, if_false, add_zero] <;> split <;> rename_i h
  · rw [min_eq_right (le_of_lt h)]
  · rw [min_eq_left (not_lt.mp h)]
  · rw [min_eq_right (le_of_lt h)]
  · rw [min_eq_left (not_lt.mp h)]

theorem basePrice_eq_min (p0 p1 : Rat) (s : Nat) (r : Rat) (i : Nat) :
    basePrice p0 p1 s r i = min (if s ≤ i then p0 + ((i - s : Nat) : Rat) * r else p0) p1 := by
  unfold basePrice
  simp only
  generalize (if s ≤ i then p0 + ((i - s : Nat) : Rat) * r else p0) = p
  by_cases h : p1 < p
  · rw [if_pos h, min_eq_right (le_of_lt h)]
  · rw [if_neg h, min_eq_left (not_lt.mp h)]

theorem base_le_end (p0 p1 : Rat) (s : Nat) (r : Rat) (i : Nat) : basePrice p0 p1 s r i ≤ p1 := by
  rw [basePrice_eq_min]; exact min_le_right _ _

theorem base_mono (p0 p1 : Rat) (s : Nat) (r : Rat) (hr : 0 ≤ r) (i j : Nat) (hij : i ≤ j) :
    basePrice p0 p1 s r i ≤ basePrice p0 p1 s r j := by
  have key : (if s ≤ i then p0 + ((i - s : Nat) : Rat) * r else p0) ≤ (if s ≤ j then p0 + ((j - s : Nat) : Rat) * r else p0) := by
    by_cases hi : s ≤ i
    · have hj : s ≤ j := le_trans hi hij
      simp only [hi, hj, if_true]
      have : ((i - s : Nat) : Rat) ≤ ((j - s : Nat) : Rat) := by exact_mod_cast Nat.sub_le_sub_right hij s
      nlinarith
    · by_cases hj : s ≤ j
      · simp only [hi, hj, if_true, if_false]
        have : (0:Rat) ≤ ((j - s : Nat) : Rat) := by positivity
        nlinarith
      · simp [hi, hj]
  rw [basePrice_eq_min, basePrice_eq_min]
  exact min_le_min key (le_refl _)

theorem ptcFrom_closed (v infl : Rat) (n : Nat) (year : Nat) (prev : Rat)
    (hprev : 0 < year → prev = v * (1 + infl) ^ (year - 1)) (k : Nat) (hk : k < n) :
    (ptcFrom v infl true n prev year).getD k 0 = v * (1 + infl) ^ (year + k) := by
  induction n generalizing year prev k with
  | zero => omega
  | succ m ih =>
    unfold ptcFrom
    by_cases hy : year > 0
    · simp only [Bool.true_and, decide_eq_true_eq, hy, if_true]
      cases k with
      | zero =>
        simp [hprev hy]
        have : year = (year - 1) + 1 := by omega
        conv_rhs => rw [this, pow_succ]
        ring
      | succ k' =>
        simp only [List.getD_cons_succ]
        rw [ih (year + 1) (prev * (1 + infl)) (by
          intro _; rw [hprev hy]
          have : year + 1 - 1 = (year - 1) + 1 := by omega
          rw [this, pow_succ]; ring) k' (by omega)]
        congr 2; omega
    · have hy0 : year = 0 := by omega
      subst hy0
      simp only [Bool.true_and, decide_eq_true_eq, gt_iff_lt, lt_self_iff_false, if_false]
      cases k with
      | zero => simp
      | succ k' =>
        simp only [List.getD_cons_succ]
        rw [ih 1 v (by intro _; simp) k' (by omega)]
        congr 2; omega

#print axioms pricing_closed
#print axioms base_mono
#print axioms ptcFrom_closed
end GeoVerif
