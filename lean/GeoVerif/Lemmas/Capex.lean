import Mathlib.Tactic.Linarith
import Mathlib.Tactic.Ring
import Mathlib.Tactic.Positivity
import Mathlib.Algebra.Order.Field.Rat
import GeoVerif.Model.Capex
import GeoVerif.Model.WellCost
/-! Lemmas about the cost roll-ups and the well-cost polynomial. -/
namespace GeoVerif

theorem wellCorr_cost_diff (c : WellCorr) (d₁ d₂ : Rat) :
    c.cost d₂ - c.cost d₁ = (d₂ - d₁) * (c.c2 * (d₁ + d₂) + c.c1) / 1000000 := by
  unfold WellCorr.cost; ring

/-- table condition under which a correlation is monotone on [lo, hi] -/
def WellCorr.monoOn (c : WellCorr) (lo hi : Rat) : Prop := 0 ≤ c.c1 + c.c2 * (2 * lo) ∧ 0 ≤ c.c1 + c.c2 * (2 * hi)

instance (c : WellCorr) (lo hi : Rat) : Decidable (c.monoOn lo hi) := by unfold WellCorr.monoOn; infer_instance

theorem wellCorr_cost_mono (c : WellCorr) (lo hi : Rat) (h : c.monoOn lo hi) (d₁ d₂ : Rat)
    (h1 : lo ≤ d₁) (h12 : d₁ ≤ d₂) (h2 : d₂ ≤ hi) : c.cost d₁ ≤ c.cost d₂ := by
  have hd := wellCorr_cost_diff c d₁ d₂
  have hs : 0 ≤ c.c2 * (d₁ + d₂) + c.c1 := by
    obtain ⟨ha, hb⟩ := h
    by_cases hc : 0 ≤ c.c2
    · have : c.c2 * (2 * lo) ≤ c.c2 * (d₁ + d₂) := mul_le_mul_of_nonneg_left (by linarith) hc
      linarith
    · have hc' : c.c2 ≤ 0 := le_of_lt (not_le.mp hc)
      have : c.c2 * (2 * hi) ≤ c.c2 * (d₁ + d₂) := mul_le_mul_of_nonpos_left (by linarith) hc'
      linarith
  have : 0 ≤ (d₂ - d₁) * (c.c2 * (d₁ + d₂) + c.c1) / 1000000 := by
    apply div_nonneg _ (by norm_num)
    exact mul_nonneg (by linarith) hs
  linarith

theorem oneWellCost_mono (c : WellCorr) (lo hi : Rat) (hlo : 500 ≤ lo) (h : c.monoOn lo hi) (perM adj : Rat) (hadj : 0 ≤ adj)
    (d₁ d₂ : Rat) (h1 : lo ≤ d₁) (h12 : d₁ ≤ d₂) (h2 : d₂ ≤ hi) :
    oneWellCost c false d₁ perM adj ≤ oneWellCost c false d₂ perM adj := by
  unfold oneWellCost
  have n1 : ¬ d₁ < 500 := by linarith
  have n2 : ¬ d₂ < 500 := by linarith
  simp only [Bool.false_or, decide_eq_true_eq, n1, n2, if_false]
  exact mul_le_mul_of_nonneg_left (wellCorr_cost_mono c lo hi h d₁ d₂ h1 h12 h2) hadj

theorem oneWellCost_simple_mono (c : WellCorr) (perM adj : Rat) (hadj : 0 ≤ adj) (hp : 0 ≤ perM) (d₁ d₂ : Rat) (h12 : d₁ ≤ d₂) :
    oneWellCost c true d₁ perM adj ≤ oneWellCost c true d₂ perM adj := by
  unfold oneWellCost
  simp only [Bool.true_or, if_true]
  apply mul_le_mul_of_nonneg_left _ hadj
  apply div_le_div_of_nonneg_right _ (by norm_num)
  exact mul_le_mul_of_nonneg_left h12 hp

/-! ### roll-ups -/

theorem capex_unfixed (s : CapexIn) (h : s.totalFixed = false) :
    capex s = (s.expl + s.well + s.stim + s.gath + s.plant + s.piping + s.district) - itcValue s
              + s.fees - s.incentives - s.grants := by
  unfold capex itcValue capexBase capexAdjust
  simp only [h, Bool.false_eq_true, if_false]
  split <;> ring

theorem capex_fixed (s : CapexIn) (h : s.totalFixed = true) :
    capex s = s.totalGiven - itcValue s + s.fees - s.incentives - s.grants := by
  unfold capex itcValue capexBase capexAdjust
  simp only [h, if_true]
  split <;> ring

theorem capex_linear (s : CapexIn) :
    capex s = (if s.ritcProvided then 1 - s.ritc else 1) * capexBase s + s.fees - s.incentives - s.grants := by
  unfold capex capexAdjust
  split <;> simp <;> ring

theorem capex_mono_base (s s' : CapexIn) (hr : s'.ritcProvided = s.ritcProvided) (hrr : s'.ritc = s.ritc)
    (hf : s'.fees = s.fees) (hi : s'.incentives = s.incentives) (hg : s'.grants = s.grants)
    (hritc : s.ritcProvided = true → s.ritc ≤ 1) (hb : capexBase s ≤ capexBase s') : capex s ≤ capex s' := by
  rw [capex_linear s, capex_linear s', hr, hrr, hf, hi, hg]
  have : 0 ≤ (if s.ritcProvided then 1 - s.ritc else 1) := by
    split
    · rename_i hp; have := hritc hp; linarith
    · norm_num
  nlinarith [mul_le_mul_of_nonneg_left hb this]

theorem opex_unfixed (s : OpexIn) (h : s.totalFixed = false) :
    opex s = s.wellOM + s.plantOM + s.waterOM + s.chillerOM + s.districtOM + redrillAmortised s + s.annualFees - s.taxRelief := by
  unfold opex opexBase opexAdjust
  simp only [h, Bool.false_eq_true, if_false]

theorem opex_fixed (s : OpexIn) (h : s.totalFixed = true) :
    opex s = s.totalGiven + redrillAmortised s + s.annualFees - s.taxRelief := by
  unfold opex opexBase opexAdjust
  simp only [h, if_true]

end GeoVerif
