import Mathlib.Tactic.Linarith
import Mathlib.Algebra.Order.Field.Rat
import GeoVerif.Model.ReadParam
namespace GeoVerif
open PyFloat

/-- C07: a finite value outside [Min, Max] that is not the current value is rejected, and the message names the parameter -/
theorem float_rejects_outside (d : FloatDecl) (st : FloatState) (v : Rat)
    (hcur : st.value ≠ .fin v) (hout : v < d.min ∨ d.max < v) :
    readFloatPinned d st (.fin v) = .error (errMsg (.fin v) d.name) := by
  unfold readFloatPinned
  have hne : ∀ s : FloatState, s.value = st.value → (PyFloat.fin v).beq' s.value = false := by
    intro s hs
    rw [hs]
    cases hsv : st.value with
    | nan => rfl
    | negInf => simp [beq']
    | posInf => simp [beq']
    | fin q =>
      simp only [beq', decide_eq_false_iff_not]
      intro h; exact hcur (by rw [hsv]; exact h.symm)
  have h1 : (PyFloat.fin v).beq' (if (PyFloat.fin v).beq' (.fin d.dflt) then { st with provided := true } else st).value = false := by
    apply hne; split <;> rfl
  simp only [h1, Bool.false_eq_true, if_false]
  have h2 : ((PyFloat.fin v).lt (.fin d.min) || (PyFloat.fin d.max).lt (.fin v)) = true := by
    rcases hout with h | h
    · simp [lt, h]
    · simp [lt, h]
  simp [h2]

/-- C07: values at (and inside) the bounds are accepted and stored exactly — never clamped -/
theorem float_accepts_inside (d : FloatDecl) (st : FloatState) (v : Rat)
    (hcur : st.value ≠ .fin v) (hin : d.min ≤ v ∧ v ≤ d.max) :
    readFloatPinned d st (.fin v) = .ok { value := .fin v, provided := true, valid := true } := by
  unfold readFloatPinned
  have h1 : (PyFloat.fin v).beq' (if (PyFloat.fin v).beq' (.fin d.dflt) then { st with provided := true } else st).value = false := by
    have : (if (PyFloat.fin v).beq' (.fin d.dflt) then { st with provided := true } else st).value = st.value := by split <;> rfl
    rw [this]
    cases hsv : st.value with
    | nan => rfl
    | negInf => simp [beq']
    | posInf => simp [beq']
    | fin q =>
      simp only [beq', decide_eq_false_iff_not]
      intro h; exact hcur (by rw [hsv]; exact h.symm)
  simp only [h1, Bool.false_eq_true, if_false]
  have h2 : ((PyFloat.fin v).lt (.fin d.min) || (PyFloat.fin d.max).lt (.fin v)) = false := by
    simp [lt, not_lt.mpr hin.1, not_lt.mpr hin.2]
  simp [h2]

/-- the pinned comparison lets NaN through (F11) … -/
theorem pinned_accepts_nan (d : FloatDecl) (st : FloatState) :
    readFloatPinned d st .nan = .ok { value := .nan, provided := true, valid := true } := by
  simp [readFloatPinned, beq', lt]

/-- … the repaired one rejects it, naming the parameter -/
theorem fixed_rejects_nan (d : FloatDecl) (st : FloatState) :
    readFloatFixed d st .nan = .error (errMsg .nan d.name) := by
  simp [readFloatFixed, beq', lt]

#print axioms float_rejects_outside
#print axioms float_accepts_inside
#print axioms pinned_accepts_nan
end GeoVerif

namespace GeoVerif
open PyFloat

theorem beq'_fin_ne (v : Rat) (x : PyFloat) (h : x ≠ .fin v) : (PyFloat.fin v).beq' x = false := by
  cases x with
  | nan => rfl
  | negInf => simp [beq']
  | posInf => simp [beq']
  | fin q =>
    simp only [beq', decide_eq_false_iff_not]
    intro hq; exact h (by rw [PyFloat.fin.injEq] at hq; rw [hq])

theorem beq'_self_fin (v : Rat) : (PyFloat.fin v).beq' (.fin v) = true := by simp [beq']

@[simp] theorem markProvided_value (b : Bool) (st : FloatState) : (markProvided b st).value = st.value := by
  unfold markProvided; split <;> rfl

/-- the message is built around the parameter's name -/
theorem errMsg_names (v : PyFloat) (name : String) :
    errMsg v name = ("Error: Parameter given (" ++ reprStr v ++ ") for ") ++ name ++ " outside of valid range." := rfl

/-- finite value below Min or above Max (not the current value): rejected with the message naming the parameter -/
theorem readFloat_rejects_outside (min max dflt : Option Rat) (name : String) (st : FloatState) (v : Rat)
    (hcur : st.value ≠ .fin v) (hout : (∃ a, min = some a ∧ v < a) ∨ (∃ b, max = some b ∧ b < v)) :
    readFloat min max dflt name st (.fin v) = .error (errMsg (.fin v) name) := by
  unfold readFloat
  rw [markProvided_value, beq'_fin_ne v st.value hcur]
  simp only [Bool.false_eq_true, if_false]
  rcases hout with ⟨a, ha, hva⟩ | ⟨b, hb, hbv⟩
  · subst ha; simp [belowMin, lt, hva]
  · subst hb; simp [aboveMax, lt, hbv]

/-- value inside [Min, Max], bounds included (not the current value): accepted and stored exactly -/
theorem readFloat_accepts_inside (min max dflt : Option Rat) (name : String) (st : FloatState) (v : Rat)
    (hcur : st.value ≠ .fin v) (hmin : ∀ a, min = some a → a ≤ v) (hmax : ∀ b, max = some b → v ≤ b) :
    readFloat min max dflt name st (.fin v) = .ok { value := .fin v, provided := true, valid := true } := by
  unfold readFloat
  rw [markProvided_value, beq'_fin_ne v st.value hcur]
  have h1 : belowMin min (.fin v) = false := by
    cases min with
    | none => rfl
    | some a => simp [belowMin, lt, not_lt.mpr (hmin a rfl)]
  have h2 : aboveMax max (.fin v) = false := by
    cases max with
    | none => rfl
    | some b => simp [aboveMax, lt, not_lt.mpr (hmax b rfl)]
  simp [h1, h2, beq'_self_fin]

/-- an accepted value is stored exactly as given, or the parameter's value is left as it was: never clamped, never defaulted -/
theorem readFloat_no_alteration (min max dflt : Option Rat) (name : String) (st st' : FloatState) (v : PyFloat)
    (h : readFloat min max dflt name st v = .ok st') : st'.value = v ∨ st'.value = st.value := by
  unfold readFloat at h
  split at h
  · right
    simp only [Except.ok.injEq] at h
    rw [← h]; exact markProvided_value _ st
  · split at h
    · simp at h
    · simp only [Except.ok.injEq] at h
      left; rw [← h]

/-- NaN is never accepted … -/
theorem readFloat_rejects_nan (min max dflt : Option Rat) (name : String) (st : FloatState) :
    readFloat min max dflt name st .nan = .error (errMsg .nan name) := by
  unfold readFloat
  have h0 : ∀ x, PyFloat.nan.beq' x = false := fun x => by cases x <;> rfl
  simp [h0]

/-- … whereas the comparison of the pinned tree let it through (defect F11) -/
theorem readFloatOld_accepts_nan (min max dflt : Option Rat) (name : String) (st : FloatState) :
    readFloatOld min max dflt name st .nan = .ok { value := .nan, provided := true, valid := true } := by
  unfold readFloatOld
  have h0 : ∀ x, PyFloat.nan.beq' x = false := fun x => by cases x <;> rfl
  have h1 : belowMin min .nan = false := by cases min <;> rfl
  have h2 : aboveMax max .nan = false := by cases max <;> rfl
  simp [h0, h1, h2]

/-- +∞ is rejected by every declaration with a finite Max -/
theorem readFloat_rejects_posInf (min dflt : Option Rat) (b : Rat) (name : String) (st : FloatState) (hcur : st.value ≠ .posInf) :
    readFloat min (some b) dflt name st .posInf = .error (errMsg .posInf name) := by
  unfold readFloat
  have h0 : PyFloat.posInf.beq' st.value = false := by
    cases hv : st.value with
    | nan => rfl
    | negInf => simp [beq']
    | posInf => exact absurd hv hcur
    | fin q => simp [beq']
  rw [markProvided_value, h0]
  simp [aboveMax, lt]

/-! ### integers / options -/

theorem readInt_rejects_nonmember (allow : AllowSet) (dflt : Option Int) (name : String) (st : IntState) (v : Int)
    (hd : dflt ≠ some v) (hc : v ≠ st.value) (hm : allow.contains v = false) :
    ∃ msg, readInt allow dflt name st v = .error msg ∧
      msg = ("Error: Parameter given (" ++ toString v ++ ") for ") ++ name ++ " outside of valid range." := by
  refine ⟨_, ?_, rfl⟩
  unfold readInt
  simp [hd, hc, hm]

theorem readInt_accepts_member (allow : AllowSet) (dflt : Option Int) (name : String) (st : IntState) (v : Int)
    (hd : dflt ≠ some v) (hc : v ≠ st.value) (hm : allow.contains v = true) :
    readInt allow dflt name st v = .ok { value := v, provided := true, valid := true } := by
  unfold readInt
  simp [hd, hc, hm]

/-- the only way around the membership test is a value equal to the declared default (the documented "not provided"
sentinel) or to the current value; either way the stored value does not change -/
theorem readInt_no_alteration (allow : AllowSet) (dflt : Option Int) (name : String) (st st' : IntState) (v : Int)
    (h : readInt allow dflt name st v = .ok st') : (st'.value = v ∧ allow.contains v = true) ∨ st' = st := by
  unfold readInt at h
  split at h
  · right; simp only [Except.ok.injEq] at h; exact h.symm
  · split at h
    · right; simp only [Except.ok.injEq] at h; exact h.symm
    · split at h
      · simp at h
      · rename_i hm
        simp only [Except.ok.injEq] at h
        left; rw [← h]
        simp only [Bool.not_eq_true', Bool.not_eq_false] at hm
        exact ⟨rfl, by simpa using hm⟩

theorem allowSet_range_contains (lo hi v : Int) : (AllowSet.range lo hi).contains v = true ↔ lo ≤ v ∧ v ≤ hi := by
  simp [AllowSet.contains]

end GeoVerif
