import Mathlib.Tactic.Linarith
import Mathlib.Algebra.Order.Field.Rat
import GeoVerif.Model.ReadParam
namespace GeoVerif
open PyFloat

/-- C07: a finite value outside [Min, Max] that is not the current value is rejected, and the message names the parameter -/
theorem float_rejects_outside (d : FloatDecl) (st : FloatState) (v : Rat)
    (hcur : st.value ≠ .fin v) (hout : v < d.min ∨ d.max < v) :
    readFloatPinned d st (.fin v) = .error (errMsg (.fin v) d.name) := by
  unfold readFloatPinned
  have hne : ∀ s : FloatState, s.value = st.value → (PyFloat.fin v).beq' s.value = false := by
    intro s hs
    rw [hs]
    cases hsv : st.value with
    | nan => rfl
    | negInf => simp [beq']
    | posInf => simp [beq']
    | fin q =>
      simp only [beq', decide_eq_false_iff_not]
      intro h; exact hcur (by rw [hsv]; exact h.symm)
  have h1 : (PyFloat.fin v).beq' (if (PyFloat.fin v).beq' (.fin d.dflt) then { st with provided := true } else st).value = false := by
    apply hne; split <;> rfl
  simp only [h1, Bool.false_eq_true, if_false]
  have h2 : ((PyFloat.fin v).lt (.fin d.min) || (PyFloat.fin d.max).lt (.fin v)) = true := by
    rcases hout with h | h
    · simp [lt, h]
    · simp [lt, h]
  simp [h2]

/-- C07: values at (and inside) the bounds are accepted and stored exactly — never clamped -/
theorem float_accepts_inside (d : FloatDecl) (st : FloatState) (v : Rat)
    (hcur : st.value ≠ .fin v) (hin : d.min ≤ v ∧ v ≤ d.max) :
    readFloatPinned d st (.fin v) = .ok { value := .fin v, provided := true, valid := true } := by
  unfold readFloatPinned
  have h1 : (PyFloat.fin v).beq' (if (PyFloat.fin v).beq' (.fin d.dflt) then { st with provided := true } else st).value = false := by
    have : (if (PyFloat.fin v).beq' (.fin d.dflt) then { st with provided := true } else st).value = st.value := by split <;> rfl
    rw [this]
    cases hsv : st.value with
    | nan => rfl
    | negInf => simp [beq']
    | posInf => simp [beq']
    | fin q =>
      simp only [beq', decide_eq_false_iff_not]
      intro h; exact hcur (by rw [hsv]; exact h.symm)
  simp only [h1, Bool.false_eq_true, if_false]
  have h2 : ((PyFloat.fin v).lt (.fin d.min) || (PyFloat.fin d.max).lt (.fin v)) = false := by
    simp [lt, not_lt.mpr hin.1, not_lt.mpr hin.2]
  simp [h2]

/-- the pinned comparison lets NaN through (F11) … -/
theorem pinned_accepts_nan (d : FloatDecl) (st : FloatState) :
    readFloatPinned d st .nan = .ok { value := .nan, provided := true, valid := true } := by
  simp [readFloatPinned, beq', lt]

/-- … the repaired one rejects it, naming the parameter -/
theorem fixed_rejects_nan (d : FloatDecl) (st : FloatState) :
    readFloatFixed d st .nan = .error (errMsg .nan d.name) := by
  simp [readFloatFixed, beq', lt]

#print axioms float_rejects_outside
#print axioms float_accepts_inside
#print axioms pinned_accepts_nan
end GeoVerif
