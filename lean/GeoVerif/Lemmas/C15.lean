import Mathlib.Tactic.Linarith
import Mathlib.Tactic.Positivity
import Mathlib.Algebra.Order.Field.Rat
import GeoVerif.Model.Pressure
namespace GeoVerif

/-- closed form of the loop, stated for the tail starting at time index `t` -/
theorem pressLoop_closed (p0 P0 dlt : Rat) (hd : 0 ≤ dlt) (k t : Nat) (j : Nat) (hj : j < k) :
    (pressLoop p0 P0 dlt k t false).getD j 0 = max p0 (P0 - dlt * ((t + j : Nat) : Rat)) ∧
    (∀ (hstop : P0 - dlt * (t : Rat) < p0), True) := by
  refine ⟨?_, fun _ => trivial⟩
  -- generalise over the `stopped` flag: once stopped, every later value is below p0 as well
  have key : ∀ (k t : Nat) (stopped : Bool),
      (stopped = true → P0 - dlt * (t : Rat) < p0 ∨ ∃ s, s < t ∧ P0 - dlt * (s : Rat) < p0) →
      ∀ j, j < k → (pressLoop p0 P0 dlt k t stopped).getD j 0 = max p0 (P0 - dlt * ((t + j : Nat) : Rat)) := by
    intro k
    induction k with
    | zero => intro t stopped _ j hj; omega
    | succ m ih =>
      intro t stopped hst j hj
      unfold pressLoop
      by_cases hs : stopped = true
      · subst hs
        simp only [if_true]
        -- some earlier (or this) time was already below p0, so by monotonicity this one is too
        have hbelow : ∀ u, t ≤ u → P0 - dlt * (u : Rat) < p0 ∨ P0 - dlt * (u : Rat) ≤ p0 := by
          intro u hu
          rcases hst rfl with h | ⟨s, hs1, hs2⟩
          · left
            have : (t : Rat) ≤ (u : Rat) := by exact_mod_cast hu
            nlinarith
          · left
            have : (s : Rat) ≤ (u : Rat) := by exact_mod_cast (le_trans (le_of_lt hs1) hu)
            nlinarith
        cases j with
        | zero =>
          simp only [List.getD_cons_zero, Nat.add_zero]
          rcases hbelow t (le_refl t) with h | h
          · exact (max_eq_left (le_of_lt h)).symm
          · exact (max_eq_left h).symm
        | succ j' =>
          simp only [List.getD_cons_succ]
          rw [ih (t+1) true (fun _ => by
            rcases hst rfl with h | ⟨s, hs1, hs2⟩
            · exact Or.inr ⟨t, Nat.lt_succ_self t, h⟩
            · exact Or.inr ⟨s, Nat.lt_succ_of_lt hs1, hs2⟩) j' (by omega)]
          all_goals (rw [show t + 1 + j' = t + (j' + 1) by omega])
      · have hs' : stopped = false := by simpa using hs
        subst hs'
        simp only [Bool.false_eq_true, if_false]
        by_cases hv : P0 - dlt * (t : Rat) < p0
        · simp only [hv, if_true]
          cases j with
          | zero => simp only [List.getD_cons_zero, Nat.add_zero]; exact (max_eq_left (le_of_lt hv)).symm
          | succ j' =>
            simp only [List.getD_cons_succ]
            rw [ih (t+1) true (fun _ => Or.inr ⟨t, Nat.lt_succ_self t, hv⟩) j' (by omega)]
            all_goals (rw [show t + 1 + j' = t + (j' + 1) by omega])
        · simp only [hv, if_false]
          cases j with
          | zero => simp only [List.getD_cons_zero, Nat.add_zero]; exact (max_eq_right (not_lt.mp hv)).symm
          | succ j' =>
            simp only [List.getD_cons_succ]
            rw [ih (t+1) false (fun h => by simp at h) j' (by omega)]
            all_goals (rw [show t + 1 + j' = t + (j' + 1) by omega])
  exact key k t false (fun h => by simp at h) j hj

/-- C15: with overpressure ≥ 100 % and a positive depletion step the series never rises and never falls below hydrostatic -/
theorem pressLoop_antitone (p0 P0 dlt : Rat) (hd : 0 ≤ dlt) (k t i j : Nat) (hij : i ≤ j) (hj : j < k) :
    (pressLoop p0 P0 dlt k t false).getD j 0 ≤ (pressLoop p0 P0 dlt k t false).getD i 0 := by
  rw [(pressLoop_closed p0 P0 dlt hd k t j hj).1, (pressLoop_closed p0 P0 dlt hd k t i (lt_of_le_of_lt hij hj)).1]
  apply max_le_max (le_refl _)
  have : ((t + i : Nat) : Rat) ≤ ((t + j : Nat) : Rat) := by exact_mod_cast Nat.add_le_add_left hij t
  nlinarith

theorem pressLoop_ge_hydrostatic (p0 P0 dlt : Rat) (hd : 0 ≤ dlt) (k t j : Nat) (hj : j < k) :
    p0 ≤ (pressLoop p0 P0 dlt k t false).getD j 0 := by
  rw [(pressLoop_closed p0 P0 dlt hd k t j hj).1]; exact le_max_left _ _

#print axioms pressLoop_antitone
#print axioms pressLoop_ge_hydrostatic
end GeoVerif

namespace GeoVerif

theorem clamp0_nonneg (x : Rat) : 0 ≤ clamp0 x := by
  unfold clamp0; split
  · exact le_refl _
  · rename_i h; exact not_lt.mp h

theorem clamp0_of_nonneg (x : Rat) (h : 0 ≤ x) : clamp0 x = x := by
  unfold clamp0; rw [if_neg (not_lt.mpr h)]

theorem pumpSide_nonneg (dp : List Rat) (coef : Rat) : ∀ x ∈ pumpSide dp coef, 0 ≤ x := by
  intro x hx
  simp only [pumpSide, List.mem_map] at hx
  obtain ⟨d, _, rfl⟩ := hx
  exact clamp0_nonneg _

theorem pumpTotal_nonneg (b : Bool) (inj prod : List Rat) : ∀ x ∈ pumpTotal b inj prod, 0 ≤ x := by
  intro x hx
  simp only [pumpTotal, List.mem_map] at hx
  obtain ⟨t, _, rfl⟩ := hx
  exact clamp0_nonneg _

theorem pumpTotal_sum (inj prod : List Rat) (t : Nat) (ht : t < inj.length)
    (hi : 0 ≤ inj.getD t 0) (hp : 0 ≤ prod.getD t 0) :
    (pumpTotal true inj prod).getD t 0 = inj.getD t 0 + prod.getD t 0 := by
  simp only [pumpTotal, List.getD_eq_getElem?_getD, List.getElem?_map, List.getElem?_range ht, Option.map_some,
    Option.getD_some, if_true]
  rw [clamp0_of_nonneg]
  have h1 := hi; have h2 := hp
  simp only [List.getD_eq_getElem?_getD] at h1 h2
  linarith

theorem injPressure_length (L n : Nat) (p0 rate : Rat) : (injPressure L n p0 rate).length = L * n := by
  unfold injPressure; split <;> simp

theorem injPressure_closed (L n : Nat) (p0 rate : Rat) (t : Nat) (ht : t < L * n) :
    (injPressure L n p0 rate).getD t 0 = p0 + rate / (n : Rat) * (t : Rat) := by
  unfold injPressure
  split
  · rename_i h
    simp [List.getD_eq_getElem?_getD, List.getElem?_replicate, ht, h]
  · simp only [List.getD_eq_getElem?_getD, List.getElem?_map, List.getElem?_range ht, Option.map_some, Option.getD_some]
    split
    · rename_i h0; subst h0; simp
    · rfl

theorem injPressure_mono (L n : Nat) (p0 rate : Rat) (hr : 0 ≤ rate) (i j : Nat) (hij : i ≤ j) (hj : j < L * n) :
    (injPressure L n p0 rate).getD i 0 ≤ (injPressure L n p0 rate).getD j 0 := by
  rw [injPressure_closed L n p0 rate i (lt_of_le_of_lt hij hj), injPressure_closed L n p0 rate j hj]
  have h1 : (0:Rat) ≤ rate / (n : Rat) := div_nonneg hr (by positivity)
  have h2 : (i : Rat) ≤ (j : Rat) := by exact_mod_cast hij
  nlinarith

/-- the reservoir-pressure predictor for an overpressure above 100 %: first value, closed form incl. the `break`,
monotone decline, never below hydrostatic -/
theorem resPressure_start (L n : Nat) (p0 pct rate : Rat) (hp : pct ≠ 100) (hL : 0 < L * n) :
    (resPressure L n p0 pct rate).getD 0 0 = p0 * (pct / 100) := by
  unfold resPressure
  simp only [hp, if_false]
  obtain ⟨m, hm⟩ : ∃ m, L * n = m + 1 := ⟨L * n - 1, by omega⟩
  simp [hm]

theorem resPressure_flat (L n : Nat) (p0 rate : Rat) (t : Nat) (ht : t < L * n) :
    (resPressure L n p0 100 rate).getD t 0 = p0 := by
  unfold resPressure
  simp [List.getD_eq_getElem?_getD, List.getElem?_replicate, ht]

theorem resPressure_closed (L n : Nat) (p0 pct rate : Rat) (hp : pct ≠ 100)
    (hd : 0 ≤ (p0 * (pct / 100) - p0) / ((((100 / rate) * (n : Rat)).floor : Int) : Rat)) (t : Nat) (ht : t + 1 < L * n) :
    (resPressure L n p0 pct rate).getD (t + 1) 0 =
      max p0 (p0 * (pct / 100) - (p0 * (pct / 100) - p0) / ((((100 / rate) * (n : Rat)).floor : Int) : Rat) * ((t + 1 : Nat) : Rat)) := by
  unfold resPressure
  simp only [hp, if_false]
  obtain ⟨m, hm⟩ : ∃ m, L * n = m + 1 := ⟨L * n - 1, by omega⟩
  rw [hm] at ht
  simp only [hm, List.getD_cons_succ]
  have := (pressLoop_closed p0 (p0 * (pct / 100)) _ hd m 1 t (by omega)).1
  rw [this, show (1 + t : Nat) = t + 1 by omega]

end GeoVerif
