import Mathlib.Tactic.Linarith
import Mathlib.Tactic.Positivity
import Mathlib.Tactic.FieldSimp
import Mathlib.Tactic.Ring
import Mathlib.Algebra.Order.Field.Rat
import GeoVerif.Model.Series
/-! Helper lemmas about `sumL`, `zipMul`, the discount / inflation vectors and the annuity identity. -/
namespace GeoVerif

theorem sumL_append (a b : List Rat) : sumL (a ++ b) = sumL a + sumL b := by
  induction a with
  | nil => simp [sumL]
  | cons x xs ih => simp [sumL, ih]; ring

theorem sumL_map_mul (c : Rat) (f : Rat → Rat) (l : List Rat) (h : ∀ x, f x = c * x) :
    sumL (l.map f) = c * sumL l := by
  induction l with
  | nil => simp [sumL]
  | cons a as ih => simp [sumL, ih, h]; ring

theorem sumL_map_mul_left (c : Rat) (l : List Rat) : sumL (l.map (fun x => c * x)) = c * sumL l :=
  sumL_map_mul c _ l (fun _ => rfl)

theorem sumL_replicate (n : Nat) (c : Rat) : sumL (List.replicate n c) = (n : Rat) * c := by
  induction n with
  | zero => simp [sumL]
  | succ m ih => simp [List.replicate_succ, sumL, ih]; ring

theorem zipMul_length (a b : List Rat) : (zipMul a b).length = min a.length b.length := by
  induction a generalizing b with
  | nil => simp [zipMul]
  | cons x xs ih =>
    cases b with
    | nil => simp [zipMul]
    | cons y ys => simp [zipMul, ih]

theorem zipMul_scale_left (k : Rat) (a w : List Rat) :
    sumL (zipMul (a.map (fun x => k * x)) w) = k * sumL (zipMul a w) := by
  induction a generalizing w with
  | nil => simp [zipMul, sumL]
  | cons x xs ih =>
    cases w with
    | nil => simp [zipMul, sumL]
    | cons y ys => simp [zipMul, sumL, ih]; ring

/-- `Σ (c + o_t)·w_t = c·Σ w_t + Σ o_t·w_t` for vectors of equal length -/
theorem zipMul_add_const (c : Rat) (o w : List Rat) (h : o.length = w.length) :
    sumL (zipMul (o.map (fun x => c + x)) w) = c * sumL w + sumL (zipMul o w) := by
  induction o generalizing w with
  | nil =>
    cases w with
    | nil => simp [zipMul, sumL]
    | cons y ys => simp at h
  | cons x xs ih =>
    cases w with
    | nil => simp at h
    | cons y ys =>
      simp only [List.length_cons, Nat.add_right_cancel_iff] at h
      simp only [List.map_cons, zipMul, sumL, ih ys h]; ring

theorem zipMul_nonneg_sum (a w : List Rat) (ha : ∀ x ∈ a, 0 ≤ x) (hw : ∀ x ∈ w, 0 ≤ x) : 0 ≤ sumL (zipMul a w) := by
  induction a generalizing w with
  | nil => simp [zipMul, sumL]
  | cons x xs ih =>
    cases w with
    | nil => simp [zipMul, sumL]
    | cons y ys =>
      simp only [zipMul, sumL]
      have h1 : 0 ≤ x := ha x (by simp)
      have h2 : 0 ≤ y := hw y (by simp)
      have := ih ys (fun z hz => ha z (by simp [hz])) (fun z hz => hw z (by simp [hz]))
      have : 0 ≤ x * y := mul_nonneg h1 h2
      linarith

/-- monotone in the left vector when the weights are non-negative -/
theorem zipMul_mono_left (a b w : List Rat) (hl : a.length = b.length)
    (hab : ∀ t, a.getD t 0 ≤ b.getD t 0) (hw : ∀ x ∈ w, 0 ≤ x) : sumL (zipMul a w) ≤ sumL (zipMul b w) := by
  induction a generalizing b w with
  | nil =>
    cases b with
    | nil => simp
    | cons y ys => simp at hl
  | cons x xs ih =>
    cases b with
    | nil => simp at hl
    | cons y ys =>
      cases w with
      | nil => simp [zipMul, sumL]
      | cons z zs =>
        simp only [zipMul, sumL]
        have h0 : x ≤ y := by simpa using hab 0
        have hz : 0 ≤ z := hw z (by simp)
        have hrest := ih ys zs (by simpa using hl) (fun t => by simpa using hab (t + 1)) (fun u hu => hw u (by simp [hu]))
        have : x * z ≤ y * z := mul_le_mul_of_nonneg_right h0 hz
        linarith

/-- vector form = indexed sum -/
theorem zipMul_range' (f : Nat → Rat) (a : List Rat) (s : Nat) :
    sumL (zipMul a ((List.range' s a.length).map f)) =
      sumL ((List.range' s a.length).map (fun t => a.getD (t - s) 0 * f t)) := by
  induction a generalizing s with
  | nil => simp [zipMul, sumL]
  | cons x xs ih =>
    simp only [List.length_cons, List.range'_succ, List.map_cons, zipMul, sumL, Nat.sub_self, List.getD_cons_zero]
    rw [ih (s + 1)]
    congr 1
    congr 1
    apply List.map_congr_left
    intro t ht
    have : s + 1 ≤ t := by
      have := List.mem_range'_1.mp ht
      omega
    have h2 : t - s = (t - (s + 1)) + 1 := by omega
    rw [h2, List.getD_cons_succ]

/-- `idxSum L f = Σ_{t<L} f t` -/
def idxSum (L : Nat) (f : Nat → Rat) : Rat := sumL ((List.range L).map f)

theorem zipMul_range (f : Nat → Rat) (a : List Rat) (L : Nat) (h : a.length = L) :
    sumL (zipMul a ((List.range L).map f)) = idxSum L (fun t => a.getD t 0 * f t) := by
  subst h
  have := zipMul_range' f a 0
  simpa [idxSum, List.range_eq_range'] using this

theorem discA_getD (d : Rat) (L t : Nat) (h : t < L) : (discA d L).getD t 0 = 1 / (1 + d) ^ t := by
  simp [discA, List.getD_eq_getElem?_getD, List.getElem?_range h]

theorem discB_getD (i : Rat) (L t : Nat) (h : t < L) : (discB i L).getD t 0 = 1 / (1 + i) ^ (t + 1) := by
  simp [discB, List.getD_eq_getElem?_getD, List.getElem?_range h]

theorem inflB_getD (r : Rat) (L t : Nat) (h : t < L) : (inflB r L).getD t 0 = (1 + r) ^ (t + 1) := by
  simp [inflB, List.getD_eq_getElem?_getD, List.getElem?_range h]

theorem discA_length (d : Rat) (L : Nat) : (discA d L).length = L := by simp [discA]
theorem discB_length (d : Rat) (L : Nat) : (discB d L).length = L := by simp [discB]
theorem inflB_length (d : Rat) (L : Nat) : (inflB d L).length = L := by simp [inflB]

theorem discA_nonneg (d : Rat) (hd : -1 < d) (L : Nat) : ∀ x ∈ discA d L, 0 ≤ x := by
  intro x hx
  simp only [discA, List.mem_map, List.mem_range] at hx
  obtain ⟨t, _, rfl⟩ := hx
  have : 0 < 1 + d := by linarith
  positivity

theorem discB_pos (i : Rat) (hi : -1 < i) (L : Nat) : ∀ x ∈ discB i L, 0 < x := by
  intro x hx
  simp only [discB, List.mem_map, List.mem_range] at hx
  obtain ⟨t, _, rfl⟩ := hx
  have : 0 < 1 + i := by linarith
  positivity

theorem inflB_pos (r : Rat) (hr : -1 < r) (L : Nat) : ∀ x ∈ inflB r L, 0 < x := by
  intro x hx
  simp only [inflB, List.mem_map, List.mem_range] at hx
  obtain ⟨t, _, rfl⟩ := hx
  have : 0 < 1 + r := by linarith
  positivity

theorem zipMul_pos_mem (a b : List Rat) (ha : ∀ x ∈ a, 0 < x) (hb : ∀ x ∈ b, 0 < x) : ∀ x ∈ zipMul a b, 0 < x := by
  induction a generalizing b with
  | nil => simp [zipMul]
  | cons x xs ih =>
    cases b with
    | nil => simp [zipMul]
    | cons y ys =>
      intro z hz
      simp only [zipMul, List.mem_cons] at hz
      rcases hz with rfl | hz
      · exact mul_pos (ha _ (by simp)) (hb _ (by simp))
      · exact ih ys (fun u hu => ha u (by simp [hu])) (fun u hu => hb u (by simp [hu])) z hz

theorem sum_discB (i : Rat) (hi : 0 < i) (L : Nat) :
    sumL (discB i L) = (1 - 1 / (1 + i) ^ L) / i := by
  have h1 : (1 + i) ≠ 0 := by positivity
  induction L with
  | zero => simp [discB, sumL]
  | succ n ih =>
    have : discB i (n+1) = discB i n ++ [1 / (1 + i) ^ (n + 1)] := by
      simp [discB, List.range_succ]
    rw [this, sumL_append, ih]
    simp only [sumL]
    have hp : (1 + i) ^ n ≠ 0 := pow_ne_zero _ h1
    field_simp
    ring

/-- the annuity identity behind BICYCLE: capital recovery factor × Σ discount factors = 1 -/
theorem bicycle_annuity (i : Rat) (hi : 0 < i) (L : Nat) (hL : 0 < L) :
    crf i L * sumL (discB i L) = 1 := by
  rw [sum_discB i hi L]
  unfold crf
  have h1 : (1:Rat) < (1 + i) ^ L := by
    apply one_lt_pow₀ (by linarith) (by omega)
  have hne : (1 - 1 / (1 + i) ^ L) ≠ 0 := by
    have : 1 / (1 + i) ^ L < 1 := by
      rw [div_lt_one (by positivity)]; exact h1
    linarith
  field_simp
  exact div_self (by linarith)

theorem crf_pos (i : Rat) (hi : 0 < i) (L : Nat) (hL : 0 < L) : 0 < crf i L := by
  unfold crf
  have h1 : (1:Rat) < (1 + i) ^ L := one_lt_pow₀ (by linarith) (by omega)
  have : 1 / (1 + i) ^ L < 1 := by rw [div_lt_one (by positivity)]; exact h1
  apply div_pos hi; linarith

end GeoVerif
