import Mathlib.Tactic.Linarith
import Mathlib.Tactic.Ring
import Mathlib.Tactic.Positivity
import Mathlib.Tactic.FieldSimp
import Mathlib.Algebra.Order.Field.Rat
import GeoVerif.Model.Reservoir
namespace GeoVerif

def PosLayers (l : List (Rat × Rat)) : Prop := ∀ p ∈ l, 0 < p.1 ∧ 0 ≤ p.2

theorem tempAt_mono (l : List (Rat × Rat)) (hl : PosLayers l) (t0 z z' : Rat) (hz : z ≤ z') :
    tempAt t0 l z ≤ tempAt t0 l z' := by
  induction l generalizing t0 z z' with
  | nil => simp [tempAt]
  | cons p rest ih =>
    obtain ⟨g, th⟩ := p
    have hg : 0 < g := (hl (g, th) (List.mem_cons_self)).1
    cases rest with
    | nil => simp only [tempAt]; nlinarith
    | cons q rest' =>
      simp only [tempAt]
      have hrest : PosLayers (q :: rest') := fun p hp => hl p (List.mem_cons_of_mem _ hp)
      by_cases h1 : z ≤ th
      · by_cases h2 : z' ≤ th
        · simp only [h1, h2, if_true]; nlinarith
        · simp only [h1, h2, if_true, if_false]
          -- tempAt (t0+g th) rest (z'-th) ≥ t0 + g th ≥ t0 + g z
          have hbase : tempAt (t0 + g * th) (q :: rest') 0 ≤ tempAt (t0 + g * th) (q :: rest') (z' - th) :=
            ih hrest _ 0 (z' - th) (by linarith [not_le.mp h2])
          have h0 : tempAt (t0 + g * th) (q :: rest') 0 = t0 + g * th := by
            obtain ⟨g2, th2⟩ := q
            have hth2 : 0 ≤ th2 := (hrest (g2, th2) (List.mem_cons_self)).2
            cases rest' with
            | nil => simp [tempAt]
            | cons r rr => simp [tempAt, hth2]
          rw [h0] at hbase
          nlinarith
      · have h2 : ¬ z' ≤ th := fun h => h1 (le_trans hz h)
        simp only [h1, h2, if_false]
        exact ih hrest _ _ _ (by linarith)

theorem maxDepth_nonneg (l : List (Rat × Rat)) (hl : PosLayers l) (t0 tmax : Rat) (h : t0 ≤ tmax) :
    0 ≤ maxDepth t0 tmax l := by
  induction l generalizing t0 with
  | nil => simp [maxDepth]
  | cons p rest ih =>
    obtain ⟨g, th⟩ := p
    have hg : 0 < g := (hl (g, th) (List.mem_cons_self)).1
    have hth : 0 ≤ th := (hl (g, th) (List.mem_cons_self)).2
    cases rest with
    | nil => simp only [maxDepth]; apply div_nonneg <;> linarith
    | cons q rest' =>
      have hrest : PosLayers (q :: rest') := fun p hp => hl p (List.mem_cons_of_mem _ hp)
      simp only [maxDepth]
      by_cases hc : tmax < t0 + g * th
      · simp only [hc, if_true]; apply div_nonneg <;> linarith
      · simp only [hc, if_false]
        have := ih hrest (t0 + g * th) (not_lt.mp hc)
        linarith

/-- at the capped depth the temperature is exactly tmax -/
theorem tempAt_maxDepth (l : List (Rat × Rat)) (hne : l ≠ []) (hl : PosLayers l) (t0 tmax : Rat) (h : t0 ≤ tmax) :
    tempAt t0 l (maxDepth t0 tmax l) = tmax := by
  induction l generalizing t0 with
  | nil => exact absurd rfl hne
  | cons p rest ih =>
    obtain ⟨g, th⟩ := p
    have hg : 0 < g := (hl (g, th) (List.mem_cons_self)).1
    cases rest with
    | nil => simp only [tempAt, maxDepth]; field_simp; ring
    | cons q rest' =>
      have hrest : PosLayers (q :: rest') := fun p hp => hl p (List.mem_cons_of_mem _ hp)
      simp only [maxDepth]
      by_cases hc : tmax < t0 + g * th
      · simp only [hc, if_true, tempAt]
        have : (tmax - t0) / g ≤ th := by rw [div_le_iff₀ hg]; linarith
        simp only [this, if_true]; field_simp; ring
      · simp only [hc, if_false, tempAt]
        have hmd : 0 ≤ maxDepth (t0 + g * th) tmax (q :: rest') ∨ True := Or.inr trivial
        by_cases hz : th + maxDepth (t0 + g * th) tmax (q :: rest') ≤ th
        · -- then maxDepth of the rest ≤ 0; temperature at th is t0 + g th ≤ tmax and rest reaches tmax at depth ≤ 0
          simp only [hz, if_true]
          have h1 := ih (by simp) hrest (t0 + g * th) (not_lt.mp hc)
          have hm0 : maxDepth (t0 + g * th) tmax (q :: rest') ≤ 0 := by linarith
          have hmono := tempAt_mono (q :: rest') hrest (t0 + g * th) _ 0 hm0
          have h0 : tempAt (t0 + g * th) (q :: rest') 0 = t0 + g * th := by
            obtain ⟨g2, th2⟩ := q
            have hth2 : 0 ≤ th2 := (hrest (g2, th2) (List.mem_cons_self)).2
            cases rest' with
            | nil => simp [tempAt]
            | cons r rr => simp [tempAt, hth2]
          rw [h1, h0] at hmono
          have hle : t0 + g * th ≤ tmax := not_lt.mp hc
          have heq : tmax = t0 + g * th := le_antisymm hmono hle
          -- so maxDepth rest = 0 would be needed; show value equals tmax
          have hnn := maxDepth_nonneg (q :: rest') hrest (t0 + g * th) tmax hle
          have hmd0 : maxDepth (t0 + g * th) tmax (q :: rest') = 0 := le_antisymm hm0 hnn
          rw [hmd0]; linarith
        · simp only [hz, if_false]
          have : th + maxDepth (t0 + g * th) tmax (q :: rest') - th = maxDepth (t0 + g * th) tmax (q :: rest') := by ring
          rw [this]
          exact ih (by simp) hrest (t0 + g * th) (not_lt.mp hc)

/-- C05: bottom-hole temperature never exceeds the maximum allowed temperature -/
theorem trock_le_tmax (l : List (Rat × Rat)) (hne : l ≠ []) (hl : PosLayers l) (t0 tmax depth : Rat) (h : t0 ≤ tmax) :
    trock t0 tmax depth l ≤ tmax := by
  unfold trock
  calc tempAt t0 l (min depth (maxDepth t0 tmax l))
      ≤ tempAt t0 l (maxDepth t0 tmax l) := tempAt_mono l hl t0 _ _ (min_le_right _ _)
    _ = tmax := tempAt_maxDepth l hne hl t0 tmax h

/-- C18: bottom-hole temperature is monotone in the drilled depth -/
theorem trock_mono_depth (l : List (Rat × Rat)) (hl : PosLayers l) (t0 tmax d d' : Rat) (hd : d ≤ d') :
    trock t0 tmax d l ≤ trock t0 tmax d' l := by
  unfold trock
  exact tempAt_mono l hl t0 _ _ (min_le_min hd (le_refl _))

#print axioms trock_le_tmax
#print axioms trock_mono_depth
end GeoVerif

namespace GeoVerif

/-! ### depth cap -/

theorem cappedDepth_eq_min (t0 tmax depth : Rat) (l : List (Rat × Rat)) :
    cappedDepth t0 tmax depth l = min depth (maxDepth t0 tmax l) := by
  unfold cappedDepth
  simp only
  split
  · rename_i h; rw [min_eq_right (le_of_lt h)]
  · rename_i h; rw [min_eq_left (not_lt.mp h)]

theorem trock_eq_tempAt_capped (t0 tmax depth : Rat) (l : List (Rat × Rat)) :
    trock t0 tmax depth l = tempAt t0 l (cappedDepth t0 tmax depth l) := by
  rw [cappedDepth_eq_min]; rfl

/-! ### normalisation heuristics -/

theorem normGradient_pos (g : Rat) : 0 < normGradient g := by
  unfold normGradient
  simp only
  generalize (if 1 < g then g / 1000 else g) = g'
  split
  · norm_num
  · rename_i h
    have := not_lt.mp h
    have : (0:Rat) < 1 / 1000000 := by norm_num
    linarith

theorem normGradient_id (g : Rat) (h1 : 1 / 1000000 ≤ g) (h2 : g ≤ 1) : normGradient g = g := by
  unfold normGradient
  have : ¬ 1 < g := not_lt.mpr h2
  simp only [this, if_false]
  rw [if_neg (not_lt.mpr h1)]

theorem normGradient_per_km (g : Rat) (h : 1 < g) : normGradient g = g / 1000 := by
  unfold normGradient
  simp only [h, if_true]
  rw [if_neg]
  have : (1:Rat) / 1000 < g / 1000 := by
    apply div_lt_div_of_pos_right h (by norm_num)
  have : (1:Rat)/1000000 < 1/1000 := by norm_num
  intro hc; linarith

/-! ### percentage drawdown -/

theorem tdp_start (p trock tinj : Rat) : tdpAt p trock tinj 0 = trock := by unfold tdpAt; ring

theorem tdp_antitone_time (p trock tinj t t' : Rat) (hp : 0 ≤ p) (hT : tinj ≤ trock) (ht : t ≤ t') :
    tdpAt p trock tinj t' ≤ tdpAt p trock tinj t := by
  unfold tdpAt
  have h1 : p * t ≤ p * t' := mul_le_mul_of_nonneg_left ht hp
  have h2 : 0 ≤ trock - tinj := by linarith
  nlinarith

theorem tdp_le_trock (p trock tinj t : Rat) (hp : 0 ≤ p) (hT : tinj ≤ trock) (ht : 0 ≤ t) :
    tdpAt p trock tinj t ≤ trock := by
  have := tdp_antitone_time p trock tinj 0 t hp hT ht
  rw [tdp_start] at this; exact this

theorem tdp_antitone_rate (p p' trock tinj t : Rat) (hp : p ≤ p') (hT : tinj ≤ trock) (ht : 0 ≤ t) :
    tdpAt p' trock tinj t ≤ tdpAt p trock tinj t := by
  unfold tdpAt
  have h1 : p * t ≤ p' * t := mul_le_mul_of_nonneg_right hp ht
  have h2 : 0 ≤ trock - tinj := by linarith
  nlinarith

/-! ### weighted profile (single fracture): weights in [0,1], non-increasing -/

theorem weighted_le_trock (w trock tinj : Rat) (hw : w ≤ 1) (hT : tinj ≤ trock) : weightedAt w trock tinj ≤ trock := by
  unfold weightedAt
  have : 0 ≤ trock - tinj := by linarith
  nlinarith

theorem weighted_ge_tinj (w trock tinj : Rat) (hw : 0 ≤ w) (hT : tinj ≤ trock) : tinj ≤ weightedAt w trock tinj := by
  unfold weightedAt
  have : 0 ≤ w * (trock - tinj) := mul_nonneg hw (by linarith)
  linarith

theorem weighted_mono (w w' trock tinj : Rat) (hw : w' ≤ w) (hT : tinj ≤ trock) :
    weightedAt w' trock tinj ≤ weightedAt w trock tinj := by
  unfold weightedAt
  have : 0 ≤ trock - tinj := by linarith
  nlinarith

/-! ### redrilling by tiling -/

theorem firstBelowFrom_spec (lim : Rat) (xs : List Rat) (k : Nat) (h : firstBelowFrom lim xs = some k) :
    k < xs.length ∧ xs.getD k 0 < lim ∧ ∀ j, j < k → ¬ xs.getD j 0 < lim := by
  induction xs generalizing k with
  | nil => simp [firstBelowFrom] at h
  | cons x xs ih =>
    simp only [firstBelowFrom] at h
    split at h
    · rename_i hx
      simp only [Option.some.injEq] at h
      subst h
      exact ⟨by simp, by simpa using hx, fun j hj => by omega⟩
    · rename_i hx
      cases hfb : firstBelowFrom lim xs with
      | none => simp [hfb] at h
      | some k' =>
        simp only [hfb, Option.map_some, Option.some.injEq] at h
        subst h
        obtain ⟨h1, h2, h3⟩ := ih k' hfb
        refine ⟨by simp; omega, by simpa using h2, ?_⟩
        intro j hj
        cases j with
        | zero => simpa using hx
        | succ j' => simpa using h3 j' (by omega)

theorem firstBelowFrom_none (lim : Rat) (xs : List Rat) (h : firstBelowFrom lim xs = none) :
    ∀ j, j < xs.length → ¬ xs.getD j 0 < lim := by
  induction xs with
  | nil => intro j hj; simp at hj
  | cons x xs ih =>
    simp only [firstBelowFrom] at h
    split at h
    · simp at h
    · rename_i hx
      have hn : firstBelowFrom lim xs = none := by
        cases hfb : firstBelowFrom lim xs with
        | none => rfl
        | some k => simp [hfb] at h
      intro j hj
      cases j with
      | zero => simpa using hx
      | succ j' => simpa using ih hn j' (by simpa using hj)

theorem tileTo_length (xs : List Rat) (k n : Nat) : (tileTo xs k n).length = n := by simp [tileTo]

theorem tileTo_getD (xs : List Rat) (k n j : Nat) (hj : j < n) : (tileTo xs k n).getD j 0 = xs.getD (j % k) 0 := by
  simp [tileTo, List.getD_eq_getElem?_getD, List.getElem?_range hj]

/-- after redrilling no produced temperature is below the drawdown limit -/
theorem redrill_respects_limit (xs : List Rat) (dd : Rat) (j : Nat) (hj : j < xs.length) :
    ¬ (redrill xs dd).1.getD j 0 < (1 - dd) * xs.headD 0 ∨ firstBelowFrom ((1 - dd) * xs.headD 0) xs = some 0 := by
  unfold redrill
  simp only
  cases hfb : firstBelowFrom ((1 - dd) * xs.headD 0) xs with
  | none =>
    left
    have : firstBelow ((1 - dd) * xs.headD 0) xs = 0 := by unfold firstBelow; rw [hfb]; rfl
    simp only [this, Nat.lt_irrefl, if_false]
    exact firstBelowFrom_none _ xs hfb j hj
  | some k =>
    by_cases hk : k = 0
    · right; rw [hk]
    · left
      have hk0 : 0 < k := Nat.pos_of_ne_zero hk
      have : firstBelow ((1 - dd) * xs.headD 0) xs = k := by unfold firstBelow; rw [hfb]; rfl
      simp only [this, hk0, if_true]
      rw [tileTo_getD xs k xs.length j hj]
      obtain ⟨_, _, h3⟩ := firstBelowFrom_spec _ xs k hfb
      exact h3 (j % k) (Nat.mod_lt _ hk0)

/-- the profile restarts from its beginning at each redrilling -/
theorem redrill_restarts (xs : List Rat) (dd : Rat) (k : Nat) (hk : 0 < k)
    (hfb : firstBelowFrom ((1 - dd) * xs.headD 0) xs = some k) (j : Nat) (hj : j < xs.length) :
    (redrill xs dd).1.getD j 0 = xs.getD (j % k) 0 ∧ (redrill xs dd).2 = xs.length / k := by
  unfold redrill
  have : firstBelow ((1 - dd) * xs.headD 0) xs = k := by unfold firstBelow; rw [hfb]; rfl
  simp only [this, hk, if_true]
  exact ⟨tileTo_getD xs k xs.length j hj, trivial⟩

theorem redrill_none (xs : List Rat) (dd : Rat) (h : firstBelowFrom ((1 - dd) * xs.headD 0) xs = none) :
    redrill xs dd = (xs, 0) := by
  unfold redrill
  have : firstBelow ((1 - dd) * xs.headD 0) xs = 0 := by unfold firstBelow; rw [h]; rfl
  simp only [this, Nat.lt_irrefl, if_false]

end GeoVerif
