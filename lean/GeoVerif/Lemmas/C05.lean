import Mathlib.Tactic.Linarith
import Mathlib.Tactic.Ring
import Mathlib.Tactic.Positivity
import Mathlib.Tactic.FieldSimp
import Mathlib.Algebra.Order.Field.Rat
import GeoVerif.Model.Reservoir
namespace GeoVerif

def PosLayers (l : List (Rat × Rat)) : Prop := ∀ p ∈ l, 0 < p.1 ∧ 0 ≤ p.2

theorem tempAt_mono (l : List (Rat × Rat)) (hl : PosLayers l) (t0 z z' : Rat) (hz : z ≤ z') :
    tempAt t0 l z ≤ tempAt t0 l z' := by
  induction l generalizing t0 z z' with
  | nil => simp [tempAt]
  | cons p rest ih =>
    obtain ⟨g, th⟩ := p
    have hg : 0 < g := (hl (g, th) (List.mem_cons_self)).1
    cases rest with
    | nil => simp only [tempAt]; nlinarith
    | cons q rest' =>
      simp only [tempAt]
      have hrest : PosLayers (q :: rest') := fun p hp => hl p (List.mem_cons_of_mem _ hp)
      by_cases h1 : z ≤ th
      · by_cases h2 : z' ≤ th
        · simp only [h1, h2, if_true]; nlinarith
        · simp only [h1, h2, if_true, if_false]
          -- tempAt (t0+g th) rest (z'-th) ≥ t0 + g th ≥ t0 + g z
          have hbase : tempAt (t0 + g * th) (q :: rest') 0 ≤ tempAt (t0 + g * th) (q :: rest') (z' - th) :=
            ih hrest _ 0 (z' - th) (by linarith [not_le.mp h2])
          have h0 : tempAt (t0 + g * th) (q :: rest') 0 = t0 + g * th := by
            obtain ⟨g2, th2⟩ := q
            have hth2 : 0 ≤ th2 := (hrest (g2, th2) (List.mem_cons_self)).2
            cases rest' with
            | nil => simp [tempAt]
            | cons r rr => simp [tempAt, hth2]
          rw [h0] at hbase
          nlinarith
      · have h2 : ¬ z' ≤ th := fun h => h1 (le_trans hz h)
        simp only [h1, h2, if_false]
        exact ih hrest _ _ _ (by linarith)

theorem maxDepth_nonneg (l : List (Rat × Rat)) (hl : PosLayers l) (t0 tmax : Rat) (h : t0 ≤ tmax) :
    0 ≤ maxDepth t0 tmax l := by
  induction l generalizing t0 with
  | nil => simp [maxDepth]
  | cons p rest ih =>
    obtain ⟨g, th⟩ := p
    have hg : 0 < g := (hl (g, th) (List.mem_cons_self)).1
    have hth : 0 ≤ th := (hl (g, th) (List.mem_cons_self)).2
    cases rest with
    | nil => simp only [maxDepth]; apply div_nonneg <;> linarith
    | cons q rest' =>
      have hrest : PosLayers (q :: rest') := fun p hp => hl p (List.mem_cons_of_mem _ hp)
      simp only [maxDepth]
      by_cases hc : tmax < t0 + g * th
      · simp only [hc, if_true]; apply div_nonneg <;> linarith
      · simp only [hc, if_false]
        have := ih hrest (t0 + g * th) (not_lt.mp hc)
        linarith

/-- at the capped depth the temperature is exactly tmax -/
theorem tempAt_maxDepth (l : List (Rat × Rat)) (hne : l ≠ []) (hl : PosLayers l) (t0 tmax : Rat) (h : t0 ≤ tmax) :
    tempAt t0 l (maxDepth t0 tmax l) = tmax := by
  induction l generalizing t0 with
  | nil => exact absurd rfl hne
  | cons p rest ih =>
    obtain ⟨g, th⟩ := p
    have hg : 0 < g := (hl (g, th) (List.mem_cons_self)).1
    cases rest with
    | nil => simp only [tempAt, maxDepth]; field_simp; ring
    | cons q rest' =>
      have hrest : PosLayers (q :: rest') := fun p hp => hl p (List.mem_cons_of_mem _ hp)
      simp only [maxDepth]
      by_cases hc : tmax < t0 + g * th
      · simp only [hc, if_true, tempAt]
        have : (tmax - t0) / g ≤ th := by rw [div_le_iff₀ hg]; linarith
        simp only [this, if_true]; field_simp; ring
      · simp only [hc, if_false, tempAt]
        have hmd : 0 ≤ maxDepth (t0 + g * th) tmax (q :: rest') ∨ True := Or.inr trivial
        by_cases hz : th + maxDepth (t0 + g * th) tmax (q :: rest') ≤ th
        · -- then maxDepth of the rest ≤ 0; temperature at th is t0 + g th ≤ tmax and rest reaches tmax at depth ≤ 0
          simp only [hz, if_true]
          have h1 := ih (by simp) hrest (t0 + g * th) (not_lt.mp hc)
          have hm0 : maxDepth (t0 + g * th) tmax (q :: rest') ≤ 0 := by linarith
          have hmono := tempAt_mono (q :: rest') hrest (t0 + g * th) _ 0 hm0
          have h0 : tempAt (t0 + g * th) (q :: rest') 0 = t0 + g * th := by
            obtain ⟨g2, th2⟩ := q
            have hth2 : 0 ≤ th2 := (hrest (g2, th2) (List.mem_cons_self)).2
            cases rest' with
            | nil => simp [tempAt]
            | cons r rr => simp [tempAt, hth2]
          rw [h1, h0] at hmono
          have hle : t0 + g * th ≤ tmax := not_lt.mp hc
          have heq : tmax = t0 + g * th := le_antisymm hmono hle
          -- so maxDepth rest = 0 would be needed; show value equals tmax
          have hnn := maxDepth_nonneg (q :: rest') hrest (t0 + g * th) tmax hle
          have hmd0 : maxDepth (t0 + g * th) tmax (q :: rest') = 0 := le_antisymm hm0 hnn
          rw [hmd0]; linarith
        · simp only [hz, if_false]
          have : th + maxDepth (t0 + g * th) tmax (q :: rest') - th = maxDepth (t0 + g * th) tmax (q :: rest') := by ring
          rw [this]
          exact ih (by simp) hrest (t0 + g * th) (not_lt.mp hc)

/-- C05: bottom-hole temperature never exceeds the maximum allowed temperature -/
theorem trock_le_tmax (l : List (Rat × Rat)) (hne : l ≠ []) (hl : PosLayers l) (t0 tmax depth : Rat) (h : t0 ≤ tmax) :
    trock t0 tmax depth l ≤ tmax := by
  unfold trock
  calc tempAt t0 l (min depth (maxDepth t0 tmax l))
      ≤ tempAt t0 l (maxDepth t0 tmax l) := tempAt_mono l hl t0 _ _ (min_le_right _ _)
    _ = tmax := tempAt_maxDepth l hne hl t0 tmax h

/-- C18: bottom-hole temperature is monotone in the drilled depth -/
theorem trock_mono_depth (l : List (Rat × Rat)) (hl : PosLayers l) (t0 tmax d d' : Rat) (hd : d ≤ d') :
    trock t0 tmax d l ≤ trock t0 tmax d' l := by
  unfold trock
  exact tempAt_mono l hl t0 _ _ (min_le_min hd (le_refl _))

#print axioms trock_le_tmax
#print axioms trock_mono_depth
end GeoVerif
