import Mathlib.Data.List.Sort
import Mathlib.Algebra.Order.Field.Rat
import Mathlib.Tactic.Ring
import GeoVerif.Model.Stats
namespace GeoVerif

theorem ins_eq (x : Rat) (l : List Rat) : ins x l = List.orderedInsert (· ≤ ·) x l := by
  induction l with
  | nil => rfl
  | cons y ys ih => simp [ins, List.orderedInsert, ih]

theorem isort_eq (l : List Rat) : isort l = List.insertionSort (· ≤ ·) l := by
  induction l with
  | nil => rfl
  | cons x xs ih => simp [isort, List.insertionSort, ih, ins_eq]

theorem isort_perm_eq (l₁ l₂ : List Rat) (h : l₁.Perm l₂) : isort l₁ = isort l₂ := by
  rw [isort_eq, isort_eq]
  apply List.Perm.eq_of_pairwise' (r := (· ≤ ·))
  · exact List.pairwise_insertionSort _ l₁
  · exact List.pairwise_insertionSort _ l₂
  · exact ((List.perm_insertionSort _ l₁).trans h).trans (List.perm_insertionSort _ l₂).symm

theorem sumR_perm (l₁ l₂ : List Rat) (h : l₁.Perm l₂) : sumR l₁ = sumR l₂ := by
  induction h with
  | nil => rfl
  | cons x _ ih => simp [sumR, ih]
  | swap x y l => simp [sumR]; ring
  | trans _ _ ih1 ih2 => rw [ih1, ih2]

/-- C14: the reported statistics do not depend on the order in which workers appended their rows -/
theorem stats_perm_invariant (l₁ l₂ : List Rat) (h : l₁.Perm l₂) : stats l₁ = stats l₂ := by
  have hs := isort_perm_eq l₁ l₂ h
  have hlen := h.length_eq
  have hsum := sumR_perm l₁ l₂ h
  have hmean : meanR l₁ = meanR l₂ := by unfold meanR; rw [hsum, hlen]
  have hvar : varR l₁ = varR l₂ := by
    unfold varR
    rw [hmean, hlen, sumR_perm _ _ (h.map _)]
  unfold stats minR maxR medianR
  simp only [hs, hmean, hvar]

#print axioms stats_perm_invariant
end GeoVerif
