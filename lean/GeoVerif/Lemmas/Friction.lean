import Mathlib.Tactic.Linarith
import Mathlib.Tactic.Ring
import Mathlib.Tactic.Positivity
import Mathlib.Tactic.FieldSimp
import Mathlib.Algebra.Order.Field.Rat
import GeoVerif.Model.Friction
namespace GeoVerif

theorem dpWithFactor_closed (pi q rho depth d f : Rat) (hpi : 0 < pi) (hrho : 0 < rho) (hd : 0 < d) :
    dpWithFactor pi q rho depth d f = f * (8 * q ^ 2 * depth / (pi ^ 2 * rho * 1000)) / d ^ 5 := by
  unfold dpWithFactor dpWell velocity
  field_simp
  ring

theorem dpLaminar_closed (pi q rho mu depth d : Rat) (hpi : 0 < pi) (hrho : 0 < rho) (hd : 0 < d) (hq : q ≠ 0) :
    dpLaminar pi q rho mu depth d = 128 * mu * q * depth / (pi * rho * 1000) / d ^ 4 := by
  unfold dpLaminar dpWell velocity reynolds
  field_simp
  ring

theorem dpLaminar_antitone (pi q rho mu depth d₁ d₂ : Rat) (hpi : 0 < pi) (hrho : 0 < rho) (hmu : 0 ≤ mu) (hq : 0 < q)
    (hdep : 0 ≤ depth) (hd₁ : 0 < d₁) (h : d₁ ≤ d₂) :
    dpLaminar pi q rho mu depth d₂ ≤ dpLaminar pi q rho mu depth d₁ := by
  have hd₂ : 0 < d₂ := lt_of_lt_of_le hd₁ h
  rw [dpLaminar_closed pi q rho mu depth d₂ hpi hrho hd₂ (ne_of_gt hq),
      dpLaminar_closed pi q rho mu depth d₁ hpi hrho hd₁ (ne_of_gt hq)]
  have hc : 0 ≤ 128 * mu * q * depth / (pi * rho * 1000) := by positivity
  have hp : d₁ ^ 4 ≤ d₂ ^ 4 := pow_le_pow_left₀ (le_of_lt hd₁) h 4
  exact div_le_div_of_nonneg_left hc (by positivity) hp

/-- turbulent branch, structure: if the friction factor does not grow faster than D⁵, the pressure drop does not grow -/
theorem dpWithFactor_antitone (pi q rho depth d₁ d₂ f₁ f₂ : Rat) (hpi : 0 < pi) (hrho : 0 < rho) (hdep : 0 ≤ depth)
    (hd₁ : 0 < d₁) (hd₂ : 0 < d₂) (hf : f₂ * d₁ ^ 5 ≤ f₁ * d₂ ^ 5) :
    dpWithFactor pi q rho depth d₂ f₂ ≤ dpWithFactor pi q rho depth d₁ f₁ := by
  rw [dpWithFactor_closed pi q rho depth d₂ f₂ hpi hrho hd₂, dpWithFactor_closed pi q rho depth d₁ f₁ hpi hrho hd₁]
  have hK : 0 ≤ 8 * q ^ 2 * depth / (pi ^ 2 * rho * 1000) := by positivity
  rw [div_le_div_iff₀ (by positivity) (by positivity)]
  nlinarith [mul_le_mul_of_nonneg_right hf hK]

end GeoVerif
