import Mathlib.Data.List.Basic
import GeoVerif.Model.ClientParse
namespace GeoVerif

def Blank (s : List Char) : Prop := ∀ c ∈ s, isBlankCh c = true
def Solid (s : List Char) : Prop := s ≠ [] ∧ ∀ c ∈ s, isBlankCh c = false

theorem aux_blank (b : List Char) (hb : Blank b) (rest : List Char) :
    splitWsAux (b ++ rest) [] = splitWsAux rest [] := by
  induction b with
  | nil => rfl
  | cons c cs ih =>
    have hc : isBlankCh c = true := hb c (List.mem_cons_self)
    simp only [List.cons_append, splitWsAux, hc, if_true, List.isEmpty_nil]
    exact ih (fun d hd => hb d (List.mem_cons_of_mem _ hd))

theorem aux_solid (s : List Char) (hs : ∀ c ∈ s, isBlankCh c = false) (rest acc : List Char) :
    splitWsAux (s ++ rest) acc = splitWsAux rest (s.reverse ++ acc) := by
  induction s generalizing acc with
  | nil => rfl
  | cons c cs ih =>
    have hc : isBlankCh c = false := hs c (List.mem_cons_self)
    simp only [List.cons_append, splitWsAux, hc, Bool.false_eq_true, if_false]
    rw [ih (fun d hd => hs d (List.mem_cons_of_mem _ hd))]
    simp

/-- every cell is recovered, whatever the widths of the blank runs (columns may overflow their widths) -/
theorem row_round_trip (lead : List Char) (hl : Blank lead) (cells : List (List Char × List Char))
    (hc : ∀ p ∈ cells, Solid p.1)
    (hsep : ∀ i (h : i + 1 < cells.length), (cells[i]'(by omega)).2 ≠ [] ∧ Blank (cells[i]'(by omega)).2)
    (hlast : ∀ p ∈ cells, Blank p.2) :
    splitWs (renderRow lead cells) = cells.map (·.1) := by
  unfold splitWs
  induction cells generalizing lead with
  | nil => simp only [renderRow, List.map_nil]; rw [← List.append_nil lead, aux_blank lead hl]; rfl
  | cons p rest ih =>
    obtain ⟨cell, sep⟩ := p
    have hcell : Solid cell := hc (cell, sep) (List.mem_cons_self)
    have hsepB : Blank sep := hlast (cell, sep) (List.mem_cons_self)
    simp only [renderRow, List.map_cons, List.append_assoc]
    rw [aux_blank lead hl, aux_solid cell hcell.2]
    simp only [List.append_nil]
    cases rest with
    | nil =>
      simp only [renderRow, List.map_nil]
      -- remaining input is the trailing blank run `sep`
      induction sep with
      | nil =>
        simp only [splitWsAux]
        have : cell.reverse.isEmpty = false := by
          cases cell with
          | nil => exact absurd rfl hcell.1
          | cons a as => simp
        simp [this]
      | cons c cs _ =>
        have hcw : isBlankCh c = true := hsepB c (List.mem_cons_self)
        have : cell.reverse.isEmpty = false := by
          cases cell with
          | nil => exact absurd rfl hcell.1
          | cons a as => simp
        simp only [splitWsAux, hcw, if_true, this, Bool.false_eq_true, if_false, List.reverse_reverse]
        congr 1
        have := aux_blank cs (fun d hd => hsepB d (List.mem_cons_of_mem _ hd)) []
        simpa [splitWsAux] using this
    | cons q rest' =>
      have hs0 := hsep 0 (by simp)
      simp only [List.getElem_cons_zero] at hs0
      obtain ⟨hne, _⟩ := hs0
      -- first character of sep is blank and flushes the cell
      cases sep with
      | nil => exact absurd rfl hne
      | cons c cs =>
        have hcw : isBlankCh c = true := hsepB c (List.mem_cons_self)
        have hne' : cell.reverse.isEmpty = false := by
          cases cell with
          | nil => exact absurd rfl hcell.1
          | cons a as => simp
        have hrec := ih cs (fun d hd => hsepB d (List.mem_cons_of_mem _ hd))
          (fun p hp => hc p (List.mem_cons_of_mem _ hp))
          (fun i h => by
            have := hsep (i + 1) (by simp at h ⊢; omega)
            simpa using this)
          (fun p hp => hlast p (List.mem_cons_of_mem _ hp))
        -- unfold one step on `c`
        have : renderRow (c :: cs) (q :: rest') = c :: renderRow cs (q :: rest') := by
          obtain ⟨c2, s2⟩ := q; simp [renderRow]
        rw [this]
        simp only [splitWsAux, hcw, if_true, hne', Bool.false_eq_true, if_false, List.reverse_reverse]
        rw [hrec]

#print axioms row_round_trip
end GeoVerif
