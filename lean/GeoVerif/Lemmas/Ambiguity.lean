import GeoVerif.Model.ClientParse
import Mathlib.Data.List.Basic
namespace GeoVerif.Client

theorem isInfix_iff (pat s : List Char) : isInfix pat s = true ↔ ∃ pre post, s = pre ++ pat ++ post := by
  induction s with
  | nil =>
    simp only [isInfix]
    constructor
    · intro h
      have : pat = [] := by simpa using h
      exact ⟨[], [], by simp [this]⟩
    · rintro ⟨pre, post, h⟩
      have h' := congrArg List.length h
      simp at h'
      have : pat = [] := List.length_eq_zero_iff.mp (by omega)
      simp [this]
  | cons c cs ih =>
    simp only [isInfix, Bool.or_eq_true]
    constructor
    · rintro (h | h)
      · obtain ⟨t, ht⟩ := List.isPrefixOf_iff_prefix.mp h
        exact ⟨[], t, by simp [ht]⟩
      · obtain ⟨pre, post, h⟩ := ih.mp h
        exact ⟨c :: pre, post, by simp [h]⟩
    · rintro ⟨pre, post, h⟩
      cases pre with
      | nil =>
        left
        exact List.isPrefixOf_iff_prefix.mpr ⟨post, by simpa using h.symm⟩
      | cons p ps =>
        right
        simp only [List.cons_append, List.cons.injEq] at h
        exact ih.mpr ⟨ps, post, h.2⟩

def s4 : List Char := [' ', ' ', ' ', ' ']

def AllSp (l : List Char) : Prop := ∀ c ∈ l, c = ' '
def NoLead (l : List Char) : Prop := ∀ c t, l = c :: t → c ≠ ' '

theorem allSp_s4 : AllSp s4 := by intro c hc; simp [s4] at hc; exact hc

/-- suffix lemma: inside `spaces ++ x`, a marker body `a` preceded by four spaces is `x` itself, or what follows a run of four spaces inside `x` -/
theorem marker_body_eq (sp x pre a : List Char) (hsp : AllSp sp) (hx : NoLead x)
    (hane : a ≠ []) (ha : NoLead a) (h : sp ++ x = pre ++ s4 ++ a) : a = x ∨ ∃ u, x = u ++ s4 ++ a := by
  have h' : sp ++ x = (pre ++ s4) ++ a := h
  rcases List.append_eq_append_iff.mp h' with ⟨t, h1, h2⟩ | ⟨t, h1, h2⟩
  · -- pre ++ s4 = sp ++ t, x = t ++ a
    cases t with
    | nil => left; simpa using h2.symm
    | cons t0 ts =>
      rcases List.append_eq_append_iff.mp h1 with ⟨u, g1, g2⟩ | ⟨u, g1, g2⟩
      · -- sp = pre ++ u, s4 = u ++ (t0 :: ts): t is a suffix of s4, all spaces
        exfalso
        have : t0 = ' ' := allSp_s4 t0 (by rw [g2]; simp)
        exact hx t0 (ts ++ a) (by simpa using h2) this
      · -- pre = sp ++ u, t0 :: ts = u ++ s4: x = u ++ s4 ++ a
        right
        exact ⟨u, by rw [h2, g2]⟩
  · -- sp = (pre ++ s4) ++ t, a = t ++ x
    cases t with
    | nil => left; simpa using h2
    | cons t0 ts =>
      exfalso
      have : t0 = ' ' := hsp t0 (by rw [h1]; simp)
      exact ha t0 (ts ++ x) (by simpa using h2) this

/-- **no value from another line**: in a report line `<spaces><label>: <figure and unit>` whose label has no leading space and whose
figure part contains no colon, the client's marker `"    <field>: "` can only match when the field is the label, or what follows a run of
four spaces inside the label, or one of those two for the part of the label before an inner `": "` -/
theorem marker_matches_only_own_label (sp b rest a : List Char) (hsp : AllSp sp) (hb : NoLead b)
    (hrest : ∀ c ∈ rest, c ≠ ':') (hane : a ≠ []) (ha : NoLead a)
    (hm : isInfix (marker 4 a) (sp ++ b ++ ':' :: ' ' :: rest) = true) :
    (a = b ∨ ∃ u, b = u ++ s4 ++ a) ∨ ∃ b1 b2, b = b1 ++ ':' :: ' ' :: b2 ∧ (a = b1 ∨ ∃ u, b1 = u ++ s4 ++ a) := by
  obtain ⟨pre, post, h⟩ := (isInfix_iff _ _).mp hm
  have hmk : marker 4 a = s4 ++ a ++ [':', ' '] := by simp [marker, s4, List.replicate]
  rw [hmk] at h
  have h' : (sp ++ b) ++ (':' :: ' ' :: rest) = (pre ++ s4 ++ a) ++ (':' :: ' ' :: post) := by
    simpa [List.append_assoc] using h
  rcases List.append_eq_append_iff.mp h' with ⟨t, h1, h2⟩ | ⟨t, h1, h2⟩
  · cases t with
    | nil => left; exact marker_body_eq sp b pre a hsp hb hane ha (by simpa using h1.symm)
    | cons t0 ts =>
      exfalso
      simp only [List.cons_append, List.cons.injEq] at h2
      obtain ⟨_, h3⟩ := h2
      cases ts with
      | nil => simp at h3
      | cons t1 ts' =>
        simp only [List.cons_append, List.cons.injEq] at h3
        have : (':' : Char) ∈ rest := by rw [h3.2]; simp
        exact hrest ':' this rfl
  · cases t with
    | nil => left; exact marker_body_eq sp b pre a hsp hb hane ha (by simpa using h1)
    | cons t0 ts =>
      simp only [List.cons_append, List.cons.injEq] at h2
      obtain ⟨ht0, h3⟩ := h2
      cases ts with
      | nil => exfalso; simp at h3
      | cons t1 ts' =>
        simp only [List.cons_append, List.cons.injEq] at h3
        obtain ⟨ht1, _⟩ := h3
        subst ht0; subst ht1
        rcases List.append_eq_append_iff.mp h1 with ⟨u, g1, g2⟩ | ⟨u, g1, g2⟩
        · right
          refine ⟨u, ts', g2, ?_⟩
          have hu : NoLead u := by
            intro c t hc
            exact hb c (t ++ ':' :: ' ' :: ts') (by rw [g2, hc]; simp)
          exact marker_body_eq sp u pre a hsp hu hane ha g1.symm
        · exfalso
          obtain ⟨a0, at', rfl⟩ := List.exists_cons_of_ne_nil hane
          have : a0 = ' ' := hsp a0 (by rw [g1]; simp)
          exact ha a0 at' rfl this

/-! decidable forms of the hypotheses, for the kernel-decided table obligations -/

def noLeadB : List Char → Bool
  | [] => true
  | c :: _ => c != ' '

theorem noLead_of_noLeadB (l : List Char) (h : noLeadB l = true) : NoLead l := by
  intro c t hl hc
  subst hl; subst hc
  simp [noLeadB] at h

/-- every `b1` with `b = b1 ++ ": " ++ b2` -/
def innerPrefixes : List Char → List (List Char)
  | [] => []
  | c :: cs => (if [':', ' '].isPrefixOf (c :: cs) then [[]] else []) ++ (innerPrefixes cs).map (c :: ·)

theorem mem_innerPrefixes (b b1 b2 : List Char) (h : b = b1 ++ ':' :: ' ' :: b2) : b1 ∈ innerPrefixes b := by
  induction b1 generalizing b with
  | nil =>
    subst h
    simp [innerPrefixes]
  | cons c cs ih =>
    subst h
    simp only [List.cons_append, innerPrefixes, List.mem_append, List.mem_map]
    right
    exact ⟨cs, ih _ rfl, rfl⟩

/-- every `a` with `x = u ++ "    " ++ a` -/
def afterRuns : List Char → List (List Char)
  | [] => []
  | c :: cs => (if s4.isPrefixOf (c :: cs) then [(c :: cs).drop 4] else []) ++ afterRuns cs

theorem mem_afterRuns (x u a : List Char) (h : x = u ++ s4 ++ a) : a ∈ afterRuns x := by
  induction u generalizing x with
  | nil =>
    subst h
    simp [afterRuns, s4]
  | cons c cs ih =>
    subst h
    simp only [List.cons_append, afterRuns, List.mem_append]
    right
    exact ih _ rfl

/-- everything a marker could pick up from a line labelled `b`, apart from `b` itself -/
def foreignBodies (b : List Char) : List (List Char) :=
  afterRuns b ++ innerPrefixes b ++ (innerPrefixes b).flatMap afterRuns

/-- the table-level conditions under which no field of `fields` can pick up a line labelled by a *different* member of `labels` -/
def labelsSafe (fields labels : List (List Char)) : Bool :=
  fields.all (fun a => !a.isEmpty && noLeadB a)
  && labels.all (fun b => noLeadB b && (foreignBodies b).all (fun x => !(fields.contains x)))

theorem unambiguous_of_labelsSafe (fields labels : List (List Char)) (hs : labelsSafe fields labels = true)
    (a b : List Char) (ha : a ∈ fields) (hb : b ∈ labels) (sp rest : List Char) (hsp : AllSp sp) (hrest : ∀ c ∈ rest, c ≠ ':')
    (hm : isInfix (marker 4 a) (sp ++ b ++ ':' :: ' ' :: rest) = true) : a = b := by
  simp only [labelsSafe, Bool.and_eq_true, List.all_eq_true] at hs
  obtain ⟨hf, hl⟩ := hs
  have hfa := hf a ha
  have hlb := hl b hb
  simp only [Bool.and_eq_true, Bool.not_eq_true', List.all_eq_true] at hfa hlb
  obtain ⟨hane, hanl⟩ := hfa
  obtain ⟨hbnl, hforeign⟩ := hlb
  have hane' : a ≠ [] := by intro h; simp [h] at hane
  have hnot : ∀ x ∈ foreignBodies b, x ≠ a := by
    intro x hx hxa
    have := hforeign x hx
    rw [hxa] at this
    simp [List.contains_iff_mem, ha] at this
  rcases marker_matches_only_own_label sp b rest a hsp (noLead_of_noLeadB b hbnl) hrest hane' (noLead_of_noLeadB a hanl) hm with
    (h | ⟨u, hu⟩) | ⟨b1, b2, h1, (h2 | ⟨u, hu⟩)⟩
  · exact h
  · exact absurd rfl (hnot a (by simp only [foreignBodies, List.mem_append]; exact Or.inl (Or.inl (mem_afterRuns b u a hu))))
  · exact absurd h2.symm (hnot b1 (by simp only [foreignBodies, List.mem_append]; exact Or.inl (Or.inr (mem_innerPrefixes b b1 b2 h1))))
  · exact absurd rfl (hnot a (by
      simp only [foreignBodies, List.mem_append, List.mem_flatMap]
      exact Or.inr ⟨b1, mem_innerPrefixes b b1 b2 h1, mem_afterRuns b1 u a hu⟩))

end GeoVerif.Client
