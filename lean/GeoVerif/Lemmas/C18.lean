import GeoVerif.Lemmas.C05
import GeoVerif.Lemmas.Capex
import GeoVerif.Lemmas.Lcoe
import GeoVerif.Lemmas.C04
/-! Lemmas for the monotonicity clauses (C18). -/
namespace GeoVerif

/-- `l'` has the same thicknesses as `l` and gradients at least as large -/
inductive GradLE : List (Rat × Rat) → List (Rat × Rat) → Prop
  | nil : GradLE [] []
  | cons {g g' th : Rat} {l l' : List (Rat × Rat)} : g ≤ g' → GradLE l l' → GradLE ((g, th) :: l) ((g', th) :: l')

theorem tempAt_mono_grad (l l' : List (Rat × Rat)) (h : GradLE l l') (hl : PosLayers l) (t0 t0' z : Rat)
    (ht : t0 ≤ t0') (hz : 0 ≤ z) : tempAt t0 l z ≤ tempAt t0' l' z := by
  induction h generalizing t0 t0' z with
  | nil => simpa [tempAt] using ht
  | @cons g g' th l l' hg hrest ih =>
    have hth : 0 ≤ th := (hl (g, th) (by simp)).2
    cases hrest with
    | nil =>
      simp only [tempAt]
      have : g * z ≤ g' * z := mul_le_mul_of_nonneg_right hg hz
      linarith
    | @cons g2 g2' th2 l2 l2' hg2 hrest2 =>
      simp only [tempAt]
      by_cases hzt : z ≤ th
      · simp only [hzt, if_true]
        have : g * z ≤ g' * z := mul_le_mul_of_nonneg_right hg hz
        linarith
      · simp only [hzt, if_false]
        apply ih (fun p hp => hl p (by simp [hp]))
        · have : g * th ≤ g' * th := mul_le_mul_of_nonneg_right hg hth
          linarith
        · have := not_le.mp hzt; linarith

/-- bottom-hole temperature is `min(temperature at the requested depth, Tmax)` -/
theorem trock_eq_min (l : List (Rat × Rat)) (hne : l ≠ []) (hl : PosLayers l) (t0 tmax depth : Rat) (h : t0 ≤ tmax) :
    trock t0 tmax depth l = min (tempAt t0 l depth) tmax := by
  unfold trock
  by_cases hd : depth ≤ maxDepth t0 tmax l
  · rw [min_eq_left hd]
    have := tempAt_mono l hl t0 depth (maxDepth t0 tmax l) hd
    rw [tempAt_maxDepth l hne hl t0 tmax h] at this
    rw [min_eq_left this]
  · have hd' := le_of_lt (not_le.mp hd)
    rw [min_eq_right hd']
    have := tempAt_mono l hl t0 (maxDepth t0 tmax l) depth hd'
    rw [tempAt_maxDepth l hne hl t0 tmax h] at this
    rw [tempAt_maxDepth l hne hl t0 tmax h, min_eq_right this]

theorem GradLE.ne_nil {l l' : List (Rat × Rat)} (h : GradLE l l') (hne : l ≠ []) : l' ≠ [] := by
  cases h with
  | nil => exact absurd rfl hne
  | cons _ _ => simp

theorem GradLE.pos {l l' : List (Rat × Rat)} (h : GradLE l l') (hl : PosLayers l) : PosLayers l' := by
  induction h with
  | nil => exact hl
  | @cons g g' th l l' hg _ ih =>
    intro p hp
    simp only [List.mem_cons] at hp
    rcases hp with rfl | hp
    · have := hl (g, th) (by simp)
      exact ⟨lt_of_lt_of_le this.1 hg, this.2⟩
    · exact ih (fun q hq => hl q (by simp [hq])) p hp

/-- bottom-hole temperature does not decrease when a gradient increases (the Tmax cap included) -/
theorem trock_mono_grad (l l' : List (Rat × Rat)) (hg : GradLE l l') (hne : l ≠ []) (hl : PosLayers l)
    (t0 tmax depth : Rat) (h : t0 ≤ tmax) (hd : 0 ≤ depth) :
    trock t0 tmax depth l ≤ trock t0 tmax depth l' := by
  rw [trock_eq_min l hne hl t0 tmax depth h, trock_eq_min l' (hg.ne_nil hne) (hg.pos hl) t0 tmax depth h]
  exact min_le_min (tempAt_mono_grad l l' hg hl t0 t0 depth (le_refl _) hd) (le_refl _)

end GeoVerif

namespace GeoVerif

/-- raising capital cost and/or annual O&M lowers every entry of the project cash flow -/
theorem assemble_anti_cost (s : CashIn) (c' o' : Rat) (hc : s.ccap ≤ c') (ho : s.coam ≤ o') (t : Nat) :
    (assemble { s with ccap := c', coam := o' }).getD t 0 ≤ (assemble s).getD t 0 := by
  by_cases h1 : t < s.cy
  · rw [assemble_construction s t h1, assemble_construction { s with ccap := c', coam := o' } t h1]
    have hcy : (0 : Rat) ≤ (s.cy : Rat) := by positivity
    have : s.ccap / (s.cy : Rat) ≤ c' / (s.cy : Rat) := div_le_div_of_nonneg_right hc hcy
    simp only; linarith
  · by_cases h2 : t < s.cy + s.L
    · obtain ⟨i, rfl⟩ : ∃ i, t = s.cy + i := ⟨t - s.cy, by omega⟩
      have hi : i < s.L := by omega
      rw [assemble_operating s i hi]
      have := assemble_operating { s with ccap := c', coam := o' } i hi
      simp only at this
      rw [this]
      simp only [operatingCash, productRevenue, carbonRevenue]
      linarith
    · have e1 : (assemble s).getD t 0 = 0 := by
        rw [List.getD_eq_getElem?_getD, List.getElem?_eq_none (by rw [assemble_length]; omega)]; rfl
      have e2 : (assemble { s with ccap := c', coam := o' }).getD t 0 = 0 := by
        rw [List.getD_eq_getElem?_getD, List.getElem?_eq_none (by rw [assemble_length]; simp only; omega)]; rfl
      rw [e1, e2]

theorem npv_antitone_cost (s : CashIn) (c' o' : Rat) (hc : s.ccap ≤ c') (ho : s.coam ≤ o') (r : Rat) (hr : 0 < 1 + r) :
    npv r (assemble { s with ccap := c', coam := o' }) false ≤ npv r (assemble s) false := by
  simp only [npv, Bool.false_eq_true, if_false]
  exact npvFrom_mono r hr 0 _ _ (by simp [assemble_length]) (assemble_anti_cost s c' o' hc ho)

/-- every component enters total capital cost with a non-negative coefficient (ITC rate ≤ 1) -/
theorem capex_mono_component (s : CapexIn) (d : Rat) (hd : 0 ≤ d) (hritc : s.ritcProvided = true → s.ritc ≤ 1)
    (hfix : s.totalFixed = false) :
    capex s ≤ capex { s with well := s.well + d } ∧ capex s ≤ capex { s with plant := s.plant + d } ∧
    capex s ≤ capex { s with stim := s.stim + d } ∧ capex s ≤ capex { s with gath := s.gath + d } ∧
    capex s ≤ capex { s with expl := s.expl + d } := by
  refine ⟨capex_mono_base s { s with well := s.well + d } rfl rfl rfl rfl rfl hritc ?_,
    capex_mono_base s { s with plant := s.plant + d } rfl rfl rfl rfl rfl hritc ?_,
    capex_mono_base s { s with stim := s.stim + d } rfl rfl rfl rfl rfl hritc ?_,
    capex_mono_base s { s with gath := s.gath + d } rfl rfl rfl rfl rfl hritc ?_,
    capex_mono_base s { s with expl := s.expl + d } rfl rfl rfl rfl rfl hritc ?_⟩ <;>
  · simp only [capexBase, hfix, Bool.false_eq_true, if_false]
    linarith

theorem opex_mono_component (s : OpexIn) (d : Rat) (hd : 0 ≤ d) (hfix : s.totalFixed = false) :
    opex s ≤ opex { s with wellOM := s.wellOM + d } ∧ opex s ≤ opex { s with plantOM := s.plantOM + d } ∧
    opex s ≤ opex { s with waterOM := s.waterOM + d } := by
  refine ⟨?_, ?_, ?_⟩ <;>
  · simp only [opex, opexAdjust, opexBase, redrillAmortised, hfix, Bool.false_eq_true, if_false]
    linarith

/-- adjustment factors multiply non-negative correlation values, so the component is monotone in the factor -/
theorem stimCorr_mono (a a' : Rat) (h : a ≤ a') (n : Nat) : stimCorr a n ≤ stimCorr a' n := by
  unfold stimCorr
  have : (0 : Rat) ≤ (n : Rat) := by positivity
  nlinarith

theorem plantPowerCorr_mono (a a' c : Rat) (h : a ≤ a') (hc : 0 ≤ c) : plantPowerCorr a c ≤ plantPowerCorr a' c := by
  unfold plantPowerCorr; nlinarith

theorem plantDirectCorr_mono (a a' m : Rat) (h : a ≤ a') (hm : 0 ≤ m) : plantDirectCorr a m ≤ plantDirectCorr a' m := by
  unfold plantDirectCorr; nlinarith

theorem explCorr_mono (a a' c : Rat) (h : a ≤ a') (hc : 0 ≤ c) : explCorr a c ≤ explCorr a' c := by
  unfold explCorr; nlinarith

theorem gathCorr_mono (a a' : Rat) (h : a ≤ a') (np ni : Nat) (cp : Rat) (hcp : 0 ≤ cp) :
    gathCorr a np ni cp ≤ gathCorr a' np ni cp := by
  unfold gathCorr
  have h1 : (0 : Rat) ≤ ((np : Rat) + (ni : Rat)) * 750 * 500 + cp := by positivity
  apply div_le_div_of_nonneg_right _ (by norm_num)
  nlinarith

end GeoVerif
