import GeoVerif.Lemmas.PyLoops
import GeoVerif.Lemmas.C04
import GeoVerif.Generated.Code
/-! The generated transcriptions of `CalculateRevenue` and of the in-place cash-flow assembly / payback scan of `Economics.Calculate` equal the list models — for all arguments. -/
namespace GeoVerif
open Py

/-- a fold over a pair whose components evolve independently is the pair of the folds -/
theorem foldl_pair {α β ι : Type} (f : α → ι → α) (g : β → ι → β) (l : List ι) (a : α) (b : β) :
    l.foldl (fun (st : α × β) i => (f st.1 i, g st.2 i)) (a, b) = (l.foldl f a, l.foldl g b) := by
  induction l generalizing a b with
  | nil => rfl
  | cons x xs ih => simp only [List.foldl_cons]; exact ih _ _

/-- the running sum is the only list with `X[0] = cf[0]` and `X[i+1] = X[i] + cf[i+1]` -/
theorem cumsum_unique (cf X : List Rat) (hl : X.length = cf.length)
    (h0 : 0 < cf.length → X.getD 0 0 = cf.getD 0 0)
    (hs : ∀ i, i + 1 < cf.length → X.getD (i + 1) 0 = X.getD i 0 + cf.getD (i + 1) 0) : X = cumsum cf := by
  apply ext_getD
  · rw [hl]; simp [cumsum, cumsumFrom_length]
  · intro j hj
    rw [hl] at hj
    induction j with
    | zero =>
      rw [h0 hj, cumsum_getD cf 0 hj]
      cases cf with
      | nil => simp at hj
      | cons x xs => simp [sumL]
    | succ m ih => rw [hs m hj, cumsum_step cf m hj, ih (by omega)]

/-- the revenue series of `CalculateRevenue` as a list -/
def revenueSeries (L cy : Nat) (E P : List Rat) : List Rat :=
  List.replicate cy 0 ++ (List.range L).map (fun i => E.getD i 0 * P.getD i 0 / 1000000)

theorem revenueSeries_getD (L cy : Nat) (E P : List Rat) (j : Nat) :
    (revenueSeries L cy E P).getD j 0 =
      if cy ≤ j ∧ j < cy + L then E.getD (j - cy) 0 * P.getD (j - cy) 0 / 1000000 else 0 := by
  unfold revenueSeries
  by_cases h1 : j < cy
  · have : ¬ (cy ≤ j ∧ j < cy + L) := by omega
    simp [List.getD_eq_getElem?_getD, List.getElem?_append_left, h1, this]
  · by_cases h2 : j < cy + L
    · have h3 : j - cy < L := by omega
      have : cy ≤ j ∧ j < cy + L := ⟨by omega, h2⟩
      simp [List.getD_eq_getElem?_getD, List.getElem?_append_right, Nat.le_of_not_lt h1, h3, this]
    · have : ¬ (cy ≤ j ∧ j < cy + L) := by omega
      have h3 : ¬ (j - cy < L) := by omega
      simp [List.getD_eq_getElem?_getD, List.getElem?_append_right, Nat.le_of_not_lt h1, h3, h2, this]

theorem code_revenue_eq (L cy : Nat) (hcy : 1 ≤ cy) (E P : List Rat) :
    Code.CalculateRevenue (L : Int) (cy : Int) E P =
      (revenueSeries L cy E P, cumsum (revenueSeries L cy E P)) := by
  unfold Code.CalculateRevenue
  have ecomm : (L : Int) + (cy : Int) = (cy : Int) + (L : Int) := by ring
  have erep : Py.replicate ((L : Int) + (cy : Int)) 0 = List.replicate (L + cy) 0 := by
    rw [← Nat.cast_add, replicate_nat]
  simp only [erep]
  rw [ecomm]
  -- first loop: the revenue of every operating year
  obtain ⟨hl1, hin1, hout1⟩ := foldl_rec cy L (fun j _ => E.getD (j - cy) 0 * P.getD (j - cy) 0 / 1000000)
    (fun (CashFlow : List Rat) (i : Int) =>
      let CashFlow := Py.set CashFlow i (((Py.get E (i - (cy : Int))) * (Py.get P (i - (cy : Int)))) / (1000000 : Rat))
      CashFlow)
    (List.replicate (L + cy) 0) (by simp; omega) (by intros; rfl) (by
      intro xs k _ _
      simp only [set_add, get_add_sub, Nat.add_sub_cancel_left])
  have hcf : (Py.range (cy : Int) ((cy : Int) + (L : Int))).foldl
      (fun (CashFlow : List Rat) (i : Int) =>
        let CashFlow := Py.set CashFlow i (((Py.get E (i - (cy : Int))) * (Py.get P (i - (cy : Int)))) / (1000000 : Rat))
        CashFlow) (List.replicate (L + cy) 0) = revenueSeries L cy E P := by
    apply ext_getD
    · rw [hl1]; simp [revenueSeries]; omega
    · intro j _
      rw [revenueSeries_getD]
      by_cases hj : cy ≤ j ∧ j < cy + L
      · rw [hin1 j hj.1 hj.2]; simp [hj]
      · rw [hout1 j hj, getD_replicate]; simp [hj]
  simp only [hcf]
  -- second loop: the running sum
  obtain ⟨hl2, hin2, hout2⟩ := foldl_rec cy L
    (fun j prev => if j = 0 then 0 else prev + (revenueSeries L cy E P).getD j 0)
    (fun (CummCashFlow : List Rat) (i : Int) =>
      let CummCashFlow := Py.set CummCashFlow i ((Py.get CummCashFlow (i - (1 : Int))) + (Py.get (revenueSeries L cy E P) i))
      CummCashFlow)
    (List.replicate (L + cy) 0) (by simp; omega) (by intros; simp) (by
      intro xs k _ _
      have h1 : 1 ≤ cy + k := by omega
      have h0 : cy + k ≠ 0 := by omega
      simp only [set_add, get_add, get_add_pred _ _ _ h1, h0, if_false])
  congr 1
  apply cumsum_unique
  · rw [hl2]; simp [revenueSeries]; omega
  · intro _
    rw [hout2 0 (by omega), revenueSeries_getD, getD_replicate]
    have h : ¬ (cy ≤ 0 ∧ 0 < cy + L) := by omega
    rw [if_neg h]
    simp
  · intro i hi
    have hlen : (revenueSeries L cy E P).length = cy + L := by simp [revenueSeries]
    rw [hlen] at hi
    by_cases hj : cy ≤ i + 1
    · rw [hin2 (i + 1) hj hi]; simp
    · have e1 : ¬ (cy ≤ i + 1 ∧ i + 1 < cy + L) := by omega
      have e2 : ¬ (cy ≤ i ∧ i < cy + L) := by omega
      rw [hout2 (i + 1) e1, hout2 i e2, revenueSeries_getD, getD_replicate, getD_replicate]
      simp [e1]

/-- the project cash flow as a list: equal (negative) CAPEX shares, then revenue − O&M -/
def totalSeries (L cy : Nat) (capex opex : Rat) (rev : List Rat) : List Rat :=
  List.replicate cy (-1 * (capex / (cy : Rat))) ++ (List.range L).map (fun i => rev.getD (cy + i) 0 - opex)

theorem totalSeries_getD (L cy : Nat) (capex opex : Rat) (rev : List Rat) (j : Nat) :
    (totalSeries L cy capex opex rev).getD j 0 =
      if j < cy then -1 * (capex / (cy : Rat)) else if j < cy + L then rev.getD j 0 - opex else 0 := by
  unfold totalSeries
  by_cases h1 : j < cy
  · simp [List.getD_eq_getElem?_getD, List.getElem?_append_left, h1]
  · by_cases h2 : j < cy + L
    · have h3 : j - cy < L := by omega
      have e : cy + (j - cy) = j := by omega
      simp [List.getD_eq_getElem?_getD, List.getElem?_append_right, Nat.le_of_not_lt h1, h3, h2, h1, e]
    · have h3 : ¬ (j - cy < L) := by omega
      simp [List.getD_eq_getElem?_getD, List.getElem?_append_right, Nat.le_of_not_lt h1, h3, h2, h1]

/-- **the project cash flow as `Economics.Calculate` assembles it in place** (the statements from `ProjectCAPEXPerConstructionYear = …` to the
cumulative loop, transcribed from the current source): on lists of the full length `L + cy` it yields `totalSeries` — CAPEX shares, then
revenue − O&M — and its running sum, whatever the cumulative list held before. -/
theorem code_cashflow_fragment_eq (L cy : Nat) (hcy : 1 ≤ cy) (capex opex : Rat) (rev cum0 : List Rat)
    (hr : rev.length = L + cy) (hc : cum0.length = L + cy) :
    Code.CashFlowFragment rev cum0 capex opex (cy : Int) (L : Int) =
      (totalSeries L cy capex opex rev, cumsum (totalSeries L cy capex opex rev)) := by
  unfold Code.CashFlowFragment
  simp only [Int.cast_natCast]
  rw [foldl_pair
    (fun (TotalRevenue : List Rat) (i : Int) => Py.set TotalRevenue i ((-(1 : Rat)) * (capex / (cy : Rat))))
    (fun (TotalCummRevenue : List Rat) (i : Int) => Py.set TotalCummRevenue i ((-(1 : Rat)) * (capex / (cy : Rat))))]
  simp only
  obtain ⟨hlA, hinA, houtA⟩ := foldl_rec0 cy (fun _ _ => (-(1 : Rat)) * (capex / (cy : Rat)))
    (fun (xs : List Rat) (i : Int) => Py.set xs i ((-(1 : Rat)) * (capex / (cy : Rat))))
    rev (by omega) (by intros; rfl) (by intro xs k _ _; simp only [set_nat])
  obtain ⟨hlU, hinU, houtU⟩ := foldl_rec0 cy (fun _ _ => (-(1 : Rat)) * (capex / (cy : Rat)))
    (fun (xs : List Rat) (i : Int) => Py.set xs i ((-(1 : Rat)) * (capex / (cy : Rat))))
    cum0 (by omega) (by intros; rfl) (by intro xs k _ _; simp only [set_nat])
  generalize hA : (Py.range (0 : Int) (cy : Int)).foldl
    (fun (xs : List Rat) (i : Int) => Py.set xs i ((-(1 : Rat)) * (capex / (cy : Rat)))) rev = A at hlA hinA houtA ⊢
  generalize hU : (Py.range (0 : Int) (cy : Int)).foldl
    (fun (xs : List Rat) (i : Int) => Py.set xs i ((-(1 : Rat)) * (capex / (cy : Rat)))) cum0 = U at hlU hinU houtU ⊢
  have hlA' : A.length = L + cy := by rw [hlA, hr]
  have hlU' : U.length = L + cy := by rw [hlU, hc]
  have ecomm : (L : Int) + (cy : Int) = (cy : Int) + (L : Int) := by ring
  rw [ecomm]
  -- O&M off the operating years, in place
  obtain ⟨hlB, hinB, houtB⟩ := foldl_upd cy L (fun _ old => old - opex)
    (fun (TotalRevenue : List Rat) (i : Int) =>
      let TotalRevenue := Py.set TotalRevenue i ((Py.get TotalRevenue i) - opex)
      TotalRevenue)
    A (by omega) (by intro xs k _ _; simp only [set_add, get_add])
  have hcf : (Py.range (cy : Int) ((cy : Int) + (L : Int))).foldl
      (fun (TotalRevenue : List Rat) (i : Int) =>
        let TotalRevenue := Py.set TotalRevenue i ((Py.get TotalRevenue i) - opex)
        TotalRevenue) A = totalSeries L cy capex opex rev := by
    apply ext_getD
    · rw [hlB, hlA']; simp [totalSeries]; omega
    · intro j hj
      rw [hlB, hlA'] at hj
      rw [totalSeries_getD]
      by_cases h1 : j < cy
      · rw [houtB j (by omega), hinA j h1]; simp [h1]
      · have h2 : j < cy + L := by omega
        rw [hinB j (by omega) h2, houtA j (by omega)]; simp [h1, h2]
  simp only [hcf]
  have e1 : (cy : Int) + (L : Int) = (1 : Int) + ((L + cy - 1 : Nat) : Int) := by omega
  rw [e1]
  obtain ⟨hlC, hinC, houtC⟩ := foldl_rec 1 (L + cy - 1)
    (fun j prev => if j = 0 then 0 else prev + (totalSeries L cy capex opex rev).getD j 0)
    (fun (TotalCummRevenue : List Rat) (i : Int) =>
      let TotalCummRevenue := Py.set TotalCummRevenue i ((Py.get TotalCummRevenue (i - (1 : Int))) + (Py.get (totalSeries L cy capex opex rev) i))
      TotalCummRevenue)
    U (by omega) (by intros; simp) (by
      intro xs k _ _
      have h1 : 1 ≤ 1 + k := by omega
      have h0 : 1 + k ≠ 0 := by omega
      simp only [set_add, get_add, get_add_pred _ _ _ h1, h0, if_false])
  simp only [Nat.cast_one] at hlC hinC houtC
  congr 1
  have hlen : (totalSeries L cy capex opex rev).length = cy + L := by simp [totalSeries]
  apply cumsum_unique
  · rw [hlC, hlU', hlen]; omega
  · intro _
    rw [houtC 0 (by omega), hinU 0 (by omega), totalSeries_getD]
    simp [show 0 < cy by omega]
  · intro i hi
    rw [hlen] at hi
    rw [hinC (i + 1) (by omega) (by omega)]
    simp

theorem fabs_of_nonpos (q : Rat) (h : q ≤ 0) : Py.fabs q = -q := by
  unfold Py.fabs
  by_cases hq : q < 0
  · simp [hq]
  · have : q = 0 := le_antisymm h (not_lt.mp hq)
    simp [this]

theorem drop_one_range (n : Nat) : (List.range n).drop 1 = (List.range (n - 1)).map (fun k => 1 + k) := by
  apply List.ext_getElem
  · simp
  · intro i h1 h2
    simp

/-- the payback statements of `Economics.Calculate`, as transcribed from the current source, are the model `paybackFixed` -/
theorem code_payback_eq (cum : List Rat) : Code.PaybackFragment cum = paybackFixed cum := by
  unfold Code.PaybackFragment paybackFixed
  have er : Py.range (1 : Int) (Py.len cum) = (List.range (cum.length - 1)).map (fun (k : Nat) => (1 : Int) + (k : Int)) := by
    have : ((cum.length : Int) - 1).toNat = cum.length - 1 := by omega
    simp [Py.range, Py.len, this]
  simp only [er, drop_one_range, List.foldl_map]
  congr 1
  funext p k
  have h1 : 1 ≤ 1 + k := by omega
  have eg : Py.get cum ((1 : Int) + (k : Int)) = cum.getD (1 + k) 0 := by
    have := get_add cum 1 k
    simpa using this
  have ep : Py.get cum ((1 : Int) + (k : Int) - 1) = cum.getD k 0 := by
    have := get_add_pred cum 1 k h1
    simpa using this
  simp only [eg, ep, paybackStep, Nat.add_sub_cancel_left, Int.cast_zero, gt_iff_lt, ge_iff_le]
  by_cases hc : 0 < cum.getD (1 + k) 0 ∧ cum.getD k 0 ≤ 0
  · simp only [hc, and_self, if_true, fabs_of_nonpos _ hc.2]
    push_cast
    ring
  · simp only [hc, if_false]

end GeoVerif

namespace GeoVerif

/-- `SBTEconomics.Calculate` carries its own copies of the payback scan and of the cash-flow assembly; as transcribed from the current source
they are the same functions as those of `Economics.Calculate` (definitional equality of the two transcriptions) -/
theorem sbt_payback_same : Code.PaybackFragmentSBT = Code.PaybackFragment := rfl

theorem sbt_cashflow_same : Code.CashFlowFragmentSBT = Code.CashFlowFragment := rfl

end GeoVerif
