import Mathlib.Tactic.Linarith
import Mathlib.Tactic.IntervalCases
import Mathlib.Tactic.Positivity
import Mathlib.Tactic.FieldSimp
import Mathlib.Algebra.Order.Field.Rat
import GeoVerif.Model.CashFlow
namespace GeoVerif

/-- a turn year: cumulative cash flow goes from non-positive to positive between i-1 and i -/
def IsTurn (cum : List Rat) (i : Nat) : Prop :=
  1 ≤ i ∧ i < cum.length ∧ cum.getD (i - 1) 0 ≤ 0 ∧ 0 < cum.getD i 0

theorem step_spec (cum : List Rat) (p : Rat) (i : Nat) (hi1 : 1 ≤ i) (hil : i < cum.length)
    (hp : p = 0 ∨ ∃ j, IsTurn cum j ∧ (j : Rat) ≤ p ∧ p ≤ j + 1) :
    let p' := paybackStep cum (fun i => cum.getD (i - 1) 0) p i
    p' = 0 ∨ ∃ j, IsTurn cum j ∧ (j : Rat) ≤ p' ∧ p' ≤ j + 1 := by
  intro p'
  simp only [p', paybackStep]
  split
  · rename_i h
    right
    refine ⟨i, ⟨hi1, hil, h.2, h.1⟩, ?_, ?_⟩
    · have hc := h.1; have hq := h.2
      have hden : 0 < cum.getD i 0 + -(cum.getD (i-1) 0) := by linarith
      have : 0 ≤ (-(cum.getD (i-1) 0)) / (cum.getD i 0 + -(cum.getD (i-1) 0)) := by
        apply div_nonneg <;> linarith
      linarith
    · have hc := h.1; have hq := h.2
      have hden : 0 < cum.getD i 0 + -(cum.getD (i-1) 0) := by linarith
      have : (-(cum.getD (i-1) 0)) / (cum.getD i 0 + -(cum.getD (i-1) 0)) ≤ 1 := by
        rw [div_le_one hden]; linarith
      linarith
  · exact hp

theorem foldl_spec (cum : List Rat) (idx : List Nat) (hidx : ∀ i ∈ idx, 1 ≤ i ∧ i < cum.length) (p : Rat)
    (hp : p = 0 ∨ ∃ j, IsTurn cum j ∧ (j : Rat) ≤ p ∧ p ≤ j + 1) :
    let r := idx.foldl (paybackStep cum (fun i => cum.getD (i - 1) 0)) p
    r = 0 ∨ ∃ j, IsTurn cum j ∧ (j : Rat) ≤ r ∧ r ≤ j + 1 := by
  induction idx generalizing p with
  | nil => simpa using hp
  | cons a as ih =>
    simp only [List.foldl_cons]
    apply ih
    · intro i hi; exact hidx i (List.mem_cons_of_mem _ hi)
    · exact step_spec cum p a (hidx a (List.mem_cons_self)).1 (hidx a (List.mem_cons_self)).2 hp

/-- C04: a positive reported payback lies within a turn year (repaired loop) -/
theorem payback_within_turn_year (cum : List Rat) (h : paybackFixed cum ≠ 0) :
    ∃ j, IsTurn cum j ∧ (j : Rat) ≤ paybackFixed cum ∧ paybackFixed cum ≤ j + 1 := by
  have := foldl_spec cum ((List.range cum.length).drop 1) (by
    intro i hi
    have hm := List.mem_of_mem_drop hi
    have hlt : i < cum.length := by simpa using hm
    refine ⟨?_, hlt⟩
    by_contra hc
    have : i = 0 := by omega
    subst this
    -- 0 is not in drop 1 of range
    rcases List.mem_iff_getElem.mp hi with ⟨k, hk, hk'⟩
    simp at hk') 0 (Or.inl rfl)
  rcases this with h0 | h1
  · exact absurd h0 h
  · exact h1

/-- the pinned loop violates it: cumulative cash flow starts positive, ends negative, payback reported in (0,1) -/
theorem pinned_payback_counterexample :
    let cum : List Rat := [962, 900, 400, -350]
    paybackPinned cum ≠ 0 ∧ ¬ ∃ j, IsTurn cum j := by
  refine ⟨by decide +kernel, ?_⟩
  rintro ⟨j, h1, h2, h3, h4⟩
  simp at h2
  interval_cases j <;> simp [List.getD] at h3 h4 <;> first | done | linarith

end GeoVerif

#print axioms GeoVerif.payback_within_turn_year
#print axioms GeoVerif.pinned_payback_counterexample
