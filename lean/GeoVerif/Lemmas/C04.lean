import Mathlib.Tactic.Linarith
import Mathlib.Tactic.IntervalCases
import Mathlib.Tactic.Positivity
import Mathlib.Tactic.FieldSimp
import Mathlib.Algebra.Order.Field.Rat
import GeoVerif.Model.CashFlow
import GeoVerif.Lemmas.Series
namespace GeoVerif

/-- a turn year: cumulative cash flow goes from non-positive to positive between i-1 and i -/
def IsTurn (cum : List Rat) (i : Nat) : Prop :=
  1 ≤ i ∧ i < cum.length ∧ cum.getD (i - 1) 0 ≤ 0 ∧ 0 < cum.getD i 0

theorem step_spec (cum : List Rat) (p : Rat) (i : Nat) (hi1 : 1 ≤ i) (hil : i < cum.length)
    (hp : p = 0 ∨ ∃ j, IsTurn cum j ∧ (j : Rat) ≤ p ∧ p ≤ j + 1) :
    let p' := paybackStep cum (fun i => cum.getD (i - 1) 0) p i
    p' = 0 ∨ ∃ j, IsTurn cum j ∧ (j : Rat) ≤ p' ∧ p' ≤ j + 1 := by
  intro p'
  simp only [p', paybackStep]
  split
  · rename_i h
    right
    refine ⟨i, ⟨hi1, hil, h.2, h.1⟩, ?_, ?_⟩
    · have hc := h.1; have hq := h.2
      have hden : 0 < cum.getD i 0 + -(cum.getD (i-1) 0) := by linarith
      have : 0 ≤ (-(cum.getD (i-1) 0)) / (cum.getD i 0 + -(cum.getD (i-1) 0)) := by
        apply div_nonneg <;> linarith
      linarith
    · have hc := h.1; have hq := h.2
      have hden : 0 < cum.getD i 0 + -(cum.getD (i-1) 0) := by linarith
      have : (-(cum.getD (i-1) 0)) / (cum.getD i 0 + -(cum.getD (i-1) 0)) ≤ 1 := by
        rw [div_le_one hden]; linarith
      linarith
  · exact hp

theorem foldl_spec (cum : List Rat) (idx : List Nat) (hidx : ∀ i ∈ idx, 1 ≤ i ∧ i < cum.length) (p : Rat)
    (hp : p = 0 ∨ ∃ j, IsTurn cum j ∧ (j : Rat) ≤ p ∧ p ≤ j + 1) :
    let r := idx.foldl (paybackStep cum (fun i => cum.getD (i - 1) 0)) p
    r = 0 ∨ ∃ j, IsTurn cum j ∧ (j : Rat) ≤ r ∧ r ≤ j + 1 := by
  induction idx generalizing p with
  | nil => simpa using hp
  | cons a as ih =>
    simp only [List.foldl_cons]
    apply ih
    · intro i hi; exact hidx i (List.mem_cons_of_mem _ hi)
    · exact step_spec cum p a (hidx a (List.mem_cons_self)).1 (hidx a (List.mem_cons_self)).2 hp

/-- C04: a positive reported payback lies within a turn year (repaired loop) -/
theorem payback_within_turn_year (cum : List Rat) (h : paybackFixed cum ≠ 0) :
    ∃ j, IsTurn cum j ∧ (j : Rat) ≤ paybackFixed cum ∧ paybackFixed cum ≤ j + 1 := by
  have := foldl_spec cum ((List.range cum.length).drop 1) (by
    intro i hi
    have hm := List.mem_of_mem_drop hi
    have hlt : i < cum.length := by simpa using hm
    refine ⟨?_, hlt⟩
    by_contra hc
    have : i = 0 := by omega
    subst this
    -- 0 is not in drop 1 of range
    rcases List.mem_iff_getElem.mp hi with ⟨k, hk, hk'⟩
    simp at hk') 0 (Or.inl rfl)
  rcases this with h0 | h1
  · exact absurd h0 h
  · exact h1

/-- the pinned loop violates it: cumulative cash flow starts positive, ends negative, payback reported in (0,1) -/
theorem pinned_payback_counterexample :
    let cum : List Rat := [962, 900, 400, -350]
    paybackPinned cum ≠ 0 ∧ ¬ ∃ j, IsTurn cum j := by
  refine ⟨by decide +kernel, ?_⟩
  rintro ⟨j, h1, h2, h3, h4⟩
  simp at h2
  interval_cases j <;> simp [List.getD] at h3 h4 <;> first | done | linarith

end GeoVerif

#print axioms GeoVerif.payback_within_turn_year
#print axioms GeoVerif.pinned_payback_counterexample

namespace GeoVerif

/-! ### cash-flow assembly -/

theorem assemble_length (s : CashIn) : (assemble s).length = s.cy + s.L := by
  simp [assemble]

theorem assemble_construction (s : CashIn) (i : Nat) (hi : i < s.cy) :
    (assemble s).getD i 0 = -(s.ccap / (s.cy : Rat)) := by
  unfold assemble
  rw [List.getD_eq_getElem?_getD, List.getElem?_append_left (by simpa using hi)]
  simp [hi]

theorem assemble_operating (s : CashIn) (i : Nat) (hi : i < s.L) :
    (assemble s).getD (s.cy + i) 0 = operatingCash s i := by
  unfold assemble
  rw [List.getD_eq_getElem?_getD, List.getElem?_append_right (by simp)]
  simp [hi]

/-! ### cumulative series -/

theorem cumsumFrom_length (acc : Rat) (l : List Rat) : (cumsumFrom acc l).length = l.length := by
  induction l generalizing acc with
  | nil => simp [cumsumFrom]
  | cons x xs ih => simp [cumsumFrom, ih]

theorem cumsumFrom_getD (acc : Rat) (l : List Rat) (i : Nat) (hi : i < l.length) :
    (cumsumFrom acc l).getD i 0 = acc + sumL (l.take (i + 1)) := by
  induction l generalizing acc i with
  | nil => simp at hi
  | cons x xs ih =>
    cases i with
    | zero => simp [cumsumFrom, sumL]
    | succ j =>
      simp only [cumsumFrom, List.getD_cons_succ, List.take_succ_cons, sumL]
      rw [ih (acc + x) j (by simpa using hi)]
      ring

theorem cumsum_getD (cf : List Rat) (i : Nat) (hi : i < cf.length) :
    (cumsum cf).getD i 0 = sumL (cf.take (i + 1)) := by
  unfold cumsum
  rw [cumsumFrom_getD 0 cf i hi]; ring

theorem cumsum_step (cf : List Rat) (i : Nat) (hi : i + 1 < cf.length) :
    (cumsum cf).getD (i + 1) 0 = (cumsum cf).getD i 0 + cf.getD (i + 1) 0 := by
  rw [cumsum_getD cf (i + 1) hi, cumsum_getD cf i (by omega)]
  have : cf.take (i + 1 + 1) = cf.take (i + 1) ++ [cf.getD (i + 1) 0] := by
    rw [List.take_add_one]
    simp [List.getD_eq_getElem?_getD, List.getElem?_eq_getElem hi]
  rw [this, sumL_append]
  simp [sumL]

/-! ### net present value -/

theorem npvFrom_shift (r : Rat) (_hr : 1 + r ≠ 0) (t : Nat) (l : List Rat) :
    npvFrom r (t + 1) l = npvFrom r t l / (1 + r) := by
  induction l generalizing t with
  | nil => simp [npvFrom]
  | cons x xs ih =>
    simp only [npvFrom]
    rw [ih (t + 1), add_div, pow_succ, div_div]

/-- the Excel-style convention discounts every flow by one more year -/
theorem npv_conventions (r : Rat) (hr : 1 + r ≠ 0) (cf : List Rat) :
    npv r cf true = npv r cf false / (1 + r) := by
  simp only [npv, if_true, Bool.false_eq_true, if_false]
  simp only [npvFrom, pow_zero, div_one, zero_add]
  exact npvFrom_shift r hr 0 cf

theorem npvFrom_closed (r : Rat) (t : Nat) (l : List Rat) :
    npvFrom r t l = sumL ((List.range l.length).map (fun k => l.getD k 0 / (1 + r) ^ (t + k))) := by
  induction l generalizing t with
  | nil => simp [npvFrom, sumL]
  | cons x xs ih =>
    simp only [npvFrom, List.length_cons, List.range_succ_eq_map, List.map_cons, List.map_map, sumL,
      List.getD_cons_zero, Nat.add_zero]
    rw [ih (t + 1)]
    congr 2
    apply List.map_congr_left
    intro k _
    simp only [Function.comp, List.getD_cons_succ]
    congr 2; omega

theorem npvFrom_mono (r : Rat) (hr : 0 < 1 + r) (t : Nat) (l l' : List Rat) (hl : l.length = l'.length)
    (h : ∀ i, l.getD i 0 ≤ l'.getD i 0) : npvFrom r t l ≤ npvFrom r t l' := by
  induction l generalizing t l' with
  | nil =>
    cases l' with
    | nil => simp
    | cons y ys => simp at hl
  | cons x xs ih =>
    cases l' with
    | nil => simp at hl
    | cons y ys =>
      simp only [npvFrom]
      have h0 : x ≤ y := by simpa using h 0
      have hp : 0 < (1 + r) ^ t := by positivity
      have := ih (t + 1) ys (by simpa using hl) (fun i => by simpa using h (i + 1))
      have : x / (1 + r) ^ t ≤ y / (1 + r) ^ t := div_le_div_of_nonneg_right h0 (le_of_lt hp)
      linarith

theorem npvFrom_strict_mono (r : Rat) (hr : 0 < 1 + r) (t : Nat) (l l' : List Rat) (hl : l.length = l'.length)
    (h : ∀ i, l.getD i 0 ≤ l'.getD i 0) (j : Nat) (hj : j < l.length) (hs : l.getD j 0 < l'.getD j 0) :
    npvFrom r t l < npvFrom r t l' := by
  induction l generalizing t l' j with
  | nil => simp at hj
  | cons x xs ih =>
    cases l' with
    | nil => simp at hl
    | cons y ys =>
      simp only [npvFrom]
      have h0 : x ≤ y := by simpa using h 0
      have hp : 0 < (1 + r) ^ t := by positivity
      have hrest := npvFrom_mono r hr (t + 1) xs ys (by simpa using hl) (fun i => by simpa using h (i + 1))
      cases j with
      | zero =>
        have hxy : x < y := by simpa using hs
        have : x / (1 + r) ^ t < y / (1 + r) ^ t := div_lt_div_of_pos_right hxy hp
        linarith
      | succ k =>
        have := ih (t + 1) ys (by simpa using hl) (fun i => by simpa using h (i + 1)) k (by simpa using hj)
          (by simpa using hs)
        have : x / (1 + r) ^ t ≤ y / (1 + r) ^ t := div_le_div_of_nonneg_right h0 (le_of_lt hp)
        linarith

/-! ### payback: no turn year ⇒ reported as 0 (rendered N/A) -/

theorem foldl_no_turn (cum : List Rat) (idx : List Nat)
    (hno : ∀ i ∈ idx, ¬ (0 < cum.getD i 0 ∧ cum.getD (i - 1) 0 ≤ 0)) (p : Rat) :
    idx.foldl (paybackStep cum (fun i => cum.getD (i - 1) 0)) p = p := by
  induction idx generalizing p with
  | nil => rfl
  | cons a as ih =>
    simp only [List.foldl_cons]
    have : paybackStep cum (fun i => cum.getD (i - 1) 0) p a = p := by
      simp only [paybackStep]
      rw [if_neg (hno a (by simp))]
    rw [this]
    exact ih (fun i hi => hno i (by simp [hi])) p

theorem payback_na (cum : List Rat) (hno : ∀ j, ¬ IsTurn cum j) : paybackFixed cum = 0 := by
  unfold paybackFixed
  apply foldl_no_turn
  intro i hi hc
  have hm := List.mem_of_mem_drop hi
  have hlt : i < cum.length := by simpa using hm
  have h1 : 1 ≤ i := by
    by_contra hcon
    have : i = 0 := by omega
    subst this
    rcases List.mem_iff_getElem.mp hi with ⟨k, hk, hk'⟩
    simp at hk'
  exact hno i ⟨h1, hlt, hc.2, hc.1⟩

end GeoVerif
