import GeoVerif.Lemmas.PyLoops
import GeoVerif.Lemmas.C16
import GeoVerif.Generated.Code
/-! The generated transcriptions of `/repo`'s pure functions equal the hand-written models — for all arguments. -/
namespace GeoVerif
open Py

theorem code_pricing_eq (L s : Nat) (p0 p1 r : Rat) (ptc : List Rat) :
    Code.BuildPricingModel (L : Int) p0 p1 (s : Int) r ptc = pricing L p0 p1 s r ptc := by
  unfold Code.BuildPricingModel
  simp only [replicate_nat]
  obtain ⟨hl, hin, _⟩ := foldl_rec0 L (fun j _ => basePrice p0 p1 s r j + ptc.getD j 0)
    (fun (Price : List Rat) (i : Int) =>
      let Price := Py.set Price i p0
      let Price := if (i ≥ (s : Int)) then (
          let Price := Py.set Price i ((Py.get Price i) + ((((i - (s : Int)) : Int) : Rat) * r))
          Price) else (
          Price)
      let Price := if ((Py.get Price i) > p1) then (
          let Price := Py.set Price i p1
          Price) else (
          Price)
      let Price := Py.set Price i ((Py.get Price i) + (Py.get ptc i))
      Price)
    (List.replicate L 0) (by simp) (by intros; rfl) (by
      intro xs k hxl hk
      have hk' : k < xs.length := by simp [hxl]; exact hk
      simp only [set_nat, get_nat, ge_iff_le, Nat.cast_le, gt_iff_lt]
      unfold basePrice
      by_cases hs : s ≤ k
      · have e : (((k : Int) - (s : Int) : Int) : Rat) = ((k - s : Nat) : Rat) := by
          rw [Nat.cast_sub hs]; push_cast; ring
        simp only [hs, if_true, getD_set_self _ _ _ hk', List.set_set, e]
        by_cases hc : p1 < p0 + ((k - s : Nat) : Rat) * r
        · simp [hc, List.getElem?_set_self hk', List.set_set]
        · simp [hc, List.getElem?_set_self hk', List.set_set]
      · simp only [hs, if_false, getD_set_self _ _ _ hk']
        by_cases hc : p1 < p0
        · simp [hc, List.getElem?_set_self hk', List.set_set]
        · simp [hc, List.getElem?_set_self hk', List.set_set])
  apply ext_getD
  · rw [hl]; simp [pricing]
  · intro j hj
    rw [hl] at hj
    simp only [List.length_replicate] at hj
    rw [hin j hj]
    simp [pricing, List.getD_eq_getElem?_getD, List.getElem?_range hj]

/-- pointwise value of the generated `BuildPTCModel` -/
theorem code_ptc_getD (L dur : Nat) (v infl : Rat) (adj : Bool) (hd : dur ≤ L) :
    (Code.BuildPTCModel (L : Int) (dur : Int) v adj infl).length = L ∧
    ∀ j, (Code.BuildPTCModel (L : Int) (dur : Int) v adj infl).getD j 0 =
      if j < dur then (if adj then v * (1 + infl) ^ j else v) else 0 := by
  unfold Code.BuildPTCModel
  simp only [replicate_nat]
  obtain ⟨hl, hin, hout⟩ := foldl_rec0 dur (fun j prev => if adj = true ∧ 0 < j then prev * (1 + infl) else v)
    (fun (Price : List Rat) (year : Int) =>
      let Price := Py.set Price year v
      let Price := if ((adj = true) ∧ (year > (0 : Int))) then (
          let Price := Py.set Price year ((Py.get Price (year - (1 : Int))) * ((((1 : Int) : Int) : Rat) + infl))
          Price) else (
          Price)
      Price)
    (List.replicate L 0) (by simpa using hd) (by intro x y; simp) (by
      intro xs k hxl hk
      have hk' : k < xs.length := by simp [hxl]; omega
      simp only [set_nat, gt_iff_lt, Nat.cast_pos]
      by_cases hc : adj = true ∧ 0 < k
      · have h1 : 1 ≤ 0 + k := by omega
        have e := get_add_pred (xs.set k v) 0 k h1
        simp only [Nat.cast_zero, zero_add] at e
        simp only [hc, and_self, if_true, e, List.set_set]
        rw [getD_set_ne _ _ _ _ (by omega)]
        simp
      · simp only [hc, if_false])
  refine ⟨by simpa using hl, ?_⟩
  intro j
  by_cases hj : j < dur
  · simp only [hj, if_true]
    induction j with
    | zero =>
      rw [hin 0 hj]; cases adj <;> simp
    | succ m ih =>
      rw [hin (m + 1) hj, Nat.add_sub_cancel, ih (by omega)]
      cases adj <;> simp [pow_succ, mul_assoc]
  · simp only [hj, if_false]
    rw [hout j (by omega), getD_replicate]
    simp

theorem code_ptc_eq (L dur : Nat) (v infl : Rat) (adj : Bool) (hd : dur ≤ L) :
    Code.BuildPTCModel (L : Int) (dur : Int) v adj infl = ptcModel L dur v adj infl := by
  obtain ⟨hl, hp⟩ := code_ptc_getD L dur v infl adj hd
  apply ext_getD
  · rw [hl, ptcModel_length L dur v infl adj hd]
  · intro j hj
    rw [hl] at hj
    rw [hp j, ptcModel_closed L dur v infl adj hd j hj]

end GeoVerif
