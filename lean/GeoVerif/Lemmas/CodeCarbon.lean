import GeoVerif.Lemmas.PyLoops
import GeoVerif.Lemmas.CodeCashFlow
import GeoVerif.Generated.Code
/-! The generated transcription of `CalculateCarbonRevenue` (a loop over a four-variable state) — what it computes, for all arguments. -/
namespace GeoVerif
open Py

/-- two folds agree when the step functions agree on every state satisfying an invariant that the second one preserves -/
theorem foldl_congr_inv {σ ι : Type} (Inv : σ → Prop) (f g : σ → ι → σ) (l : List ι) (s : σ) (h0 : Inv s)
    (hpres : ∀ s i, i ∈ l → Inv s → Inv (g s i)) (heq : ∀ s i, i ∈ l → Inv s → f s i = g s i) :
    l.foldl f s = l.foldl g s := by
  induction l generalizing s with
  | nil => rfl
  | cons x xs ih =>
    simp only [List.foldl_cons]
    rw [heq s x (List.mem_cons_self ..) h0]
    exact ih (g s x) (hpres s x (List.mem_cons_self ..) h0)
      (fun s i hi => hpres s i (List.mem_cons_of_mem _ hi)) (fun s i hi => heq s i (List.mem_cons_of_mem _ hi))

/-- a fold over a 4-tuple whose components evolve independently -/
theorem foldl_quad {α β γ δ ι : Type} (f : α → ι → α) (g : β → ι → β) (h : γ → ι → γ) (k : δ → ι → δ) (l : List ι)
    (a : α) (b : β) (c : γ) (d : δ) :
    l.foldl (fun (st : α × β × γ × δ) i => (f st.1 i, g st.2.1 i, h st.2.2.1 i, k st.2.2.2 i)) (a, b, c, d) =
      (l.foldl f a, l.foldl g b, l.foldl h c, l.foldl k d) := by
  induction l generalizing a b c d with
  | nil => rfl
  | cons x xs ih => simp only [List.foldl_cons]; exact ih _ _ _ _

/-- pounds of CO2 avoided in operating year `k`: electricity sold × grid intensity + heat sold × natural-gas intensity, by end-use -/
def carbonLbs (eu E H : Int) (net heat : List Rat) (grid ngi : Rat) (k : Nat) : Rat :=
  (if eu = E then net.getD k 0 else if eu = H then 0 else net.getD k 0) * grid +
  (if eu = E then 0 else heat.getD k 0) * ngi

/-- the carbon revenue series: nothing in the construction years, then avoided pounds × that year's carbon price (MUSD) -/
def carbonSeries (L cy : Nat) (eu E H : Int) (net heat price : List Rat) (grid ngi : Rat) : List Rat :=
  List.replicate cy 0 ++ (List.range L).map (fun k => carbonLbs eu E H net heat grid ngi k * price.getD k 0 / 1000000)

def carbonAnnual (L cy : Nat) (eu E H : Int) (net heat : List Rat) (grid ngi : Rat) : List Rat :=
  List.replicate cy 0 ++ (List.range L).map (fun k => carbonLbs eu E H net heat grid ngi k)

theorem append_map_getD (L cy : Nat) (F : Nat → Rat) (j : Nat) :
    (List.replicate cy (0 : Rat) ++ (List.range L).map F).getD j 0 = if cy ≤ j ∧ j < cy + L then F (j - cy) else 0 := by
  by_cases h1 : j < cy
  · have : ¬ (cy ≤ j ∧ j < cy + L) := by omega
    simp [List.getD_eq_getElem?_getD, List.getElem?_append_left, h1, this]
  · by_cases h2 : j < cy + L
    · have h3 : j - cy < L := by omega
      have : cy ≤ j ∧ j < cy + L := ⟨by omega, h2⟩
      simp [List.getD_eq_getElem?_getD, List.getElem?_append_right, Nat.le_of_not_lt h1, h3, this]
    · have : ¬ (cy ≤ j ∧ j < cy + L) := by omega
      have h3 : ¬ (j - cy < L) := by omega
      simp [List.getD_eq_getElem?_getD, List.getElem?_append_right, Nat.le_of_not_lt h1, h3, h2, this]

/-- a loop `for i in range(cy, cy+L): xs[i] = F(i - cy)` over zeros gives `zeros ++ map F` -/
theorem foldl_fill (L cy : Nat) (F : Nat → Rat) (step : List Rat → Int → List Rat)
    (hstep : ∀ (xs : List Rat) (k : Nat), step xs ((cy : Int) + (k : Int)) = xs.set (cy + k) (F k)) :
    (Py.range (cy : Int) ((cy : Int) + (L : Int))).foldl step (List.replicate (L + cy) 0) =
      List.replicate cy 0 ++ (List.range L).map F := by
  obtain ⟨hl, hin, hout⟩ := foldl_rec cy L (fun j _ => F (j - cy)) step (List.replicate (L + cy) 0) (by simp; omega) (by intros; rfl)
    (by intro xs k _ _; rw [hstep xs k]; simp)
  apply ext_getD
  · rw [hl]; simp; omega
  · intro j _
    rw [append_map_getD]
    by_cases hj : cy ≤ j ∧ j < cy + L
    · rw [hin j hj.1 hj.2]; simp [hj]
    · rw [hout j hj, getD_replicate]; simp [hj]

/-- `xs[cy+k] = F k` over `k < L`, from zeros: `zeros ++ map F` (fold already over `List.range L`) -/
theorem foldl_fillN (L cy : Nat) (F : Nat → Rat) :
    (List.range L).foldl (fun (xs : List Rat) (k : Nat) => xs.set (cy + k) (F k)) (List.replicate (L + cy) 0) =
      List.replicate cy 0 ++ (List.range L).map F := by
  obtain ⟨hl, hin, hout⟩ := foldl_recN cy L (fun j _ => F (j - cy)) (fun (xs : List Rat) (k : Nat) => xs.set (cy + k) (F k))
    (List.replicate (L + cy) 0) (by simp; omega) (by intros; rfl) (by intro xs k _ _; simp)
  apply ext_getD
  · rw [hl]; simp; omega
  · intro j _
    rw [append_map_getD]
    by_cases hj : cy ≤ j ∧ j < cy + L
    · rw [hin j hj.1 hj.2]; simp [hj]
    · rw [hout j hj, getD_replicate]; simp [hj]

/-- running sum written into positions `cy … cy+L-1` of a zero list, for a series that is zero before `cy` (`cy ≥ 1`) -/
theorem foldl_cumN (L cy : Nat) (hcy : 1 ≤ cy) (F : Nat → Rat) :
    (List.range L).foldl (fun (xs : List Rat) (k : Nat) => xs.set (cy + k) (xs.getD (cy + k - 1) 0 + F k)) (List.replicate (L + cy) 0) =
      cumsum (List.replicate cy 0 ++ (List.range L).map F) := by
  obtain ⟨hl, hin, hout⟩ := foldl_recN cy L (fun j prev => if j = 0 then 0 else prev + F (j - cy))
    (fun (xs : List Rat) (k : Nat) => xs.set (cy + k) (xs.getD (cy + k - 1) 0 + F k))
    (List.replicate (L + cy) 0) (by simp; omega) (by intros; simp) (by
      intro xs k _ _
      have h0 : ¬ (cy = 0 ∧ k = 0) := by omega
      simp [h0])
  apply cumsum_unique
  · rw [hl]; simp; omega
  · intro _
    rw [hout 0 (by omega), append_map_getD, getD_replicate]
    have h : ¬ (cy ≤ 0 ∧ 0 < cy + L) := by omega
    rw [if_neg h]; simp
  · intro i hi
    have hlen : (List.replicate cy (0 : Rat) ++ (List.range L).map F).length = cy + L := by simp
    rw [hlen] at hi
    by_cases hj : cy ≤ i + 1
    · rw [hin (i + 1) hj hi, append_map_getD]
      have : cy ≤ i + 1 ∧ i + 1 < cy + L := ⟨hj, hi⟩
      simp [this]
    · have e1 : ¬ (cy ≤ i + 1 ∧ i + 1 < cy + L) := by omega
      have e2 : ¬ (cy ≤ i ∧ i < cy + L) := by omega
      rw [hout (i + 1) e1, hout i e2, append_map_getD, getD_replicate, getD_replicate]
      simp [e1]

/-- **`CalculateCarbonRevenue` as transcribed from the source**: the carbon cash flow is `carbonSeries`, its cumulative is the running
sum, the annual pounds are `carbonAnnual`, the total is their sum accumulated year by year. -/
theorem code_carbon_eq (L cy : Nat) (hcy : 1 ≤ cy) (eu E H : Int) (net heat price : List Rat) (grid ngi : Rat) :
    Code.CalculateCarbonRevenue (L : Int) (cy : Int) price grid ngi net heat eu E H =
      (carbonSeries L cy eu E H net heat price grid ngi,
       cumsum (carbonSeries L cy eu E H net heat price grid ngi),
       carbonAnnual L cy eu E H net heat grid ngi,
       (List.range L).foldl (fun (T : Rat) (k : Nat) => T + carbonLbs eu E H net heat grid ngi k) 0) := by
  unfold Code.CalculateCarbonRevenue
  have erep : Py.replicate ((L : Int) + (cy : Int)) 0 = List.replicate (L + cy) 0 := by
    rw [← Nat.cast_add, replicate_nat]
  have ecomm : (L : Int) + (cy : Int) = (cy : Int) + (L : Int) := by ring
  simp only [erep]
  rw [ecomm, range_nat, List.foldl_map]
  -- the loop body, on states whose lists have the full length, is four independent updates
  let fA := fun (xs : List Rat) (k : Nat) => xs.set (cy + k) (carbonLbs eu E H net heat grid ngi k)
  let fT := fun (T : Rat) (k : Nat) => T + carbonLbs eu E H net heat grid ngi k
  let fC := fun (xs : List Rat) (k : Nat) => xs.set (cy + k) (carbonLbs eu E H net heat grid ngi k * price.getD k 0 / 1000000)
  let fU := fun (xs : List Rat) (k : Nat) => xs.set (cy + k) (xs.getD (cy + k - 1) 0 + carbonLbs eu E H net heat grid ngi k * price.getD k 0 / 1000000)
  rw [foldl_congr_inv
    (fun (st : List Rat × Rat × List Rat × List Rat) => st.1.length = L + cy ∧ st.2.2.1.length = L + cy)
    _ (fun (st : List Rat × Rat × List Rat × List Rat) (k : Nat) => (fA st.1 k, fT st.2.1 k, fC st.2.2.1 k, fU st.2.2.2 k))
    (List.range L) _ (by simp) (by
      intro st k _ ⟨h1, h2⟩
      simp [fA, fC, h1, h2]) (by
      intro st k hk ⟨h1, h2⟩
      have hkL : k < L := List.mem_range.mp hk
      have hA : cy + k < st.1.length := by omega
      have hC : cy + k < st.2.2.1.length := by omega
      have hge : (cy : Int) + (k : Int) ≥ (cy : Int) := by omega
      have h1' : 1 ≤ cy + k := by omega
      simp only [fA, fT, fC, fU, set_add, get_add, get_add_sub, get_add_pred _ _ _ h1', hge, if_true, getD_set_self _ _ _ hA, getD_set_self _ _ _ hC]
      by_cases e1 : eu = E
      · simp [e1, carbonLbs]
      · by_cases e2 : eu = H
        · have e3 : ¬ H = E := fun h => e1 (e2.trans h)
          simp [e2, e3, carbonLbs]
        · simp [e1, e2, carbonLbs])]
  rw [foldl_quad fA fT fC fU]
  simp only [fA, fT, fC, fU, foldl_fillN, foldl_cumN L cy hcy]
  rfl

end GeoVerif
