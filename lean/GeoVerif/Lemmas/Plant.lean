import GeoVerif.Lemmas.Series
import GeoVerif.Lemmas.C04
import GeoVerif.Model.Plant
/-! Lemmas for the energy-balance clauses (C02). -/
namespace GeoVerif

theorem sumL_map_add (l : List Nat) (f g : Nat → Rat) :
    sumL (l.map (fun j => f j + g j)) = sumL (l.map f) + sumL (l.map g) := by
  induction l with
  | nil => simp [sumL]
  | cons a as ih => simp only [List.map_cons, sumL, ih]; ring

theorem sumL_map_smul (l : List Nat) (c : Rat) (f : Nat → Rat) :
    sumL (l.map (fun j => c * f j)) = c * sumL (l.map f) := by
  induction l with
  | nil => simp [sumL]
  | cons a as ih => simp only [List.map_cons, sumL, ih]; ring

theorem trapSum_add (f g : Nat → Rat) (s m : Nat) :
    trapSum (fun k => f k + g k) s m = trapSum f s m + trapSum g s m := by
  unfold trapSum
  rw [← sumL_map_add]
  congr 1
  apply List.map_congr_left; intro j _; ring

theorem trapSum_smul (c : Rat) (f : Nat → Rat) (s m : Nat) :
    trapSum (fun k => c * f k) s m = c * trapSum f s m := by
  unfold trapSum
  rw [← sumL_map_smul]
  congr 1
  apply List.map_congr_left; intro j _; ring

theorem integrateF_add (f g : Nat → Rat) (len i n : Nat) (u : Rat) :
    integrateF (fun k => f k + g k) len i n u = integrateF f len i n u + integrateF g len i n u := by
  unfold integrateF
  simp only
  split
  · split <;> ring
  · rw [trapSum_add]; ring

theorem integrateF_smul (c : Rat) (f : Nat → Rat) (len i n : Nat) (u : Rat) :
    integrateF (fun k => c * f k) len i n u = c * integrateF f len i n u := by
  unfold integrateF
  simp only
  split
  · split <;> ring
  · rw [trapSum_smul]; ring

theorem integrateF_sub (f g : Nat → Rat) (len i n : Nat) (u : Rat) :
    integrateF (fun k => f k - g k) len i n u = integrateF f len i n u - integrateF g len i n u := by
  have h1 : (fun k => f k - g k) = (fun k => f k + (-1) * g k) := by funext k; ring
  rw [h1, integrateF_add, integrateF_smul]; ring

theorem trapSum_const (c : Rat) (s m : Nat) : trapSum (fun _ => c) s m = (m : Rat) * c := by
  unfold trapSum
  have : (List.range m).map (fun _ => (c + c) / 2) = List.replicate m c := by
    rw [List.map_const']; simp
  simp only [this, sumL_replicate]

/-- a constant power delivers power × 8760 h × utilisation × 1000 in every year that has at least one sample -/
theorem integrateF_const (c : Rat) (len i n : Nat) (u : Rat) (hm : 1 ≤ sliceLen len i n) :
    integrateF (fun _ => c) len i n u = 8760 * c * 1000 * u := by
  unfold integrateF
  simp only
  split
  · split <;> ring
  · rename_i h
    rw [trapSum_const]
    have : 2 ≤ sliceLen len i n := by omega
    have hne : (((sliceLen len i n - 1 : Nat)) : Rat) ≠ 0 := by
      have : 0 < sliceLen len i n - 1 := by omega
      exact_mod_cast (Nat.pos_iff_ne_zero.mp this)
    field_simp

/-- a full slice (n + 1 samples) is the plain trapezoid rule with step 8760/n hours -/
theorem integrateF_full (f : Nat → Rat) (len i n : Nat) (u : Rat) (hn : 1 ≤ n) (hfull : sliceLen len i n = n + 1) :
    integrateF f len i n u = 8760 / (n : Rat) * trapSum f (i * n) n * 1000 * u := by
  unfold integrateF
  simp only [hfull]
  rw [if_neg (by omega)]
  simp

theorem remaining_length (init : Rat) (E : List Rat) : (remaining init E).length = E.length := by
  simp [remaining, cumsum, cumsumFrom_length]

theorem remaining_getD (init : Rat) (E : List Rat) (y : Nat) (hy : y < E.length) :
    (remaining init E).getD y 0 = init - sumL (E.take (y + 1)) * 3600 * 1000 / 1000000000000000 := by
  unfold remaining
  have hlen : y < (cumsum E).length := by simp [cumsum, cumsumFrom_length, hy]
  rw [List.getD_eq_getElem?_getD, List.getElem?_map, List.getElem?_eq_getElem hlen]
  simp only [Option.map_some, Option.getD_some]
  have := cumsum_getD E y hy
  rw [List.getD_eq_getElem?_getD, List.getElem?_eq_getElem hlen] at this
  simp only [Option.getD_some] at this
  rw [this]

end GeoVerif
