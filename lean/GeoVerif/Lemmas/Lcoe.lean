import GeoVerif.Lemmas.Series
import GeoVerif.Model.Lcoe
/-! Lemmas about the levelized-cost model: closed forms, homogeneity in costs, monotonicity in costs. -/
namespace GeoVerif

/-! ### closed forms -/

theorem fcr_closed (r : Rates) (L : Nat) (p : Product) :
    levelized .fcr r L p = (r.fcr * (1 + r.ic) * p.ccap + p.coam + p.otherAvg) / avgL p.energy * p.unit := rfl

theorem slc_closed (r : Rates) (L : Nat) (p : Product) (ho : p.other.length = L) (he : p.energy.length = L) :
    levelized .slc r L p =
      ((1 + r.ic) * p.ccap + idxSum L (fun t => (p.coam + p.other.getD t 0) * (1 / (1 + r.d) ^ t))) /
        idxSum L (fun t => p.energy.getD t 0 * (1 / (1 + r.d) ^ t)) * p.unit := by
  unfold levelized levelizedNum levelizedDen
  simp only [discA]
  rw [zipMul_range _ _ L (by simpa using ho), zipMul_range _ _ L he]
  congr 3
  unfold idxSum
  congr 1
  apply List.map_congr_left
  intro t ht
  have ht' : t < p.other.length := by rw [ho]; exact List.mem_range.mp ht
  simp [List.getD_eq_getElem?_getD, List.getElem?_map, List.getElem?_eq_getElem ht']

theorem wB_length (r : Rates) (L : Nat) : (wB r L).length = L := by
  simp [wB, zipMul_length, inflB_length, discB_length]

/-- the BICYCLE numerator is linear in (capital cost, O&M series): capital coefficient × C + Σ (O + X_t)·w_t, all over (1 − GTR) -/
theorem bicycleNumerator_linear (r : Rates) (L : Nat) (p : Product) (hg : 1 - r.gtr ≠ 0) :
    bicycleNumerator r L p =
      ( p.ccap * ( (1 + r.ic) * crf (iave r) L * sumL (discB (iave r) L)
                 + (1 + r.ic) * r.ptr * sumL (wB r L)
                 + r.ctr / (1 - r.ctr) * ((1 + r.ic) * crf (iave r) L - 1 / (L : Rat)) * sumL (discB (iave r) L)
                 - (1 + r.ic) * r.ritc / (1 - r.ctr) )
        + sumL (zipMul (p.other.map (fun x => p.coam + x)) (wB r L)) ) / (1 - r.gtr) := by
  unfold bicycleNumerator wB
  simp only []
  rw [sumL_map_mul ((1 + r.ic) * p.ccap * crf (iave r) L) _ _ (fun _ => rfl),
      sumL_map_mul ((1 + r.ic) * p.ccap * r.ptr) _ _ (fun _ => rfl),
      sumL_map_mul (r.ctr / (1 - r.ctr) * ((1 + r.ic) * p.ccap * crf (iave r) L - p.ccap / (L : Rat))) _ _ (fun _ => rfl)]
  field_simp
  ring

theorem bicycleNumerator_closed (r : Rates) (L : Nat) (p : Product) (hg : 1 - r.gtr ≠ 0)
    (hi : 0 < iave r) (hL : 0 < L) :
    bicycleNumerator r L p =
      (p.ccap * kappa r L + sumL (zipMul (p.other.map (fun x => p.coam + x)) (wB r L))) / (1 - r.gtr) := by
  rw [bicycleNumerator_linear r L p hg]
  have ha := bicycle_annuity (iave r) hi L hL
  unfold kappa
  congr 1
  congr 1
  have e1 : (1 + r.ic) * crf (iave r) L * sumL (discB (iave r) L) = (1 + r.ic) := by
    rw [mul_assoc, ha, mul_one]
  have e2 : ((1 + r.ic) * crf (iave r) L - 1 / (L : Rat)) * sumL (discB (iave r) L)
      = (1 + r.ic) - sumL (discB (iave r) L) / (L : Rat) := by
    rw [sub_mul, e1]; ring
  rw [e1, mul_assoc (r.ctr / (1 - r.ctr)), e2]

/-! ### homogeneity in costs (C11) -/

def Product.scale (k : Rat) (p : Product) : Product :=
  { p with ccap := k * p.ccap, coam := k * p.coam, other := p.other.map (fun x => k * x), otherAvg := k * p.otherAvg }

theorem map_add_scale (k c : Rat) (o : List Rat) :
    (o.map (fun x => k * x)).map (fun x => k * c + x) = (o.map (fun x => c + x)).map (fun x => k * x) := by
  simp only [List.map_map]
  apply List.map_congr_left
  intro x _
  simp only [Function.comp]
  ring

theorem levelizedNum_scale (e : Econ) (r : Rates) (L : Nat) (p : Product) (k : Rat) :
    levelizedNum e r L (p.scale k) = k * levelizedNum e r L p := by
  cases e with
  | fcr => simp only [levelizedNum, Product.scale]; ring
  | slc =>
    simp only [levelizedNum, Product.scale]
    rw [map_add_scale, zipMul_scale_left]; ring
  | bicycle =>
    simp only [levelizedNum, Product.scale, bicycleNumerator]
    rw [map_add_scale, zipMul_scale_left,
      sumL_map_mul ((1 + r.ic) * (k * p.ccap) * crf (iave r) L) _ _ (fun _ => rfl),
      sumL_map_mul ((1 + r.ic) * (k * p.ccap) * r.ptr) _ _ (fun _ => rfl),
      sumL_map_mul (r.ctr / (1 - r.ctr) * ((1 + r.ic) * (k * p.ccap) * crf (iave r) L - k * p.ccap / (L : Rat))) _ _ (fun _ => rfl),
      sumL_map_mul ((1 + r.ic) * p.ccap * crf (iave r) L) _ _ (fun _ => rfl),
      sumL_map_mul ((1 + r.ic) * p.ccap * r.ptr) _ _ (fun _ => rfl),
      sumL_map_mul (r.ctr / (1 - r.ctr) * ((1 + r.ic) * p.ccap * crf (iave r) L - p.ccap / (L : Rat))) _ _ (fun _ => rfl)]
    ring

theorem levelizedDen_scale (e : Econ) (r : Rates) (L : Nat) (p : Product) (k : Rat) :
    levelizedDen e r L (p.scale k) = levelizedDen e r L p := by
  cases e <;> rfl

theorem levelized_scale (e : Econ) (r : Rates) (L : Nat) (p : Product) (k : Rat) :
    levelized e r L (p.scale k) = k * levelized e r L p := by
  unfold levelized
  rw [levelizedNum_scale, levelizedDen_scale]
  simp only [Product.scale]
  ring

/-- all cost inputs × k: capital, O&M, electricity purchase rate, peaking-fuel series, the reported averages -/
def LcoeIn.scaleCosts (k : Rat) (i : LcoeIn) : LcoeIn :=
  { i with ccap := k * i.ccap, coam := k * i.coam, rate := k * i.rate, ng := i.ng.map (fun x => k * x),
           avgPump := k * i.avgPump, avgHp := k * i.avgHp, avgNg := k * i.avgNg }

theorem zeros_scale (k : Rat) (L : Nat) : (zeros L).map (fun x => k * x) = zeros L := by
  simp [zeros]

theorem costOf_scale (k rate : Rat) (l : List Rat) :
    l.map (fun x => x * (k * rate) / 1000000) = (l.map (fun x => x * rate / 1000000)).map (fun x => k * x) := by
  simp only [List.map_map]
  apply List.map_congr_left; intro x _; simp only [Function.comp]; ring

theorem zipAdd_scale (k : Rat) (a b : List Rat) :
    zipAdd (a.map (fun x => k * x)) (b.map (fun x => k * x)) = (zipAdd a b).map (fun x => k * x) := by
  induction a generalizing b with
  | nil => simp [zipAdd]
  | cons x xs ih =>
    cases b with
    | nil => simp [zipAdd]
    | cons y ys => simp [zipAdd, ih]; ring

theorem elecProduct_scale (k : Rat) (i : LcoeIn) :
    elecProduct (i.scaleCosts k) = (elecProduct i).map (Product.scale k) := by
  obtain ⟨econ, eu, L, r, ccap, coam, ratio, rate, net, heat, cool, pump, hp, ng, demand, avgPump, avgHp, avgNg⟩ := i
  cases eu <;>
    simp only [elecProduct, LcoeIn.scaleCosts, Option.map, Product.scale, zeros_scale, mul_zero, mul_assoc]

theorem heatProduct_scale (k : Rat) (i : LcoeIn) :
    heatProduct (i.scaleCosts k) = (heatProduct i).map (Product.scale k) := by
  obtain ⟨econ, eu, L, r, ccap, coam, ratio, rate, net, heat, cool, pump, hp, ng, demand, avgPump, avgHp, avgNg⟩ := i
  cases eu <;>
    simp only [heatProduct, pumpCost, hpCost, LcoeIn.scaleCosts, Option.map, Product.scale, costOf_scale, zipAdd_scale,
      mul_add, mul_assoc]
  split <;> simp only [zeros_scale]

theorem coolProduct_scale (k : Rat) (i : LcoeIn) :
    coolProduct (i.scaleCosts k) = (coolProduct i).map (Product.scale k) := by
  obtain ⟨econ, eu, L, r, ccap, coam, ratio, rate, net, heat, cool, pump, hp, ng, demand, avgPump, avgHp, avgNg⟩ := i
  cases eu <;>
    simp only [coolProduct, pumpCost, LcoeIn.scaleCosts, Option.map, Product.scale, costOf_scale, mul_assoc]

theorem lev_scale (k : Rat) (i : LcoeIn) (o : Option Product) :
    lev (i.scaleCosts k) (o.map (Product.scale k)) = k * lev i o := by
  cases o with
  | none => simp [lev]
  | some p =>
    simp only [Option.map, lev]
    have : (i.scaleCosts k).econ = i.econ ∧ (i.scaleCosts k).r = i.r ∧ (i.scaleCosts k).L = i.L := ⟨rfl, rfl, rfl⟩
    rw [this.1, this.2.1, this.2.2, levelized_scale]

end GeoVerif

namespace GeoVerif

/-! ### monotonicity in costs (C18) -/

theorem levelized_mono_of_num (e : Econ) (r : Rates) (L : Nat) (p p' : Product)
    (hE : p'.energy = p.energy) (hU : p'.unit = p.unit)
    (hden : 0 < levelizedDen e r L p) (hu : 0 ≤ p.unit)
    (hnum : levelizedNum e r L p ≤ levelizedNum e r L p') :
    levelized e r L p ≤ levelized e r L p' := by
  have hd' : levelizedDen e r L p' = levelizedDen e r L p := by
    cases e <;> simp [levelizedDen, hE]
  unfold levelized
  rw [hd', hU]
  apply mul_le_mul_of_nonneg_right _ hu
  exact div_le_div_of_nonneg_right hnum (le_of_lt hden)

theorem num_mono_ccap_fcr (r : Rates) (L : Nat) (p : Product) (c' : Rat) (hc : p.ccap ≤ c')
    (hf : 0 ≤ r.fcr) (hic : 0 ≤ 1 + r.ic) :
    levelizedNum .fcr r L p ≤ levelizedNum .fcr r L { p with ccap := c' } := by
  simp only [levelizedNum]
  have : 0 ≤ r.fcr * (1 + r.ic) := mul_nonneg hf hic
  nlinarith

theorem num_mono_ccap_slc (r : Rates) (L : Nat) (p : Product) (c' : Rat) (hc : p.ccap ≤ c') (hic : 0 ≤ 1 + r.ic) :
    levelizedNum .slc r L p ≤ levelizedNum .slc r L { p with ccap := c' } := by
  simp only [levelizedNum]
  nlinarith

theorem num_mono_ccap_bicycle (r : Rates) (L : Nat) (p : Product) (c' : Rat) (hc : p.ccap ≤ c')
    (hg : 0 < 1 - r.gtr) (hi : 0 < iave r) (hL : 0 < L) (hk : 0 ≤ kappa r L) :
    levelizedNum .bicycle r L p ≤ levelizedNum .bicycle r L { p with ccap := c' } := by
  simp only [levelizedNum]
  rw [bicycleNumerator_closed r L p (ne_of_gt hg) hi hL, bicycleNumerator_closed r L _ (ne_of_gt hg) hi hL]
  apply div_le_div_of_nonneg_right _ (le_of_lt hg)
  simp only
  nlinarith

theorem map_add_mono (c c' : Rat) (h : c ≤ c') (o : List Rat) :
    ∀ t, (o.map (fun x => c + x)).getD t 0 ≤ (o.map (fun x => c' + x)).getD t 0 := by
  intro t
  simp only [List.getD_eq_getElem?_getD, List.getElem?_map]
  cases o[t]? with
  | none => simp
  | some v => simp; exact h

theorem num_mono_coam_fcr (r : Rates) (L : Nat) (p : Product) (o' : Rat) (ho : p.coam ≤ o') :
    levelizedNum .fcr r L p ≤ levelizedNum .fcr r L { p with coam := o' } := by
  simp only [levelizedNum]; linarith

theorem num_mono_coam_slc (r : Rates) (L : Nat) (p : Product) (o' : Rat) (ho : p.coam ≤ o') (hd : -1 < r.d) :
    levelizedNum .slc r L p ≤ levelizedNum .slc r L { p with coam := o' } := by
  simp only [levelizedNum]
  have := zipMul_mono_left (p.other.map (fun x => p.coam + x)) (p.other.map (fun x => o' + x)) (discA r.d L)
    (by simp) (map_add_mono _ _ ho _) (discA_nonneg r.d hd L)
  linarith

theorem wB_nonneg (r : Rates) (L : Nat) (hr : -1 < r.rinfl) (hi : -1 < iave r) : ∀ x ∈ wB r L, 0 ≤ x := by
  intro x hx
  exact le_of_lt (zipMul_pos_mem _ _ (inflB_pos _ hr L) (discB_pos _ hi L) x hx)

theorem num_mono_coam_bicycle (r : Rates) (L : Nat) (p : Product) (o' : Rat) (ho : p.coam ≤ o')
    (hg : 0 < 1 - r.gtr) (hr : -1 < r.rinfl) (hi : -1 < iave r) :
    levelizedNum .bicycle r L p ≤ levelizedNum .bicycle r L { p with coam := o' } := by
  simp only [levelizedNum]
  rw [bicycleNumerator_linear r L p (ne_of_gt hg), bicycleNumerator_linear r L _ (ne_of_gt hg)]
  apply div_le_div_of_nonneg_right _ (le_of_lt hg)
  simp only
  have := zipMul_mono_left (p.other.map (fun x => p.coam + x)) (p.other.map (fun x => o' + x)) (wB r L)
    (by simp) (map_add_mono _ _ ho _) (wB_nonneg r L hr hi)
  linarith

/-! ### product selection -/

theorem lcoe_elec_only (i : LcoeIn) (h : i.eu = .elec) : (lcoe i).lcoh = 0 ∧ (lcoe i).lcoc = 0 := by
  simp [lcoe, heatProduct, coolProduct, h, lev]

theorem lcoe_heat_only (i : LcoeIn) (h : i.eu = .heat ∨ i.eu = .heatPump ∨ i.eu = .district) :
    (lcoe i).lcoe = 0 ∧ (lcoe i).lcoc = 0 := by
  rcases h with h | h | h <;> simp [lcoe, elecProduct, coolProduct, h, lev]

theorem lcoe_cool_only (i : LcoeIn) (h : i.eu = .chiller) : (lcoe i).lcoe = 0 ∧ (lcoe i).lcoh = 0 := by
  simp [lcoe, elecProduct, heatProduct, h, lev]

theorem lcoe_cogen_no_cooling (i : LcoeIn) (h : i.eu = .cogen) : (lcoe i).lcoc = 0 := by
  simp [lcoe, coolProduct, h, lev]

end GeoVerif
