import GeoVerif.Lemmas.Lcoe
import GeoVerif.Lemmas.C04
import GeoVerif.Model.AddOns
/-! Lemmas for the scaling clauses (C11). -/
namespace GeoVerif

theorem lcoe_scaleCosts (k : Rat) (i : LcoeIn) :
    lcoe (i.scaleCosts k) = ⟨k * (lcoe i).lcoe, k * (lcoe i).lcoh, k * (lcoe i).lcoc⟩ := by
  unfold lcoe
  rw [elecProduct_scale, heatProduct_scale, coolProduct_scale, lev_scale, lev_scale, lev_scale]

/-- scaling the energy sold by `c` divides the levelized cost by `c` -/
theorem levelizedDen_energy_scale (e : Econ) (r : Rates) (L : Nat) (p : Product) (c : Rat) :
    levelizedDen e r L { p with energy := p.energy.map (fun x => c * x) } = c * levelizedDen e r L p := by
  cases e with
  | fcr =>
    simp only [levelizedDen, avgL, List.length_map]
    rw [sumL_map_mul_left]; ring
  | slc => simp only [levelizedDen]; rw [zipMul_scale_left]
  | bicycle => simp only [levelizedDen]; rw [zipMul_scale_left]

theorem levelized_energy_scale (e : Econ) (r : Rates) (L : Nat) (p : Product) (c : Rat) :
    levelized e r L { p with energy := p.energy.map (fun x => c * x) } = levelized e r L p / c := by
  unfold levelized
  rw [levelizedDen_energy_scale]
  have : levelizedNum e r L { p with energy := p.energy.map (fun x => c * x) } = levelizedNum e r L p := by
    cases e <;> rfl
  rw [this]
  by_cases hc : c = 0
  · subst hc; simp
  · by_cases hd : levelizedDen e r L p = 0
    · rw [hd]; simp
    · field_simp

/-! ### NPV responds strictly to prices -/

theorem assemble_getD_le (s s' : CashIn) (hcy : s'.cy = s.cy) (hL : s'.L = s.L) (hc : s'.ccap = s.ccap)
    (hop : ∀ i, i < s.L → operatingCash s i ≤ operatingCash s' i) (t : Nat) :
    (assemble s).getD t 0 ≤ (assemble s').getD t 0 := by
  by_cases h1 : t < s.cy
  · rw [assemble_construction s t h1, assemble_construction s' t (by rw [hcy]; exact h1), hcy, hc]
  · by_cases h2 : t < s.cy + s.L
    · obtain ⟨i, rfl⟩ : ∃ i, t = s.cy + i := ⟨t - s.cy, by omega⟩
      have hi : i < s.L := by omega
      rw [assemble_operating s i hi]
      have := assemble_operating s' i (by rw [hL]; exact hi)
      rw [hcy] at this
      rw [this]
      exact hop i hi
    · have e1 : (assemble s).getD t 0 = 0 := by
        rw [List.getD_eq_getElem?_getD, List.getElem?_eq_none (by rw [assemble_length]; omega)]; rfl
      have e2 : (assemble s').getD t 0 = 0 := by
        rw [List.getD_eq_getElem?_getD, List.getElem?_eq_none (by rw [assemble_length, hcy, hL]; omega)]; rfl
      rw [e1, e2]

/-- raising the electricity price in a year in which energy is sold raises NPV strictly -/
theorem npv_strict_mono_elec_price (s : CashIn) (pe' : List Rat) (r : Rat) (hr : 0 < 1 + r)
    (hs : s.sells = .elec) (hE : ∀ i, 0 ≤ s.net.getD i 0) (hp : ∀ i, s.pe.getD i 0 ≤ pe'.getD i 0)
    (j : Nat) (hj : j < s.L) (hEj : 0 < s.net.getD j 0) (hpj : s.pe.getD j 0 < pe'.getD j 0) :
    npv r (assemble s) false < npv r (assemble { s with pe := pe' }) false := by
  simp only [npv, Bool.false_eq_true, if_false]
  have hop : ∀ i, i < s.L → operatingCash s i ≤ operatingCash { s with pe := pe' } i := by
    intro i _
    simp only [operatingCash, productRevenue, hs, yearRevenue, carbonRevenue]
    have := mul_le_mul_of_nonneg_left (hp i) (hE i)
    have h2 : s.net.getD i 0 * s.pe.getD i 0 / 1000000 ≤ s.net.getD i 0 * pe'.getD i 0 / 1000000 :=
      div_le_div_of_nonneg_right this (by norm_num)
    linarith
  refine npvFrom_strict_mono r hr 0 (assemble s) (assemble { s with pe := pe' }) (by simp [assemble_length])
    (assemble_getD_le s { s with pe := pe' } rfl rfl rfl hop) (s.cy + j) (by rw [assemble_length]; omega) ?_
  rw [assemble_operating s j hj]
  have := assemble_operating { s with pe := pe' } j hj
  simp only at this
  rw [this]
  simp only [operatingCash, productRevenue, hs, yearRevenue, carbonRevenue]
  have h1 := mul_lt_mul_of_pos_left hpj hEj
  have h2 : s.net.getD j 0 * s.pe.getD j 0 / 1000000 < s.net.getD j 0 * pe'.getD j 0 / 1000000 :=
    div_lt_div_of_pos_right h1 (by norm_num)
  linarith

/-! ### neutral elements -/

theorem addGain_zero (series : List Rat) : addGain 0 series = series := by
  unfold addGain
  conv_rhs => rw [← List.map_id series]
  apply List.map_congr_left; intro x _; simp

theorem zero_addon_capex (c : Rat) : adjustedCapex c zeroAddOn = c := by simp [adjustedCapex, zeroAddOn]
theorem zero_addon_opex (c : Rat) : adjustedOpex c zeroAddOn = c := by simp [adjustedOpex, zeroAddOn]
theorem zero_addon_cash (pe ph e h coam : Rat) :
    projectCashWithAddOn zeroAddOn pe ph e h coam = (e * pe + h * ph) / 1000000 - coam := by
  simp [projectCashWithAddOn, addOnRevenue, zeroAddOn]

end GeoVerif
