import Mathlib.Tactic.Linarith
import Mathlib.Tactic.Ring
import Mathlib.Algebra.Order.Field.Rat
import GeoVerif.Model.Py
/-! Loop lemmas for the generated transcriptions (`Generated/Code.lean`): what a `for i in range(a, a+n): xs[i] = …`
loop computes, stated pointwise. -/
namespace GeoVerif.Py

theorem pos_natCast (n k : Nat) : pos n (k : Int) = k := by simp [pos]

theorem pos_add (n a k : Nat) : pos n ((a : Int) + (k : Int)) = a + k := by
  have : (0 : Int) ≤ (a : Int) + (k : Int) := by omega
  simp only [pos, this, if_true]; omega

theorem get_nat (xs : List Rat) (k : Nat) : get xs (k : Int) = xs.getD k 0 := by simp [get, pos_natCast]

theorem set_nat (xs : List Rat) (k : Nat) (v : Rat) : set xs (k : Int) v = xs.set k v := by simp [set, pos_natCast]

theorem get_add (xs : List Rat) (a k : Nat) : get xs ((a : Int) + (k : Int)) = xs.getD (a + k) 0 := by simp [get, pos_add]

theorem set_add (xs : List Rat) (a k : Nat) (v : Rat) : set xs ((a : Int) + (k : Int)) v = xs.set (a + k) v := by
  simp [set, pos_add]

/-- `xs[a+k-1]` for `a + k ≥ 1` -/
theorem get_add_pred (xs : List Rat) (a k : Nat) (h : 1 ≤ a + k) :
    get xs ((a : Int) + (k : Int) - 1) = xs.getD (a + k - 1) 0 := by
  have e : (a : Int) + (k : Int) - 1 = ((a + k - 1 : Nat) : Int) := by omega
  rw [e, get_nat]

/-- `xs[a+k-a]` -/
theorem get_add_sub (xs : List Rat) (a k : Nat) : get xs ((a : Int) + (k : Int) - (a : Int)) = xs.getD k 0 := by
  have e : (a : Int) + (k : Int) - (a : Int) = (k : Int) := by omega
  rw [e, get_nat]

theorem getD_set (xs : List Rat) (i j : Nat) (v : Rat) :
    (xs.set i v).getD j 0 = if i = j ∧ i < xs.length then v else xs.getD j 0 := by
  simp only [List.getD_eq_getElem?_getD, List.getElem?_set]
  by_cases h : i = j
  · subst h
    by_cases hl : i < xs.length
    · simp [hl]
    · simp [hl, List.getElem?_eq_none (Nat.le_of_not_lt hl)]
  · simp [h]

theorem getD_set_self (xs : List Rat) (i : Nat) (v : Rat) (h : i < xs.length) : (xs.set i v).getD i 0 = v := by
  simp [getD_set, h]

theorem getD_set_ne (xs : List Rat) (i j : Nat) (v : Rat) (h : i ≠ j) : (xs.set i v).getD j 0 = xs.getD j 0 := by
  simp [getD_set, h]

theorem range_nat (a n : Nat) : range (a : Int) ((a : Int) + (n : Int)) = (List.range n).map (fun (k : Nat) => (a : Int) + (k : Int)) := by
  simp [range]

theorem range_zero_nat (n : Nat) : range (0 : Int) (n : Int) = (List.range n).map (fun (k : Nat) => ((0 : Nat) : Int) + (k : Int)) := by
  simp [range]

/-- invariant rule for a fold over `List.range n` -/
theorem foldl_range_inv {σ : Type} (P : Nat → σ → Prop) (f : σ → Nat → σ) (n : Nat) (s0 : σ)
    (h0 : P 0 s0) (hstep : ∀ k s, k < n → P k s → P (k + 1) (f s k)) : P n ((List.range n).foldl f s0) := by
  induction n with
  | zero => simpa using h0
  | succ m ih =>
    rw [List.range_succ, List.foldl_append]
    simp only [List.foldl_cons, List.foldl_nil]
    exact hstep m _ (Nat.lt_succ_self m) (ih (fun k s hk hp => hstep k s (Nat.lt_succ_of_lt hk) hp))

/-- **The loop lemma.**  A loop `for i in range(a, a+n): xs[i] = G(i, xs[i-1])` on a list long enough: the length is unchanged,
inside the range the result satisfies the recurrence, outside it is untouched.  (`G 0` must not depend on the previous
element: Python's `xs[-1]` would wrap.) -/
theorem foldl_rec (a n : Nat) (G : Nat → Rat → Rat) (step : List Rat → Int → List Rat) (init : List Rat)
    (hlen : a + n ≤ init.length) (hG0 : ∀ x y, G 0 x = G 0 y)
    (hstep : ∀ (xs : List Rat) (k : Nat), xs.length = init.length → k < n →
      step xs ((a : Int) + (k : Int)) = xs.set (a + k) (G (a + k) (xs.getD (a + k - 1) 0))) :
    ((range (a : Int) ((a : Int) + (n : Int))).foldl step init).length = init.length ∧
    (∀ j, a ≤ j → j < a + n →
      ((range (a : Int) ((a : Int) + (n : Int))).foldl step init).getD j 0 =
        G j (((range (a : Int) ((a : Int) + (n : Int))).foldl step init).getD (j - 1) 0)) ∧
    (∀ j, ¬ (a ≤ j ∧ j < a + n) →
      ((range (a : Int) ((a : Int) + (n : Int))).foldl step init).getD j 0 = init.getD j 0) := by
  rw [range_nat, List.foldl_map]
  refine foldl_range_inv
    (fun m s => s.length = init.length ∧
      (∀ j, a ≤ j → j < a + m → s.getD j 0 = G j (s.getD (j - 1) 0)) ∧
      (∀ j, ¬ (a ≤ j ∧ j < a + m) → s.getD j 0 = init.getD j 0))
    (fun s k => step s ((a : Int) + (k : Int))) n init ?_ ?_
  · refine ⟨rfl, ?_, ?_⟩
    · intro j h1 h2; omega
    · intro j _; rfl
  · intro k s hk ⟨hl, hin, hout⟩
    rw [hstep s k hl hk]
    refine ⟨by simp [hl], ?_, ?_⟩
    · intro j h1 h2
      by_cases hj : j = a + k
      · subst hj
        rw [getD_set_self _ _ _ (by omega)]
        by_cases h0 : a + k = 0
        · rw [h0]; exact hG0 _ _
        · rw [getD_set_ne _ _ _ _ (by omega)]
      · have hlt : j < a + k := by omega
        rw [getD_set_ne _ _ _ _ (by omega), getD_set_ne _ _ _ _ (by omega)]
        exact hin j h1 hlt
    · intro j hj
      have : a + k ≠ j := by omega
      rw [getD_set_ne _ _ _ _ this]
      exact hout j (by omega)

/-- two lists of one length that agree pointwise (through `getD`) are equal -/
theorem ext_getD (xs ys : List Rat) (hl : xs.length = ys.length) (h : ∀ j, j < xs.length → xs.getD j 0 = ys.getD j 0) : xs = ys := by
  apply List.ext_getElem hl
  intro j h1 h2
  have := h j h1
  simpa [List.getD_eq_getElem?_getD, List.getElem?_eq_getElem h1, List.getElem?_eq_getElem h2] using this

theorem replicate_nat (n : Nat) (v : Rat) : replicate (n : Int) v = List.replicate n v := by simp [replicate]

theorem getD_replicate (n j : Nat) (v : Rat) : (List.replicate n v).getD j 0 = if j < n then v else 0 := by
  by_cases h : j < n <;> simp [List.getD_eq_getElem?_getD, List.getElem?_replicate, h]

end GeoVerif.Py

namespace GeoVerif.Py

/-- `foldl_rec` for a loop starting at 0 -/
theorem foldl_rec0 (n : Nat) (G : Nat → Rat → Rat) (step : List Rat → Int → List Rat) (init : List Rat)
    (hlen : n ≤ init.length) (hG0 : ∀ x y, G 0 x = G 0 y)
    (hstep : ∀ (xs : List Rat) (k : Nat), xs.length = init.length → k < n →
      step xs (k : Int) = xs.set k (G k (xs.getD (k - 1) 0))) :
    ((range (0 : Int) (n : Int)).foldl step init).length = init.length ∧
    (∀ j, j < n → ((range (0 : Int) (n : Int)).foldl step init).getD j 0 =
        G j (((range (0 : Int) (n : Int)).foldl step init).getD (j - 1) 0)) ∧
    (∀ j, n ≤ j → ((range (0 : Int) (n : Int)).foldl step init).getD j 0 = init.getD j 0) := by
  have h := foldl_rec 0 n G step init (by omega) hG0 (by
    intro xs k hl hk
    have := hstep xs k hl hk
    simpa using this)
  simp only [Nat.cast_zero, zero_add, Nat.zero_le, true_and] at h
  refine ⟨h.1, fun j hj => h.2.1 j trivial hj, fun j hj => h.2.2 j (by omega)⟩

end GeoVerif.Py

namespace GeoVerif.Py

/-- `foldl_rec` for a fold that already runs over `List.range n` (the loop variable is `a + k`) -/
theorem foldl_recN (a n : Nat) (G : Nat → Rat → Rat) (stepN : List Rat → Nat → List Rat) (init : List Rat)
    (hlen : a + n ≤ init.length) (hG0 : ∀ x y, G 0 x = G 0 y)
    (hstep : ∀ (xs : List Rat) (k : Nat), xs.length = init.length → k < n →
      stepN xs k = xs.set (a + k) (G (a + k) (xs.getD (a + k - 1) 0))) :
    ((List.range n).foldl stepN init).length = init.length ∧
    (∀ j, a ≤ j → j < a + n → ((List.range n).foldl stepN init).getD j 0 = G j (((List.range n).foldl stepN init).getD (j - 1) 0)) ∧
    (∀ j, ¬ (a ≤ j ∧ j < a + n) → ((List.range n).foldl stepN init).getD j 0 = init.getD j 0) := by
  have h := foldl_rec a n G (fun xs i => stepN xs (i - (a : Int)).toNat) init hlen hG0 (by
    intro xs k hl hk
    have : ((a : Int) + (k : Int) - (a : Int)).toNat = k := by omega
    simp only [this]
    exact hstep xs k hl hk)
  rw [range_nat, List.foldl_map] at h
  have e : (fun (s : List Rat) (k : Nat) => stepN s ((a : Int) + (k : Int) - (a : Int)).toNat) = stepN := by
    funext s k
    have : ((a : Int) + (k : Int) - (a : Int)).toNat = k := by omega
    rw [this]
  rw [e] at h
  exact h

end GeoVerif.Py

namespace GeoVerif.Py

/-- in-place update loop `for i in range(a, a+n): xs[i] = F(i, xs[i])`: every position of the range is updated once, from its own old value -/
theorem foldl_upd (a n : Nat) (F : Nat → Rat → Rat) (step : List Rat → Int → List Rat) (init : List Rat)
    (hlen : a + n ≤ init.length)
    (hstep : ∀ (xs : List Rat) (k : Nat), xs.length = init.length → k < n →
      step xs ((a : Int) + (k : Int)) = xs.set (a + k) (F (a + k) (xs.getD (a + k) 0))) :
    ((range (a : Int) ((a : Int) + (n : Int))).foldl step init).length = init.length ∧
    (∀ j, a ≤ j → j < a + n → ((range (a : Int) ((a : Int) + (n : Int))).foldl step init).getD j 0 = F j (init.getD j 0)) ∧
    (∀ j, ¬ (a ≤ j ∧ j < a + n) → ((range (a : Int) ((a : Int) + (n : Int))).foldl step init).getD j 0 = init.getD j 0) := by
  rw [range_nat, List.foldl_map]
  refine foldl_range_inv
    (fun m s => s.length = init.length ∧
      (∀ j, a ≤ j → j < a + m → s.getD j 0 = F j (init.getD j 0)) ∧
      (∀ j, ¬ (a ≤ j ∧ j < a + m) → s.getD j 0 = init.getD j 0))
    (fun s k => step s ((a : Int) + (k : Int))) n init ?_ ?_
  · refine ⟨rfl, ?_, ?_⟩
    · intro j h1 h2; omega
    · intro j _; rfl
  · intro k s hk ⟨hl, hin, hout⟩
    rw [hstep s k hl hk]
    refine ⟨by simp [hl], ?_, ?_⟩
    · intro j h1 h2
      by_cases hj : j = a + k
      · subst hj
        rw [getD_set_self _ _ _ (by omega), hout (a + k) (by omega)]
      · rw [getD_set_ne _ _ _ _ (by omega)]
        exact hin j h1 (by omega)
    · intro j hj
      have : a + k ≠ j := by omega
      rw [getD_set_ne _ _ _ _ this]
      exact hout j (by omega)

end GeoVerif.Py
