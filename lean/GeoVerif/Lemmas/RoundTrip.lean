import GeoVerif.Model.Report
import GeoVerif.Model.ClientParse
import GeoVerif.Lemmas.C09
import Mathlib.Tactic.Linarith
import Mathlib.Tactic.IntervalCases

/-! helper lemmas: the client's number parser applied to what the report writer renders (C09 ∘ C10) -/
namespace GeoVerif
open GeoVerif.Client

theorem digitChar_isDigit (n : Nat) (h : n < 10) : (digitChar n).isDigit = true := by
  interval_cases n <;> decide

theorem digitChar_ne_dot (n : Nat) (h : n < 10) : digitChar n ≠ '.' := by
  interval_cases n <;> decide

theorem digitChar_ne_comma (n : Nat) (h : n < 10) : (digitChar n != ',') = true := by
  interval_cases n <;> decide

theorem digitChar_ne_minus (n : Nat) (h : n < 10) : digitChar n ≠ '-' := by
  interval_cases n <;> decide

/-- digits of `fixedDigits` are all < 10 -/
theorem fixedDigits_lt (d k : Nat) : (∀ x ∈ (fixedDigits d k).1, x < 10) ∧ (∀ x ∈ (fixedDigits d k).2, x < 10) := by
  simp only [fixedDigits]
  have hall : ∀ x ∈ digitsRev k ++ List.replicate (d + 1 - (digitsRev k).length) 0, x < 10 := by
    intro x hx
    rcases List.mem_append.mp hx with h | h
    · exact digitsRev_lt k x h
    · rw [List.mem_replicate] at h; omega
  constructor
  · intro x hx
    exact hall x (List.mem_of_mem_drop (List.mem_reverse.mp hx))
  · intro x hx
    exact hall x (List.mem_of_mem_take (List.mem_reverse.mp hx))

theorem takeWhile_ne_dot (a b : List Char) (ha : ∀ c ∈ a, c ≠ '.') :
    (a ++ '.' :: b).takeWhile (· != '.') = a ∧ (a ++ '.' :: b).dropWhile (· != '.') = '.' :: b := by
  induction a with
  | nil => simp
  | cons c cs ih =>
    have hc : c ≠ '.' := ha c (List.mem_cons_self ..)
    have := ih (fun x hx => ha x (List.mem_cons_of_mem _ hx))
    simp [List.takeWhile_cons, List.dropWhile_cons, hc, this.1, this.2]

theorem filter_no_comma (s : List Char) (h : ∀ c ∈ s, (c != ',') = true) : s.filter (· != ',') = s :=
  List.filter_eq_self.mpr h

theorem isDigit_ne (c : Char) (h : c.isDigit = true) : c ≠ '.' ∧ (c != ',') = true ∧ c ≠ '-' ∧ c ≠ 'N' := by
  refine ⟨?_, ?_, ?_, ?_⟩
  · rintro rfl; revert h; decide
  · have : c ≠ ',' := by rintro rfl; revert h; decide
    simpa using this
  · rintro rfl; revert h; decide
  · rintro rfl; revert h; decide

/-- the parser on `[-]digits.digits` -/
theorem parse_decimal_text (a b : List Char) (hane : a ≠ []) (ha : ∀ c ∈ a, c.isDigit = true) (hb : ∀ c ∈ b, c.isDigit = true) :
    parseNumber (a ++ '.' :: b) = .dec false a b ∧ parseNumber ('-' :: (a ++ '.' :: b)) = .dec true a b := by
  obtain ⟨a0, arest, rfl⟩ := List.exists_cons_of_ne_nil hane
  have ha0 := isDigit_ne a0 (ha a0 (List.mem_cons_self ..))
  have hnocomma : ∀ c ∈ ((a0 :: arest) ++ '.' :: b), (c != ',') = true := by
    intro c hc
    rcases List.mem_append.mp hc with h | h
    · exact (isDigit_ne c (ha c h)).2.1
    · rcases List.mem_cons.mp h with h | h
      · subst h; decide
      · exact (isDigit_ne c (hb c h)).2.1
  have htw := takeWhile_ne_dot (a0 :: arest) b (fun c hc => (isDigit_ne c (ha c hc)).1)
  have h1 : (a0 :: arest).all Char.isDigit = true := List.all_eq_true.mpr ha
  have h2 : b.all Char.isDigit = true := List.all_eq_true.mpr hb
  have hcont : ((a0 :: arest) ++ '.' :: b).contains '.' = true := by simp
  have hs1 : splitSign ((a0 :: arest) ++ '.' :: b) = (false, (a0 :: arest) ++ '.' :: b) := by
    simp only [List.cons_append]
    unfold splitSign
    split
    · rename_i r heq; simp at heq; exact absurd heq.1 ha0.2.2.1
    · rfl
  have hs2 : splitSign ('-' :: ((a0 :: arest) ++ '.' :: b)) = (true, (a0 :: arest) ++ '.' :: b) := rfl
  constructor
  · unfold parseNumber
    have hne : ((a0 :: arest) ++ '.' :: b == "N/A".toList) = false := by
      simp [ha0.2.2.2]
    rw [hne, filter_no_comma _ hnocomma]
    simp only [Bool.false_eq_true, if_false, hs1, hcont, if_true, htw.1, htw.2, List.drop_succ_cons, List.drop_zero, h1, h2]
    simp
  · unfold parseNumber
    have hne : ('-' :: ((a0 :: arest) ++ '.' :: b) == "N/A".toList) = false := by simp
    have hf : ('-' :: ((a0 :: arest) ++ '.' :: b)).filter (· != ',') = '-' :: ((a0 :: arest) ++ '.' :: b) := by
      rw [List.filter_cons]; simp only [show (('-' : Char) != ',') = true by decide, if_true]
      rw [filter_no_comma _ hnocomma]
    rw [hne, hf]
    simp only [Bool.false_eq_true, if_false, hs2, hcont, if_true, htw.1, htw.2, List.drop_succ_cons, List.drop_zero, h1, h2]
    simp

/-- **what the client reads back from a printed figure**: for every sign, precision `d > 0` and rounded magnitude `k`, the client's
number parser returns a decimal whose integer and fraction digit strings are exactly the digits the writer printed -/
theorem parse_render (neg : Bool) (d k : Nat) (hd : 0 < d) :
    parseNumber (renderFixed neg d k) = .dec neg ((fixedDigits d k).1.map digitChar) ((fixedDigits d k).2.map digitChar) := by
  obtain ⟨hip, hfp⟩ := fixedDigits_lt d k
  have hlen : 1 ≤ (fixedDigits d k).1.length := (fixedDigits_value d k).2.2
  have hd0 : d ≠ 0 := by omega
  have hane : (fixedDigits d k).1.map digitChar ≠ [] := by
    intro h
    have : (fixedDigits d k).1 = [] := List.map_eq_nil_iff.mp h
    rw [this] at hlen; simp at hlen
  have ha : ∀ c ∈ (fixedDigits d k).1.map digitChar, c.isDigit = true := by
    intro c hc
    rcases List.mem_map.mp hc with ⟨n, hn, rfl⟩
    exact digitChar_isDigit n (hip n hn)
  have hb : ∀ c ∈ (fixedDigits d k).2.map digitChar, c.isDigit = true := by
    intro c hc
    rcases List.mem_map.mp hc with ⟨n, hn, rfl⟩
    exact digitChar_isDigit n (hfp n hn)
  obtain ⟨p1, p2⟩ := parse_decimal_text _ _ hane ha hb
  cases neg with
  | true =>
    have : renderFixed true d k = '-' :: ((fixedDigits d k).1.map digitChar ++ '.' :: (fixedDigits d k).2.map digitChar) := by
      simp [renderFixed, hd0]
    rw [this]; exact p2
  | false =>
    have : renderFixed false d k = (fixedDigits d k).1.map digitChar ++ '.' :: (fixedDigits d k).2.map digitChar := by
      simp [renderFixed, hd0]
    rw [this]; exact p1


end GeoVerif
