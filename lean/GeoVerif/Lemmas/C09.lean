import Mathlib.Tactic.Ring
import Mathlib.Tactic.Linarith
import Mathlib.Tactic.IntervalCases
import Mathlib.Data.List.Basic
import GeoVerif.Model.Format
namespace GeoVerif

theorem ofDigitsRev_digitsRev (n : Nat) : ofDigitsRev (digitsRev n) = n := by
  induction n using Nat.strong_induction_on with
  | _ n ih =>
    unfold digitsRev
    by_cases h : n = 0
    · simp [h, ofDigitsRev]
    · simp only [h, dif_neg, not_false_eq_true, ofDigitsRev]
      rw [ih (n / 10) (by omega)]
      omega

theorem digitsRev_lt (n : Nat) : ∀ x ∈ digitsRev n, x < 10 := by
  induction n using Nat.strong_induction_on with
  | _ n ih =>
    unfold digitsRev
    by_cases h : n = 0
    · simp [h]
    · simp only [h, dif_neg, not_false_eq_true, List.mem_cons]
      rintro x (hx | hx)
      · omega
      · exact ih (n / 10) (by omega) x hx

theorem ofDigitsRev_append (a b : List Nat) :
    ofDigitsRev (a ++ b) = ofDigitsRev a + 10 ^ a.length * ofDigitsRev b := by
  induction a with
  | nil => simp [ofDigitsRev]
  | cons x xs ih => simp only [List.cons_append, ofDigitsRev, ih, List.length_cons, pow_succ]; ring

theorem ofDigitsRev_zeros (m : Nat) : ofDigitsRev (List.replicate m 0) = 0 := by
  induction m with
  | zero => rfl
  | succ k ih => simp [List.replicate_succ, ofDigitsRev, ih]

/-- C09 core: the printed integer and fraction digits denote exactly the rounded scaled value,
    there are exactly `d` fraction digits and at least one integer digit, for every magnitude (any width) -/
theorem fixedDigits_value (d k : Nat) :
    let (ip, fp) := fixedDigits d k
    ofDigitsMsd ip * 10 ^ d + ofDigitsMsd fp = k ∧ fp.length = d ∧ 1 ≤ ip.length := by
  simp only [fixedDigits, ofDigitsMsd, List.reverse_reverse]
  set ds := digitsRev k with hds
  set padded := ds ++ List.replicate (d + 1 - ds.length) 0 with hp
  have hlen : d + 1 ≤ padded.length := by simp [hp]; omega
  have hval : ofDigitsRev padded = k := by
    rw [hp, ofDigitsRev_append, ofDigitsRev_zeros, hds, ofDigitsRev_digitsRev]; ring
  have hsplit : padded = padded.take d ++ padded.drop d := (List.take_append_drop d padded).symm
  have htake : (padded.take d).length = d := by simp; omega
  refine ⟨?_, by simp; omega, by simp; omega⟩
  have := ofDigitsRev_append (padded.take d) (padded.drop d)
  rw [← hsplit, htake, hval] at this
  rw [this]; ring

/-- the digit ↔ character coding used by the renderer and the parser is a bijection on 0..9 -/
theorem charDigit_digitChar (n : Nat) (h : n < 10) : charDigit (digitChar n) = n := by
  interval_cases n <;> decide

#print axioms fixedDigits_value
#print axioms charDigit_digitChar
end GeoVerif
