import Mathlib.Analysis.Convex.SpecificFunctions.Basic
import GeoVerif.Model.Ramey
/-! Initial production temperature under the Ramey model does not decrease with flow rate (C18). -/
namespace GeoVerif
open Real

noncomputable def realAnalytic : Analytic ℝ := ⟨Real.exp, Real.log, Real.sqrt, Real.pi⟩

/-- for `0 < v ≤ u`: `(1 − e^{−u})/u ≤ (1 − e^{−v})/v`, written without division (convexity of `exp` on the chord from `−u` to `0`) -/
theorem one_sub_exp_neg_chord (u v : ℝ) (hv : 0 < v) (huv : v ≤ u) :
    v * (1 - Real.exp (-u)) ≤ u * (1 - Real.exp (-v)) := by
  have hu : 0 < u := lt_of_lt_of_le hv huv
  have ht0 : 0 ≤ v / u := by positivity
  have ht1 : 0 ≤ 1 - v / u := by
    rw [sub_nonneg, div_le_one hu]; exact huv
  -- −v = (v/u)·(−u) + (1 − v/u)·0
  have hconv := convexOn_exp.2 (Set.mem_univ (-u)) (Set.mem_univ (0:ℝ)) ht0 ht1 (by ring)
  simp only [smul_eq_mul, mul_zero, add_zero, Real.exp_zero, mul_one] at hconv
  have harg : v / u * -u = -v := by field_simp
  rw [harg] at hconv
  -- hconv : exp(-v) ≤ v/u * exp(-u) + (1 - v/u)
  have h2 := mul_le_mul_of_nonneg_left hconv (le_of_lt hu)
  have e : u * (v / u * Real.exp (-u) + (1 - v / u)) = v * Real.exp (-u) + (u - v) := by field_simp
  rw [e] at h2
  linarith

/-- `A ↦ A (1 − e^{−d/A})` is non-decreasing on `A > 0` for `d > 0` -/
theorem ramey_recovery_mono (d a b : ℝ) (hd : 0 < d) (ha : 0 < a) (hab : a ≤ b) :
    a * (1 - Real.exp (-(d / a))) ≤ b * (1 - Real.exp (-(d / b))) := by
  have hb : 0 < b := lt_of_lt_of_le ha hab
  have hv : 0 < d / b := by positivity
  have huv : d / b ≤ d / a := div_le_div_of_nonneg_left (le_of_lt hd) ha hab
  have key := one_sub_exp_neg_chord (d / a) (d / b) hv huv
  -- key : d/b * (1 - exp(-(d/a))) ≤ d/a * (1 - exp(-(d/b)))
  have h := mul_le_mul_of_nonneg_left key (le_of_lt (mul_pos (mul_pos ha hb) (inv_pos.mpr hd)))
  have e1 : a * b * d⁻¹ * (d / b * (1 - Real.exp (-(d / a)))) = a * (1 - Real.exp (-(d / a))) := by field_simp
  have e2 : a * b * d⁻¹ * (d / a * (1 - Real.exp (-(d / b)))) = b * (1 - Real.exp (-(d / b))) := by field_simp
  linarith

/-- with a non-negative gradient, a larger Ramey parameter `A` (∝ flow rate) gives a smaller initial temperature drop -/
theorem rameyInitialDrop_antitone (g d a b : ℝ) (hg : 0 ≤ g) (hd : 0 < d) (ha : 0 < a) (hab : a ≤ b) :
    rameyInitialDrop realAnalytic g d b ≤ rameyInitialDrop realAnalytic g d a := by
  unfold rameyInitialDrop
  have := ramey_recovery_mono d a b hd ha hab
  simp only [realAnalytic]
  nlinarith

/-- `rameyA` is monotone in the flow rate (positive heat capacity, time function, conductivity) -/
theorem rameyA_mono (flow flow' cp f k : ℝ) (hcp : 0 ≤ cp) (hf : 0 ≤ f) (hk : 0 < k) (h : flow ≤ flow') :
    rameyA realAnalytic flow cp f k ≤ rameyA realAnalytic flow' cp f k := by
  unfold rameyA
  simp only [realAnalytic]
  have hpi := Real.pi_pos
  have : flow * cp * f ≤ flow' * cp * f := by
    apply mul_le_mul_of_nonneg_right _ hf
    exact mul_le_mul_of_nonneg_right h hcp
  have h2 : flow * cp * f / 2 ≤ flow' * cp * f / 2 := by linarith
  have h3 : flow * cp * f / 2 / Real.pi ≤ flow' * cp * f / 2 / Real.pi := div_le_div_of_nonneg_right h2 (le_of_lt hpi)
  exact div_le_div_of_nonneg_right h3 (le_of_lt hk)

/-- the general-step formula reduces to the initial drop when the reservoir is at rock temperature -/
theorem rameyDrop_initial (trock g d a : ℝ) :
    rameyDrop realAnalytic trock trock g d a = rameyInitialDrop realAnalytic g d a := by
  unfold rameyDrop rameyInitialDrop; ring

end GeoVerif
