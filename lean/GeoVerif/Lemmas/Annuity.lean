import Mathlib.Tactic.Linarith
import Mathlib.Tactic.Positivity
import Mathlib.Tactic.FieldSimp
import Mathlib.Tactic.Ring
import Mathlib.Algebra.Order.Field.Rat
namespace GeoVerif

def sumL : List Rat → Rat
  | [] => 0
  | a :: as => a + sumL as

/-- discount vector of the BICYCLE model: years 1..L -/
def discB (i : Rat) (L : Nat) : List Rat := (List.range L).map (fun t => 1 / (1 + i) ^ (t + 1))

def crf (i : Rat) (L : Nat) : Rat := i / (1 - 1 / (1 + i) ^ L)

theorem sumL_append (a b : List Rat) : sumL (a ++ b) = sumL a + sumL b := by
  induction a with
  | nil => simp [sumL]
  | cons x xs ih => simp [sumL, ih]; ring

theorem sum_discB (i : Rat) (hi : 0 < i) (L : Nat) :
    sumL (discB i L) = (1 - 1 / (1 + i) ^ L) / i := by
  have h1 : (1 + i) ≠ 0 := by positivity
  induction L with
  | zero => simp [discB, sumL]
  | succ n ih =>
    have : discB i (n+1) = discB i n ++ [1 / (1 + i) ^ (n + 1)] := by
      simp [discB, List.range_succ]
    rw [this, sumL_append, ih]
    simp only [sumL]
    have hp : (1 + i) ^ n ≠ 0 := pow_ne_zero _ h1
    field_simp
    ring

theorem bicycle_annuity (i : Rat) (hi : 0 < i) (L : Nat) (hL : 0 < L) :
    crf i L * sumL (discB i L) = 1 := by
  rw [sum_discB i hi L]
  unfold crf
  have h1 : (1:Rat) < (1 + i) ^ L := by
    apply one_lt_pow₀ (by linarith) (by omega)
  have hne : (1 - 1 / (1 + i) ^ L) ≠ 0 := by
    have : 1 / (1 + i) ^ L < 1 := by
      rw [div_lt_one (by positivity)]; exact h1
    linarith
  field_simp
  exact div_self (by linarith)

#print axioms bicycle_annuity
end GeoVerif
