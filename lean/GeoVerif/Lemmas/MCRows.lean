import GeoVerif.Model.MCRows
import GeoVerif.Lemmas.InputFile
import Mathlib.Data.List.Basic

/-! helper lemmas for the row round trip (C14) -/
namespace GeoVerif.MC

def NoParen (l : List Char) : Prop := ∀ c ∈ l, c ≠ '(' ∧ c ≠ ')'

theorem beforeParen_append (a rest : List Char) (ha : ∀ c ∈ a, c ≠ '(') :
    beforeParen (a ++ ',' :: ' ' :: '(' :: rest) = a := by
  induction a with
  | nil => simp [beforeParen]
  | cons c cs ih =>
    have hcs : ∀ d ∈ cs, d ≠ '(' := fun d hd => ha d (List.mem_cons_of_mem _ hd)
    simp only [List.cons_append, beforeParen]
    have hnp : [',', ' ', '('].isPrefixOf (c :: (cs ++ ',' :: ' ' :: '(' :: rest)) = false := by
      cases cs with
      | nil => simp [List.isPrefixOf]
      | cons d ds =>
        cases ds with
        | nil => simp [List.isPrefixOf]
        | cons e es =>
          have he : e ≠ '(' := hcs e (by simp)
          have he' : ('(' == e) = false := by
            rw [beq_eq_false_iff_ne]; exact fun h => he h.symm
          simp [List.isPrefixOf, he']
    rw [hnp]
    simp [ih hcs]

/-- joined values without the final separator -/
def joined : List (List Char) → List Char
  | [] => []
  | [v] => v
  | v :: w :: vs => v ++ ',' :: ' ' :: joined (w :: vs)

theorem rowHead_eq (vals : List (List Char)) (hne : vals ≠ []) : rowHead vals = joined vals ++ [',', ' '] := by
  induction vals with
  | nil => exact absurd rfl hne
  | cons v vs ih =>
    cases vs with
    | nil => simp [rowHead, joined]
    | cons w ws =>
      have := ih (by simp)
      simp only [rowHead] at this ⊢
      simp only [joined]
      rw [this]; simp

theorem joined_noOpen (vals : List (List Char)) (h : ∀ v ∈ vals, NoParen v) : ∀ c ∈ joined vals, c ≠ '(' ∧ c ≠ ')' := by
  induction vals with
  | nil => intro c hc; simp [joined] at hc
  | cons v vs ih =>
    cases vs with
    | nil => intro c hc; exact h v (by simp) c (by simpa [joined] using hc)
    | cons w ws =>
      intro c hc
      simp only [joined, List.mem_append, List.mem_cons] at hc
      rcases hc with hc | hc | hc | hc
      · exact h v (by simp) c hc
      · subst hc; exact ⟨by decide, by decide⟩
      · subst hc; exact ⟨by decide, by decide⟩
      · exact ih (fun x hx => h x (List.mem_cons_of_mem _ hx)) c hc

theorem split_joined (vals : List (List Char)) (hne : vals ≠ []) (ht : ∀ v ∈ vals, Token v) :
    (splitComma (joined vals)).map strip = vals := by
  induction vals with
  | nil => exact absurd rfl hne
  | cons v vs ih =>
    have hv := ht v (by simp)
    cases vs with
    | nil =>
      simp only [joined]
      rw [splitComma_noComma v hv.noComma]
      simp [hv.strip_eq]
    | cons w ws =>
      simp only [joined]
      rw [splitComma_append v _ hv.noComma]
      have hrest := ih (by simp) (fun x hx => ht x (List.mem_cons_of_mem _ hx))
      -- the next cell starts with the blank after the comma
      have hw := ht w (by simp)
      cases ws with
      | nil =>
        simp only [joined] at hrest ⊢
        have : splitComma (' ' :: w) = [' ' :: w] := splitComma_noComma _ (by
          intro c hc; rcases List.mem_cons.mp hc with h | h
          · subst h; decide
          · exact hw.noComma c h)
        rw [this]
        have hs : strip (' ' :: w) = w := by
          have := hw.strip_decorated [' '] [] (by intro c hc; simp at hc; subst hc; decide) (by intro c hc; simp at hc)
          simpa using this
        simp [hv.strip_eq, hs]
      | cons x xs =>
        simp only [joined] at hrest ⊢
        have hsp : splitComma (' ' :: (w ++ ',' :: ' ' :: joined (x :: xs))) = (' ' :: w) :: splitComma (' ' :: joined (x :: xs)) := by
          have := splitComma_append (' ' :: w) (' ' :: joined (x :: xs)) (by
            intro c hc; rcases List.mem_cons.mp hc with h | h
            · subst h; decide
            · exact hw.noComma c h)
          simpa using this
        rw [hsp]
        rw [splitComma_append w _ hw.noComma] at hrest
        simp only [List.map_cons, List.cons.injEq] at hrest ⊢
        have hs : strip (' ' :: w) = w := by
          have := hw.strip_decorated [' '] [] (by intro c hc; simp at hc; subst hc; decide) (by intro c hc; simp at hc)
          simpa using this
        exact ⟨hv.strip_eq, hs, hrest.2⟩


end GeoVerif.MC
