import Mathlib.Tactic.Ring
import Mathlib.Tactic.FieldSimp
import Mathlib.Tactic.Linarith
import Mathlib.Algebra.Order.Field.Rat
namespace GeoVerif

def sumQ : List Rat → Rat
  | [] => 0
  | a :: as => a + sumQ as

def zipMul : List Rat → List Rat → List Rat
  | a :: as, b :: bs => a * b :: zipMul as bs
  | _, _ => []

structure Bic where
  (fib bir ctr eir rinfl ptr ritc gtr inflc : Rat)
  L : Nat

def iave (b : Bic) : Rat := b.fib * b.bir * (1 - b.ctr) + (1 - b.fib) * b.eir
def crfB (b : Bic) : Rat := iave b / (1 - 1 / (1 + iave b) ^ b.L)
def inflVec (b : Bic) : List Rat := (List.range b.L).map (fun t => (1 + b.rinfl) ^ (t + 1))
def discVecB (b : Bic) : List Rat := (List.range b.L).map (fun t => 1 / (1 + iave b) ^ (t + 1))

/-- BICYCLE levelized cost of electricity, shaped like the code (np.sum over vectors) -/
def lcoeBicycle (b : Bic) (ccap coam : Rat) (E : List Rat) : Rat :=
  let dv := discVecB b
  let iv := inflVec b
  let npvcap := sumQ (dv.map (fun d => (1 + b.inflc) * ccap * crfB b * d))
  let npvfc := sumQ ((zipMul iv dv).map (fun w => (1 + b.inflc) * ccap * b.ptr * w))
  let npvit := sumQ (dv.map (fun d => b.ctr / (1 - b.ctr) * ((1 + b.inflc) * ccap * crfB b - ccap / (b.L : Rat)) * d))
  let npvitc := (1 + b.inflc) * ccap * b.ritc / (1 - b.ctr)
  let npvoandm := sumQ ((zipMul iv dv).map (fun w => coam * w))
  let npvgrt := b.gtr / (1 - b.gtr) * (npvcap + npvoandm + npvfc + npvit - npvitc)
  (npvcap + npvoandm + npvfc + npvit + npvgrt - npvitc) / sumQ (zipMul E (zipMul iv dv)) * 100000000

theorem sumQ_map_mul (c : Rat) (f : Rat → Rat) (l : List Rat) (h : ∀ x, f x = c * x) :
    sumQ (l.map f) = c * sumQ l := by
  induction l with
  | nil => simp [sumQ]
  | cons a as ih => simp [sumQ, ih, h]; ring

/-- C11 for the largest branch: multiplying capital and O&M cost by k multiplies the BICYCLE LCOE by k -/
theorem lcoeBicycle_homogeneous (b : Bic) (k ccap coam : Rat) (E : List Rat) :
    lcoeBicycle b (k * ccap) (k * coam) E = k * lcoeBicycle b ccap coam E := by
  unfold lcoeBicycle
  simp only []
  rw [sumQ_map_mul ((1 + b.inflc) * (k * ccap) * crfB b) _ _ (fun _ => rfl),
      sumQ_map_mul ((1 + b.inflc) * (k * ccap) * b.ptr) _ _ (fun _ => rfl),
      sumQ_map_mul (b.ctr / (1 - b.ctr) * ((1 + b.inflc) * (k * ccap) * crfB b - k * ccap / (b.L : Rat))) _ _ (fun _ => rfl),
      sumQ_map_mul (k * coam) _ _ (fun _ => rfl),
      sumQ_map_mul ((1 + b.inflc) * ccap * crfB b) _ _ (fun _ => rfl),
      sumQ_map_mul ((1 + b.inflc) * ccap * b.ptr) _ _ (fun _ => rfl),
      sumQ_map_mul (b.ctr / (1 - b.ctr) * ((1 + b.inflc) * ccap * crfB b - ccap / (b.L : Rat))) _ _ (fun _ => rfl),
      sumQ_map_mul coam _ _ (fun _ => rfl)]
  ring

#print axioms lcoeBicycle_homogeneous
end GeoVerif
