import Mathlib.Data.List.Perm.Basic
import Mathlib.Data.List.Nodup
namespace GeoVerif

structure Entry where
  key : String
  val : String
deriving DecidableEq

/-- dictionary semantics of `return_dict[description] = entry`: the last entry with that key -/
def lookup (k : String) (l : List Entry) : Option String :=
  ((l.filter (fun e => e.key == k)).getLast?).map (·.val)

theorem lookup_of_same_subsequences (l₁ l₂ : List Entry)
    (h : ∀ k, l₁.filter (fun e => e.key == k) = l₂.filter (fun e => e.key == k)) :
    ∀ k, lookup k l₁ = lookup k l₂ := by
  intro k; unfold lookup; rw [h k]

/-- any permutation of lines with pairwise distinct keys yields the same dictionary -/
theorem lookup_perm_distinct (l₁ l₂ : List Entry) (hp : l₁.Perm l₂) (hd : (l₁.map (·.key)).Nodup) :
    ∀ k, lookup k l₁ = lookup k l₂ := by
  apply lookup_of_same_subsequences
  intro k
  have hperm : (l₁.filter (fun e => e.key == k)).Perm (l₂.filter (fun e => e.key == k)) := hp.filter _
  -- each filtered list has at most one element
  have hlen : ∀ l : List Entry, (l.map (·.key)).Nodup → (l.filter (fun e => e.key == k)).length ≤ 1 := by
    intro l hl
    induction l with
    | nil => simp
    | cons a as ih =>
      simp only [List.map_cons, List.nodup_cons] at hl
      by_cases hk : a.key == k
      · have : as.filter (fun e => e.key == k) = [] := by
          rw [List.filter_eq_nil_iff]
          intro e he hek
          have : e.key = a.key := by
            rw [beq_iff_eq] at hk hek; rw [hk, hek]
          exact hl.1 (this ▸ List.mem_map_of_mem he)
        simp [List.filter_cons, hk, this]
      · simp only [List.filter_cons, hk]
        exact ih hl.2
  have hd2 : (l₂.map (·.key)).Nodup := (hp.map _).nodup_iff.mp hd
  have h1 := hlen l₁ hd
  have h2 := hlen l₂ hd2
  generalize l₁.filter (fun e => e.key == k) = A at hperm h1
  generalize l₂.filter (fun e => e.key == k) = B at hperm h2
  match A, B, hperm, h1, h2 with
  | [], [], _, _, _ => rfl
  | [], b :: bs, hperm, _, _ => exact absurd hperm.length_eq (by simp)
  | a :: as, [], hperm, _, _ => exact absurd hperm.length_eq (by simp)
  | [a], [b], hperm, _, _ => simpa using hperm
  | a :: a' :: as, _, _, h1, _ => simp at h1
  | _, b :: b' :: bs, _, _, h2 => simp at h2

theorem last_wins (l l' : List Entry) (k v : String) (h : ∀ e ∈ l', e.key ≠ k) :
    lookup k (l ++ [⟨k, v⟩] ++ l') = some v := by
  unfold lookup
  have : l'.filter (fun e => e.key == k) = [] := by
    rw [List.filter_eq_nil_iff]; intro e he hek; exact h e he (by simpa using hek)
  simp [List.filter_append, this]

#print axioms lookup_perm_distinct
#print axioms last_wins
end GeoVerif
