import GeoVerif.Model.IO
import GeoVerif.Ops.All
/-! Line protocol: `<op> <case-id> key=value …` in, `<case-id> <result>` out.  Unknown ops are rejected, never defaulted. -/
open GeoVerif GeoVerif.IO GeoVerif.Ops

def allOps : List (String × (Args → String)) := schedulesOps ++ lcoeOps ++ cashflowOps ++ capexOps ++ plantOps ++ reservoirOps ++ pressureOps ++ hipOps ++ rameyOps ++ readParamOps ++ inputFileOps ++ procOps ++ pathsOps ++ unitsOps ++ mcOps ++ reportOps ++ clientOps

def step (line : String) : String :=
  match (line.trimAscii.toString.splitOn " ").filter (· ≠ "") with
  | op :: id :: rest =>
    match allOps.find? (·.1 == op) with
    | some (_, f) => id ++ " " ++ f (parseArgs rest)
    | none => id ++ " bad-op"
  | _ => "? bad-line"

partial def loop (h : IO.FS.Stream) : IO Unit := do
  let line ← h.getLine
  if line.isEmpty then return ()
  IO.println (step line)
  loop h

def main : IO Unit := do loop (← IO.getStdin)
