"""Running the real GEOPHIRES-X / HIP-RA-X code in-process through its real entry points, with the
GEOPHIRES_X_VERIF observer hook handing over the live model, and turning the model into a plain snapshot."""
from __future__ import annotations

import contextlib
import io
import logging
import math
import os
import sys
import tempfile
import traceback
import uuid
from concurrent.futures import ProcessPoolExecutor
from enum import Enum
from pathlib import Path

from .core import REPO, SRC

EXAMPLES = REPO / 'tests' / 'examples'
DH_DEMAND = EXAMPLES / 'cornell_heat_demand.csv'

MODULE_ATTRS = ['reserv', 'wellbores', 'surfaceplant', 'economics', 'addeconomics', 'sdacgteconomics', 'outputs']
PLAIN_ATTRS = {
    'economics': ['Cplantcorrelation', 'Claborcorrelation', 'Cpumps', 'CAPEX_cost_electricity_plant',
                  'CAPEX_cost_heat_plant', 'OPEX_cost_electricity_plant', 'OPEX_cost_heat_plant',
                  'PTCElecPrice', 'PTCHeatPrice', 'PTCCoolingPrice', 'PTCCarbonPrice',
                  'C1well', 'Cpumpsinj', 'Cpumpsprod', 'Cpumping', 'injpumphp', 'prodpumphp'],
    'surfaceplant': [],
    'wellbores': ['usebuiltinppwellheadcorrelation', 'usebuiltinhydrostaticpressurecorrelation',
                  'usebuiltinoutletpressurecorrelation'],
    'reserv': ['timevector', 'cpwater', 'rhowater', 'averagegradient'],
}


def plain(v):
    """numpy / enum / pint-free plain Python value (floats kept as floats: exactness is preserved)"""
    import numpy as np

    if isinstance(v, Enum):
        return {'enum': type(v).__name__, 'name': v.name, 'value': getattr(v, 'int_value', None) if hasattr(v, 'int_value') else v.value}
    if isinstance(v, (bool, np.bool_)):
        return bool(v)
    if isinstance(v, (int, np.integer)):
        return int(v)
    if isinstance(v, (float, np.floating)):
        return float(v)
    if isinstance(v, str) or v is None:
        return v
    if isinstance(v, np.ndarray):
        return [plain(x) for x in v.tolist()]
    if isinstance(v, (list, tuple)):
        return [plain(x) for x in v]
    if isinstance(v, dict):
        return {str(k): plain(x) for k, x in v.items()}
    if isinstance(v, Path):
        return str(v)
    return repr(v)


def unit_str(u):
    if isinstance(u, Enum):
        return u.value
    return None if u is None else str(u)


def snapshot(model) -> dict:
    snap = {}
    for mname in MODULE_ATTRS:
        mod = getattr(model, mname, None)
        if mod is None:
            continue
        ins, outs, attrs = {}, {}, {}
        for key, p in getattr(mod, 'ParameterDict', {}).items():
            if not hasattr(p, 'Provided'):  # the repo registers a bare unit enum under some keys; not a parameter
                continue
            ins[key] = {
                'value': plain(p.value), 'Provided': bool(p.Provided), 'Valid': bool(p.Valid),
                'CurrentUnits': unit_str(getattr(p, 'CurrentUnits', None)),
                'PreferredUnits': unit_str(getattr(p, 'PreferredUnits', None)),
                'kind': type(p).__name__,
            }
        for key, p in getattr(mod, 'OutputParameterDict', {}).items():
            if not hasattr(p, 'value') or isinstance(p, Enum):
                continue
            outs[key] = {
                'value': plain(p.value), 'CurrentUnits': unit_str(getattr(p, 'CurrentUnits', None)),
                'PreferredUnits': unit_str(getattr(p, 'PreferredUnits', None)),
            }
        # every attribute of the module object, addressed by attribute name: Parameter-like objects under 'p',
        # plain numbers / lists / arrays under 'attr'
        import numpy as np

        byattr = {}
        for a, v in vars(mod).items():
            if hasattr(v, 'value') and hasattr(v, 'Name') and not isinstance(v, Enum):
                byattr[a] = {
                    'Name': v.Name, 'value': plain(v.value), 'Provided': bool(getattr(v, 'Provided', False)),
                    'Valid': bool(getattr(v, 'Valid', False)), 'CurrentUnits': unit_str(getattr(v, 'CurrentUnits', None)),
                    'PreferredUnits': unit_str(getattr(v, 'PreferredUnits', None)), 'kind': type(v).__name__,
                }
            elif isinstance(v, (bool, int, float, str, np.floating, np.integer, np.bool_)) or v is None:
                attrs[a] = plain(v)
            elif isinstance(v, (list, tuple, np.ndarray)) and len(v) < 5000:
                try:
                    attrs[a] = plain(v)
                except Exception:
                    pass
        snap[mname] = {'class': type(mod).__name__, 'in': ins, 'out': outs, 'attr': attrs, 'p': byattr}
    return snap


@contextlib.contextmanager
def preserved_process_state():
    cwd = os.getcwd()
    argv = list(sys.argv)
    try:
        yield
    finally:
        os.chdir(cwd)
        sys.argv[:] = argv


def params_to_text(params) -> str:
    if isinstance(params, str):
        return params
    return ''.join(f'{k}, {v}\n' for k, v in (params.items() if isinstance(params, dict) else params))


def run_geophires(params, stages=('calculated',), want_report=True, want_result=False, extra_observer=None) -> dict:
    """One real run through GeophiresXClient.  Returns ok/error, snapshots per stage, report text, parsed result."""
    os.environ['GEOPHIRES_X_VERIF'] = '1'
    from geophires_x import GEOPHIRESv3
    from geophires_x_client import GeophiresInputParameters, GeophiresXClient

    logging.disable(logging.CRITICAL)
    tmp = Path(tempfile.gettempdir())
    inp = tmp / f'case_{uuid.uuid4().hex}.txt'
    inp.write_text(params_to_text(params))
    out: dict = {'ok': False, 'error': None, 'snaps': {}, 'report': None, 'result': None}

    def obs(stage, model):
        if stage in stages:
            out['snaps'][stage] = snapshot(model)
        if extra_observer is not None:
            extra_observer(stage, model, out)

    GEOPHIRESv3._VERIF_OBSERVERS.append(obs)
    ip = GeophiresInputParameters(from_file_path=inp)
    sink = io.StringIO()
    try:
        with preserved_process_state(), contextlib.redirect_stdout(sink), contextlib.redirect_stderr(sink):
            res = GeophiresXClient(enable_caching=False).get_geophires_result(ip)
        out['ok'] = True
        if want_report:
            out['report'] = Path(res.output_file_path).read_text()
        if want_result:
            out['result'] = res.result
    except BaseException as e:  # the client raises RuntimeError; SystemExit is wrapped by it too
        if isinstance(e, KeyboardInterrupt):
            raise
        out['error'] = f'{type(e).__name__}: {e}'
        cause = e.__cause__
        if cause is not None:
            out['cause'] = f'{type(cause).__name__}: {cause}'
    finally:
        GEOPHIRESv3._VERIF_OBSERVERS.remove(obs)
        for f in (inp, ip.get_output_file_path(), str(ip.get_output_file_path()).replace('.out', '.json')):
            with contextlib.suppress(OSError):
                os.unlink(f)
    return out


def run_hip(params, stages=('calculated',), want_report=True, path=None) -> dict:
    os.environ['GEOPHIRES_X_VERIF'] = '1'
    from hip_ra_x import HipRaXClient, hip_ra_x
    from hip_ra import HipRaInputParameters

    logging.disable(logging.CRITICAL)
    tmp = Path(tempfile.gettempdir())
    inp = Path(path) if path else tmp / f'hip_{uuid.uuid4().hex}.txt'   # `path`: re-use (rewrite) one input file across runs
    inp.write_text(params_to_text(params))
    out: dict = {'ok': False, 'error': None, 'snaps': {}, 'report': None}

    def obs(stage, model):
        if stage in stages:
            ins = {k: {'value': plain(p.value), 'Provided': bool(p.Provided), 'Valid': bool(p.Valid),
                       'CurrentUnits': unit_str(p.CurrentUnits), 'PreferredUnits': unit_str(p.PreferredUnits)}
                   for k, p in model.ParameterDict.items()}
            outs = {k: {'value': plain(p.value), 'CurrentUnits': unit_str(p.CurrentUnits),
                        'PreferredUnits': unit_str(p.PreferredUnits)} for k, p in model.OutputParameterDict.items()}
            out['snaps'][stage] = {'in': ins, 'out': outs}

    hip_ra_x._VERIF_OBSERVERS.append(obs)
    sink = io.StringIO()
    res = None
    try:
        with preserved_process_state(), contextlib.redirect_stdout(sink), contextlib.redirect_stderr(sink):
            res = HipRaXClient().get_hip_ra_result(HipRaInputParameters(inp))
        out['ok'] = True
        if want_report:
            out['report'] = Path(res.output_file_path).read_text()
    except BaseException as e:
        if isinstance(e, KeyboardInterrupt):
            raise
        out['error'] = f'{type(e).__name__}: {e}'
    finally:
        hip_ra_x._VERIF_OBSERVERS.remove(obs)
        if not path:
            with contextlib.suppress(OSError):
                os.unlink(inp)
        if res is not None:
            with contextlib.suppress(OSError):
                os.unlink(res.output_file_path)
    return out


# ----------------------------------------------------------------------------------------------------------------
# parallel map over cases (fork pool; each worker runs real code in-process)
# ----------------------------------------------------------------------------------------------------------------
def _init_worker(tmpdir):
    os.environ['GEOPHIRES_X_VERIF'] = '1'
    d = Path(tmpdir) / f'w{os.getpid()}'
    d.mkdir(parents=True, exist_ok=True)
    os.environ['TMPDIR'] = str(d)
    tempfile.tempdir = str(d)
    logging.disable(logging.CRITICAL)


def _call(args):
    fn, a = args
    try:
        return fn(a)
    except BaseException as e:  # noqa
        return {'ok': False, 'error': f'harness: {type(e).__name__}: {e}', 'trace': traceback.format_exc()}


def pmap(fn, items, scratch, workers: int | None = None, chunksize: int = 1):
    """fn must be a module-level function taking one argument"""
    items = list(items)
    if not items:
        return []
    workers = workers or min(16, os.cpu_count() or 4)
    if workers == 1 or len(items) == 1:
        _init_worker(scratch)
        return [_call((fn, it)) for it in items]
    with ProcessPoolExecutor(max_workers=workers, initializer=_init_worker, initargs=(str(scratch),)) as ex:
        return list(ex.map(_call, [(fn, it) for it in items], chunksize=chunksize))


# ----------------------------------------------------------------------------------------------------------------
# base configurations ("Grid"): economic model x end-use x plant type, TDP reservoir (fast, fully rational chain)
# ----------------------------------------------------------------------------------------------------------------
ELEC_PLANTS = [1, 2, 3, 4]
HEAT_PLANTS = [9, 5, 6, 7]  # industrial, absorption chiller, heat pump, district heating


def base_params(econ: int, enduse: int, plant: int, L: int = 30, n: int = 4) -> dict:
    p = {
        'Reservoir Model': 4,
        'Drawdown Parameter': 0.005,
        'Reservoir Depth': 3,
        'Number of Segments': 1,
        'Gradient 1': 50,
        'Maximum Temperature': 400,
        'Number of Production Wells': 2,
        'Number of Injection Wells': 2,
        'Production Well Diameter': 7,
        'Injection Well Diameter': 7,
        'Ramey Production Wellbore Model': 0,
        'Production Wellbore Temperature Drop': 5,
        'Injection Wellbore Temperature Gain': 0,
        'Production Flow Rate per Well': 55,
        'Reservoir Volume Option': 3,
        'Reservoir Volume': 1e9,
        'Water Loss Fraction': 0.02,
        'Productivity Index': 5,
        'Injectivity Index': 5,
        'Injection Temperature': 50,
        'Maximum Drawdown': 1,
        'Reservoir Heat Capacity': 1000,
        'Reservoir Density': 2700,
        'Reservoir Thermal Conductivity': 3,
        'End-Use Option': enduse,
        'Power Plant Type': plant,
        'Economic Model': econ,
        'Circulation Pump Efficiency': 0.8,
        'Utilization Factor': 0.9,
        'Surface Temperature': 15,
        'Ambient Temperature': 15,
        'Plant Lifetime': L,
        'Time steps per year': n,
        'Fixed Charge Rate': 0.05,
        'Discount Rate': 0.07,
        'Fraction of Investment in Bonds': 0.5,
        'Inflated Bond Interest Rate': 0.05,
        'Inflated Equity Interest Rate': 0.1,
        'Inflation Rate': 0.02,
        'Combined Income Tax Rate': 0.3,
        'Gross Revenue Tax Rate': 0.02,
        'Property Tax Rate': 0.01,
        'Inflation Rate During Construction': 0.05,
        'Well Drilling and Completion Capital Cost Adjustment Factor': 1,
        'Well Drilling Cost Correlation': 1,
        'Print Output to Console': 0,
    }
    if enduse != 1:
        p['End-Use Efficiency Factor'] = 0.9
    if plant == 7:
        p['District Heating Demand Option'] = 1
        p['District Heating Demand File Name'] = str(DH_DEMAND)
        p['District Heating Demand Data Time Resolution'] = 1
        p['District Heating Demand Data Column Number'] = 2
        p['Peaking Fuel Cost Rate'] = 0.0273
        p['Peaking Boiler Efficiency'] = 0.85
    if plant == 6:
        p['Heat Pump COP'] = 2.8
    if plant == 5:
        p['Absorption Chiller COP'] = 0.7
    return p


def ags_params(econ: int, enduse: int = 1, plant: int = 1, L: int = 30) -> dict:
    """closed-loop (Is AGS) U-loop under the classical economic models 1-3 (adapted from the Wanju_Yuan example)"""
    return {
        'Is AGS': True, 'Has Nonvertical Section': True, 'Multilaterals Cased': True, 'Well Geometry Configuration': 1,
        'Plant Lifetime': L, 'Water Thermal Conductivity': 0.65, 'Nonvertical Length per Multilateral Section': 5001.0,
        'Nonvertical Wellbore Diameter': 0.23495, 'Cylindrical Reservoir Radius of Effect Factor': 5.0,
        'Closed Loop Calculation Start Year': 0.1, 'Number of Multilateral Sections': 3, 'Well Drilling Cost Correlation': 3,
        'Reservoir Impedance': 1E-4, 'Injection Temperature': 60, 'Gradient 1': 26.25, 'Reservoir Depth': 4.0,
        'Cylindrical Reservoir Input Depth': 4.0, 'Cylindrical Reservoir Output Depth': 4.0, 'Cylindrical Reservoir Length': 5.0,
        'Reservoir Model': 0, 'Number of Production Wells': 1, 'Number of Injection Wells': 1, 'Ramey Production Wellbore Model': 0,
        'Production Wellbore Temperature Drop': 0, 'Production Flow Rate per Well': 110, 'Maximum Temperature': 375,
        'Reservoir Volume Option': 4, 'Reservoir Volume': 1e9, 'Reservoir Heat Capacity': 1050, 'End-Use Option': enduse,
        'Power Plant Type': plant, 'Circulation Pump Efficiency': 0.8, 'Plant Outlet Pressure': 68.95, 'Economic Model': econ,
        'Fraction of Investment in Bonds': 0.65, 'Inflated Bond Interest Rate': 0.07, 'Inflated Equity Interest Rate': 0.12,
        'Inflation Rate': 0.025, 'Combined Income Tax Rate': 0.392, 'Gross Revenue Tax Rate': 0, 'Discount Rate': 0.07,
        'Fixed Charge Rate': 0.08, 'Print Output to Console': 0,
    }


def grid():
    """96 configurations: econ x end-use x plant types valid for it"""
    out = []
    for econ in (1, 2, 3):
        for eu in (1, 2, 31, 32, 41, 42, 51, 52):
            plants = HEAT_PLANTS if eu == 2 else ELEC_PLANTS
            for pl in plants:
                out.append((econ, eu, pl))
    return out


# ----------------------------------------------------------------------------------------------------------------
# example inputs that run offline (Beckers/CLGS need an emptied HDF5 file, example6/7 an external TOUGH2 binary)
# ----------------------------------------------------------------------------------------------------------------
NOT_RUNNABLE = ('Beckers_', 'example6.txt', 'example7.txt', 'MC_')
SLOW = ('example_SBT_',)


def example_files(include_slow: bool = False) -> list[Path]:
    out = []
    for f in sorted(EXAMPLES.glob('*.txt')):
        if any(f.name.startswith(x) or f.name == x for x in NOT_RUNNABLE):
            continue
        if not include_slow and any(f.name.startswith(x) for x in SLOW):
            continue
        out.append(f)
    return out


def example_text(path: Path) -> str:
    """example text with file references made absolute (examples refer to `Examples/…` relative to the package dir)"""
    txt = path.read_text(encoding='utf-8', errors='replace')
    return txt


def enum_name(v):
    return v.get('name') if isinstance(v, dict) else v


def diversify(rng, p: dict, level: float = 0.5) -> dict:
    """random, valid variation of the physical side of a Grid configuration (so that branches that need an unusual
    but accepted input — plant lowering the injection temperature, reservoir mined out, Ramey wellbore model, redrilling,
    several wells, other ambient conditions — are reached by every whole-run generator, not only by the property that owns them)"""
    pl = p.get('Power Plant Type')
    eu = p.get('End-Use Option')
    if rng.random() < level:
        p['Injection Temperature'] = rng.choice([30, 50, 70, 85, 95])
    if rng.random() < level * 0.6:
        p['Reservoir Volume Option'] = 4
        p['Reservoir Volume'] = rng.choice([5e7, 1.5e8, 4e8, 2e9])
    if rng.random() < level * 0.6:
        p['Ramey Production Wellbore Model'] = 1
    if rng.random() < level:
        p['Production Flow Rate per Well'] = rng.choice([20, 40, 55, 90])
    if rng.random() < level:
        p['Number of Production Wells'] = rng.choice([1, 2, 3, 4])
        p['Number of Injection Wells'] = rng.choice([1, 2, 3])
    if rng.random() < level * 0.5:
        p['Ambient Temperature'] = rng.choice([5, 12, 20, 25])
    if rng.random() < level * 0.5:
        p['Utilization Factor'] = rng.choice([0.5, 0.8, 0.95, 1.0])
    if rng.random() < level * 0.5 and pl not in (3, 4):
        p['Maximum Drawdown'] = rng.choice([0.05, 0.2, 0.5])
        p['Drawdown Parameter'] = rng.choice([0.01, 0.03])
    if rng.random() < level * 0.5:
        p['Reservoir Depth'] = rng.choice([2, 3, 4, 5.5])
    if rng.random() < level * 0.4:
        p['Water Loss Fraction'] = rng.choice([0.0, 0.05, 0.2])
    if eu not in (1, None) and rng.random() < level:
        p['End-Use Efficiency Factor'] = rng.choice([0.45, 0.7, 0.8, 1.0])
    if rng.random() < level * 0.3:
        p['Surface Piping Length'] = rng.choice([1, 5])
    return p
