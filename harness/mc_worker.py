"""one real Monte-Carlo run in its own process (the harness calls:  python -m harness.mc_worker <job.json>  ->  <job>.result.json)

job: {program: 'HIP_RA_X'|'GEOPHIRES', base: <input text>, settings: <settings text>, workers: n|null, dir: <scratch dir>}
"""
import contextlib
import io
import json
import logging
import os
import sys
from pathlib import Path


def main(job_path: str) -> int:
    job = json.loads(Path(job_path).read_text())
    d = Path(job['dir'])
    d.mkdir(parents=True, exist_ok=True)
    os.environ['GEOPHIRES_X_VERIF'] = '1'
    log = d / 'events.jsonl'
    os.environ['GEOPHIRES_X_VERIF_LOG'] = str(log)
    os.environ['TMPDIR'] = str(d)
    import tempfile
    tempfile.tempdir = str(d)
    if job.get('workers'):
        n = int(job['workers'])
        os.cpu_count = lambda: n                     # ProcessPoolExecutor() sizes the pool from it at construction
        if hasattr(os, 'process_cpu_count'):
            os.process_cpu_count = lambda: n
    logging.disable(logging.CRITICAL)
    import numpy as np
    from geophires_monte_carlo import GeophiresMonteCarloClient, MonteCarloRequest, SimulationProgram
    base = d / 'base.txt'
    base.write_text(job['base'])
    settings = d / 'settings.txt'
    settings.write_text(job['settings'])
    out = d / 'MC_Result.txt'
    if job.get('stale_lock'):
        # pylocker's own format: pass, timestamp, pid — of a process that no longer exists, long ago
        import time
        (d / '.lock').write_text(f'someone-elses-pass\n{time.time() - 100000:.6f}\n999999')
    import hashlib
    st = np.random.get_state()
    parent_rng = [hashlib.sha1(st[1].tobytes()).hexdigest(), int(st[2]), int(st[3]), float(st[4])]
    res = {'error': None, 'parent_pid': os.getpid(), 'parent_rng': parent_rng}
    sink = io.StringIO()
    if job.get('relative_output'):
        # MC_OUTPUT_FILE given in the settings file as a relative name (reachable only through MC_GeoPHIRES3.main / python -m geophires_monte_carlo;
        # it is resolved in the Monte-Carlo package directory): a scratch sub-directory there, removed afterwards, its files moved to the job directory
        import shutil
        import uuid
        import geophires_monte_carlo
        from geophires_monte_carlo import MC_GeoPHIRES3
        pkg = Path(geophires_monte_carlo.__file__).parent
        rel = f'_verif_scratch_{uuid.uuid4().hex[:10]}'
        (pkg / rel).mkdir()
        settings.write_text(job['settings'] + f'MC_OUTPUT_FILE, {rel}/MC_Result.txt\n')
        stash = os.getcwd()
        try:
            with contextlib.redirect_stdout(sink), contextlib.redirect_stderr(sink):
                MC_GeoPHIRES3.main(command_line_args=[str(SimulationProgram[job['program']].code_file_path), str(base), str(settings)])
        except BaseException as e:  # noqa
            res['error'] = f'{type(e).__name__}: {e}'[:500]
        finally:
            os.chdir(stash)
            for fn in ('MC_Result.txt', 'MC_Result.json'):
                if (pkg / rel / fn).exists():
                    shutil.move(str(pkg / rel / fn), str(d / fn))
            for stray in pkg.parent.glob(f'*/{rel}'):
                shutil.rmtree(stray, ignore_errors=True)
    else:
        try:
            with contextlib.redirect_stdout(sink), contextlib.redirect_stderr(sink):
                GeophiresMonteCarloClient().get_monte_carlo_result(MonteCarloRequest(SimulationProgram[job['program']], base, settings, output_file=out))
        except BaseException as e:  # noqa
            res['error'] = f'{type(e).__name__}: {e}'[:500]
    res['file'] = out.read_text() if out.exists() else None
    js = out.with_suffix('.json')
    res['json'] = json.loads(js.read_text()) if js.exists() else None
    res['events'] = [json.loads(ln) for ln in log.read_text().splitlines()] if log.exists() else []
    if job.get('second'):
        # a second Monte-Carlo run in the SAME process: the base file is rewritten in place (same path), as a long-lived caller would do
        if log.exists():
            log.unlink()
        base.write_text(job['second']['base'])
        settings.write_text(job['second']['settings'])
        out2 = d / 'MC_Result_2.txt'
        st2 = np.random.get_state()
        res2 = {'error': None, 'parent_pid': os.getpid(), 'parent_rng': [hashlib.sha1(st2[1].tobytes()).hexdigest(), int(st2[2]), int(st2[3]), float(st2[4])]}
        try:
            with contextlib.redirect_stdout(sink), contextlib.redirect_stderr(sink):
                GeophiresMonteCarloClient().get_monte_carlo_result(MonteCarloRequest(SimulationProgram[job['program']], base, settings, output_file=out2))
        except BaseException as e:  # noqa
            res2['error'] = f'{type(e).__name__}: {e}'[:500]
        res2['file'] = out2.read_text() if out2.exists() else None
        js2 = out2.with_suffix('.json')
        res2['json'] = json.loads(js2.read_text()) if js2.exists() else None
        res2['events'] = [json.loads(ln) for ln in log.read_text().splitlines()] if log.exists() else []
        res['second'] = res2
    Path(job_path + '.result.json').write_text(json.dumps(res))
    return 0


if __name__ == '__main__':
    sys.exit(main(sys.argv[1]))
