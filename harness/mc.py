"""helpers around real Monte-Carlo runs (each in its own python process; several at a time)"""
from __future__ import annotations

import json
import subprocess
import uuid
from concurrent.futures import ThreadPoolExecutor
from pathlib import Path

from . import core

HIP_BASE = 'Reservoir Temperature, 250.0\nRejection Temperature, 60.0\nReservoir Porosity, 10.0\nReservoir Area, 55.0\nReservoir Thickness, 0.25\nReservoir Life Cycle, 25\n'
HIP_OUTPUTS = ['Producible Heat (reservoir)', 'Producible Electricity (reservoir)', 'Stored Heat (reservoir)']


def settings_text(inputs, outputs, iterations) -> str:
    """inputs: [(name, dist, args…)]"""
    return ''.join('INPUT, ' + ', '.join(str(x) for x in i) + '\n' for i in inputs) + ''.join(f'OUTPUT, {o}\n' for o in outputs) + f'ITERATIONS, {iterations}\n'


def run_one(job: dict) -> dict:
    d = Path(job['dir'])
    d.mkdir(parents=True, exist_ok=True)
    jp = d / 'job.json'
    jp.write_text(json.dumps(job))
    p = subprocess.run([core.PY, '-m', 'harness.mc_worker', str(jp)], cwd=core.VERIF, capture_output=True, text=True, timeout=3000)
    rp = Path(str(jp) + '.result.json')
    if not rp.exists():
        return {'error': f'worker died rc={p.returncode}: {p.stderr[-400:]}', 'file': None, 'json': None, 'events': [], 'job': job}
    r = json.loads(rp.read_text())
    r['job'] = job
    return r


def run_many(jobs: list[dict], scratch, parallel: int = 3) -> list[dict]:
    for j in jobs:
        j.setdefault('dir', str(Path(scratch) / f'mc_{uuid.uuid4().hex[:10]}'))
    with ThreadPoolExecutor(parallel) as ex:
        return list(ex.map(run_one, jobs))


def parse_file(text: str, n_outputs: int):
    """header, data rows (raw lines), statistics block lines"""
    lines = text.splitlines()
    header = lines[0] if lines else ''
    rows, tail = [], []
    for ln in lines[1:]:
        (rows if (', (' in ln or ln.startswith('(')) and not tail else tail).append(ln)
    return header, rows, tail


def parse_row(row: str):
    """(output value strings, {input name: value string}) — independent of the program's own parser"""
    head, sep, tail = row.partition('(')
    vals = [v.strip() for v in head.strip().strip(',').split(',') if v.strip() != '']
    tail = tail.rstrip()
    if tail.endswith(')'):
        tail = tail[:-1]
    pairs = [p for p in tail.split(';') if p]
    ins = []
    for p in pairs:
        name, _, v = p.partition(':')
        ins.append((name, v))
    return vals, ins
