"""./check --setup : regenerate tables from /repo and build the whole Lean library (offline)."""
import subprocess
import sys

from . import core


def main() -> int:
    try:
        from tools import extract
        extract.main()
    except ImportError:
        pass
    ok, out = core.lake_build([])
    sys.stdout.write(out[-3000:])
    if not ok:
        return 2
    ok, out = core.lake_build(['GeoVerif.Ops.All'])
    sys.stdout.write(out[-1000:])
    return 0 if ok else 2
