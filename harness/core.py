"""Shared machinery of the GEOPHIRES-X verification checks.

Everything a property check needs that is not specific to the property: locating /repo and the Lean project,
building / auditing Lean modules, talking to the Lean driver over the line protocol with exact rationals,
collecting failures, known findings, replay files, evidence files and the final verdict line.
"""
from __future__ import annotations

import contextlib
import fcntl
import fnmatch
import hashlib
import json
import math
import os
import random
import re
import shutil
import subprocess
import sys
import tempfile
import time
from fractions import Fraction
from pathlib import Path

VERIF = Path(__file__).resolve().parent.parent
LEAN = VERIF / 'lean'
REPO = Path(os.environ.get('VERIF_REPO', '/repo'))
SRC = REPO / 'src'
PY = '/venv/bin/python'
ALLOWED_AXIOMS = {'propext', 'Classical.choice', 'Quot.sound'}
FORBIDDEN = re.compile(r'\bsorry\b|\badmit\b|^axiom\s|native_decide|bv_decide|implemented_by|\bunsafe\s|maxHeartbeats\s+0\b')

os.environ.setdefault('GEOPHIRES_X_VERIF', '1')


# ----------------------------------------------------------------------------------------------------------------
# exact numbers
# ----------------------------------------------------------------------------------------------------------------
def frac(x) -> str:
    """exact value of a Python number as `num/den` (floats are dyadic rationals)"""
    if isinstance(x, bool):
        x = int(x)
    if isinstance(x, int):
        return f'{x}/1'
    if isinstance(x, Fraction):
        return f'{x.numerator}/{x.denominator}'
    x = float(x)
    if math.isnan(x) or math.isinf(x):
        raise ValueError(f'non-finite value cannot be sent exactly: {x}')
    n, d = x.as_integer_ratio()
    return f'{n}/{d}'


def fsci(x: float) -> str:
    """`sign:mantissa:exp10` of the shortest round-tripping decimal of a float (for the driver's Float ops)"""
    from decimal import Decimal
    d = Decimal(repr(float(x)))
    sign, digits, exp = d.as_tuple()
    return f'{"-" if sign else "+"}:{int("".join(map(str, digits)))}:{exp}'


def fracs(xs) -> str:
    return ','.join(frac(x) for x in xs)


def parse_rat(s: str) -> Fraction:
    """inverse of the driver's showRat: `n/d` exact, or `~<m>e<k>` = m * 10^k"""
    if s.startswith('~'):
        m, k = s[1:].split('e')
        k = int(k)
        return Fraction(int(m)) * (Fraction(10) ** k)
    n, d = s.split('/')
    return Fraction(int(n), int(d))


def parse_rats(s: str) -> list[Fraction]:
    return [parse_rat(t) for t in s.split(',')] if s else []


def parse_kv(result: str) -> tuple[str, dict[str, str]]:
    """`ok a=1 b=2,3` -> ('ok', {'a': '1', 'b': '2,3'})"""
    toks = result.split(' ')
    head = toks[0] if toks else ''
    kv = {}
    for t in toks[1:]:
        if '=' in t:
            k, v = t.split('=', 1)
            kv[k] = v
    return head, kv


def close(py: float, exact: Fraction, rel: float = 1e-9, scale: Fraction | float = 0, abs_tol: float = 0.0) -> bool:
    """|py - exact| <= rel * max(|exact|, scale) + abs_tol, evaluated in exact arithmetic"""
    if isinstance(py, float) and (math.isnan(py) or math.isinf(py)):
        return False
    diff = abs(Fraction(py) - exact)
    bound = Fraction(rel) * max(abs(exact), Fraction(scale)) + Fraction(abs_tol)
    return diff <= bound


# ----------------------------------------------------------------------------------------------------------------
# Lean: build, audit, driver
# ----------------------------------------------------------------------------------------------------------------
@contextlib.contextmanager
def lean_lock():
    (LEAN / '.lake').mkdir(exist_ok=True)
    with open(LEAN / '.lake' / 'verif.lock', 'w') as fh:
        fcntl.flock(fh, fcntl.LOCK_EX)
        try:
            yield
        finally:
            fcntl.flock(fh, fcntl.LOCK_UN)


def lake_build(targets: list[str], timeout: int = 3000) -> tuple[bool, str]:
    with lean_lock():
        p = subprocess.run(['lake', 'build', *targets], cwd=LEAN, capture_output=True, text=True, timeout=timeout)
    return p.returncode == 0, p.stdout + p.stderr


AUDIT_TEMPLATE = """import Lean
import {module}
open Lean Elab Command in
run_cmd do
  let env ← getEnv
  let some idx := env.getModuleIdx? `{module} | throwError "module not found"
  for n in env.header.moduleData[idx]!.constNames do
    if let some (.thmInfo _) := env.find? n then
      if !n.isInternalDetail then
        let ax ← Lean.collectAxioms n
        logInfo m!"AUDIT {{n}} {{ax.toList}}"
"""


def axiom_audit(module: str, scratch: Path) -> tuple[list[tuple[str, list[str]]], str]:
    """names and axioms of every theorem declared in `module` (must be built)"""
    f = scratch / f'Audit_{module.replace(".", "_")}.lean'
    f.write_text(AUDIT_TEMPLATE.format(module=module))
    p = subprocess.run(['lake', 'env', 'lean', str(f)], cwd=LEAN, capture_output=True, text=True, timeout=1200)
    out = p.stdout + p.stderr
    res = []
    for m in re.finditer(r'AUDIT (\S+) \[(.*?)\]', out):
        axs = [a.strip() for a in m.group(2).split(',') if a.strip()]
        res.append((m.group(1), axs))
    return res, out


def grep_forbidden() -> list[str]:
    """forbidden tokens in Lean sources outside comments"""
    hits = []
    files = list((LEAN / 'GeoVerif').rglob('*.lean')) + [LEAN / 'Driver.lean', LEAN / 'GeoVerif.lean']
    for f in files:
        if not f.exists():
            continue
        text = f.read_text()
        # strip block comments (incl. doc comments) and line comments
        text = re.sub(r'/-.*?-/', lambda m: '\n' * m.group(0).count('\n'), text, flags=re.S)
        for i, line in enumerate(text.split('\n'), 1):
            line = line.split('--', 1)[0]
            if FORBIDDEN.search(line):
                hits.append(f'{f.relative_to(LEAN)}:{i}: {line.strip()}')
    return hits


def run_driver(lines: list[str], jobs: int = 8, timeout: int = 3000) -> dict[str, str]:
    """send `op id args` lines through the Lean driver; returns id -> result string"""
    if not lines:
        return {}
    ok, out = lake_build(['GeoVerif.Ops.All'])
    if not ok:
        raise RuntimeError('driver modules do not build:\n' + out[-3000:])
    jobs = max(1, min(jobs, (len(lines) + 199) // 200))
    chunks = [lines[i::jobs] for i in range(jobs)]
    procs = []
    for ch in chunks:
        p = subprocess.Popen(['lake', 'env', 'lean', '--run', 'Driver.lean'], cwd=LEAN, stdin=subprocess.PIPE,
                             stdout=subprocess.PIPE, stderr=subprocess.PIPE, text=True)
        procs.append((p, ch))
    res: dict[str, str] = {}
    import threading

    outs = [None] * len(procs)

    def feed(k):
        p, ch = procs[k]
        outs[k] = p.communicate('\n'.join(ch) + '\n', timeout=timeout)

    ths = [threading.Thread(target=feed, args=(k,)) for k in range(len(procs))]
    for t in ths:
        t.start()
    for t in ths:
        t.join()
    for k, (p, ch) in enumerate(procs):
        so, se = outs[k]
        if p.returncode != 0:
            raise RuntimeError(f'driver failed rc={p.returncode}: {se[-2000:]}')
        for ln in so.split('\n'):
            if not ln:
                continue
            cid, _, rest = ln.partition(' ')
            res[cid] = rest
    return res


# ----------------------------------------------------------------------------------------------------------------
# the per-run context
# ----------------------------------------------------------------------------------------------------------------
class Failure:
    def __init__(self, signature: str, kind: str, what: str, replay: dict):
        self.signature = signature  # stable identifier of *what* fails (used to match known findings)
        self.kind = kind  # implementation-violation | correspondence-break | proof-break
        self.what = what
        self.replay = replay


class Check:
    """One run of one property's check."""

    def __init__(self, prop: str, tier: str, seed: int):
        self.prop = prop
        self.tier = tier
        self.seed = seed
        self.rng = random.Random(f'{prop}/{seed}')
        self.t0 = time.time()
        self.scratch = Path(tempfile.mkdtemp(prefix=f'geoverif_{prop}_'))
        os.environ['TMPDIR'] = str(self.scratch)
        tempfile.tempdir = str(self.scratch)
        self.failures: list[Failure] = []
        self.breaks: list[Failure] = []  # proof / correspondence breaks awaiting a failing-input search
        self.coverage: dict = {}
        self.assumptions: list[str] = []
        self.theorems: list[tuple[str, list[str]]] = []
        self.obligations = 0
        self.discharged = 0
        self.branch_cov: dict[str, int] = {}
        self.samples: list = []
        self.evaluations = 0
        self.nontrivial: set = set()
        self.notes: list[str] = []
        self.known_seen: list[str] = []
        self.checker_cmd = ''
        self.trusted = [
            'Lean 4.33.0 kernel; Mathlib v4.33.0 as installed',
            'axioms allowed: propext, Classical.choice, Quot.sound (audited per theorem on every run)',
            'correspondence harness (harness/*.py): generators, exact float->rational transfer, tolerances',
            'IEEE-754 rounding is not modelled: theorems are over exact rationals, agreement measured at 1e-9',
        ]

    # -- bookkeeping ---------------------------------------------------------------------------------------------
    def tag(self, t: str, n: int = 1):
        self.branch_cov[t] = self.branch_cov.get(t, 0) + n

    def sample(self, s, limit: int = 4):
        if len(self.samples) < limit:
            self.samples.append(s)

    def case(self, key, nontrivial: bool = True):
        self.evaluations += 1
        if nontrivial:
            self.nontrivial.add(key if isinstance(key, (str, int, tuple)) else json.dumps(key, sort_keys=True, default=str))

    def fail(self, signature: str, what: str, replay: dict, kind: str = 'implementation-violation'):
        # keep at most a handful per signature
        if sum(1 for f in self.failures if f.signature == signature) < 3:
            self.failures.append(Failure(signature, kind, what, replay))

    def broken(self, signature: str, what: str, replay: dict, kind: str):
        """a proof obligation or the correspondence no longer checks (not by itself a violation: search follows)"""
        if sum(1 for f in self.breaks if f.signature == signature) < 3:
            self.breaks.append(Failure(signature, kind, what, replay))

    def known_replays(self) -> list[dict]:
        """replay inputs of the listed open findings of this property: re-run first in every run, so that each listed finding is
        either re-confirmed (KNOWN-FINDING line) or noted as no longer reproducible"""
        return [k for k in load_known() if k.get('property') == self.prop and k.get('status') == 'open' and k.get('replay')]

    # -- Lean side -------------------------------------------------------------------------------------------------
    def prove(self, modules: list[str], extra_targets: list[str] | None = None) -> bool:
        """build the property's theorem modules and audit every theorem in them; returns True when all clean"""
        targets = list(modules) + list(extra_targets or [])
        self.checker_cmd = f'cd lean && lake build {" ".join(targets)}  # + axiom audit of every theorem, forbidden-token grep'
        ok, out = lake_build(targets)
        clean = True
        if not ok:
            clean = False
            errs = [ln for ln in out.split('\n') if 'error' in ln.lower()][:12]
            self.broken(f'{self.prop}/proof/build', 'lake build failed for ' + ' '.join(targets),
                        {'targets': targets, 'errors': errs, 'log_tail': out[-4000:]}, 'proof-break')
        hits = grep_forbidden()
        if hits:
            clean = False
            self.broken(f'{self.prop}/proof/forbidden-token', 'forbidden token in Lean sources', {'hits': hits}, 'proof-break')
        for mod in modules:
            if not ok:
                # still audit what exists?  a failed build leaves no olean for this module: count declared theorems as open
                src = LEAN / (mod.replace('.', '/') + '.lean')
                n = len(re.findall(r'^theorem\s', src.read_text(), flags=re.M)) if src.exists() else 1
                self.obligations += n
                continue
            thms, aout = axiom_audit(mod, self.scratch)
            if not thms:
                clean = False
                self.broken(f'{self.prop}/proof/audit', f'axiom audit produced nothing for {mod}', {'log_tail': aout[-2000:]}, 'proof-break')
            for name, axs in thms:
                self.obligations += 1
                bad = [a for a in axs if a not in ALLOWED_AXIOMS]
                if bad:
                    clean = False
                    self.broken(f'{self.prop}/proof/axioms/{name}', f'{name} depends on {bad}', {'theorem': name, 'axioms': axs}, 'proof-break')
                else:
                    self.discharged += 1
                self.theorems.append((name, axs))
        if self.tier == 'thorough' and ok:
            p = subprocess.run(['lake', 'env', 'leanchecker', *modules], cwd=LEAN, capture_output=True, text=True, timeout=3000)
            self.notes.append(f'leanchecker {" ".join(modules)} rc={p.returncode}')
            if p.returncode != 0:
                clean = False
                self.broken(f'{self.prop}/proof/leanchecker', 'leanchecker rejected the compiled modules', {'log_tail': (p.stdout + p.stderr)[-2000:]}, 'proof-break')
        return clean

    def driver(self, lines: list[str]) -> dict[str, str]:
        return run_driver(lines, jobs=16)

    # -- verdict ---------------------------------------------------------------------------------------------------
    def finish(self, level: str = 'proof', rule: str = '', explanation: str = '') -> int:
        known = load_known()
        # signatures start with the id of the property whose clause failed; a check that re-runs another property's correspondence
        # (C11 -> C01, C18 -> C05) can meet that property's listed findings, so matching is by signature over all open entries
        open_k = [k for k in known if k.get('status') == 'open']
        lines = []
        unlisted: list[Failure] = []
        seen_sigs = []
        for f in self.failures:
            hit = next((k for k in open_k if fnmatch.fnmatchcase(f.signature, k['signature'])), None)
            if hit is not None:
                if f.signature not in seen_sigs:
                    seen_sigs.append(f.signature)
                    lines.append(f'KNOWN-FINDING: property={self.prop} {f.signature}: {str(hit.get("what", f.what))[:200]}')
            else:
                unlisted.append(f)
        self.known_seen = seen_sigs
        not_seen = [k['signature'] for k in open_k if k.get('property') == self.prop and not any(fnmatch.fnmatchcase(s, k['signature']) for s in seen_sigs)]
        if not_seen:
            self.notes.append('listed open findings not reproduced in this run: ' + ', '.join(not_seen))
            # every listed finding of this property is named on every run; the ones this run's sample did not exercise say so
            for k in open_k:
                if k.get('property') == self.prop and k['signature'] in not_seen:
                    lines.append(f'KNOWN-FINDING: property={self.prop} {k["signature"]}: {str(k.get("what", ""))[:160]} [listed; not exercised by this run\'s sample]')
        rc = 0
        rep_dir = VERIF / 'replays' / self.prop
        violations = 0
        reported = set()
        for f in unlisted:
            if f.signature in reported:
                continue
            reported.add(f.signature)
            violations += 1
            path = write_replay(rep_dir, self, f, found=True)
            lines.append(f'VIOLATION property={self.prop} replay={path}')
            rc = 1
        if self.breaks:
            if unlisted:
                # the failing input found above is the replay; record the break inside the evidence only
                self.notes.append('proof/correspondence breaks: ' + '; '.join(b.what for b in self.breaks))
            else:
                for b in self.breaks:
                    if b.signature in reported:
                        continue
                    reported.add(b.signature)
                    violations += 1
                    path = write_replay(rep_dir, self, b, found=False)
                    lines.append(f'VIOLATION property={self.prop} replay={path} no-failing-input-found')
                    rc = 1
        self.write_evidence(level, rule, explanation, violations)
        for ln in lines:
            print(ln)
        print(f'[{self.prop}] tier={self.tier} seed={self.seed} obligations={self.obligations} discharged={self.discharged} '
              f'evaluations={self.evaluations} nontrivial={len(self.nontrivial)} known={len(seen_sigs)} violations={violations} '
              f'wall={time.time() - self.t0:.1f}s')
        shutil.rmtree(self.scratch, ignore_errors=True)
        return rc

    def write_evidence(self, level: str, rule: str, explanation: str, violations: int):
        cov = {
            'obligations': self.obligations,
            'discharged': self.discharged,
            'checker_cmd': self.checker_cmd or 'n/a',
            'trusted_base': self.trusted,
            'theorems': [{'name': n, 'axioms': a} for n, a in self.theorems],
            'evaluations': self.evaluations,
            'distinct_nontrivial': len(self.nontrivial),
            'rule': rule,
            'samples': self.samples if self.samples else [{'note': 'no correspondence cases were run'}],
            'traces_validated_against_impl': self.evaluations,
            'model_branch_coverage': dict(sorted(self.branch_cov.items())),
            'known_findings_seen': self.known_seen,
            'notes': self.notes,
            'explanation': explanation,
        }
        cov.update(self.coverage)
        ev = {
            'property_id': self.prop,
            'tier': self.tier,
            'seed': self.seed,
            'level': level,
            'coverage': cov,
            'assumptions': self.assumptions,
            'wall_s': round(time.time() - self.t0, 2),
            'violations': violations,
        }
        d = VERIF / 'evidence'
        d.mkdir(exist_ok=True)
        tmp = d / f'{self.prop}.json.tmp'
        tmp.write_text(json.dumps(ev, indent=1, default=str) + '\n')
        os.replace(tmp, d / f'{self.prop}.json')


def load_known() -> list[dict]:
    p = VERIF / 'known_findings.json'
    if not p.exists():
        return []
    return json.loads(p.read_text()).get('findings', [])


def write_replay(rep_dir: Path, chk: Check, f: Failure, found: bool) -> str:
    rep_dir.mkdir(parents=True, exist_ok=True)
    body = {
        'property': chk.prop,
        'kind': f.kind,
        'signature': f.signature,
        'what': f.what,
        'seed': chk.seed,
        'tier': chk.tier,
        'failing_input_found': found,
        'replay': f.replay,
        'how_to_replay': f'./check {chk.prop} --replay <this file>',
    }
    h = hashlib.sha1(json.dumps(body, sort_keys=True, default=str).encode()).hexdigest()[:12]
    path = rep_dir / f'{h}.json'
    path.write_text(json.dumps(body, indent=1, default=str) + '\n')
    return str(path)
