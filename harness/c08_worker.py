"""Executes one history of client operations in THIS process against the real GeophiresXClient and prints one JSON line per operation.
usage: python c08_worker.py <history.json>      (run with the hash seed / start directory chosen by the parent)"""
import contextlib
import hashlib
import io
import json
import logging
import os
import re
import sys
from pathlib import Path


def digest(text: str) -> str:
    keep = [ln for ln in text.splitlines() if not re.search(r'Simulation Date|Simulation Time|Calculation Time|GEOPHIRES Version', ln)]
    return hashlib.sha1('\n'.join(keep).encode()).hexdigest()[:12]


def main():
    spec = json.loads(Path(sys.argv[1]).read_text())
    sys.argv = ['history-driver']          # a fixed, known argv to detect any rewrite
    os.chdir(spec['start_cwd'])
    logging.disable(logging.CRITICAL)
    from geophires_x_client import GeophiresInputParameters, GeophiresXClient

    clients = {}
    out = sys.__stdout__
    for op in spec['ops']:
        cwd0, argv0 = os.getcwd(), list(sys.argv)
        rec = {'op': op}
        if op[0] == 'w':
            Path(op[1]).write_text(spec['contents'][op[2]])
            rec['out'] = '-'
        elif op[0] == 'm':
            # a direct in-process call of the simulator's main(), as an embedding program would make it: two-entry argv
            from geophires_x import GEOPHIRESv3
            os.chdir(spec['dir'])
            sys.argv = ['embedding-program', op[1]]
            argv0 = list(sys.argv)
            try:
                with contextlib.redirect_stdout(io.StringIO()), contextlib.redirect_stderr(io.StringIO()):
                    GEOPHIRESv3.main(enable_geophires_logging_config=False)
                rec['out'] = '-'
            except BaseException as e:  # noqa
                if isinstance(e, KeyboardInterrupt):
                    raise
                rec['out'] = '-'
                rec['err'] = f'{type(e).__name__}: {e}'[:160]
            rec['argv_ok'] = list(map(str, sys.argv)) == list(map(str, argv0))
            rec['argv'] = list(map(str, sys.argv))[:4]
            rec['cwd_ok'] = True
            rec['cwd'] = os.getcwd()
            os.chdir(cwd0)
            sys.argv = ['history-driver']
            out.write(json.dumps(rec) + '\n')
            out.flush()
            continue
        elif op[0] == 'wv':
            rec['out'] = '-'      # bookkeeping for the model only: names the content the next request (file + overriding parameters) asks for
        elif op[0] == 'c':
            os.chdir(op[1])
            cwd0 = op[1]
            rec['out'] = '-'
        else:
            path, caching, client_id = op[1], op[2], op[3]
            overrides = spec.get('overrides', {}).get(op[4]) if op[0] == 'qp' else None
            key = (client_id, caching)
            if client_id == 'fresh':
                cl = GeophiresXClient(enable_caching=bool(caching))
            else:
                cl = clients.setdefault(key, GeophiresXClient(enable_caching=bool(caching)))
            sink = io.StringIO()
            try:
                with contextlib.redirect_stdout(sink), contextlib.redirect_stderr(sink):
                    res = cl.get_geophires_result(GeophiresInputParameters(from_file_path=Path(path), params=overrides) if overrides else GeophiresInputParameters(from_file_path=Path(path)))
                # the result object itself (what the client hands back), not the file it points to: one output path serves every
                # request for one input path, so a cached result's file may since have been overwritten by a later run
                body = {k: v for k, v in res.result.items() if k not in ('metadata', 'Simulation Metadata')}
                rec['out'] = 'r' + hashlib.sha1(json.dumps(body, sort_keys=True, default=str).encode()).hexdigest()[:12]
            except BaseException as e:  # noqa
                if isinstance(e, KeyboardInterrupt):
                    raise
                rec['out'] = 'F'
                rec['err'] = f'{type(e).__name__}: {e}'[:160]
        rec['cwd_ok'] = os.path.realpath(os.getcwd()) == os.path.realpath(cwd0)
        rec['cwd'] = os.getcwd()
        rec['argv_ok'] = list(map(str, sys.argv)) == list(map(str, argv0))
        rec['argv'] = list(map(str, sys.argv))[:3]
        # restore, so that one contamination does not mask the next
        os.chdir(cwd0)
        sys.argv = argv0
        out.write(json.dumps(rec) + '\n')
        out.flush()


if __name__ == '__main__':
    main()
