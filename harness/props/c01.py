"""C01 — levelized cost equals its documented definition.

proof: GeoVerif.Properties.C01 (model of CalculateLCOELCOHLCOC = documented closed forms, all L / series / rates)
tie:   whole runs through the observer hook; the run's own CCap, Coam, rates, reported averages and yearly series go to
       the Lean driver, which evaluates `lcoe` exactly; compared with economics.LCOE/LCOH/LCOC and the report lines.
"""
from __future__ import annotations

import json
import math
import re
from fractions import Fraction

from .. import core, geo

RULE = ('whole runs: Examples + Grid (3 economic models x 8 end-uses x plant types) x lifetime/time-step choices x random in-range '
        'draws of rates, cost switches, drawdown (year-to-year varying series), add-ons, ITC, fixed totals. '
        'non-trivial = run succeeded and at least one levelized cost non-zero; distinct by parameter set')

EU_MAP = {'ELECTRICITY': 'elec'}
ECON = {'FCR': 1, 'STANDARDIZED_LEVELIZED_COST': 2, 'BICYCLE': 3}


def end_use(snap) -> str | None:
    eu = geo.enum_name(snap['surfaceplant']['p']['enduse_option']['value'])
    pt = geo.enum_name(snap['surfaceplant']['p']['plant_type']['value'])
    if eu == 'ELECTRICITY':
        return 'elec'
    if eu == 'HEAT':
        return {'ABSORPTION_CHILLER': 'chiller', 'HEAT_PUMP': 'heatPump', 'DISTRICT_HEATING': 'district'}.get(pt, 'heat')
    if eu and eu.startswith('COGENERATION'):
        return 'cogen'
    return None


def lcoe_args(snap, econ_obj='economics') -> dict | None:
    """arguments of the Lean `lcoe` op from a snapshot; None when the configuration is outside the model (econ model 4, SUTRA…)"""
    E = snap[econ_obj]['p']
    S = snap['surfaceplant']['p']
    econ = ECON.get(geo.enum_name(E['econmodel']['value']))
    eu = end_use(snap)
    if econ is None or eu is None:
        return None
    if snap['economics']['class'] not in ('Economics', 'SBTEconomics', 'EconomicsAddOns'):
        return None
    L = S['plant_lifetime']['value']

    def ser(name, src=S):
        v = src.get(name, {}).get('value') if name in src else None
        if isinstance(v, list) and len(v) == L:
            return v
        return [0.0] * L

    def num(name, src=E, default=0.0):
        v = src.get(name, {}).get('value') if name in src else None
        return default if v is None or isinstance(v, (list, dict)) else v

    a = {
        'econ': econ, 'eu': eu, 'L': L,
        'ccap': E['CCap']['value'], 'coam': E['Coam']['value'], 'ratio': E['CAPEX_heat_electricity_plant_ratio']['value'],
        'rate': S['electricity_cost_to_buy']['value'],
        'fcr': E['FCR']['value'], 'ic': E['inflrateconstruction']['value'], 'd': E['discountrate']['value'],
        'fib': E['FIB']['value'], 'bir': E['BIR']['value'], 'eir': E['EIR']['value'], 'ctr': E['CTR']['value'],
        'gtr': E['GTR']['value'], 'ritc': E['RITC']['value'], 'ptr': E['PTR']['value'], 'rinfl': E['RINFL']['value'],
        'net': ser('NetkWhProduced'), 'heat': ser('HeatkWhProduced'), 'cool': ser('cooling_kWh_Produced'),
        'pump': ser('PumpingkWh'), 'hp': ser('heat_pump_electricity_kwh_used'),
        'ng': ser('annualngcost', E), 'demand': num('annual_heating_demand', S),
        'avgPump': num('averageannualpumpingcosts'), 'avgHp': num('averageannualheatpumpelectricitycost'),
        'avgNg': num('averageannualngcost'),
    }
    return a


def args_line(cid: str, a: dict) -> str:
    parts = [f'lcoe {cid}']
    for k, v in a.items():
        if isinstance(v, list):
            parts.append(f'{k}={core.fracs(v)}')
        elif k in ('econ', 'eu', 'L'):
            parts.append(f'{k}={v}')
        else:
            parts.append(f'{k}={core.frac(v)}')
    return ' '.join(parts)


def finite_args(a: dict) -> bool:
    for v in a.values():
        for x in (v if isinstance(v, list) else [v]):
            if isinstance(x, float) and (math.isnan(x) or math.isinf(x)):
                return False
    return True


REPORT_LABELS = {'lcoe': r'Electricity breakeven price:\s+(-?[\d.]+) cents/kWh',
                 'lcoh': r'Direct-Use heat breakeven price \(LCOH\):\s+(-?[\d.]+) USD/MMBTU',
                 'lcoc': r'Direct-Use Cooling Breakeven Price \(LCOC\):\s+(-?[\d.]+) USD/MMBTU'}


def _run(params):
    r = geo.run_geophires(params, want_report=True)
    if not r['ok']:
        return {'ok': False, 'error': r['error'], 'params': params}
    s = r['snaps']['calculated']
    out = {'ok': True, 'params': params, 'args': lcoe_args(s), 'report': {}}
    E = s['economics']['p']
    out['py'] = {'lcoe': E['LCOE']['value'], 'lcoh': E['LCOH']['value'], 'lcoc': E['LCOC']['value']}
    out['units'] = {k: E[k.upper()]['CurrentUnits'] for k in ('lcoe', 'lcoh', 'lcoc')}
    for k, pat in REPORT_LABELS.items():
        m = re.search(pat, r['report'])
        if m:
            out['report'][k] = m.group(1)
    if s.get('addeconomics'):
        out['addon_args'] = lcoe_args(s, 'addeconomics')
        A = s['addeconomics']['p']
        out['addon_py'] = {'lcoe': A['LCOE']['value'], 'lcoh': A['LCOH']['value']}
    out['cls'] = s['economics']['class']
    return out


def gen_cases(rng, n_grid, examples=True, slow=False):
    cases = []
    if examples:
        for f in geo.example_files(include_slow=slow):
            cases.append(('example:' + f.name, geo.example_text(f)))
    g = geo.grid()
    for k in range(n_grid):
        econ, eu, pl = g[k % 96] if k < 96 * 2 else rng.choice(g)
        L = rng.choice([2, 3, 7, 20, 30, 40, 100]) if pl != 7 else rng.choice([3, 20, 30])
        n = rng.choice([1, 2, 4, 12]) if L <= 40 else rng.choice([1, 2])
        p = geo.base_params(econ, eu, pl, L=L, n=n)
        if k >= 96:
            p['Drawdown Parameter'] = rng.choice([0.0, 0.002, 0.005, 0.01, 0.03])
            if rng.random() < 0.3 and pl not in (3, 4):
                p['Maximum Drawdown'] = rng.choice([0.1, 0.3, 0.6])
            p['Fixed Charge Rate'] = rng.choice([0.0, 0.05, 0.108, 0.3, 1.0])
            p['Discount Rate'] = rng.choice([0.0, 0.03, 0.07, 0.125, 0.5])
            p['Inflation Rate During Construction'] = rng.choice([0.0, 0.05, 0.15, 0.5])
            p['Construction Years'] = rng.choice([1, 2, 3, 5])   # the accrued-financing factor is applied once, whatever the construction period
            p['Fraction of Investment in Bonds'] = rng.choice([0.0, 0.3, 0.5, 1.0])
            p['Inflated Bond Interest Rate'] = rng.choice([0.02, 0.05, 0.1])
            p['Inflated Equity Interest Rate'] = rng.choice([0.04, 0.1, 0.2])
            p['Inflation Rate'] = rng.choice([0.0, 0.02, 0.1])
            p['Combined Income Tax Rate'] = rng.choice([0.0, 0.2, 0.3, 0.6])
            p['Gross Revenue Tax Rate'] = rng.choice([0.0, 0.02, 0.3])
            p['Property Tax Rate'] = rng.choice([0.0, 0.01, 0.05])
            p['Electricity Rate'] = rng.choice([0.0, 0.07, 0.15, 0.5])
            if rng.random() < 0.4:
                p['Investment Tax Credit Rate'] = rng.choice([0.0, 0.1, 0.3])
            if rng.random() < 0.3:
                p['Total Capital Cost'] = rng.choice([30, 75.5, 400])
            if rng.random() < 0.3:
                p['Total O&M Cost'] = rng.choice([0.5, 3.25, 10])
            if rng.random() < 0.3:
                p['Annual License Fees Etc'] = rng.choice([0.1, 1])
                p['One-time Grants Etc'] = rng.choice([1, 10])
            if eu not in (1, 2) and rng.random() < 0.5:
                p['CHP Electrical Plant Cost Allocation Ratio'] = rng.choice([0.1, 0.5, 0.9])
            if eu not in (1,) and rng.random() < 0.5:
                p['End-Use Efficiency Factor'] = rng.choice([0.5, 0.75, 1.0])
            if eu in (31, 32, 41, 42):
                p['CHP Bottoming Entering Temperature'] = 150
            if eu in (51, 52):
                p['CHP Fraction'] = rng.choice([0.2, 0.5, 0.8])
            if rng.random() < 0.25:
                # add-ons (electricity / heat gains change the energy series the levelized cost is taken over)
                p['Construction Years'] = 1   # (the add-on report table crashes for longer construction periods: no result, nothing to check)
                p['AddOn Nickname 1'] = 'Solar'
                p['AddOn CAPEX 1'] = rng.choice([5, 10, 60])
                p['AddOn OPEX 1'] = rng.choice([0, 1.0])
                p['AddOn Electricity Gained 1'] = rng.choice([0, 5000000.0])
                p['AddOn Heat Gained 1'] = rng.choice([0, 2000000.0])
                p['AddOn Profit Gained 1'] = rng.choice([0, 0.5])
        if rng.random() < 0.5:
            geo.diversify(rng, p)
        cases.append((f'grid:{econ}/{eu}/{pl}/L{L}n{n}#{k}', p))
    return cases


def _run_seq(seq):
    """several runs one after the other in ONE process (state carried between runs of a process must not matter)"""
    return [_run(p) for p in seq]


def near_rate_histories(rng):
    """histories of runs in one process that differ only slightly in a rate (same lifetime): 7 % then 7.02 % then 7.04 %, bond rate 5 % then
    5.1 % … — whatever a process remembers from an earlier run (a cached discount vector, a memoised factor) must not leak into the next"""
    hs = []
    for econ in (2, 3):
        for eu, pl in ((1, 1), (2, 9), (31, 2)):
            L = rng.choice([20, 30])
            base = geo.base_params(econ, eu, pl, L=L, n=1)
            if eu == 31:
                base['CHP Bottoming Entering Temperature'] = 150
            seq = []
            for dr, bond, eq in ((0.07, 0.05, 0.1), (0.0702, 0.051, 0.1), (0.0704, 0.05, 0.1004), (0.07, 0.0502, 0.1), (0.0696, 0.05, 0.1)):
                q = dict(base)
                q.update({'Discount Rate': dr, 'Inflated Bond Interest Rate': bond, 'Inflated Equity Interest Rate': eq, 'Fraction of Investment in Bonds': 0.5})
                seq.append(q)
            hs.append((f'near-rates:{econ}/{eu}/{pl}/L{L}', seq))
    return hs


def evaluate_histories(chk: core.Check, hs):
    out = geo.pmap(_run_seq, [h[1] for h in hs], chk.scratch)
    cases, results = [], []
    for (name, seq), rs in zip(hs, out):
        for j, (p, r) in enumerate(zip(seq, rs)):
            cases.append((f'{name}/run{j + 1}-of-one-process', p))
            results.append(r)
    chk.tag('history/near-rates', len(cases))
    evaluate(chk, cases, results)


def evaluate(chk: core.Check, cases, results=None):
    if results is None:
        results = geo.pmap(_run, [c[1] for c in cases], chk.scratch)
    lines, keep = [], {}
    for k, ((name, _), r) in enumerate(zip(cases, results)):
        if not r.get('ok'):
            chk.tag('run-failed')
            if len(chk.notes) < 6:
                chk.notes.append(f'{name} did not run: {str(r.get("error"))[:140]}')
            continue
        a = r.get('args')
        if a is None:
            chk.tag('outside-model/' + str(r.get('cls')))
            continue
        if not finite_args(a) or any(isinstance(v, float) and not math.isfinite(v) for v in r['py'].values()):
            chk.tag('non-finite')
            continue
        keep[f'c{k}'] = (name, r, a)
        lines.append(args_line(f'c{k}', a))
        if r.get('addon_args') is not None and finite_args(r['addon_args']):
            keep[f'a{k}'] = (name + '/addon-object', {'params': r['params'], 'py': dict(r['addon_py']), 'report': {}, 'units': {}}, r['addon_args'])
            lines.append(args_line(f'a{k}', r['addon_args']))
    res = chk.driver(lines)
    for cid, (name, r, a) in keep.items():
        head, kv = core.parse_kv(res.get(cid, 'missing'))
        if head != 'ok':
            chk.broken('C01/driver', f'driver rejected a case: {res.get(cid)}', {'case': name, 'params': r['params']}, 'correspondence-break')
            continue
        chk.tag(kv['tag'] + ('/addon-object' if cid.startswith('a') else ''))
        L = a['L']
        dens = {'lcoe': core.parse_rat(kv['denE']), 'lcoh': core.parse_rat(kv['denH']), 'lcoc': core.parse_rat(kv['denC'])}
        nontriv = False
        for key in ('lcoe', 'lcoh', 'lcoc'):
            if key not in r['py']:
                continue  # the add-on economics object keeps LCOE and LCOH only
            exact = core.parse_rat(kv[key])
            py = r['py'][key]
            den = dens[key]
            if den == 0:
                chk.tag('zero-denominator')
                continue
            unit = 1e8 * (2.931 if key != 'lcoe' else 1) if a['eu'] != 'district' else 1e2 * 2.931
            scale = (3 * abs(a['ccap']) + L * abs(a['coam']) + L * (abs(a['avgPump']) + abs(a['avgHp']) + abs(a['avgNg'])
                     + max([abs(x) for x in a['ng']] + [0]) + abs(a['rate']) * (max(a['pump'] + [0]) + max(a['hp'] + [0])) / 1e6)) / abs(float(den)) * unit
            ok = core.close(py, exact, 1e-9, scale=scale * 1e-0)
            if exact != 0:
                nontriv = True
            rep = {'case': name, 'params': r['params'], 'quantity': key.upper(), 'reported_by_code': py,
                   'documented_formula_value': float(exact), 'formula_inputs': {k2: (v if not isinstance(v, list) else v[:3] + ['…'] if len(v) > 6 else v) for k2, v in a.items()}}
            if not ok:
                chk.fail(f'C01/{kv["tag"]}/{key}', f'{key.upper()} reported by the code differs from the documented formula applied to the run\'s own '
                         f'capital cost, O&M, other annual costs and energy series ({kv["tag"]})', rep)
            # report line at print precision
            if key in r.get('report', {}):
                printed = Fraction(r['report'][key])
                if abs(printed - Fraction(py)) > Fraction(5001, 1000000) + abs(Fraction(py)) * Fraction(1, 10**12):
                    chk.fail(f'C01/report/{key}', f'report line for {key.upper()} does not show the computed value rounded to 2 decimals',
                             {'case': name, 'params': r['params'], 'printed': str(r['report'][key]), 'computed': py})
                chk.tag('report-line/' + key)
        chk.case(name if name.startswith('example') else json.dumps(r['params'], sort_keys=True, default=str), nontriv)
        if a['L'] <= 3:
            chk.sample({'case': name, 'inputs': {k2: v for k2, v in a.items()}, 'code': r['py'], 'lean': {k2: kv[k2] for k2 in ('lcoe', 'lcoh', 'lcoc')}})
    if not chk.samples and keep:
        cid, (name, r, a) = next(iter(keep.items()))
        chk.sample({'case': name, 'code': r['py'], 'L': a['L'], 'econ': a['econ'], 'eu': a['eu']})


def run(chk: core.Check) -> int:
    clean = chk.prove(['GeoVerif.Properties.C01'])
    quick = chk.tier == 'quick'
    evaluate(chk, gen_cases(chk.rng, 400 if quick else 4000, examples=True, slow=not quick))
    evaluate_histories(chk, near_rate_histories(chk.rng))
    if (not clean or chk.breaks) and not chk.failures:
        evaluate(chk, gen_cases(chk.rng, 1500, examples=False))
    chk.assumptions += ['documented formulas as stated in Properties/C01.lean header (code comments, manual parameter text; no PDF text tool offline)',
                        'F9/F10 (DESIGN §7): peaking-fuel series without boiler efficiency in models 2/3, no pumping cost for FCR cogeneration heat — '
                        'modelled as the code has them (they are "the run\'s own other annual costs")']
    chk.trusted.append('modelled, not verified: SUTRA/AGS economics (economic model 4), float rounding (1e-9 on a condition-aware scale)')
    return chk.finish(rule=RULE)


def replay(chk: core.Check, path: str) -> int:
    body = json.loads(open(path).read())
    evaluate(chk, [(body['replay'].get('case', 'replay'), body['replay']['params'])])
    return chk.finish(rule='replay of one recorded case')
