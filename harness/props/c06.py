"""C06 — results do not depend on the units in which inputs are written.

proof: GeoVerif.Properties.C06 (conversion algebra over an SI-definition unit model; reader stores the same number for every way of writing
       the same quantity; echo faithful for a consistent reader state; currency prefixes; output directive = exact factor; catalogue and
       declaration obligations over tables regenerated from Units.py / the ParameterDicts on every run)
tie:   (A) exhaustive unit-level differential: the real ReadParameter (+ the print-time ConvertUnitsBack) on a deep copy of every real float
           Parameter x every member of its unit enum vs the Lean reader (stored value, echoed quantity);
       (B) whole-run pairs: the same case with one parameter written in its working unit / in another catalogue unit — every computed
           quantity equal, and every report line that changes must denote the same quantity;
       (C) output-units directive: base run vs `Units:<output>, <unit>` — only lines carrying the new label may change, by the exact factor.
"""
from __future__ import annotations

import contextlib
import copy
import io
import logging
import math
import re
from fractions import Fraction

from .. import core, geo
from .c12 import enc

RULE = ('(A) every (module class, float parameter with a unit) x every member of its unit enum (enumerated, complete); (B) seeded (family, parameter, unit) '
        'pairs, 2 whole runs each; (C) seeded (family, output, unit) pairs, 2 whole runs each. non-trivial = unit other than the working unit; '
        'distinct by (class, parameter, unit) / (family, parameter, unit) / (family, output, unit)')

def _not_convertible():
    src = (core.LEAN / 'GeoVerif' / 'Properties' / 'C06.lean').read_text()
    m = re.search(r'def notConvertible : List String :=\s*\[(.*?)\]', src, flags=re.S)
    return set(re.findall(r'"([^"]*)"', m.group(1))) if m else set()


NOT_CONVERTIBLE = _not_convertible()
CURRENCY_TYPES = ('CURRENCY', 'CURRENCYFREQUENCY', 'COSTPERMASS', 'ENERGYCOST')


def rel_close(a: float, b: Fraction, rel=1e-9) -> bool:
    if not isinstance(a, (int, float)) or isinstance(a, bool) or not math.isfinite(a):
        return False
    fa = Fraction(a)
    return abs(fa - b) <= Fraction(rel) * max(abs(b), abs(fa)) or abs(fa - b) <= Fraction(1, 10**300)


def pick_value(p, rng):
    """a value in the parameter's working unit: inside the range, not the default, not the current value"""
    mn, mx = float(p.Min), float(p.Max)
    if math.isfinite(mn) and math.isfinite(mx) and mn < mx:
        for _ in range(20):
            v = mn + (mx - mn) * rng.uniform(0.05, 0.95)
            v = float(f'{v:.6g}')
            if mn < v < mx and v != p.DefaultValue and v != p.value:
                return v
    return None


def _models(extract):
    """(object handed to ReadParameter as `model`, module objects holding a ParameterDict): every GEOPHIRES configuration family, then HIP-RA-X"""
    for fam, settings in list(extract.FAMILIES):
        try:
            m = extract.instantiate_family(settings)
        except Exception:
            continue
        yield m, [getattr(m, a, None) for a in extract.MODULES]
    try:
        from hip_ra_x.hip_ra_x import HIP_RA_X
        h = HIP_RA_X(enable_hip_ra_logging_config=False)
        yield h, [h]
    except Exception:
        return


def unit_level(chk: core.Check, ext):
    import geophires_x.Model  # noqa: F401
    from geophires_x.Parameter import ConvertUnitsBack, ParameterEntry, ReadParameter, floatParameter
    from geophires_x.Units import Units, convertible_unit, get_unit_registry
    from tools import extract

    logging.disable(logging.CRITICAL)
    ureg = get_unit_registry()
    done = set()
    lines, meta = [], {}
    n = 0
    for m, mods in _models(extract):
        for mod in mods:
            if mod is None or not hasattr(mod, 'ParameterDict') or type(mod).__name__ in ('Outputs', 'OutputsAddOns', 'OutputsS_DAC_GT'):
                continue
            cls = type(mod).__name__
            for key, p in mod.ParameterDict.items():
                if not isinstance(p, floatParameter) or (cls, p.Name) in done:
                    continue
                done.add((cls, p.Name))
                pref = p.PreferredUnits
                if not hasattr(pref, 'value') or p.UnitType == Units.NONE:
                    continue
                target = pick_value(p, chk.rng)
                if target is None:
                    continue
                decl_cur = p.CurrentUnits.value if hasattr(p.CurrentUnits, 'value') else str(p.CurrentUnits)
                literal_probes = []
                for u in type(pref):
                    if u == pref or u.value == '':
                        continue
                    # numbers WRITTEN as zero or as a negative number in another unit (0 degF, -4 degF, -500 KUSD): converted like any other
                    for lit in (0.0, -4.0, -500.0):
                        try:
                            back = float(ureg.Quantity(lit, convertible_unit(u.value)).to(convertible_unit(pref.value)).magnitude)
                        except Exception:
                            continue
                        if math.isfinite(back) and float(p.Min) * (1 + 1e-6) < back < float(p.Max) * (1 - 1e-6) and back != p.DefaultValue and back != p.value and (back != lit or lit == 0.0 and back != 0.0):
                            literal_probes.append((u, lit))
                            break
                    # the parameter's DEFAULT (or current) number written in another unit — `3 mile` for a depth whose default is 3 km: a different quantity, converted like any other
                    for lit in {float(p.DefaultValue), float(p.value)} if isinstance(p.DefaultValue, (int, float)) and isinstance(p.value, (int, float)) else ():
                        try:
                            back = float(ureg.Quantity(lit, convertible_unit(u.value)).to(convertible_unit(pref.value)).magnitude)
                        except Exception:
                            continue
                        if math.isfinite(back) and float(p.Min) * (1 + 1e-6) < back < float(p.Max) * (1 - 1e-6) and not math.isclose(back, lit, rel_tol=1e-9):
                            literal_probes.append((u, lit))
                for u, x_forced in [(u, None) for u in type(pref)] + literal_probes:
                    # the number the user writes: the equivalent of `target` in unit u (pint, approximate — the exact number written is what both sides get)
                    try:
                        x = float(ureg.Quantity(target, convertible_unit(pref.value)).to(convertible_unit(u.value)).magnitude)
                        x = float(f'{x:.9g}')
                    except Exception:
                        x = target
                    if x_forced is not None:
                        x = x_forced
                    if not math.isfinite(x):
                        continue
                    q = copy.deepcopy(p)
                    q.Provided, q.Valid = False, False
                    text = f'{x!r} {u.value}' if u.value != '' else None
                    if text is None:
                        continue   # the empty unit text cannot be written after a number
                    try:
                        with contextlib.redirect_stdout(io.StringIO()):
                            ReadParameter(ParameterEntry(Name=p.Name, sValue=text, Comment=''), q, m)
                        outcome, msg = 'accept', None
                    except Exception as e:  # noqa
                        outcome, msg = 'raises', f'{type(e).__name__}: {str(e)[:160]}'
                    stored, cur_after = q.value, (q.CurrentUnits.value if hasattr(q.CurrentUnits, 'value') else str(q.CurrentUnits))
                    echo_val = echo_unit = echo_err = None
                    if outcome == 'accept':
                        try:
                            if not q.UnitsMatch:
                                with contextlib.redirect_stdout(io.StringIO()):
                                    ConvertUnitsBack(q, m)
                            echo_val, echo_unit = q.value, (q.CurrentUnits.value if hasattr(q.CurrentUnits, 'value') else str(q.CurrentUnits))
                        except Exception as e:  # noqa
                            echo_err = f'{type(e).__name__}: {str(e)[:120]}'
                    cid = f'u{n}'
                    n += 1
                    lines.append(f'readunit {cid} given={enc(u.value)} cur={enc(decl_cur)} pref={enc(pref.value)} found=0 x={core.frac(x)}')
                    meta[cid] = dict(cls=cls, name=p.Name, utype=p.UnitType.name, given=u.value, pref=pref.value, decl_cur=decl_cur, text=text, x=x, target=target,
                                     outcome=outcome, msg=msg, stored=stored, cur_after=cur_after, echo_val=echo_val, echo_unit=echo_unit, echo_err=echo_err,
                                     mn=float(p.Min), mx=float(p.Max), default=p.DefaultValue)
    # the same text for several parameters of one unit type with different working units (e.g. '3000 meter' for a depth in km and a height in m):
    # up to 3 texts per (unit type, unit), each tried on every parameter of that type; probes whose value leaves the range are dropped below
    by_type = {}
    for cid, c in list(meta.items()):
        if c['given'] != c['pref']:
            by_type.setdefault((c['utype'], c['given']), [])
            if len(by_type[(c['utype'], c['given'])]) < 3 and c['x'] not in [t[0] for t in by_type[(c['utype'], c['given'])]]:
                by_type[(c['utype'], c['given'])].append((c['x'], c['text']))
    live = {}
    for m2, mods in _models(extract):
        for mod in mods:
            if mod is None or not hasattr(mod, 'ParameterDict') or type(mod).__name__ in ('Outputs', 'OutputsAddOns', 'OutputsS_DAC_GT'):
                continue
            for key, p in mod.ParameterDict.items():
                if isinstance(p, floatParameter) and (type(mod).__name__, p.Name) not in live and hasattr(p.PreferredUnits, 'value') and p.UnitType != Units.NONE:
                    live[(type(mod).__name__, p.Name)] = (p, m2)
    for (cls, pname), (p, m2) in live.items():
        pref = p.PreferredUnits
        decl_cur = p.CurrentUnits.value if hasattr(p.CurrentUnits, 'value') else str(p.CurrentUnits)
        for (utype, given), texts in by_type.items():
            if utype != p.UnitType.name or given == pref.value:
                continue
            for x, text in texts:
                q = copy.deepcopy(p)
                q.Provided, q.Valid = False, False
                try:
                    with contextlib.redirect_stdout(io.StringIO()):
                        ReadParameter(ParameterEntry(Name=p.Name, sValue=text, Comment=''), q, m2)
                    outcome, msg = 'accept', None
                except Exception as e:  # noqa
                    outcome, msg = 'raises', f'{type(e).__name__}: {str(e)[:160]}'
                if outcome != 'accept' or not q.Provided:
                    continue   # out of this parameter's range / a listed finding / equal to the default (reader returns early): the dedicated probe above decides those
                stored, cur_after = q.value, (q.CurrentUnits.value if hasattr(q.CurrentUnits, 'value') else str(q.CurrentUnits))
                cid = f'u{n}'
                n += 1
                lines.append(f'readunit {cid} given={enc(given)} cur={enc(decl_cur)} pref={enc(pref.value)} found=0 x={core.frac(x)}')
                meta[cid] = dict(cls=cls, name=p.Name, utype=utype, given=given, pref=pref.value, decl_cur=decl_cur, text=text, x=x, target=None,
                                 outcome=outcome, msg=msg, stored=stored, cur_after=cur_after, echo_val=stored, echo_unit=pref.value, echo_err=None,
                                 mn=float(p.Min), mx=float(p.Max), default=p.DefaultValue, shared=True)
    res = chk.driver(lines)
    mismatch_names = {d['name'] for d in ext['Units']['data']['declared_mismatch']}
    for cid, c in meta.items():
        head, kv = core.parse_kv(res.get(cid, 'missing'))
        rep = {'class': c['cls'], 'parameter': c['name'], 'unit_type': c['utype'], 'text_given': c['text'], 'working_unit': c['pref'], 'declared_current_unit': c['decl_cur'],
               'code': {'outcome': c['outcome'], 'message': c['msg'], 'stored_value': repr(c['stored']), 'CurrentUnits_after_read': c['cur_after'],
                        'echo_after_ConvertUnitsBack': f'{c["echo_val"]!r} {c["echo_unit"]}' if c['echo_val'] is not None else c['echo_err']},
               'lean': res.get(cid)}
        if head != 'ok':
            chk.broken('C06/driver', f'driver rejected: {res.get(cid)}', rep, 'correspondence-break')
            continue
        nontrivial = c['given'] != c['pref']
        chk.case((c['cls'], c['name'], c['given']), nontrivial)
        tag = kv['tag']
        if tag != 'conv':
            # not dimensionally convertible / not a product of known atoms: outside the property's quantifier when listed in notConvertible
            chk.tag(f'unit/{tag}/{c["outcome"]}')
            if c['given'] not in NOT_CONVERTIBLE and c['pref'] not in NOT_CONVERTIBLE and c['outcome'] != 'accept':
                # a catalogue member the model no longer resolves (the catalogue_coherent obligation is broken) and the reader rejects it too
                chk.fail(f'C06/read/raises/{c["utype"]}/{c["given"]}->{c["pref"]}', f'{c["name"]}: the catalogue lists "{c["given"]}" for this kind of quantity but '
                         f'"{c["text"]}" cannot be read ({(c["msg"] or "")[:90]})', rep)
            continue
        want = core.parse_rat(kv['value'])
        # inside the range (comfortably)?
        if not (Fraction(c['mn']) * (1 + Fraction(1, 10**6)) < want < Fraction(c['mx']) * (1 - Fraction(1, 10**6))) and not (c['mn'] < 0 or c['mx'] < 0):
            chk.tag('unit/conv/skipped-near-bound')
            continue
        if want < Fraction(c['mn']) or want > Fraction(c['mx']):
            chk.tag('unit/conv/skipped-near-bound')
            continue
        kind = 'same-unit' if not nontrivial else 'other-unit'
        pair = f'{c["utype"]}/{c["given"] or "(none)"}->{c["pref"] or "(none)"}'
        declared_odd = c['name'] in mismatch_names and c['decl_cur'] != c['pref']
        if c['outcome'] != 'accept':
            chk.tag(f'unit/conv/{kind}/raises')
            sig = f'C06/declared-units/{c["name"]}' if declared_odd else f'C06/read/raises/{pair}'
            chk.fail(sig, f'{c["name"]}: "{c["text"]}" is a listed, convertible unit for this parameter but reading it fails ({(c["msg"] or "")[:90]})', rep)
            continue
        # value must be the equivalent in the *working* (preferred) unit: that is what the calculations assume
        want_pref = None
        if declared_odd:
            # Lean's `value` is in the declared current unit; the calculation assumes the preferred one
            pass
        if not rel_close(c['stored'], want):
            chk.tag(f'unit/conv/{kind}/value-differs')
            # model and reader disagree on the stored number: the number (in the working unit) must denote what the user wrote, so the
            # disagreement is itself the failing input of the property's first clause
            sig = f'C06/declared-units/{c["name"]}' if declared_odd else f'C06/read/value/{pair}'
            chk.fail(sig, f'{c["name"]}: "{c["text"]}" is stored as {c["stored"]!r} {c["pref"]}, not the equivalent {float(want):.9g} {c["pref"]}', rep)
            continue
        if declared_odd:
            chk.tag(f'unit/conv/{kind}/declared-mismatch')
            chk.fail(f'C06/declared-units/{c["name"]}', f'{c["name"]} is declared with current unit "{c["decl_cur"]}" but working unit "{c["pref"]}": the reader converts to the former, '
                     f'the range test and the calculations assume the latter', rep)
            continue
        chk.tag(f'unit/conv/{kind}/value-right' + ('/shared-text' if c.get('shared') else ''))
        if c.get('shared'):
            continue
        # echo: what the writer will print is (echo_val, echo_unit)
        if c['echo_val'] is None:
            chk.fail(f'C06/echo/raises/{pair}', f'{c["name"]}: converting back for the report fails after reading "{c["text"]}"', rep)
            continue
        want_echo = core.parse_rat(kv['echo'])
        if c['echo_unit'] != c['pref'] or not rel_close(c['echo_val'], want_echo):
            # the known mechanism (F8): the stored number is already in the working unit but CurrentUnits still names the unit the user wrote,
            # so the print-time pass converts a second time — recognised by the value the Lean model of the pinned reader predicts
            double = c['echo_unit'] == c['pref'] and rel_close(c['echo_val'], core.parse_rat(kv['echoPinned']))
            chk.tag(f'unit/conv/{kind}/echo-' + ('double-conversion' if double else 'differs'))
            chk.fail(f'C06/echo/' + ('double-conversion/' if double else 'other/') + pair, f'{c["name"]}: "{c["text"]}" would be echoed as {c["echo_val"]!r} {c["echo_unit"]}, which is not the quantity supplied '
                     f'({float(want_echo):.9g} {c["pref"]})', rep)
        else:
            chk.tag(f'unit/conv/{kind}/echo-right')
        if nontrivial and len(chk.samples) < 3:
            chk.sample(rep)
    chk.coverage['unit_level_pairs'] = len(meta)
    chk.coverage['unit_level_parameters'] = len(done)


# ----------------------------------------------------------------------------------------------------------------------------------
FAMILIES = [
    ('elec-subcritical-orc', lambda: geo.base_params(2, 1, 1, L=20)), ('heat', lambda: geo.base_params(1, 2, 9, L=20)),
    ('chiller', lambda: geo.base_params(2, 2, 5, L=20)), ('heatpump', lambda: geo.base_params(3, 2, 6, L=20)),
    ('cogen-topping', lambda: geo.base_params(2, 31, 2, L=20)), ('flash', lambda: geo.base_params(3, 1, 4, L=20)),
]

TIME_LINES = re.compile(r'Simulation Date|Simulation Time|Calculation Time|Calculation time|GEOPHIRES Version')


def _run(params):
    r = geo.run_geophires(params, stages=('calculated',), want_report=True)
    out = {}
    if 'calculated' in r['snaps']:
        for mod, s in r['snaps']['calculated'].items():
            for k, v in s['out'].items():
                out[f'{mod}.{k}'] = v.get('value')
    return {'ok': r['ok'], 'error': r['error'], 'out': out, 'report': r['report']}


def flat(v):
    if isinstance(v, (int, float)) and not isinstance(v, bool):
        return [float(v)]
    if isinstance(v, (list, tuple)):
        o = []
        for x in v:
            o += flat(x)
        return o
    return []


LINE = re.compile(r'^\s*(?P<label>[^:]+):\s+(?P<num>-?[0-9][0-9.,eE+-]*)\s*(?P<unit>\S.*)?$')


def whole_run_pairs(chk: core.Check, ext, per_family):
    from geophires_x.Units import convertible_unit, get_unit_registry
    ureg = get_unit_registry()
    decls = [d for d in ext['Units']['data']['decls'] if d['kind'] == 'floatParameter' and d['preferred'] and d['preferred'] == d['current']
             and d['unit_type'] not in (None, 'NONE') and d['min'] is not None and d['max'] is not None and d['min'] < d['max']]
    classes = ext['Units']['data']['classes']
    jobs, meta = [], []
    for fam, mk in FAMILIES:
        base = mk()
        r = geo.run_geophires(base, stages=('read',), want_report=False)
        if 'read' not in r['snaps']:
            continue
        present = {m['class'] for m in r['snaps']['read'].values()}
        cands = []
        for d in decls:
            if d['class'] not in present:
                continue
            members = classes.get(d['preferred_class'], [])
            for mbr in members:
                if mbr['text'] and mbr['text'] != d['preferred'] and mbr['expr'] is not None:
                    cands.append((d, mbr['text']))
        cands.sort(key=lambda t: (t[0]['class'], t[0]['name'], t[1]))
        conv = chk.driver([f'uconv k{i} from={enc(u)} to={enc(d["preferred"])} x=1' for i, (d, u) in enumerate(cands)])
        cands = [c for i, c in enumerate(cands) if 'tag=conv' in conv.get(f'k{i}', '')]
        chk.rng.shuffle(cands)
        # parameters the base input sets explicitly are the ones the results depend on: all their pairs are taken, the rest is a seeded sample
        first = [c for c in cands if c[0]['name'] in base]
        rest = [c for c in cands if c[0]['name'] not in base]
        cands = first + rest
        taken = 0
        for ci, (d, unit) in enumerate(cands):
            if ci >= len(first) and taken >= len(first) + per_family:
                break
            v0 = base.get(d['name'])
            if not isinstance(v0, (int, float)) or isinstance(v0, bool):
                mn, mx = d['min'], d['max']
                dv = d['default']
                if dv is None or not (mn < dv < mx):
                    continue
                v0 = float(f'{dv + (min(mx, dv * 1.5 + 1e-9) - dv) * 0.31:.6g}') if dv >= 0 else float(f'{dv * 0.9:.6g}')
                if not (mn < v0 < mx):
                    continue
            try:
                x = float(ureg.Quantity(float(v0), convertible_unit(d['preferred'])).to(convertible_unit(unit)).magnitude)
            except Exception:
                continue
            x = float(f'{x:.12g}')
            b = dict(base)
            b[d['name']] = f'{float(v0)!r} {d["preferred"]}'.strip()
            v = dict(base)
            v[d['name']] = f'{x!r} {unit}'
            jobs += [b, v]
            meta.append((fam, d, unit, v0, x))
            taken += 1
    res = geo.pmap(_run, jobs, chk.scratch, chunksize=2)
    echo_lines, echo_meta = [], []
    for i, (fam, d, unit, v0, x) in enumerate(meta):
        rb, rv = res[2 * i], res[2 * i + 1]
        pair = f'{d["unit_type"]}/{unit}->{d["preferred"]}'
        rep = {'family': fam, 'parameter': d['name'], 'base_line': f'{d["name"]}, {v0!r} {d["preferred"]}', 'variant_line': f'{d["name"]}, {x!r} {unit}',
               'base_ok': rb['ok'], 'variant_ok': rv['ok'], 'variant_error': (rv['error'] or '')[:200]}
        chk.case((fam, d['name'], unit), True)
        if not rb['ok']:
            chk.tag('run/base-failed')
            continue
        if not rv['ok']:
            chk.tag('run/variant-failed')
            chk.fail(f'C06/run/raises/{pair}', f'the case runs with {d["name"]} in {d["preferred"]} but fails with the equivalent value in {unit}', rep)
            continue
        diffs = []
        for k, bv in rb['out'].items():
            vv = rv['out'].get(k)
            fb, fv = flat(bv), flat(vv)
            if len(fb) != len(fv):
                diffs.append((k, 'shape'))
                continue
            scale = max([abs(t) for t in fb] + [0.0])
            for a, b_ in zip(fb, fv):
                if (math.isnan(a) != math.isnan(b_)) or (not math.isnan(a) and abs(a - b_) > 1e-7 * max(scale, abs(a), 1e-300) and abs(a - b_) > 1e-9):
                    diffs.append((k, a, b_))
                    break
        if diffs:
            chk.tag('run/results-differ')
            chk.fail(f'C06/run/results/{pair}/{d["name"]}', f'computed results differ when {d["name"]} is written in {unit} instead of the equivalent in {d["preferred"]}',
                     {**rep, 'first_differences': [list(map(str, t)) for t in diffs[:5]]})
        else:
            chk.tag('run/results-equal')
        bl = [ln for ln in rb['report'].splitlines() if not TIME_LINES.search(ln)]
        vl = [ln for ln in rv['report'].splitlines() if not TIME_LINES.search(ln)]
        if len(bl) != len(vl):
            chk.fail(f'C06/run/report-shape/{pair}/{d["name"]}', 'the report has a different number of lines when only the unit of an input changes', rep)
            continue
        for a, b_ in zip(bl, vl):
            if a == b_:
                continue
            ma, mb = LINE.match(a), LINE.match(b_)
            if not (ma and mb and ma['label'] == mb['label']):
                chk.fail(f'C06/run/echo/other/{pair}/{d["name"]}', f'a report line changes when {d["name"]} is written in {unit}: "{" ".join(b_.split())}" instead of "{" ".join(a.split())}"', rep)
                continue
            echo_lines.append(f'uconv e{len(echo_meta)} from={enc((mb["unit"] or "").strip())} to={enc((ma["unit"] or "").strip())} x={core.frac(float(mb["num"].replace(",", "")))}')
            echo_lines.append(f'readunit d{len(echo_meta)} given={enc(unit)} cur={enc(d["preferred"])} pref={enc(d["preferred"])} found=0 x={core.frac(x)}')
            echo_meta.append((pair, d, unit, rep, a, b_, ma, mb))
    if echo_lines:
        er = chk.driver(echo_lines)
        for j, (pair, d, unit, rep, a, b_, ma, mb) in enumerate(echo_meta):
            head, kv = core.parse_kv(er.get(f'e{j}', 'missing'))
            ok = False
            if head == 'ok' and kv.get('tag') == 'conv':
                got = core.parse_rat(kv['value'])
                basev = Fraction(float(ma['num'].replace(',', '')))
                digits = len(ma['num'].split('.')[1]) if '.' in ma['num'] else 0
                tol = Fraction(1, 10**digits) * 2 + abs(basev) * Fraction(1, 1000)
                ok = abs(got - basev) <= tol
            double = False
            if not ok:
                h2, kv2 = core.parse_kv(er.get(f'd{j}', 'missing'))
                if h2 == 'ok' and kv2.get('tag') == 'conv' and (mb['unit'] or '').strip() == (ma['unit'] or '').strip():
                    shown = Fraction(float(mb['num'].replace(',', '')))
                    pinned = core.parse_rat(kv2['echoPinned'])
                    # writers scale some echoes (x100 for fractions shown as percent): accept the base line's own scale
                    basev = Fraction(float(ma['num'].replace(',', '')))
                    stored = core.parse_rat(kv2['value'])
                    k = basev / stored if stored != 0 else Fraction(1)
                    dg = len(mb['num'].split('.')[1]) if '.' in mb['num'] else 0
                    double = abs(shown - pinned * k) <= Fraction(1, 10**dg) * 2 + abs(pinned * k) * Fraction(1, 1000)
            chk.tag('run/echo-line-' + ('equivalent' if ok else 'double-conversion' if double else 'differs'))
            if not ok:
                chk.fail(f'C06/run/echo/' + ('double-conversion/' if double else 'other/') + f'{pair}/{d["name"]}', f'the report echoes "{" ".join(b_.split())}" for {rep["variant_line"]} (with the working unit it prints "{" ".join(a.split())}")', rep)
    chk.coverage['whole_run_pairs'] = len(meta)


# ----------------------------------------------------------------------------------------------------------------------------------
def _run_report(params):
    r = geo.run_geophires(params, stages=('printed',), want_report=True)
    outs = {}
    if 'printed' in r['snaps']:
        for mod, s in r['snaps']['printed'].items():
            for k, v in s['out'].items():
                outs[k] = {'unit': v.get('CurrentUnits'), 'pref': v.get('PreferredUnits')}
    return {'ok': r['ok'], 'error': r['error'], 'report': r['report'], 'outs': outs}


NUM = re.compile(r'-?\d[\d,]*\.?\d*(?:[eE][+-]?\d+)?')


def output_directive(chk: core.Check, ext, per_family):
    """`Units:<output>, <unit>`: lines may change only where they carry the new label, and then by the exact factor"""
    import geophires_x.Units as U
    classes = ext['Units']['data']['classes']
    by_text = {}
    for cname, members in classes.items():
        for mbr in members:
            by_text.setdefault(mbr['text'], []).append(cname)
    jobs, meta = [], []
    for fam, mk in FAMILIES:
        base = mk()
        r0 = _run_report(base)
        if not r0['ok']:
            continue
        cands = []
        for key, o in r0['outs'].items():
            unit = o['unit']
            for cname in by_text.get(unit, [])[:1]:
                for mbr in classes[cname]:
                    if mbr['text'] and mbr['text'] != unit and mbr['expr'] is not None:
                        cands.append((key, unit, mbr['text']))
        cands.sort()
        conv = chk.driver([f'uconv k{i} from={enc(u)} to={enc(nw)} x=1' for i, (k_, u, nw) in enumerate(cands)])
        cands = [c for i, c in enumerate(cands) if 'tag=conv' in conv.get(f'k{i}', '')]
        chk.rng.shuffle(cands)
        for key, unit, new in cands[:per_family]:
            v = dict(base)
            v[f'Units:{key}'] = new
            jobs.append(v)
            meta.append((fam, key, unit, new, r0['report']))
    res = geo.pmap(_run_report, jobs, chk.scratch, chunksize=2)
    lines, lmeta = [], []
    for (fam, key, unit, new, base_report), rv in zip(meta, res):
        rep = {'family': fam, 'directive': f'Units:{key}, {new}', 'unit_before': unit}
        chk.case((fam, key, new), True)
        if not rv['ok']:
            chk.tag('output/variant-failed')
            chk.fail(f'C06/output/raises/{key}', f'the case fails when output "{key}" is requested in {new}: {(rv["error"] or "")[:120]}', rep)
            continue
        bl = [ln for ln in base_report.splitlines() if not TIME_LINES.search(ln)]
        vl = [ln for ln in rv['report'].splitlines() if not TIME_LINES.search(ln)]
        if len(bl) != len(vl):
            chk.fail(f'C06/output/report-shape/{key}', 'the report has a different number of lines when only an output unit is requested', rep)
            continue
        changed = [(a, b) for a, b in zip(bl, vl) if a != b]
        chk.tag('output/' + ('changes-report' if changed else 'no-visible-line'))
        for a, b in changed:
            na, nb = NUM.findall(a.split(':', 1)[-1] if ':' in a else a), NUM.findall(b.split(':', 1)[-1] if ':' in b else b)
            label = ' '.join((a.split(':')[0] if ':' in a else 'table row').split())
            if ':' in a and new not in b:
                chk.fail(f'C06/output/label/{key}/{label}', f'Units:{key}, {new}: the line "{" ".join(b.split())}" changed (was "{" ".join(a.split())}") but is not labelled {new}', rep)
                continue
            if ':' in a and len(na) == len(nb) and na:
                lines.append(f'uconv o{len(lmeta)} from={enc(unit)} to={enc(new)} x={core.frac(float(na[0].replace(",", "")))}')
                lmeta.append((key, new, label, a, b, na[0], nb[0], rep))
            elif ':' not in a and len(na) == len(nb) and na:
                # a table row: every cell that changed must be the old cell converted by the exact factor (the column's header carries the label)
                for col, (ca, cb) in enumerate(zip(na, nb)):
                    if ca != cb:
                        lines.append(f'uconv o{len(lmeta)} from={enc(unit)} to={enc(new)} x={core.frac(float(ca.replace(",", "")))}')
                        lmeta.append((key, new, f'table column {col}', a, b, ca, cb, rep))
                        break     # one cell per row is enough (rows of one table share the column)
    if lines:
        er = chk.driver(lines)
        for j, (key, new, label, a, b, na, nb, rep) in enumerate(lmeta):
            head, kv = core.parse_kv(er.get(f'o{j}', 'missing'))
            if head != 'ok' or kv.get('tag') != 'conv':
                chk.tag('output/line-not-convertible-by-model')
                continue
            want = core.parse_rat(kv['value'])
            got = Fraction(float(nb.replace(',', '')))
            da = len(na.split('.')[1]) if '.' in na else 0
            db = len(nb.split('.')[1]) if '.' in nb else 0
            # the base line is itself rounded: propagate half a unit of its last digit through the factor
            base = Fraction(float(na.replace(',', '')))
            factor = abs(want / base) if base != 0 else Fraction(1)
            tol = Fraction(1, 10**da) * factor + Fraction(1, 10**db) + abs(want) * Fraction(1, 10**6)
            ok = abs(got - want) <= tol
            chk.tag('output/line-' + ('exact-factor' if ok else 'wrong-factor'))
            if not ok:
                chk.fail(f'C06/output/value/{key}/{label}', f'Units:{key}, {new}: "{" ".join(b.split())}" is not "{" ".join(a.split())}" converted by the exact factor (expected {float(want):.6g})', rep)
    chk.coverage['output_directive_pairs'] = len(meta)


def client_session(chk: core.Check):
    """one default (caching) client asked, in turn, for files that differ only in the unit written after one number: each answer must be the one a fresh
    run of that file gives"""
    from .c12 import _cached_sequence
    base = geo.base_params(2, 1, 1, L=8, n=1)
    seqs = []
    for name, variants in (('Reservoir Depth', ['3', '3 mile', '3 kilometer', '3000 meter']), ('Injection Temperature', ['60', '60 degC', '140 degF', '60 degF']),
                           ('Production Well Diameter', ['8', '8 in', '0.2 meter'])):
        texts = [geo.params_to_text({**base, name: v}) for v in variants]
        seqs.append((name, variants, texts))
    res = geo.pmap(_cached_sequence, [t for _, _, t in seqs], chk.scratch)
    for (name, variants, texts), rows in zip(seqs, res):
        for i, row in enumerate(rows):
            chk.case(('session', name, variants[i]), True)
            chk.tag('session/' + ('agree' if row.get('cached') == row.get('fresh') else 'differ'))
            if row.get('cached') != row.get('fresh'):
                chk.fail(f'C06/session/unit-text-ignored/{name}', f'a client session asked for "{name}, {variants[i]}" after "{name}, {variants[i - 1] if i else ""}" returns a result that a fresh run of that '
                         'file does not give: the unit written after the number was not taken into account', {'parameter': name, 'requests_in_order': variants[:i + 1], 'digests': rows})


def run(chk: core.Check) -> int:
    from tools import extract
    ext = extract.main(['Units'])
    chk.coverage['extract_digest'] = {k: v['digest'] for k, v in ext.items()}
    chk.coverage['catalogue'] = {c: [m['text'] for m in ms] for c, ms in ext['Units']['data']['classes'].items()}
    clean = chk.prove(['GeoVerif.Properties.C06'])
    quick = chk.tier == 'quick'
    unit_level(chk, ext)
    whole_run_pairs(chk, ext, 6 if quick else 80)
    client_session(chk)
    output_directive(chk, ext, 100000)   # complete: every output x convertible catalogue unit x family (about 1500 runs)
    chk.assumptions += ['"dimensionally convertible" = the unit text is a product of atoms the SI model defines and has the dimension of the class\'s first member; the excluded '
                        'members are listed in Properties/C06.notConvertible (other currencies, angles, texts pint reads as something else such as "mt")',
                        'whole-run equality is measured at 1e-7 relative (the reader converts with binary floating point, so the stored number can differ in the last bits)',
                        'report echo lines are compared as quantities with the tolerance of their displayed precision']
    chk.trusted += ['tools/extract.py (catalogue tokeniser)', 'pint is *not* trusted: its conversions are compared with the SI-definition model on every pair']
    return chk.finish(rule=RULE)


def replay(chk: core.Check, path: str) -> int:
    return run(chk)
