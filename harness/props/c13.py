"""C13 — Monte Carlo iterations are independent draws from the requested distributions.

proof: GeoVerif.Properties.C13 (for every pool size, iteration count and schedule: with pairwise distinct worker seeds no two iterations consume
       overlapping generator positions, hence distinct sample vectors for an injective generator; inherited generator state duplicates —
       the pinned F3 behaviour; support of uniform / triangular / binomial transforms; one row per successful iteration)
tie:   real Monte-Carlo runs (HIP-RA-X and GEOPHIRES, worker counts 1 / 2 / 5 / 16, all five distributions, failing iterations) with the
       env-guarded event log of work_package: the theorem's freshness hypothesis and the model's position bookkeeping are checked on the
       real pool (first-task generator states pairwise distinct and different from the parent's; a worker's state after task k is its state
       before task k+1); the Lean schedule model is run on the observed schedule; samples distinct, in support; rows = successful tasks.
"""
from __future__ import annotations

import math
from collections import Counter, defaultdict

from .. import core, geo, mc

RULE = ('real Monte-Carlo runs: programs {HIP-RA-X, GEOPHIRES} x worker counts {1, 2, 5, 16} x iteration counts {1, 7, 40 (quick) … 300 (thorough)} x '
        'distribution mixes (uniform / normal / triangular / lognormal / binomial) x {all succeed, some iterations fail}; non-trivial = every run; '
        'distinct by (program, workers, iterations, mix)')

MIXES = {
    'uniform5': [('Formation Porosity', 'uniform', 9.0, 28.0), ('Reservoir Area', 'uniform', 50.0, 120.0), ('Reservoir Thickness', 'uniform', 0.122, 0.299),
                 ('Reservoir Temperature', 'uniform', 130, 170), ('Rejection Temperature', 'uniform', 20, 33)],
    'all-kinds': [('Reservoir Temperature', 'normal', 200, 10), ('Reservoir Area', 'triangular', 50.0, 70.0, 120.0), ('Reservoir Thickness', 'lognormal', -1.5, 0.1),
                  ('Formation Porosity', 'uniform', 9.0, 28.0), ('Reservoir Life Cycle', 'binomial', 40, 0.5)],
    'one-input': [('Reservoir Temperature', 'uniform', 130, 170)],
    # Reservoir Porosity is limited to [0, 100]: about half of these iterations fail
    'half-fail': [('Reservoir Porosity', 'uniform', 50.0, 150.0), ('Reservoir Temperature', 'uniform', 130, 170)],
    'past-limit-normal': [('Reservoir Porosity', 'normal', 97.0, 4.0), ('Reservoir Thickness', 'uniform', 0.122, 0.299)],
    # every sampled input discrete: different iterations legitimately draw the same vector and write the same row text — each still owns a row
    'all-discrete': [('Reservoir Porosity', 'binomial', 12, 0.5)],
}
# SI quantities of tiny magnitude (numpy prints the draws in exponent notation): support and distinctness must survive the text the sample is turned into
GEO_TINY = [('Reservoir Permeability', 'lognormal', -29.9, 0.5), ('Gradient 1', 'uniform', 30, 60), ('Reservoir Thermal Conductivity', 'uniform', 2.5, 3.5)]
GEO_MIX = [('Gradient 1', 'uniform', 30, 60), ('Utilization Factor', 'uniform', 0.7, 0.95), ('Ambient Temperature', 'triangular', 15, 20, 25), ('Reservoir Heat Capacity', 'normal', 1000, 30)]
GEO_OUTPUTS = ['Average Net Electricity Production', 'Electricity breakeven price', 'Total capital costs']


def in_support(dist, args, v: float) -> bool:
    if dist == 'uniform':
        return float(args[0]) <= v < float(args[1]) or (float(args[0]) == float(args[1]) == v)
    if dist == 'triangular':
        return float(args[0]) <= v <= float(args[2])
    if dist == 'lognormal':
        return v > 0
    if dist == 'binomial':
        return float(v).is_integer() and 0 <= v <= int(args[0])
    return math.isfinite(v)   # normal


def analyse(chk: core.Check, r: dict, label: tuple):
    job = r['job']
    inputs = job['inputs']
    rep = {'program': job['program'], 'workers': job.get('workers'), 'iterations': job['iterations'], 'mix': job['mix'], 'settings': job['settings'], 'base': job['base'],
           'run_error': r.get('error')}
    chk.case(label, True)
    ev = r['events']
    sampled = [e for e in ev if e['event'] == 'sampled']
    rows_ev = [e for e in ev if e['event'] == 'row']
    if len(sampled) != job['iterations']:
        chk.fail('C13/tasks-not-run', f'{len(sampled)} of {job["iterations"]} requested iterations were started', {**rep, 'sampled_events': len(sampled)})
        return
    # ---- the model's bookkeeping and the theorem's hypothesis, on the real pool ---------------------------------------------------
    by_pid = defaultdict(list)
    for e in sampled:
        by_pid[e['pid']].append(e)
    chk.tag(f'pool/{len(by_pid)}-workers-used')
    firsts = {}
    for pid, es in by_pid.items():
        firsts[pid] = tuple(es[0]['rng_before'])
        for a, b in zip(es, es[1:]):
            if a['rng_after'] != b['rng_before']:
                chk.broken('C13/correspondence/position-bookkeeping', 'a worker\'s generator state before a task is not its state after its previous task (the model\'s `pos` bookkeeping)',
                           {**rep, 'pid': pid}, 'correspondence-break')
        for e in es:
            if job['inputs'] and e['rng_before'] == e['rng_after']:
                chk.broken('C13/correspondence/no-draw', 'a task sampled inputs without advancing the generator', {**rep, 'pid': pid}, 'correspondence-break')
    dup_first = [s for s, c in Counter(firsts.values()).items() if c > 1]
    inherited = [pid for pid, s in firsts.items() if list(s) == r.get('parent_rng')]
    fresh = not dup_first and not inherited
    chk.tag('pool/fresh-seeds' if fresh else 'pool/SHARED-STATE')
    # ---- Lean schedule model on the observed schedule ------------------------------------------------------------------------------
    pids = sorted(by_pid)
    sched = [pids.index(e['pid']) for e in sampled]
    d = len(inputs)
    out = chk.driver([f'mcsched s d={d} seeds={",".join(str(i + 1) for i in range(len(pids)))} sched={",".join(map(str, sched))}'])
    head, kv = core.parse_kv(out.get('s', 'missing'))
    if head != 'ok' or int(kv['n']) != len(sampled):
        chk.broken('C13/driver', f'mcsched: {out.get("s")}', rep, 'correspondence-break')
    else:
        model_samples = [tuple(map(int, s.split(':'))) for s in kv['samples'].split(',')] if kv['samples'] else []
        # k-th task of a worker starts at position k*d in the model; in the log it is the k-th event of that pid
        seen = Counter()
        for (seed, start, ln), e in zip(model_samples, sampled):
            k = seen[e['pid']]
            seen[e['pid']] += 1
            if seed != pids.index(e['pid']) + 1 or start != k * d or ln != d:
                chk.broken('C13/correspondence/schedule', 'Lean schedule model and the logged schedule disagree on which positions a task consumed', rep, 'correspondence-break')
                break
        if len(set(model_samples)) != len(model_samples):
            chk.broken('C13/correspondence/model-duplicates', 'the Lean model yields overlapping draws for a fresh pool', rep, 'proof-break')
    # ---- the property on the real samples ---------------------------------------------------------------------------------------------
    vectors = []
    for e in sampled:
        pairs = [ln.split(', ', 1) for ln in e['entries'].splitlines() if ln]
        vectors.append(tuple(v for _, v in pairs))
        for (name, v), spec in zip(pairs, inputs):
            chk.tag('dist/' + spec[1])
            try:
                ok = name == spec[0] and in_support(spec[1], spec[2:], float(v))
            except ValueError:
                ok = False
            if not ok:
                chk.fail(f'C13/out-of-support/{spec[1]}', f'sampled value {v} for {name} is outside the support of {spec[1]}{tuple(spec[2:])}', {**rep, 'entries': e['entries']})
    # a continuous distribution has no atoms: one value drawn twice for the same input means the values are not draws from it (e.g. clipped to a bound)
    for i, spec in enumerate(inputs):
        nondegenerate = (spec[1] == 'uniform' and float(spec[2]) < float(spec[3])) or (spec[1] in ('normal', 'lognormal') and float(spec[3]) > 0) or \
                        (spec[1] == 'triangular' and float(spec[2]) < float(spec[4]))
        if not nondegenerate:
            continue
        col = Counter(v[i] for v in vectors if i < len(v))
        rep_ = [(x, c) for x, c in col.items() if c > 1]
        # (replicated whole vectors are reported below as replicated draws; here: a single value that recurs while the other inputs differ)
        if rep_ and len(inputs) > 1 and len(set(vectors)) == len(vectors):
            x, c = max(rep_, key=lambda t: t[1])
            chk.fail(f'C13/atom-in-continuous-input/{spec[1]}', f'{c} of {len(vectors)} iterations drew exactly {x} for {spec[0]}, requested as {spec[1]}{tuple(spec[2:])}: a continuous distribution '
                     f'does not repeat a value — the samples are not draws from the requested distribution', {**rep, 'input': spec[0], 'value': x, 'times': c})
        elif rep_ and len(inputs) == 1:
            x, c = max(rep_, key=lambda t: t[1])
            if c > 1 and fresh:
                chk.fail(f'C13/atom-in-continuous-input/{spec[1]}', f'{c} of {len(vectors)} iterations drew exactly {x} for {spec[0]}, requested as {spec[1]}{tuple(spec[2:])}, from freshly seeded workers',
                         {**rep, 'input': spec[0], 'value': x, 'times': c})
    continuous = [i for i, spec in enumerate(inputs) if spec[1] != 'binomial']
    cv = [tuple(v[i] for i in continuous) for v in vectors]
    if continuous:
        dups = [v for v, c in Counter(cv).items() if c > 1]
        if dups:
            chk.fail('C13/replicated-draws', f'{len(cv)} iterations produced only {len(set(cv))} distinct sample vectors of the continuous inputs: draws are replicated across iterations / workers',
                     {**rep, 'distinct': len(set(cv)), 'iterations': len(cv), 'a_replicated_vector': list(dups[0]), 'workers_sharing_initial_generator_state': len(firsts) - len(set(firsts.values())) + (1 if dup_first else 0),
                      'workers_with_parent_state': len(inherited)})
        elif not fresh:
            chk.fail('C13/replicated-draws', 'worker processes start from the same generator state (inherited from the parent / from each other): their draws are replicas',
                     {**rep, 'workers': len(firsts), 'distinct_initial_states': len(set(firsts.values())), 'workers_with_parent_state': len(inherited)})
    # ---- rows -----------------------------------------------------------------------------------------------------------------------------
    if r['file'] is None:
        chk.fail('C13/no-result-file', 'the Monte-Carlo run left no result file', rep)
        return
    header, rows, tail = mc.parse_file(r['file'], len(job['outputs']))
    written = [e for e in rows_ev if e.get('written')]
    chk.tag('rows/' + ('all' if len(rows) == job['iterations'] else 'some-failed' if rows else 'none'))
    if len(rows) != len(written):
        chk.fail('C13/rows-vs-successes', f'the result file has {len(rows)} rows but {len(written)} iterations completed their simulation and appended a row',
                 {**rep, 'rows': len(rows), 'rows_appended_by_workers': len(written)})
    if job['mix'] not in ('half-fail', 'past-limit-normal') and len(rows) != job['iterations']:
        chk.fail('C13/rows-vs-iterations', f'every iteration is in range and simulates, but the file has {len(rows)} rows for {job["iterations"]} iterations', {**rep, 'rows': len(rows)})
    if job['mix'] in ('half-fail', 'past-limit-normal'):
        # an iteration fails exactly when its porosity sample is > 100: rows must be exactly the others
        expect = sum(1 for v in vectors if float(v[0]) <= 100.0)
        if len(rows) != expect:
            chk.fail('C13/rows-vs-successes', f'{expect} iterations drew an in-range porosity (and simulate), the file has {len(rows)} rows', {**rep, 'rows': len(rows), 'expected': expect})
    chk.sample({'program': job['program'], 'workers_requested': job.get('workers'), 'worker_processes_used': len(by_pid), 'iterations': job['iterations'], 'distinct_vectors': len(set(cv)),
                'rows': len(rows), 'first_row': rows[0] if rows else None})


def run(chk: core.Check) -> int:
    clean = chk.prove(['GeoVerif.Properties.C13'])
    quick = chk.tier == 'quick'
    jobs = []

    def add(program, mix, inputs, outputs, base, iterations, workers):
        jobs.append({'program': program, 'mix': mix, 'inputs': [list(i) for i in inputs], 'outputs': outputs, 'base': base, 'iterations': iterations, 'workers': workers,
                     'settings': mc.settings_text(inputs, outputs, iterations)})

    plan = [('uniform5', 40, 16), ('uniform5', 7, 2), ('all-kinds', 40, 5), ('one-input', 24, 16), ('half-fail', 30, 5), ('uniform5', 1, 1), ('all-kinds', 9, 1),
            ('half-fail', 160, 16), ('past-limit-normal', 40, 8), ('all-discrete', 40, 5)]   # >= 8 x CPUs iterations with failures: batching of tasks must not let a failure swallow its neighbours
    if not quick:
        plan += [('uniform5', 300, 16), ('all-kinds', 300, 16), ('half-fail', 120, 16), ('one-input', 100, 3), ('uniform5', 64, 2), ('all-kinds', 50, 2)]
    for mix, it, w in plan:
        add('HIP_RA_X', mix, MIXES[mix], mc.HIP_OUTPUTS[:2], mc.HIP_BASE, it, w)
    gbase = geo.params_to_text(geo.base_params(2, 1, 1, L=10, n=2))
    add('GEOPHIRES', 'geophires-mix', GEO_MIX, GEO_OUTPUTS, gbase, 12 if quick else 60, 4)
    add('GEOPHIRES', 'tiny-magnitude', GEO_TINY, GEO_OUTPUTS, gbase, 8 if quick else 40, 4)
    # a history: a one-iteration run, then an ordinary run from the SAME process — the second run's workers must be as fresh as any
    add('HIP_RA_X', 'uniform5', MIXES['uniform5'], mc.HIP_OUTPUTS[:2], mc.HIP_BASE, 1, 16)
    jobs[-1]['second'] = {'base': mc.HIP_BASE, 'settings': mc.settings_text(MIXES['uniform5'], mc.HIP_OUTPUTS[:2], 40)}
    res = mc.run_many(jobs, chk.scratch, parallel=2)
    for j, r in zip(jobs, res):
        analyse(chk, r, (j['program'], j['mix'], j['iterations'], j['workers']))
        if j.get('second') and r.get('second'):
            chk.tag('run/after-a-one-iteration-run-in-the-same-process')
            j2 = {**j, 'settings': j['second']['settings'], 'iterations': 40, 'mix': j['mix'] + '/second-run-of-the-process'}
            analyse(chk, {**r['second'], 'job': j2}, (j['program'], j['mix'], 'second', 40))
    # a stale lock left in the results directory by an earlier (killed) run must cost nothing and duplicate nothing
    jobs = []
    add('HIP_RA_X', 'uniform5', MIXES['uniform5'], mc.HIP_OUTPUTS[:2], mc.HIP_BASE, 24, 4)
    jobs[-1]['stale_lock'] = True
    res = mc.run_many(jobs, chk.scratch, parallel=1)
    for j, r in zip(jobs, res):
        chk.tag('stale-lock-run')
        analyse(chk, r, (j['program'], 'stale-lock', j['iterations']))
    # contention: short tasks, 16 workers per run, several runs at once — the appends collide (a lost or torn row shows here)
    jobs = []
    for k in range(6 if quick else 24):
        add('HIP_RA_X', 'one-input', MIXES['one-input'], mc.HIP_OUTPUTS[:2], mc.HIP_BASE, 48, 16)
    res = mc.run_many(jobs, chk.scratch, parallel=4)
    for k, (j, r) in enumerate(zip(jobs, res)):
        chk.tag('contention-run')
        analyse(chk, r, (j['program'], 'contention', k))
    chk.assumptions += ['the generator is treated as an injective stream per seed (ideal PRNG) and OS entropy gives distinct seeds: both are *checked* on each run through the logged generator states, not assumed',
                        'statistical independence / goodness of fit of the distributions is not expressible as a theorem and not tested',
                        'pylocker\'s 10 s lock time-out would silently drop a row: a runtime behaviour the model does not exhibit (rows vs appended-events is compared on every run)']
    chk.trusted += ['numpy.random (the stream), concurrent.futures / fork (the pool)', 'the hook log (cef3b93): one JSON line per sampling and per row append, O_APPEND']
    return chk.finish(rule=RULE)


def replay(chk: core.Check, path: str) -> int:
    return run(chk)
