"""C18 — outputs respond monotonically where the model says they must.

proof: GeoVerif.Properties.C18 (corollaries over the C01/C03/C04/C05 models + Ramey at R + regenerated well-cost table)
tie:   those models' correspondences (C01/C03/C04/C05 checks); here: the Ramey function compared between the real RameyCalc and the
       Float instance of the same generic definition; ordered pairs of real runs for every clause.
"""
from __future__ import annotations

import json
import math
import struct
from fractions import Fraction

from .. import core, geo
from . import c01

RULE = ('ordered pairs of real runs: gradient, depth, drawdown rate, flow rate per well (Ramey), depth under each of the 17 drilling-cost '
        'correlations, every cost input and cost adjustment factor (NPV and levelized costs); Ramey direct differential at Float. '
        'non-trivial = both runs succeeded and the varied parameter changed something; distinct by (base, parameter, values)')

COST_PARAMS = [
    ('Reservoir Stimulation Capital Cost', [0, 0.5, 2.04, 8, 31.7]), ('Exploration Capital Cost', [0, 0.5, 3, 20]),
    ('Well Drilling and Completion Capital Cost', [1.5, 4, 12]), ('Surface Plant Capital Cost', [5, 25, 120]),
    ('Field Gathering System Capital Cost', [0, 0.3, 2, 9]), ('Wellfield O&M Cost', [0, 0.1, 0.8, 3]), ('Surface Plant O&M Cost', [0, 0.2, 1.5, 6]),
    ('Water Cost', [0.0, 0.2, 1]), ('Total Capital Cost', [20, 75, 300]), ('Total O&M Cost', [0.5, 3, 12]),
    ('Reservoir Stimulation Capital Cost Adjustment Factor', [0, 0.5, 1, 3, 10]), ('Exploration Capital Cost Adjustment Factor', [0, 1, 4]),
    ('Well Drilling and Completion Capital Cost Adjustment Factor', [0.2, 1, 2.5, 10]), ('Surface Plant Capital Cost Adjustment Factor', [0.1, 1, 5]),
    ('Field Gathering System Capital Cost Adjustment Factor', [0, 1, 6]), ('Wellfield O&M Cost Adjustment Factor', [0, 1, 7]),
    ('Surface Plant O&M Cost Adjustment Factor', [0, 1, 7]), ('Water Cost Adjustment Factor', [0, 1, 10]),
    ('One-time Flat License Fees Etc', [0, 2, 15]), ('Annual License Fees Etc', [0, 0.3, 2]), ('Electricity Rate', [0.02, 0.07, 0.3]),
    ('All-in Vertical Drilling Costs', [600, 1846, 4000]),
    # plant-specific cost inputs (heat pump, absorption chiller, district heating), from the lower bound 0 of their accepted range upwards
    ('Heat Pump Capital Cost', [0, 0.5, 4, 20]), ('Absorption Chiller Capital Cost', [0, 0.5, 5, 30]), ('Absorption Chiller O&M Cost', [0, 0.1, 1.5]),
    ('District Heating Piping Cost Rate', [500, 1200, 3000]), ('Peaking Fuel Cost Rate', [0.01, 0.034, 0.1]),
]
PLANT_OF = {'Heat Pump Capital Cost': 6, 'Absorption Chiller Capital Cost': 5, 'Absorption Chiller O&M Cost': 5, 'District Heating Piping Cost Rate': 7, 'Peaking Fuel Cost Rate': 7}


def _run(params):
    r = geo.run_geophires(params, want_report=False)
    if not r['ok']:
        return {'ok': False, 'error': r['error'], 'params': params}
    s = r['snaps']['calculated']
    E, R, W, S = s['economics']['p'], s['reserv']['p'], s['wellbores']['p'], s['surfaceplant']['p']
    out = {'ok': True, 'params': params,
           'Trock': R['Trock']['value'], 'Tres': R['Tresoutput']['value'], 'Tprod0': (W['ProducedTemperature']['value'] or [None])[0],
           'cwell1': E['cost_one_production_well']['value'], 'depth': R['depth']['value'], 'depth_units': R['depth']['CurrentUnits'],
           'econ': {k: E[k]['value'] for k in ('LCOE', 'LCOH', 'LCOC', 'ProjectNPV', 'CCap', 'Coam')},
           'lcoe_args': c01.lcoe_args(s), 'redrill': W['redrill']['value']}
    net = {'NetkWhProduced': S['NetkWhProduced']['value'], 'HeatkWhProduced': S['HeatkWhProduced']['value']}
    if 'cooling_kWh_Produced' in S:
        net['cooling_kWh_Produced'] = S['cooling_kWh_Produced']['value']
    out['energy_positive'] = all((not isinstance(v, list)) or all(x >= 0 for x in v) for v in net.values())
    return out


def gen_pairs(rng, n):
    pairs = []
    kinds = ['gradient', 'depth', 'drawdown', 'flow', 'wellcost', 'cost', 'cost', 'cost', 'cost']
    for i in range(n):
        kind = kinds[i % len(kinds)]
        econ = rng.choice([1, 2, 3])
        if kind in ('gradient', 'depth', 'drawdown', 'flow', 'wellcost'):
            base = geo.base_params(econ, 2, 9, L=rng.choice([10, 30]), n=rng.choice([1, 4]))
        else:
            cat = rng.choice(['elec', 'heat', 'cogen'])
            eu, pl = {'elec': (1, rng.choice(geo.ELEC_PLANTS)), 'heat': (2, rng.choice([9, 5, 6])),
                      'cogen': (rng.choice([31, 32, 41, 42, 51, 52]), rng.choice(geo.ELEC_PLANTS))}[cat]
            base = geo.base_params(econ, eu, pl, L=rng.choice([10, 30]), n=rng.choice([1, 2]))
        a, b, what = dict(base), dict(base), None
        if kind == 'gradient':
            seg = rng.choice([1, 2, 3])
            base['Number of Segments'] = seg
            for j in range(1, seg + 1):
                base[f'Gradient {j}'] = rng.choice([25, 40, 60])
                if j < seg:
                    base[f'Thickness {j}'] = rng.choice([0.8, 1.5])
            base['Maximum Temperature'] = rng.choice([150, 250, 400])
            base['Reservoir Depth'] = rng.choice([2, 3.5, 6])
            j = rng.randint(1, seg)
            g1, g2 = sorted(rng.sample([20, 30, 45, 70, 95], 2))
            a, b = dict(base), dict(base)
            a[f'Gradient {j}'], b[f'Gradient {j}'] = g1, g2
            what = (f'Gradient {j}', g1, g2)
        elif kind == 'depth':
            base['Maximum Temperature'] = rng.choice([150, 250, 400])
            seg = rng.choice([1, 2, 3, 4])
            base['Number of Segments'] = seg
            for j in range(1, seg + 1):
                base[f'Gradient {j}'] = rng.choice([30, 40, 50, 80])
                if j < seg:
                    base[f'Thickness {j}'] = rng.choice([0.5, 1, 2])
            # depths straddling the layer interfaces as well as far from them
            marks = [0.6, 0.99, 1.01, 1.49, 1.51, 2.49, 2.51, 2.99, 3.01, 3.49, 3.51, 4.01, 5, 7.5, 12]
            d1, d2 = sorted(rng.sample(marks, 2))
            a, b = dict(base), dict(base)
            a['Reservoir Depth'], b['Reservoir Depth'] = d1, d2
            what = ('Reservoir Depth', d1, d2)
        elif kind == 'drawdown':
            p1, p2 = sorted(rng.sample([0.0, 0.001, 0.005, 0.01, 0.02, 0.03], 2))
            base['Maximum Drawdown'] = 1
            a, b = dict(base), dict(base)
            a['Drawdown Parameter'], b['Drawdown Parameter'] = p1, p2
            what = ('Drawdown Parameter', p1, p2)
        elif kind == 'flow':
            base['Ramey Production Wellbore Model'] = 1
            base['Reservoir Depth'] = rng.choice([2, 3, 4.5, 6])
            base['Gradient 1'] = rng.choice([40, 50])
            base['Injection Temperature'] = rng.choice([50, 70, 90])
            q1, q2 = sorted(rng.sample([1, 1.5, 1.9, 2, 3, 5, 20, 40, 70, 110, 200], 2))
            a, b = dict(base), dict(base)
            a['Production Flow Rate per Well'], b['Production Flow Rate per Well'] = q1, q2
            what = ('Production Flow Rate per Well', q1, q2)
        elif kind == 'wellcost':
            base['Well Drilling Cost Correlation'] = (i // len(kinds)) % 17 + 1
            base['Gradient 1'] = 20
            d1, d2 = sorted(rng.sample([0.5, 0.75, 1.2, 2.5, 4, 6.5, 7, 9, 14.9], 2))
            a, b = dict(base), dict(base)
            a['Reservoir Depth'], b['Reservoir Depth'] = d1, d2
            what = ('Reservoir Depth', d1, d2)
        else:
            name, vals = rng.choice(COST_PARAMS)
            v1, v2 = sorted(rng.sample(vals, 2))
            if name in PLANT_OF:
                # a plant-specific cost input: run it on the plant it belongs to
                base = geo.base_params(econ, 2, PLANT_OF[name], L=rng.choice([10, 30]) if PLANT_OF[name] != 7 else 20, n=1)
            if rng.random() < 0.4:
                base['Investment Tax Credit Rate'] = rng.choice([0.1, 0.3, 0.5, 0.765])
                base['Combined Income Tax Rate'] = rng.choice([0.2, 0.42])
            if rng.random() < 0.3:
                base['Inflated Bond Interest Rate'] = rng.choice([0.02, 0.05])
                base['Inflated Equity Interest Rate'] = rng.choice([0.04, 0.1])
            if rng.random() < 0.3:
                geo.diversify(rng, base, 0.3)
            a, b = dict(base), dict(base)
            a[name], b[name] = v1, v2
            what = (name, v1, v2)
        pairs.append((kind, what, a, b))
    return pairs


def le(x, y, rel=1e-12):
    return x <= y + rel * max(abs(x), abs(y)) + 1e-300


def evaluate(chk: core.Check, pairs):
    res = geo.pmap(_run, [p[2] for p in pairs] + [p[3] for p in pairs], chk.scratch)
    m = len(pairs)
    klines, kmeta = [], {}
    pending = []
    for i, (kind, what, a, b) in enumerate(pairs):
        ra, rb = res[i], res[m + i]
        if not (ra.get('ok') and rb.get('ok')):
            chk.tag(f'{kind}/run-failed')
            if len(chk.notes) < 5:
                chk.notes.append(f'{kind} {what}: {str(ra.get("error") or rb.get("error"))[:120]}')
            continue
        rep = {'clause': kind, 'varied': what[0], 'values': [what[1], what[2]], 'base': a, 'partner': b}
        chk.tag(kind)
        chk.case((kind, json.dumps(a, sort_keys=True, default=str), str(what)), True)
        if kind in ('gradient', 'depth'):
            if not le(ra['Trock'], rb['Trock']):
                chk.fail(f'C18/trock-decreases/{kind}', f'bottom-hole temperature decreased when {what[0]} increased', {**rep, 'Trock': [ra['Trock'], rb['Trock']]})
        elif kind == 'drawdown':
            x, y = ra['Tres'], rb['Tres']
            if not (isinstance(x, list) and isinstance(y, list) and len(x) == len(y) and all(le(q, p_) for p_, q in zip(x, y))):
                chk.fail('C18/tres-increases-with-drawdown-rate', 'reservoir temperature increased at some time when the drawdown rate increased',
                         {**rep, 'Tres_low_rate': x[:6] if isinstance(x, list) else x, 'Tres_high_rate': y[:6] if isinstance(y, list) else y})
        elif kind == 'flow':
            if ra['Tprod0'] is None or rb['Tprod0'] is None or not le(ra['Tprod0'], rb['Tprod0']):
                chk.fail('C18/tprod0-decreases-with-flow', 'initial production temperature decreased when flow rate per well increased',
                         {**rep, 'Tprod0': [ra['Tprod0'], rb['Tprod0']]})
        elif kind == 'wellcost':
            da = ra['depth'] * (1000 if ra['depth_units'] in ('kilometer', 'km') else 1)
            if da >= 500 and not le(ra['cwell1'], rb['cwell1']):
                chk.fail(f'C18/wellcost-decreases/correlation-{a["Well Drilling Cost Correlation"]}', 'cost of one well decreased with depth where the chosen correlation applies',
                         {**rep, 'cost_one_production_well': [ra['cwell1'], rb['cwell1']]})
        else:
            ea, eb = ra['econ'], rb['econ']
            if not le(eb['ProjectNPV'], ea['ProjectNPV'], 1e-10):
                chk.fail(f'C18/npv-increases/{what[0]}', f'NPV increased when {what[0]} increased', {**rep, 'NPV': [ea['ProjectNPV'], eb['ProjectNPV']]})
            if ra['energy_positive'] and rb['energy_positive']:
                dec = [k for k in ('LCOE', 'LCOH', 'LCOC') if math.isfinite(ea[k]) and math.isfinite(eb[k]) and not le(ea[k], eb[k], 1e-10)]
                if dec:
                    pending.append((i, rep, dec, ea, eb))
                    if ra['lcoe_args'] is not None:
                        klines.append(c01.args_line(f'k{i}', ra['lcoe_args']))
    kres = chk.driver(klines) if klines else {}
    for i, rep, dec, ea, eb in pending:
        sig = 'C18/lcoe-decreases/' + rep['varied']
        extra = {}
        if f'k{i}' in kres:
            head, kv = core.parse_kv(kres[f'k{i}'])
            if head == 'ok' and kv['tag'].startswith('bicycle'):
                kappa = core.parse_rat(kv['kappa'])
                extra['kappa'] = float(kappa)
                if kappa < 0:
                    sig = 'C18/lcoe-decreases/bicycle-kappa-negative'
        chk.fail(sig, f'{dec} decreased when {rep["varied"]} increased (net energy output positive)',
                 {**rep, **extra, 'levelized': {k: [ea[k], eb[k]] for k in dec}, 'CCap': [ea['CCap'], eb['CCap']], 'Coam': [ea['Coam'], eb['Coam']]})
    if pairs:
        kind, what, a, b = pairs[0]
        chk.sample({'clause': kind, 'varied': what[0], 'values': [what[1], what[2]]})


def ramey_direct(chk: core.Check, n):
    import numpy as np
    import geophires_x.Model  # noqa: F401
    from geophires_x.WellBores import RameyCalc

    rng = chk.rng
    lines, meta = [], {}
    for k in range(n):
        krock, rho, cp = rng.choice([2.0, 3.0, 4.5]), rng.choice([2400.0, 2700.0]), rng.choice([800.0, 1000.0])
        wd, util, cpw = rng.choice([0.1524, 0.1778, 0.2286, 1.5]), rng.choice([0.5, 0.9, 1.0]), rng.uniform(4000, 4600)
        g, depth, trock = rng.choice([0.02, 0.05, 0.09]), rng.choice([1500.0, 3000.0, 6000.0]), rng.uniform(80, 300)
        t1 = rng.choice([0.25, 1 / 3, 1.0, 0.0101])
        f1, f2 = sorted(rng.sample([1.0, 5.0, 20.0, 55.0, 110.0, 300.0], 2))
        # the theorem's hypothesis: positive time function f (the thermal front has left the borehole wall)
        fchk = -math.log(1.1 * (wd / 2.0) / math.sqrt(4.0 * (krock / (rho * cp)) * t1 * 365.0 * 24.0 * 3600.0 * util)) - 0.29
        if fchk <= 0:
            chk.tag('ramey/time-function-not-positive-skipped')
            continue
        tv = np.array([0.0, t1, 2 * t1])
        tres = np.array([trock, trock - 1, trock - 2])
        d1 = float(RameyCalc(krock, rho, cp, wd, tv, util, f1, cpw, trock, tres, g, depth)[0])
        d2 = float(RameyCalc(krock, rho, cp, wd, tv, util, f2, cpw, trock, tres, g, depth)[0])
        S = core.fsci
        for tag, fl, d in (('a', f1, d1), ('b', f2, d2)):
            lines.append(f'ramey r{k}{tag} krock={S(krock)} rhorock={S(rho)} cprock={S(cp)} welldiam={S(wd)} t1={S(t1)} util={S(util)} '
                         f'flow={S(fl)} cpwater={S(cpw)} g={S(g)} depth={S(depth)}')
            meta[f'r{k}{tag}'] = d
        chk.case(('ramey', k), True)
        chk.tag('ramey/direct-pair')
        if d2 > d1 * (1 + 1e-12) + 1e-12:
            chk.fail('C18/ramey/drop-increases-with-flow', 'RameyCalc: the initial wellbore temperature drop increased with flow rate',
                     {'args': {'krock': krock, 'rhorock': rho, 'cprock': cp, 'welldiam': wd, 't1': t1, 'util': util, 'cpwater': cpw, 'gradient': g, 'depth': depth},
                      'flows': [f1, f2], 'drops': [d1, d2]})
    res = chk.driver(lines)
    for cid, d in meta.items():
        head, kv = core.parse_kv(res.get(cid, 'missing'))
        if head != 'ok':
            chk.broken('C18/ramey/driver', f'driver rejected: {res.get(cid)}', {'case': cid}, 'correspondence-break')
            continue
        lean = struct.unpack('<d', struct.pack('<Q', int(kv['drop'])))[0]
        if not math.isclose(lean, d, rel_tol=1e-9, abs_tol=1e-9):
            chk.broken('C18/ramey/correspondence', 'Float instance of the generic Ramey definition disagrees with RameyCalc at time 0',
                       {'case': cid, 'code': d, 'lean_float': lean}, 'correspondence-break')


def run(chk: core.Check) -> int:
    from tools import extract
    ext = extract.main(['WellCost'])
    chk.coverage['extract_digest'] = {k: v['digest'] for k, v in ext.items()}
    clean = chk.prove(['GeoVerif.Properties.C18'])
    if not clean:
        for row in ext['WellCost']['data']['rows']:
            if row['id'] == ext['WellCost']['data']['simple']:
                continue
            for lo_hi in (1000, 30000):
                if row['c1'] + row['c2'] * lo_hi < 0:
                    d = lo_hi / 2
                    chk.fail(f'C18/wellcost-table/correlation-{row["id"]}', f'drilling-cost correlation {row["id"]} ({row["name"]}) decreases with depth near {d} m '
                             f'(derivative c1 + 2 c2 d = {row["c1"] + row["c2"] * lo_hi})', {'row': row, 'depth_m': d})
    quick = chk.tier == 'quick'
    kn = chk.known_replays()
    if kn:
        evaluate(chk, [('cost', tuple(k['replay']['varied']), k['replay']['base'], k['replay']['partner']) for k in kn])
    evaluate(chk, gen_pairs(chk.rng, 270 if quick else 5000))
    ramey_direct(chk, 200 if quick else 3000)
    # the corollaries are about the C05 layer-walk model: re-tie it here (reduced C05 correspondence)
    from . import c05
    c05.evaluate(chk, c05.gen_cases(chk.rng, 120 if quick else 600))
    if (not clean or chk.breaks) and not chk.failures:
        evaluate(chk, gen_pairs(chk.rng, 900))
    chk.assumptions += ['the models the corollaries are about are tied to the code by the C01/C03/C04/C05 checks',
                        'levelized-cost clause only where every yearly energy figure is non-negative ("net energy output positive")']
    chk.trusted += ['tools/extract.py (well-cost table)', 'Lean Float (C library exp/log/sqrt) for the Ramey differential; Real.exp for the theorem']
    return chk.finish(rule=RULE)


def replay(chk: core.Check, path: str) -> int:
    body = json.loads(open(path).read())
    rp = body['replay']
    if 'base' in rp:
        evaluate(chk, [(rp.get('clause', 'cost'), (rp['varied'], rp['values'][0], rp['values'][1]), rp['base'], rp['partner'])])
    return chk.finish(rule='replay of one recorded pair')
