"""C08 — a run is a pure function of its input; runs do not contaminate each other.

proof: GeoVerif.Properties.C08 (refinement of the client state machine to a cache-free, history-free specification, for every history)
tie:   seeded random histories (requests incl. failing ones, file rewrites, chdir, caching on/off, fresh / reused clients) executed in ONE
       process against the real client; the same op lines go through the Lean `history` op with `sim` tabulated from fresh-subprocess
       reference runs of each content under another PYTHONHASHSEED; outputs, cwd and argv compared after every operation.
"""
from __future__ import annotations

import json
import os
import subprocess
from concurrent.futures import ThreadPoolExecutor
from pathlib import Path

from .. import core, geo

RULE = ('seeded histories of 8-30 operations over a pool of ~12 inputs (all end-use families, add-ons, 3 kinds of failing request), 3 start '
        'directories, PYTHONHASHSEED varied per history, caching on/off, fresh / reused clients; each history in one process. '
        'non-trivial = history contains a failing request or a rewrite between two requests of one path; distinct by op list')

WORKER = str(Path(__file__).resolve().parent.parent / 'c08_worker.py')


def pool_contents(rng):
    pool = {}
    cfgs = [(2, 1, 1), (1, 2, 9), (3, 2, 5), (2, 2, 6), (2, 31, 2), (1, 52, 3), (3, 41, 4), (2, 1, 2)]
    for i, (e, eu, pl) in enumerate(cfgs):
        p = geo.base_params(e, eu, pl, L=rng.choice([5, 20]), n=rng.choice([1, 2]))
        if i % 3 == 0:
            geo.diversify(rng, p, 0.3)
        pool[f'ok{i}'] = geo.params_to_text(p)
    a = geo.base_params(2, 1, 1, L=10)
    a.update({'AddOn Nickname 1': 'x', 'AddOn CAPEX 1': 10, 'AddOn OPEX 1': 1, 'AddOn Electricity Gained 1': 1e6, 'AddOn Heat Gained 1': 0, 'AddOn Profit Gained 1': 0})
    pool['addon'] = geo.params_to_text(a)
    bad1 = geo.base_params(2, 1, 1)
    bad1['Reservoir Depth'] = 300               # out of range: rejected while reading
    pool['badrange'] = geo.params_to_text(bad1)
    bad2 = geo.base_params(2, 1, 1)
    bad2['Gradient 1'] = 5
    bad2['Reservoir Depth'] = 0.5               # cold resource: fails inside Calculate
    pool['badcalc'] = geo.params_to_text(bad2)
    pool['badenum'] = geo.params_to_text({**geo.base_params(2, 1, 1), 'Reservoir Model': '1.0'})
    # --- other reservoir models (module-level memos / numpy state only show with particular models) -----------------------------------
    frac = {'Reservoir Model': 1, 'Fracture Shape': 3, 'Fracture Height': 900, 'Reservoir Volume Option': 3, 'Reservoir Volume': 1e9, 'Number of Fractures': 20}
    m1 = {**geo.base_params(2, 1, 1, L=10, n=2), **frac}
    m1.pop('Drawdown Parameter', None)
    pool['mpf-a'] = geo.params_to_text(m1)
    pool['mpf-b'] = geo.params_to_text({**m1, 'Reservoir Volume': 5e7})            # same time grid, other fracture separation
    pool['lhs'] = geo.params_to_text({**m1, 'Reservoir Model': 2, 'Reservoir Porosity': 0.04, 'Rock Particle Diameter': 0.2})
    pool['sf'] = geo.params_to_text({**geo.base_params(1, 2, 9, L=10, n=2), 'Reservoir Model': 3, 'Drawdown Parameter': 0.00002})
    cyl = {**geo.base_params(2, 1, 1, L=10, n=2), 'Reservoir Model': 0, 'Cylindrical Reservoir Input Depth': 3, 'Cylindrical Reservoir Output Depth': 3, 'Cylindrical Reservoir Length': 4,
           'Cylindrical Reservoir Radius of Effect': 0.3}
    cyl.pop('Drawdown Parameter', None)
    pool['cyl'] = geo.params_to_text(cyl)
    # --- requests that rely on defaults (no gradient, no thermal properties, ...), alone and after runs that set them ------------------
    sparse = {k: v for k, v in geo.base_params(2, 1, 1, L=10, n=2).items() if k not in ('Gradient 1', 'Reservoir Heat Capacity', 'Reservoir Density', 'Reservoir Thermal Conductivity',
                                                                                        'Surface Temperature', 'Injection Temperature', 'Utilization Factor', 'Water Loss Fraction')}
    pool['sparse'] = geo.params_to_text(sparse)
    pool['sparse-heat'] = geo.params_to_text({k: v for k, v in geo.base_params(1, 2, 9, L=10, n=2).items() if k not in ('Gradient 1', 'Number of Segments', 'Maximum Temperature', 'Ambient Temperature')})
    seg = {**geo.base_params(2, 1, 1, L=10, n=2), 'Number of Segments': 2, 'Gradient 1': 60, 'Thickness 1': 1.5}     # Gradient 2 left at its default
    pool['seg-default'] = geo.params_to_text(seg)
    pool['seg-set'] = geo.params_to_text({**seg, 'Gradient 2': 80, 'Thickness 2': 2.5})
    # two segments whose first thickness is left at its default (and whose gradients differ): whatever an earlier run wrote into a shared default list shows here
    pool['seg-thick-default'] = geo.params_to_text({**{k: v for k, v in seg.items() if k != 'Thickness 1'}, 'Gradient 1': 50, 'Gradient 2': 70})
    # --- contents that differ only where a careless cache key would not look (list tails, duplicate order, a comment, one digit) -----------
    seglist = {k: v for k, v in seg.items() if k not in ('Gradient 1', 'Thickness 1')}
    pool['list-a'] = geo.params_to_text(seglist) + 'Gradients, 50, 40\nThicknesses, 2, 1\n'
    pool['list-b'] = geo.params_to_text(seglist) + 'Gradients, 50, 70\nThicknesses, 2, 1\n'
    b0 = geo.params_to_text(geo.base_params(2, 1, 1, L=10, n=2))
    pool['dup-a'] = b0 + 'Gradient 1, 45\nGradient 1, 65\n'
    pool['dup-b'] = b0 + 'Gradient 1, 65\nGradient 1, 45\n'
    pool['digit-a'] = b0 + 'Production Flow Rate per Well, 61\n'
    pool['digit-b'] = b0 + 'Production Flow Rate per Well, 61.5 , -- comment\n'
    # the same number with and without / with another unit after it
    pool['unit-a'] = b0 + 'Reservoir Depth, 3\n'
    pool['unit-b'] = b0 + 'Reservoir Depth, 3 mile\n'
    # a failure path that ends in a bare sys.exit() (user-provided profile whose file does not exist)
    bf = geo.base_params(2, 1, 1, L=10, n=2)
    bf.pop('Drawdown Parameter', None)
    bf.update({'Reservoir Model': 5, 'Reservoir Output File Name': '/nonexistent/profile.txt'})
    pool['badfile'] = geo.params_to_text(bf)
    # one segment given in list form AND in enumerated form with another value: whichever the reader applies last must not depend on the hash seed
    pool['list-vs-enum'] = geo.params_to_text(seglist) + 'Gradients, 50, 40\nGradient 2, 70\nThicknesses, 2, 1\n'
    # requests made of a file plus overriding parameters: the content requested is the file's text followed by the overriding lines
    # two contents claiming the same production tax credit (same lifetime, duration, value, inflation setting) and differing elsewhere: anything a run
    # keeps per credit schedule (memoised builders, shared lists) is exercised by running one after the other, or one twice
    ptc = {**geo.base_params(2, 1, 1, L=10, n=2), 'Production Tax Credit Electricity': 0.04, 'Production Tax Credit Duration': 6, 'Production Tax Credit Inflation Adjusted': True,
           'Construction Years': 2}
    pool['ptc-a'] = geo.params_to_text(ptc)
    pool['ptc-b'] = geo.params_to_text({**ptc, 'Gradient 1': 58})
    # a data file named relatively (the shipped example 5): the answer must not depend on what lies in the directory the caller happens to be in
    ex5 = [f for f in geo.example_files() if f.name == 'example5.txt']
    if ex5:
        pool['reldata'] = geo.example_text(ex5[0])
    for c in QP_BASES:
        for ov, lines_ in OVERRIDES.items():
            pool[f'{c}+{ov}'] = pool[c] + ''.join(f'{a}, {b}\n' for a, b in lines_.items())
    return pool


QP_BASES = ('ok0', 'ok1', 'dup-a', 'digit-a')
OVERRIDES = {'g61': {'Gradient 1': 61}, 'u77': {'Utilization Factor': 0.77}}


NEAR = [('seg-set', 'seg-thick-default'), ('seg-default', 'seg-thick-default'), ('mpf-a', 'mpf-b'), ('list-a', 'list-b'), ('dup-a', 'dup-b'), ('digit-a', 'digit-b'), ('seg-set', 'seg-default'), ('ok0', 'sparse'), ('ok1', 'sparse-heat'), ('badcalc', 'cyl'), ('ok0', 'badfile'), ('badfile', 'ok2'), ('list-vs-enum', 'list-a'), ('unit-a', 'unit-b'), ('ptc-a', 'ptc-b'), ('ptc-a', 'ptc-a')]


def reference(chk, pool):
    """sim table: every content simulated once in a fresh subprocess, under another hash seed and from another directory"""
    sim = {}
    d = Path(chk.scratch) / 'ref'
    d.mkdir(exist_ok=True)

    def one(item):
        cid, text = item
        f = d / f'{cid}.txt'
        f.write_text(text)
        spec = {'start_cwd': str(d), 'contents': {}, 'ops': [['q', str(f), 0, 'fresh']]}
        sf = d / f'{cid}.json'
        sf.write_text(json.dumps(spec))
        env = dict(os.environ, PYTHONHASHSEED=str(101 + len(cid)), GEOPHIRES_X_VERIF='0', TMPDIR=str(d))
        p = subprocess.run([core.PY, WORKER, str(sf)], capture_output=True, text=True, env=env, timeout=600)
        try:
            return cid, json.loads(p.stdout.strip().splitlines()[-1])['out']
        except Exception:  # noqa
            return cid, 'ERR:' + p.stderr[-200:]
    with ThreadPoolExecutor(8) as ex:
        for cid, out in ex.map(one, pool.items()):
            sim[cid] = out
    return sim


def gen_history(rng, pool, scratch, k):
    d = Path(scratch) / f'h{k}'
    d.mkdir(exist_ok=True)
    (d / 'sub').mkdir(exist_ok=True)
    paths = [str(d / f'in{j}.txt') for j in range(4)]
    ids = list(pool)
    content_of = {}
    ops = []
    for p in paths:
        c = rng.choice(ids)
        ops.append(['w', p, c])
        content_of[p] = c
    caching = rng.choice([0, 1, 1])
    dirs = [str(d), str(d / 'sub'), '/', str(Path(scratch))]
    nv = 0
    for _ in range(rng.randint(8, 30)):
        z = rng.random()
        if z < 0.12:
            # a request made of a file plus overriding parameters; then the file is rewritten and the same (path, overrides) is requested again
            p = rng.choice(paths)
            c1 = caching if rng.random() < 0.8 else 1 - caching
            ov = rng.choice(list(OVERRIDES))
            a, b = rng.sample(QP_BASES, 2)
            for c in (a, b):
                vp = f'{p}#v{nv}'
                nv += 1
                ops += [['w', p, c], ['wv', vp, f'{c}+{ov}'], ['qp', p, c1, 'reused', ov, vp]]
                content_of[p] = c
            continue
        if z < 0.25:
            # a near pair through one path: request X, rewrite the file with its neighbour Y, request again (stale caches, memo keys, leaked state)
            a, b = rng.choice(NEAR)
            if rng.random() < 0.5:
                a, b = b, a
            p = rng.choice(paths)
            c1 = caching if rng.random() < 0.8 else 1 - caching
            ops += [['w', p, a], ['q', p, c1, 'reused'], ['w', p, b], ['q', p, c1, 'reused']]
        elif z < 0.62:
            p = rng.choice(paths)
            ops.append(['q', p, caching if rng.random() < 0.8 else 1 - caching, rng.choice(['reused', 'reused', 'fresh'])])
        elif z < 0.85:
            p = rng.choice(paths)
            c = rng.choice(ids)
            ops.append(['w', p, c])
        else:
            ops.append(['c', rng.choice(dirs)])
    return {'start_cwd': rng.choice(dirs[:3]), 'contents': pool, 'ops': ops, 'dir': str(d), 'overrides': OVERRIDES}


def run_history(args):
    spec, seed, tmp = args
    sf = Path(spec['dir']) / 'history.json'
    sf.write_text(json.dumps(spec))
    env = dict(os.environ, PYTHONHASHSEED=str(seed), GEOPHIRES_X_VERIF='0', TMPDIR=spec['dir'])
    p = subprocess.run([core.PY, WORKER, str(sf)], capture_output=True, text=True, env=env, timeout=1800)
    recs = []
    for ln in p.stdout.splitlines():
        try:
            recs.append(json.loads(ln))
        except ValueError:
            pass
    return recs, p.stderr[-300:]


def evaluate(chk: core.Check, n_hist):
    rng = chk.rng
    pool = pool_contents(rng)
    sim = reference(chk, pool)
    chk.coverage['reference_sim'] = sim
    bad_ref = [c for c, o in sim.items() if o.startswith('ERR')]
    if bad_ref:
        raise RuntimeError(f'reference runs did not complete: {bad_ref} {sim[bad_ref[0]]}')
    specs = [gen_history(rng, pool, chk.scratch, k) for k in range(n_hist)]
    seeds = [1 + (k * 7) % 50 for k in range(n_hist)]
    # the same short history under several hash seeds: contents whose outcome could depend on set / dict iteration order (one segment given in list
    # form and in enumerated form, duplicated parameters, defaults), plus a direct in-process call of the simulator's main() with a two-entry argv
    for hs in (0, 1, 2, 3, 5, 8, 13, 21):
        d = Path(chk.scratch) / f'hs{hs}'
        d.mkdir(exist_ok=True)
        ops = []
        # (the start directory holds a different file under the relative name example 5 uses for its temperature history)
        (d / 'Examples').mkdir(exist_ok=True)
        (d / 'Examples' / 'ReservoirOutput.txt').write_text(''.join(f'{t / 4}\t,\t{150 - t / 6}\n' for t in range(0, 121)))
        for j, c in enumerate(['list-vs-enum', 'dup-a', 'seg-default', 'seg-thick-default', 'ok0', 'ptc-a', 'ptc-b', 'ptc-a'] + (['reldata'] if 'reldata' in pool else [])):
            ops += [['w', str(d / f'in{j}.txt'), c], ['q', str(d / f'in{j}.txt'), 0, 'fresh']]
        ops += [['m', str(d / 'in3.txt')], ['q', str(d / 'in3.txt'), 1, 'reused']]
        specs.append({'start_cwd': str(d), 'contents': pool, 'ops': ops, 'dir': str(d), 'overrides': OVERRIDES})
        seeds.append(hs)
    with ThreadPoolExecutor(8) as ex:
        results = list(ex.map(run_history, [(s, sd, None) for s, sd in zip(specs, seeds)]))
    lines = []
    for k, spec in enumerate(specs):
        # ids without separators for the line protocol
        pid = {p: f'p{j}' for j, p in enumerate(sorted({o[1] for o in spec['ops'] if o[0] in ('q', 'w', 'wv')}))}
        did = {dd: f'd{j}' for j, dd in enumerate(sorted({o[1] for o in spec['ops'] if o[0] == 'c'} | {spec['start_cwd']}))}
        ops = []
        cur_dir = spec['start_cwd']
        for o in spec['ops']:
            if o[0] == 'm':
                ops.append(f'c:{did[cur_dir]}')     # a direct call of main(): outside the client state machine — a no-op for the model
                continue
            if o[0] == 'c':
                cur_dir = o[1]
            if o[0] == 'q':
                ops.append(f'q:{pid[o[1]]}:{o[2]}')
            elif o[0] in ('w', 'wv'):
                ops.append(f'w:{pid[o[1]]}:{o[2]}')
            elif o[0] == 'qp':
                ops.append(f'q:{pid[o[5]]}:{o[2]}')      # the content requested = file text + overriding lines (registered under a virtual path just before)
            else:
                ops.append(f'c:{did[o[1]]}')
        simtab = ';'.join(f'{c}:{("!" if o == "F" else o[1:])}' for c, o in sim.items())
        lines.append(f'history h{k} sim={simtab} ops={";".join(ops)} cwd={did[spec["start_cwd"]]}')
    res = chk.driver(lines)
    for k, (spec, (recs, err)) in enumerate(zip(specs, results)):
        head, kv = core.parse_kv(res.get(f'h{k}', 'missing'))
        base = {'history': [o if o[0] != 'w' else ['w', o[1], o[2]] for o in spec['ops']], 'start_cwd': spec['start_cwd'], 'contents': {c: pool[c][:0] + c for c in pool}}
        if head != 'ok' or len(recs) != len(spec['ops']):
            chk.broken('C08/harness', f'history {k} did not complete ({len(recs)}/{len(spec["ops"])} ops): {err[-150:]}', base, 'correspondence-break')
            continue
        want = kv['outs'].split(',')
        nontriv = False
        seen_req = {}
        for j, (o, rec, w) in enumerate(zip(spec['ops'], recs, want)):
            if o[0] in ('q', 'qp'):
                chk.tag('request/' + ('with-overrides/' if o[0] == 'qp' else '') + ('fail' if rec['out'] == 'F' else 'ok') + ('/cached-client' if o[2] else '/uncached'))
                if rec['out'] == 'F':
                    nontriv = True
            if o[0] == 'm':
                chk.tag('direct-main/' + ('argv-kept' if rec['argv_ok'] else 'argv-CHANGED'))
                if not rec['argv_ok']:
                    chk.fail('C08/argv-changed-after-direct-main', 'a direct in-process call of the simulator\'s main() left the caller\'s sys.argv changed',
                             {**base, 'op_index': j, 'op': o, 'argv_after': rec['argv']})
                continue      # (main() itself leaves the process in the package directory; its callers — client, command line — restore it)
            if not rec['cwd_ok']:
                chk.fail('C08/cwd-changed-after-' + ('failed' if rec['out'] == 'F' else 'successful') + '-request', 'a request left the caller\'s working directory changed',
                         {**base, 'op_index': j, 'op': o, 'cwd_after': rec['cwd']})
            if not rec['argv_ok']:
                chk.fail('C08/argv-changed-after-' + ('failed' if rec['out'] == 'F' else 'successful') + '-request', 'a request left sys.argv changed',
                         {**base, 'op_index': j, 'op': o, 'argv_after': rec['argv']})
            if o[0] in ('q', 'qp'):
                got = rec['out']
                exp = 'F' if w == 'F' else w
                if got != exp:
                    # classify: stale (equals an earlier content's result for this path) or simply different
                    stale = any(got == 'r' + sim[c][1:] for c in pool if sim[c] != 'F' and ('r' + sim[c][1:]) != exp)
                    chk.fail('C08/result-not-of-current-content' + ('/stale-cache' if stale and o[2] else ''),
                             'a request returned a result that is not the simulation of the file\'s current content '
                             '(another history / cache state / hash seed / working directory changed it)',
                             {**base, 'op_index': j, 'op': o, 'returned': got, 'expected_for_current_content': exp, 'error': rec.get('err')})
        if any(o[0] == 'w' for o in spec['ops'][4:]):
            nontriv = True
        chk.case(json.dumps(spec['ops']), nontriv)
        if k < 2:
            chk.sample({'ops': spec['ops'][:10], 'observed': [r['out'] for r in recs[:10]], 'lean': want[:10]})


def run(chk: core.Check) -> int:
    clean = chk.prove(['GeoVerif.Properties.C08'])
    quick = chk.tier == 'quick'
    evaluate(chk, 16 if quick else 240)
    if (not clean or chk.breaks) and not chk.failures:
        evaluate(chk, 40)
    chk.assumptions += ['the report digest ignores the date / time / version / calculation-time lines', 'memory growth of caches, thread-safety and logging handlers are not modelled',
                        '"sim is a function of the content" is exactly what the reference-vs-history comparison tests (fresh subprocess, other hash seed, other directory)']
    chk.trusted.append('the OS (chdir, files), CPython hashing of paths')
    return chk.finish(rule=RULE)


def replay(chk: core.Check, path: str) -> int:
    return run(chk)
