"""C10 — the client returns exactly what the report says.

proof: GeoVerif.Properties.C10 (any choice of matching line gives the same field when the matching lines agree; the answer is always read off a
       line that carries the field's marker; splitting a table row on blank runs recovers every cell for any column widths; number parser spec;
       kernel-evaluated field examples incl. overflowing figures)
tie:   on every generated report (all end-use / plant / economic branches, add-ons, carbon price, widened and negative figures, N/A) the real
       GeophiresXResult is compared (a) with an independent tokenisation of the same text — field value and unit, every profile-table cell, row
       counts; (b) with the Lean parser model on the same lines (candidates over all choices: the real answer must be the single candidate);
       (c) with itself under three PYTHONHASHSEEDs; (d) its CSV export with its own result, entry by entry; (e) the JSON written next to the
       report with the report's figures for the quantities both carry.
"""
from __future__ import annotations

import contextlib
import csv
import hashlib
import io
import json
import logging
import math
import os
import re
import subprocess
import tempfile
import uuid
from pathlib import Path

from .. import core, geo
from .c09 import SPEC, cases_for, get
from .c12 import dec, enc

RULE = ('reports of the configuration grid + diversified variants (negative NPV, >= 1e6 figures, N/A payback) + add-on / carbon-price / S-DAC-GT cases + runnable examples: '
        'quick ~70 reports, thorough ~600; per report every field the client exposes (~110) and every cell of every profile table; 3 hash seeds on a subset; '
        'non-trivial = every compared field / cell; distinct by (category, field, configuration)')

NUM = re.compile(r'^-?[\d,]*\.?\d+(?:[eE][+-]?\d+)?$|^-?[\d,]+\.$')


def indep_number(tok: str):
    """independent reading of a printed number: None for N/A, int without a point, float with"""
    if tok == 'N/A':
        return None
    t = tok.replace(',', '')
    if not NUM.match(tok):
        return 'unparsable'
    return float(t) if ('.' in t or 'e' in t.lower()) else int(t)


def _run(job, fixed_path=None):
    """one real run; returns report text, client result, CSV, JSON and the names/values of the output parameters at print time"""
    if isinstance(job, tuple) and job and job[0] == 'seq':
        # the same input path is used twice (content A, then rewritten to content B): report path and parse caches are keyed on the path
        shared = Path(tempfile.gettempdir()) / f'c10_seq_{uuid.uuid4().hex}.txt'
        _run(job[1], fixed_path=shared)
        return _run(job[2], fixed_path=shared)
    if isinstance(job, tuple) and job and job[0] == 'seq2':
        # two different contents on two different paths, one after the other in this process: the answer about the second is what is returned
        _run(job[1])
        return _run(job[2])
    params = job
    os.environ['GEOPHIRES_X_VERIF'] = '1'
    from geophires_x import GEOPHIRESv3
    from geophires_x_client import GeophiresInputParameters, GeophiresXClient
    logging.disable(logging.CRITICAL)
    tmp = Path(tempfile.gettempdir())
    inp = fixed_path if fixed_path is not None else tmp / f'c10_{uuid.uuid4().hex}.txt'
    inp.write_text(geo.params_to_text(params))
    out = {'ok': False, 'error': None}
    names = {}

    def obs(stage, model):
        if stage == 'printed':
            for mname in ('reserv', 'wellbores', 'surfaceplant', 'economics', 'addeconomics', 'sdacgteconomics'):
                mod = getattr(model, mname, None)
                for k, p in getattr(mod, 'OutputParameterDict', {}).items() if mod is not None else []:
                    v = getattr(p, 'value', None)
                    if isinstance(v, (int, float)) and not isinstance(v, bool):
                        names[k] = float(v)
            out['snap'] = geo.snapshot(model)

    GEOPHIRESv3._VERIF_OBSERVERS.append(obs)
    ip = GeophiresInputParameters(from_file_path=inp)
    try:
        with geo.preserved_process_state(), contextlib.redirect_stdout(io.StringIO()), contextlib.redirect_stderr(io.StringIO()):
            res = GeophiresXClient(enable_caching=False).get_geophires_result(ip)
        out['ok'] = True
        out['report'] = Path(res.output_file_path).read_text()
        out['report_path'] = str(res.output_file_path)
        out['result'] = json.loads(json.dumps(res.result, default=str))
        out['csv'] = res.as_csv()
        # exporting must not change what the client holds: the result after the export, and a second export
        out['result_after_export'] = json.loads(json.dumps(res.result, default=str))
        try:
            out['csv2'] = res.as_csv()
        except BaseException as e:  # noqa
            out['csv2'] = f'raised {type(e).__name__}: {e}'[:200]
        jp = Path(res.output_file_path).with_suffix('.json')
        out['json'] = json.loads(jp.read_text()) if jp.exists() else None
        out['json_path_used_by_client'] = str(res.json_output_file_path)
        out['names'] = names
        # keep a copy of the report for the hash-seed re-parse
        keep = tmp / f'c10_report_{uuid.uuid4().hex}.out'
        keep.write_text(out['report'])
        out['kept'] = str(keep)
    except BaseException as e:  # noqa
        if isinstance(e, KeyboardInterrupt):
            raise
        out['error'] = f'{type(e).__name__}: {e}'[:300]
    finally:
        GEOPHIRESv3._VERIF_OBSERVERS.remove(obs)
        for f in ((inp,) if fixed_path is None else ()) + (ip.get_output_file_path(), str(ip.get_output_file_path()).replace('.out', '.json')):
            with contextlib.suppress(OSError):
                os.unlink(f)
    return out


TABLE_TITLES = {
    'POWER GENERATION PROFILE': '*  HEATING, COOLING AND/OR ELECTRICITY PRODUCTION PROFILE  *',
    'HEAT AND/OR ELECTRICITY EXTRACTION AND GENERATION PROFILE': '*  ANNUAL HEATING, COOLING AND/OR ELECTRICITY PRODUCTION PROFILE  *',
    'REVENUE & CASHFLOW PROFILE': '*  REVENUE & CASHFLOW PROFILE  *',
    'EXTENDED ECONOMIC PROFILE': '*  EXTENDED ECONOMIC PROFILE  *',
    'S-DAC-GT PROFILE': '*  S-DAC-GT PROFILE  *',
}


def indep_table(lines, title):
    """data rows (token lists) of the table whose banner line contains `title`: every row line from the banner to the next banner / the next line of text
    (a blank line between two rows does not end the table the report prints: the rows after it are still rows of that table)"""
    idx = [i for i, ln in enumerate(lines) if title in ln]
    if not idx:
        return None
    rows, started = [], False
    for ln in lines[idx[0] + 1:]:
        toks = ln.replace('|', ' ').split()
        is_row = bool(toks) and re.fullmatch(r'-?\d+', toks[0]) is not None and len(toks) > 1 and all(NUM.match(t) or t in ('N/A', 'nan', 'inf', '-inf') for t in toks[1:])
        if is_row:
            started = True
            rows.append(toks)
        elif started and ln.strip():
            break
    return rows


def same_number(a, b) -> bool:
    if a is None or b is None:
        return a is None and b is None
    if isinstance(a, float) and isinstance(b, float) and math.isnan(a) and math.isnan(b):
        return True
    return type(a) is type(b) and a == b


def check_one(chk: core.Check, name, r, lines_out, pending):
    report, result = r['report'], r['result']
    lines = report.splitlines()
    rep = {'configuration': name, 'report_lines': len(lines)}
    for cat, fields in result.items():
        if cat == 'metadata' or not isinstance(fields, dict):
            continue
        for field, vu in fields.items():
            if vu is None:
                # the client found nothing: fine unless the report has a line labelled exactly so
                exact = [ln for ln in lines if ln.strip().startswith(field + ':') and ln.startswith('    ')]
                if exact and cat != 'Simulation Metadata':
                    chk.fail(f'C10/field-missed/{field}', f'the report has a line labelled "{field}" but the client returns nothing for it', {**rep, 'line': exact[0]})
                continue
            if not isinstance(vu, dict):
                continue   # equal-sign fields: strings
            chk.case((cat, field, name), True)
            exact = [ln for ln in lines if ln.strip().startswith(field + ':')]
            if not exact:
                chk.fail(f'C10/value-from-another-line/{field}', f'the client returns {vu} for "{field}" but no report line carries that label', {**rep, 'category': cat})
                continue
            # independent reading of each exactly-labelled line
            reads = set()
            for ln in exact:
                rest = ln.strip()[len(field) + 1:].strip()
                toks = rest.split()
                if not toks:
                    reads.add((None, None))
                    continue
                v = indep_number(toks[0])
                u = ' '.join(toks[1:]) if len(toks) > 1 else ('count' if field.startswith('Number') else None)
                reads.add((repr(v), u))
            is_string = isinstance(vu.get('value'), str)
            if is_string:
                chk.tag('field/string')
                continue
            got = (repr(vu.get('value')), vu.get('unit'))
            if len(reads) > 1:
                chk.fail(f'C10/ambiguous-label/{field}', f'"{field}" labels {len(exact)} report lines with different figures: which one the client returns depends on set iteration order',
                         {**rep, 'lines': exact[:4], 'client': vu})
            elif got not in reads:
                # units made of several words are dropped by the client (it keeps the unit only when there is exactly one token after the value)
                (rv, ru), = reads
                if got[0] == rv and got[1] is None and ru is not None and ' ' in ru:
                    chk.tag('field/multi-word-unit-dropped')
                    chk.fail(f'C10/unit-dropped/{field}', f'the report prints "{field}" with unit "{ru}" but the client returns unit None', {**rep, 'line': exact[0], 'client': vu})
                else:
                    chk.fail(f'C10/field-differs/{field}', f'the client returns {vu} for "{field}" but the report line says {exact[0].strip()!r}', {**rep, 'line': exact[0], 'client': vu})
            else:
                chk.tag('field/equal')
            # Lean model on the lines that contain the name at all
            cand_lines = [ln + '\n' for ln in lines if field in ln]
            cid = f'c{len(pending)}'
            indent = 1 if cat == 'Simulation Metadata' else 4
            lines_out.append(f'cfield {cid} indent={indent} name={enc(field)} lines={";".join(enc(ln) for ln in cand_lines)}')
            pending.append((name, cat, field, vu, rep))
    # ---- tables ---------------------------------------------------------------------------------------------------------------------------
    for cat, title in TABLE_TITLES.items():
        prof = result.get(cat)
        rows = indep_table(lines, title)
        if prof is None and not rows:
            continue
        if prof is None or rows is None:
            if rows:
                chk.fail(f'C10/table-missing/{cat}', f'the report has a "{cat}" table with {len(rows)} rows but the client exposes none', rep)
            continue
        data = prof[1:]
        chk.case((cat, 'table', name), True)
        if len(data) != len(rows):
            chk.fail(f'C10/table-rows/{cat}', f'the client returns {len(data)} rows of "{cat}", the report prints {len(rows)}', rep)
            continue
        bad = None
        for i, (crow, toks) in enumerate(zip(data, rows)):
            want = [indep_number(t) if t not in ('nan', 'inf', '-inf') else float(t) for t in toks]
            if len(crow) != len(want) or len(crow) != len(prof[0]):
                bad = (i, 'width', crow, toks)
                break
            if not all(same_number(a, b) for a, b in zip(crow, want)):
                bad = (i, 'cell', crow, toks)
                break
        if bad:
            chk.fail(f'C10/table-cell/{cat}', f'row {bad[0]} of "{cat}" differs ({bad[1]}): client {bad[2]} vs printed {bad[3]}', {**rep, 'header': prof[0]})
        else:
            chk.tag(f'table/equal/{cat.split()[0]}', len(data))
        if cat == 'REVENUE & CASHFLOW PROFILE':
            # the units the client attaches to the columns must be the units the report prints over them (the `Start (…)(…)` line of the table)
            ti = next((k for k, ln in enumerate(lines) if title in ln), None)
            urow = next((ln for ln in lines[ti + 1:ti + 8] if ln.strip().startswith('Start')), None) if ti is not None else None
            if urow is not None:
                printed = re.findall(r'\(([^()]+)\)', urow)
                hdr_units = [(h, (re.findall(r'\(([^()]+)\)\s*$', h) or [None])[0]) for h in prof[0][1:]]
                if len(printed) == len(hdr_units):
                    directed = 'directive' in name
                    for (h, hu), pu in zip(hdr_units, printed):
                        chk.tag('table/header-unit/' + ('same' if hu == pu else 'differs'))
                        if hu != pu:
                            chk.fail('C10/table-header-unit/' + ('under-directive/' if directed else '') + h,
                                     f'the report prints the column "{h.rsplit("(", 1)[0].strip()}" in {pu}, the client labels it {hu}', {**rep, 'printed_units_row': urow.strip(), 'client_header': prof[0]})
                else:
                    chk.tag('table/header-unit/row-not-recognised')
    # ---- CSV ----------------------------------------------------------------------------------------------------------------------------------
    got = list(csv.reader(io.StringIO(r['csv'])))
    if not got or got[0] != ['Category', 'Field', 'Year', 'Value', 'Units']:
        chk.fail('C10/csv-header', 'the CSV export does not start with the documented header', {**rep, 'first': got[:1]})
    want = []
    for cat, fields in result.items():
        if cat == 'metadata':
            continue
        if isinstance(fields, dict):
            for field, vu in fields.items():
                if vu is None:
                    continue
                if isinstance(vu, dict):
                    want.append([cat, field.replace(',', r'\,'), '', '' if vu['value'] is None else str(vu['value']), '' if vu['unit'] is None else str(vu['unit'])])
                else:
                    want.append([cat, field.replace(',', r'\,'), '', str(vu), ''])
        else:
            hdr = fields[0]
            for i in range(1, len(hdr)):
                nm, _, un = hdr[i].partition(' (')
                for row in fields[1:]:
                    want.append([cat, nm, str(row[0]), '' if row[i] is None else str(row[i]), un.replace(')', '')])
    chk.case(('csv', name), True)
    if r.get('result_after_export') != result or r.get('csv2') != r['csv']:
        chk.fail('C10/export-changes-result', 'exporting the result as CSV changes the result the client holds (or a second export differs from the first): later readers of the same result '
                 'object get other tables', {**rep, 'result_changed': r.get('result_after_export') != result, 'second_export': (r.get('csv2') or '')[:200] if r.get('csv2') != r['csv'] else 'equal'})
    if sorted(map(tuple, got[1:])) != sorted(map(tuple, want)):
        extra = [g for g in got[1:] if g not in want][:2]
        missing = [w for w in want if w not in got[1:]][:2]
        chk.fail('C10/csv-differs', 'the CSV export does not carry exactly the values of the parsed result', {**rep, 'in_csv_only': extra, 'in_result_only': missing})
    else:
        chk.tag('csv/equal', len(want))
    # ---- JSON next to the report -----------------------------------------------------------------------------------------------------------
    js = r.get('json')
    if js is None:
        chk.fail('C10/json-missing', 'no JSON was written next to the report', rep)
        return
    if r.get('json_path_used_by_client') and Path(r['json_path_used_by_client']).name != Path(r['report_path']).with_suffix('.json').name:
        chk.fail('C10/json-path', 'the client looks for the JSON somewhere else than next to the report', rep)
    snap = r.get('snap') or {}
    for label, (path, agg, scale, d, unit) in SPEC.items():
        if path.startswith('expr:') or agg not in ('scalar', 'mean', 'max', 'min', 'first'):
            continue
        p = get(snap, path)
        if p is None:
            continue
        entry = js.get(p['Name'])
        if not isinstance(entry, dict):
            continue
        if agg != 'scalar':
            # a series both carry: the report shows its aggregate, the JSON the series itself
            vals = entry.get('value')
            if not (isinstance(vals, list) and vals and all(isinstance(x, (int, float)) and not isinstance(x, bool) and math.isfinite(x) for x in vals)) or len(vals) > 3000:
                continue
            if not isinstance(p.get('value'), list) or len(p['value']) != len(vals) or \
                    not all(isinstance(a, (int, float)) and math.isclose(a, b, rel_tol=1e-9, abs_tol=1e-12) for a, b in zip(p['value'], vals)):
                continue      # another quantity registered under the same name (the JSON merges the modules' dictionaries by name): not the series the line summarises
            ln = [x for x in lines if x.strip().startswith(label + ':')]
            if not ln:
                continue
            shown = ln[0].strip()[len(label) + 1:].split()
            if not shown or shown[0] == 'N/A':
                continue
            cid = f'j{len(pending)}'
            lines_out.append(f'figure {cid} agg={agg} scale={core.frac(scale)} d={d} xs={",".join(core.frac(x) for x in vals)}')
            pending.append((name, 'json', label, (shown[0], p['Name'], f'{agg} of {len(vals)} values'), rep))
            continue
        if not isinstance(p.get('value'), (int, float)) or isinstance(p.get('value'), bool):
            continue
        if not isinstance(entry.get('value'), (int, float)):
            continue
        ln = [x for x in lines if x.strip().startswith(label + ':')]
        if not ln:
            continue
        shown = ln[0].strip()[len(label) + 1:].split()
        if not shown or shown[0] == 'N/A' or not math.isfinite(entry['value']):
            continue
        cid = f'j{len(pending)}'
        lines_out.append(f'figure {cid} agg=scalar scale={core.frac(scale)} d={d} xs={core.frac(entry["value"])}')
        pending.append((name, 'json', label, (shown[0], p['Name'], entry['value']), rep))


def evaluate(chk: core.Check, cases, n_seeded):
    res = geo.pmap(_run, [p for _, p in cases], chk.scratch, chunksize=2)
    lines_out, pending = [], []
    kept = []
    for (name, params), r in zip(cases, res):
        if not r['ok']:
            chk.tag('run/failed')
            continue
        chk.tag('run/ok')
        kept.append((name, r))
        check_one(chk, name, r, lines_out, pending)
    byname = dict(kept)
    if 'history/reference' in byname and 'history/after-unit-directive' in byname:
        ra, rb = byname['history/reference']['result'], byname['history/after-unit-directive']['result']
        chk.case(('history', 'headers'), True)
        for cat in TABLE_TITLES:
            ha, hb = (ra.get(cat) or [None])[0], (rb.get(cat) or [None])[0]
            chk.tag('history/table-header/' + ('same' if ha == hb else 'differs'))
            if ha != hb:
                chk.fail(f'C10/history/table-header/{cat}', f'the client describes the columns of "{cat}" differently when another report was parsed before in the same process',
                         {'parsed_first_in_a_process': ha, 'parsed_after_a_report_with_requested_units': hb})
    out = chk.driver(lines_out)
    for k, (name, cat, field, vu, rep) in enumerate(pending):
        key = ('j' if cat == 'json' else 'c') + str(k)
        head, kv = core.parse_kv(out.get(key, 'missing'))
        if head != 'ok':
            chk.broken('C10/driver', f'{out.get(key)}'[:120], {**rep, 'field': field}, 'correspondence-break')
            continue
        if cat == 'json':
            shown, pname, val = vu
            chk.case(('json', field, name), True)
            if kv.get('tag') == 'fig' and kv['text'] != shown.replace(',', ''):
                chk.fail(f'C10/json-vs-report/{field}', f'the JSON holds {val!r} for "{pname}" but the report prints {shown} for "{field}"', {**rep, 'json_name': pname})
            else:
                chk.tag('json/equal')
            continue
        n = int(kv['n'])
        cands = []
        for c in (kv['cands'].split(';') if kv['cands'] else []):
            v, u, num = c.split('|')
            cands.append((dec(v), None if u == '-' else dec(u), num))
        val = vu.get('value')
        if isinstance(val, str):
            continue

        def num_matches(num, val):
            if num == 'none':
                return val is None
            kind, txt = num.split(':')
            if kind == 'int':
                return isinstance(val, int) and not isinstance(val, bool) and val == int(txt)
            return isinstance(val, float) and val == float(txt)
        ok = [c for c in cands if num_matches(c[2], val) and c[1] == vu.get('unit')]
        if n != 1 or not ok:
            if n > 1 and ok:
                chk.tag('lean/ambiguous')   # reported above from the independent tokenisation as ambiguous-label
                continue
            chk.broken(f'C10/correspondence/{field}', f'the Lean parser model gives {cands} for "{field}", the client {vu}', {**rep, 'field': field}, 'correspondence-break')
        else:
            chk.tag('lean/equal')
    # ---- hash seeds -----------------------------------------------------------------------------------------------------------------------------
    script = ('import sys, json, hashlib, logging\nlogging.disable(logging.CRITICAL)\nfrom geophires_x_client.geophires_x_result import GeophiresXResult\n'
              'for p in sys.argv[1:]:\n    r = GeophiresXResult(p).result\n    r.pop("metadata", None)\n    print(hashlib.sha1(json.dumps(r, sort_keys=False, default=str).encode()).hexdigest())\n')
    paths = [r['kept'] for _, r in kept[:n_seeded]]
    digests = []
    for seed in ('1', '2', '3'):
        p = subprocess.run([core.PY, '-c', script] + paths, capture_output=True, text=True, env=dict(os.environ, PYTHONHASHSEED=seed), timeout=900)
        digests.append(p.stdout.split())
    for i, path in enumerate(paths):
        chk.case(('hashseed', kept[i][0]), True)
        col = [d[i] if i < len(d) else None for d in digests]
        if len(set(col)) != 1 or col[0] is None:
            chk.fail('C10/differs-between-hash-seeds', 'parsing the same report under different PYTHONHASHSEEDs gives different results (value, structure or key order)',
                     {'configuration': kept[i][0], 'digests': col})
        else:
            chk.tag('hashseed/equal')


def extra_cases(chk: core.Check):
    """add-ons, carbon price, S-DAC-GT, huge and negative figures"""
    rng = chk.rng
    out = []
    a = geo.base_params(2, 1, 1, L=12, n=2)
    a.update({'AddOn Nickname 1': 'x', 'AddOn CAPEX 1': 10, 'AddOn OPEX 1': 1, 'AddOn Electricity Gained 1': 1e6, 'AddOn Heat Gained 1': 0, 'AddOn Profit Gained 1': 0.5})
    out.append(('addons', a))
    c = geo.base_params(3, 1, 1, L=15, n=1)
    c.update({'Starting Carbon Credit Value': 0.015, 'Ending Carbon Credit Value': 0.1, 'Carbon Escalation Start Year': 2, 'Carbon Escalation Rate Per Year': 0.01, 'Current Grid CO2 production': 0.93})
    out.append(('carbon', c))
    big = geo.base_params(2, 1, 1, L=30, n=1)
    big.update({'Number of Production Wells': 100, 'Number of Injection Wells': 100, 'Reservoir Depth': 6.5, 'Exploration Capital Cost': 99000, 'Electricity Rate': 0.01})
    out.append(('huge-figures', big))
    neg = geo.base_params(3, 2, 9, L=8, n=1)
    neg.update({'Starting Heat Sale Price': 0.0001, 'Ending Heat Sale Price': 0.0001})
    out.append(('negative-cashflow', neg))
    s = geo.base_params(2, 31, 4, L=10, n=1)
    s.update({'Do S-DAC-GT Calculations': 'True'})
    out.append(('sdacgt', s))
    # output-unit directives on outputs whose report lines follow the requested unit: report, client and JSON must all carry the converted value
    dcase = geo.base_params(2, 1, 1, L=9, n=1)
    dcase.update({'Units:Bottom-hole temperature': 'degF', 'Units:Total Capital Cost': 'KUSD'})
    out.append(('directive', dcase))
    cent = geo.base_params(2, 1, 1, L=100, n=1)
    cent['Construction Years'] = 3
    out.append(('century', cent))                      # year indices reach three digits
    a_ = geo.base_params(2, 1, 1, L=7, n=1)
    b_ = geo.base_params(3, 2, 9, L=12, n=2)
    out.append(('same-path-rewritten', ('seq', a_, b_)))   # second parse of a report path already parsed in this process
    # what the client says about a report must not depend on the reports it parsed before: the same content parsed first in a process, and
    # parsed after a report whose tables carry other (requested) units
    ref_ = geo.base_params(2, 1, 1, L=6, n=1)
    xdir = dict(geo.base_params(3, 1, 1, L=9, n=1))
    xdir.update({'Units:Cumulative Revenue from Project': 'KUSD', 'Units:Annual Revenue from Project': 'KUSD/yr'})
    out.append(('currency-directive', xdir))
    out.append(('history/reference', ref_))
    out.append(('history/after-unit-directive', ('seq2', xdir, ref_)))
    bigrev = geo.base_params(2, 1, 1, L=30, n=1)
    bigrev.update({'Number of Production Wells': 16, 'Number of Injection Wells': 16, 'Starting Electricity Sale Price': 0.15, 'Ending Electricity Sale Price': 0.15, 'Gradient 1': 70})
    out.append(('billion-revenue', bigrev))
    return out


def run(chk: core.Check) -> int:
    from tools import extract
    ext = extract.main(['Labels'])
    chk.coverage['extract_digest'] = {k: v['digest'] for k, v in ext.items()}
    chk.coverage['tables'] = {'client_fields': len(ext['Labels']['data']['fields']), 'writer_labels': len(ext['Labels']['data']['labels'])}
    clean = chk.prove(['GeoVerif.Properties.C10'])
    if not clean:
        # name the (field, label) pairs that break `labels_safe` (same relation, evaluated on the extracted tables) for the replay record
        def after_runs(x):
            return [x[i + 4:] for i in range(len(x)) if x.startswith('    ', i)]

        def inner(x):
            return [x[:i] for i in range(len(x)) if x.startswith(': ', i)]
        fields = set(ext['Labels']['data']['fields'])
        bad = []
        for b in ext['Labels']['data']['labels']:
            foreign = after_runs(b) + inner(b) + [y for x in inner(b) for y in after_runs(x)]
            bad += [(f, b) for f in foreign if f in fields]
            if b.startswith(' '):
                bad.append(('<leading blank>', b))
        if bad:
            chk.notes.append('labels_safe is broken by (client field, writer label): ' + '; '.join(f'{f!r} <- {b!r}' for f, b in bad[:6]))
            for f, b in bad[:3]:
                chk.broken('C10/proof/labels-safe', f'a line labelled {b!r} also carries the marker of client field {f!r}: the field can be filled from that line',
                           {'client_field': f, 'writer_label': b, 'theorem': 'GeoVerif.C10.labels_safe'}, 'proof-break')
    quick = chk.tier == 'quick'
    cases = cases_for(chk, 36 if quick else 96, 20 if quick else 400, 10 if quick else 40) + extra_cases(chk)
    evaluate(chk, cases, 12 if quick else 80)
    chk.assumptions += ['"exactly the number printed": compared as Python numbers of the same type (int without a decimal point, float with), i.e. float("1.50") == 1.5',
                        'string-valued fields (end-use option, reservoir model …) are compared only by presence',
                        'JSON vs report: the quantities both carry are taken from C09\'s label specification (scalar entries whose OutputParameter name is a JSON key)']
    chk.trusted += ['the independent tokeniser of this harness (str.split on the text after the exact label)', 'CPython csv / json modules',
                    'tools/extract.py (AST walk over the writers for the static labels, parameter names, client field table)']
    return chk.finish(rule=RULE)


def replay(chk: core.Check, path: str) -> int:
    return run(chk)
