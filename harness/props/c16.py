"""C16 — price and incentive schedules have the documented shape.

proof: GeoVerif.Properties.C16 (closed forms of the two builders for all L, s, dur; padding; ITC arithmetic)
tie:   direct calls of the real BuildPricingModel / BuildPTCModel vs the Lean model (exact rationals), whole runs for
       the zero padding of construction years and the ITC / grant / fee arithmetic.
"""
from __future__ import annotations

import json
from fractions import Fraction

from .. import core, geo

RULE = ('direct calls: seeded (L, start price, end price, escalation start, rate, PTC duration/value/inflation) tuples on a dyadic '
        'grid (exact float arithmetic) plus arbitrary floats; whole runs: grid configuration x random price/PTC/ITC/grant/fee settings. '
        'non-trivial = escalation active, cap reached, PTC active or an incentive non-zero; distinct by argument tuple')


def oracle_price(L, p0, p1, s, r, ptc):
    out = []
    for i in range(L):
        b = Fraction(p0) + (Fraction(i - s) * Fraction(r) if i >= s else 0)
        b = min(b, Fraction(p1))
        out.append(b + Fraction(ptc[i]))
    return out


def oracle_ptc(L, dur, v, adj, infl):
    return [(Fraction(v) * (1 + Fraction(infl)) ** i if adj else Fraction(v)) if i < dur else Fraction(0) for i in range(L)]


def gen_direct(rng, n, enumerate_all=False):
    dy = [k / 64 for k in range(0, 65)]
    cases = []
    if enumerate_all:
        # thorough: every (L, s, dur) with L in 1..100, s in 0..L+1 (and 100), dur in 0..L on a rotating dyadic grid
        idx = 0
        for L in range(1, 101):
            for s in list(range(0, L + 2)):
                for dur in ({0, 1, L // 2, L - 1, L} if L > 6 else set(range(0, L + 1))):
                    if dur < 0:
                        continue
                    idx += 1
                    p0 = dy[(idx * 7) % 65]
                    p1 = dy[(idx * 11 + 3) % 65]
                    r = dy[(idx * 13) % 17] / 4
                    v = dy[(idx * 5) % 33]
                    infl = [0.0, 0.125, 0.03125, 0.02][idx % 4]
                    cases.append((L, p0, p1, s, r, dur, v, bool(idx % 2), infl))
        return cases
    for _ in range(n):
        L = rng.choice([1, 2, 3, 7, 30, 100, rng.randint(1, 100)])
        s = rng.choice([0, 1, L - 1, L, L + 3, rng.randint(0, 100)])
        s = max(0, s)
        dur = rng.choice([0, 1, L, rng.randint(0, L)])
        if rng.random() < 0.7:
            p0, p1, r, v = rng.choice(dy), rng.choice(dy) * rng.choice([1, 1, 8]), rng.choice(dy) / 4, rng.choice(dy)
            infl = rng.choice([0.0, 0.125, 0.03125])
        else:
            p0, p1, r, v = rng.uniform(0, 100), rng.uniform(0, 100), rng.uniform(0, 10), rng.uniform(0, 100)
            infl = rng.uniform(-0.1, 1.0)
        cases.append((L, p0, p1, s, r, dur, v, rng.random() < 0.5, infl))
    return cases


def direct(chk: core.Check, cases):
    import geophires_x.Model  # noqa: F401  (import order: Economics alone is a circular import)
    from geophires_x.Economics import BuildPricingModel, BuildPTCModel

    lines, meta = [], {}
    for k, (L, p0, p1, s, r, dur, v, adj, infl) in enumerate(cases):
        ptc = BuildPTCModel(L, dur, v, adj, infl)
        price = BuildPricingModel(L, p0, p1, s, r, list(ptc))
        meta[f't{k}'] = ('ptc', cases[k], ptc)
        meta[f'p{k}'] = ('pricing', cases[k], price, ptc)
        lines.append(f'ptc t{k} L={L} dur={dur} v={core.frac(v)} adj={int(adj)} infl={core.frac(infl)}')
        lines.append(f'pricing p{k} L={L} p0={core.frac(p0)} p1={core.frac(p1)} s={s} r={core.frac(r)} ptc={core.fracs(ptc)}')
    res = chk.driver(lines)
    for cid, m in meta.items():
        kind, case = m[0], m[1]
        L, p0, p1, s, r, dur, v, adj, infl = case
        py = m[2]
        head, kv = core.parse_kv(res.get(cid, 'missing'))
        chk.tag(f'{kind}/{kv.get("tag", head)}')
        nontriv = kv.get('tag') not in (None, 'none', 'unclamped/flat')
        chk.case((kind,) + tuple(case), nontriv)
        lean = core.parse_rats(kv.get('ptc' if kind == 'ptc' else 'price', '')) if head == 'ok' else None
        orc = oracle_ptc(L, dur, v, adj, infl) if kind == 'ptc' else oracle_price(L, p0, p1, s, r, m[3])
        # scale for rounding of the escalated / inflated value: compare at 1e-12 relative to the magnitudes involved
        ok_model = lean is not None and len(lean) == len(py) and all(core.close(a, b, 1e-11, scale=max(abs(p0), abs(p1), abs(v), 1e-300)) for a, b in zip(py, lean))
        ok_oracle = len(orc) == len(py) and all(core.close(a, b, 1e-11, scale=max(abs(p0), abs(p1), abs(v), 1e-300)) for a, b in zip(py, orc))
        rep = {'op': kind, 'L': L, 'start_price': p0, 'end_price': p1, 'escalation_start': s, 'rate': r, 'ptc_duration': dur,
               'ptc_value': v, 'ptc_inflation_adjusted': adj, 'inflation': infl, 'code_output': py,
               'documented_shape': [str(x) for x in orc], 'lean_model': None if lean is None else [str(x) for x in lean]}
        if kind == 'pricing':
            rep['ptc_addition'] = m[3]
        if L <= 7 and nontriv:
            chk.sample({k2: rep[k2] for k2 in rep if k2 not in ('documented_shape',)})
        if not ok_oracle:
            chk.fail(f'C16/{kind}/shape', f'{kind} schedule built by the code differs from the documented shape', rep)
        elif not ok_model:
            chk.broken(f'C16/{kind}/correspondence', f'Lean model of {kind} builder disagrees with the code (documented shape still met)', rep, 'correspondence-break')


# ---------------------------------------------------------------------------------------------------------------
def _whole(case):
    params = case
    r = geo.run_geophires(params, want_report=False)
    if not r['ok']:
        return {'ok': False, 'error': r['error'], 'params': params}
    s = r['snaps']['calculated']
    return {'ok': True, 'params': params, 'e': s['economics']['p'], 'attr': s['economics']['attr'],
            'L': s['surfaceplant']['p']['plant_lifetime']['value'], 'cy': s['surfaceplant']['p']['construction_years']['value'],
            'redrill': s['wellbores']['p']['redrill']['value']}


def gen_whole(rng, n):
    cases = []
    g = geo.grid()
    for k in range(n):
        econ, eu, pl = g[(k * 7 + rng.randint(0, 95)) % 96]
        L = rng.choice([1, 2, 5, 20, 30, 40]) if pl != 7 else rng.choice([5, 20, 30])
        if L == 1:
            L = 2
        p = geo.base_params(econ, eu, pl, L=L, n=rng.choice([1, 2, 4]))
        p['Construction Years'] = rng.choice([1, 2, 3, 7, 14])
        for prod in ('Electricity', 'Heat', 'Cooling', 'Carbon'):
            if rng.random() < 0.6:
                unit_scale = 1.0 if prod != 'Carbon' else 1.0
                a, b = rng.choice([0.03, 0.055, 0.1, 0.5]), rng.choice([0.03, 0.07, 0.1, 1.0])
                p[f'Starting {prod} Sale Price' if prod != 'Carbon' else 'Starting Carbon Credit Value'] = a * unit_scale
                p[f'Ending {prod} Sale Price' if prod != 'Carbon' else 'Ending Carbon Credit Value'] = b * unit_scale
                p[f'{prod} Escalation Start Year'] = rng.choice([0, 1, 3, L, min(L + 2, 101)])
                p[f'{prod} Escalation Rate Per Year'] = rng.choice([0.0, 0.001, 0.012, 0.1])
        if rng.random() < 0.5:
            p['Do Carbon Price Calculations'] = True
        if rng.random() < 0.6:
            p['Production Tax Credit Electricity'] = rng.choice([0.0, 0.01, 0.04])
            p['Production Tax Credit Heat'] = rng.choice([0.0, 0.01, 0.4])
            p['Production Tax Credit Cooling'] = rng.choice([0.0, 0.01, 0.4])
            p['Production Tax Credit Duration'] = rng.choice([rng.randint(0, L), L, L, max(L - 1, 0), 0])
            p['Production Tax Credit Inflation Adjusted'] = rng.choice([True, False])
        if rng.random() < 0.6:
            p['Investment Tax Credit Rate'] = rng.choice([0.0, 0.1, 0.3, 0.5])
        if rng.random() < 0.5:
            p['One-time Flat License Fees Etc'] = rng.choice([0, 1.5, 20])
            p['Other Incentives'] = rng.choice([0, 2.5, 10])
            p['One-time Grants Etc'] = rng.choice([0, 3, 12.5])
            p['Annual License Fees Etc'] = rng.choice([0, 0.25, 1])
            p['Tax Relief Per Year'] = rng.choice([0, 0.125, 2])
        if rng.random() < 0.3:
            p['Total Capital Cost'] = rng.choice([50, 120.5])
        if rng.random() < 0.3:
            p['Total O&M Cost'] = rng.choice([1, 4.5])
        if rng.random() < 0.5:
            geo.diversify(rng, p)
        cases.append(p)
    return cases


PRODUCTS = [('Elec', 'PTCElec', 'PTCElecPrice'), ('Heat', 'PTCHeat', 'PTCHeatPrice'), ('Cooling', 'PTCCooling', 'PTCCoolingPrice'),
            ('Carbon', None, 'PTCCarbonPrice')]


def whole(chk: core.Check, cases):
    results = geo.pmap(_whole, cases, chk.scratch)
    for k, r in enumerate(results):
        if not r.get('ok'):
            chk.tag('whole/run-failed')
            if len(chk.notes) < 5:
                chk.notes.append(f'whole-run case {k} did not run: {str(r.get("error"))[:160]}')
            continue
        E, A, L, cy = r['e'], r['attr'], r['L'], r['cy']
        V = lambda a: E[a]['value']  # noqa: E731
        infl, dur, adj = V('RINFL'), V('PTCDuration'), V('PTCInflationAdjusted')
        nontriv = False
        for (tag, kptc, aptc) in PRODUCTS:
            p0, p1, s, rr = V(f'{tag}StartPrice'), V(f'{tag}EndPrice'), V(f'{tag}EscalationStart'), V(f'{tag}EscalationRate')
            ptc = oracle_ptc(L, dur, V(kptc), adj, infl) if (kptc and E[kptc]['Provided']) else [Fraction(0)] * L
            want = [Fraction(0)] * cy + oracle_price(L, p0, p1, s, rr, ptc)
            got = V(f'{tag}Price')
            rep = {'params': r['params'], 'product': tag, 'construction_years': cy, 'L': L, 'code_price_series': got,
                   'documented': [str(x) for x in want], 'code_ptc_series': A.get(aptc)}
            if any(x != 0 for x in ptc) or (rr != 0 and s < L):
                nontriv = True
            ok = isinstance(got, list) and len(got) == len(want) and all(
                core.close(a, b, 1e-11, scale=max(abs(p0), abs(p1), 1e-12)) for a, b in zip(got, want))
            if not ok:
                chk.fail(f'C16/whole/price/{tag}', f'{tag} price series of a whole run differs from the documented schedule '
                         '(incl. construction-year zeros)', rep)
            chk.tag(f'whole/price/{tag}/' + ('ptc' if any(x != 0 for x in ptc) else 'noptc'))
        # ITC / grants / fees: CCap and Coam must move by exactly the stated amounts
        ritc_p, ritc = E['RITC']['Provided'], V('RITC')
        fees, inc, gr = V('FlatLicenseEtc'), V('OtherIncentives'), V('TotalGrant')
        ccap = Fraction(V('CCap'))
        itc_val = Fraction(V('RITCValue'))
        adj_base = ccap - Fraction(fees) + Fraction(inc) + Fraction(gr)  # capital cost right after the credit
        if ritc_p:
            nontriv = nontriv or ritc != 0
            if Fraction(ritc) != 1:
                base = adj_base / (1 - Fraction(ritc))
                if not core.close(float(itc_val), Fraction(ritc) * base, 1e-9, abs_tol=1e-12):
                    chk.fail('C16/whole/itc', 'reported ITC value is not rate x (capital cost before credit)',
                             {'params': r['params'], 'ITC_value': float(itc_val), 'rate': ritc, 'capital_cost_before_credit': float(base)})
            chk.tag('whole/itc/provided')
        else:
            chk.tag('whole/itc/absent')
            if itc_val != 0:
                chk.fail('C16/whole/itc-absent', 'ITC value reported although no ITC rate was given', {'params': r['params'], 'ITC_value': float(itc_val)})
        if E['totalcapcost']['Valid']:
            tot = Fraction(V('totalcapcost'))
            want = (tot - Fraction(ritc) * tot if ritc_p else tot) + Fraction(fees) - Fraction(inc) - Fraction(gr)
            chk.tag('whole/ccap/fixed-total')
            if not core.close(float(ccap), want, 1e-12, abs_tol=1e-12):
                chk.fail('C16/whole/ccap-adjust', 'capital cost after ITC, fees, incentives and grants is not the stated arithmetic',
                         {'params': r['params'], 'total_given': float(tot), 'reported_total': float(ccap), 'documented': str(want)})
        if E['oamtotalfixed']['Valid'] and not (r['redrill'] and r['redrill'] > 0):
            tot = Fraction(V('oamtotalfixed'))
            want = tot + Fraction(V('AnnualLicenseEtc')) - Fraction(V('TaxRelief'))
            chk.tag('whole/coam/fixed-total')
            if not core.close(V('Coam'), want, 1e-12, abs_tol=1e-12):
                chk.fail('C16/whole/coam-adjust', 'annual O&M after fees and tax relief is not the stated arithmetic',
                         {'params': r['params'], 'total_given': float(tot), 'reported_total': V('Coam'), 'documented': str(want)})
        chk.case(('whole', json.dumps(r['params'], sort_keys=True, default=str)), nontriv)
        chk.sample({'whole_run': {k2: r['params'][k2] for k2 in list(r['params'])[-8:]}, 'ElecPrice': V('ElecPrice')[:6]})


def fee_twins(chk: core.Check, n):
    """annual fees and tax relief change annual O&M by exactly their stated amounts — also when wells are redrilled, with a correlated or a
    user-given O&M total: each configuration is run with and without the two items and the difference of the reported annual O&M is compared"""
    rng = chk.rng
    g = geo.grid()
    cases, meta = [], []
    for k in range(n):
        econ, eu, pl = g[(k * 11 + rng.randint(0, 95)) % 96]
        if pl == 7:
            pl, eu = 9, 2
        p = geo.base_params(econ, eu, pl, L=rng.choice([10, 20, 30]), n=rng.choice([1, 2]))
        if k % 2 == 0:
            p.update({'Maximum Drawdown': rng.choice([0.05, 0.1, 0.2]), 'Drawdown Parameter': rng.choice([0.01, 0.02])})   # the run redrills
        if k % 3 == 0:
            p['Total O&M Cost'] = rng.choice([1, 4.5])
        fee, relief = rng.choice([0.25, 1.1, 3]), rng.choice([0, 0.125, 2])
        q = dict(p)
        q.update({'Annual License Fees Etc': fee, 'Tax Relief Per Year': relief})
        cases += [p, q]
        meta.append((fee, relief))
    res = geo.pmap(_whole, cases, chk.scratch)
    for i, (fee, relief) in enumerate(meta):
        a, b = res[2 * i], res[2 * i + 1]
        if not (a.get('ok') and b.get('ok')):
            chk.tag('twins/run-failed')
            continue
        d = Fraction(b['e']['Coam']['value']) - Fraction(a['e']['Coam']['value'])
        want = Fraction(fee) - Fraction(relief)
        redr = bool(b['redrill'] and b['redrill'] > 0)
        chk.case(('fee-twin', json.dumps(b['params'], sort_keys=True, default=str)), True)
        chk.tag('twins/' + ('redrilling' if redr else 'no-redrilling') + ('/fixed-oam' if 'Total O&M Cost' in b['params'] else '/correlated-oam'))
        if abs(d - want) > Fraction(1, 10**9) * max(1, abs(Fraction(b['e']['Coam']['value']))):
            chk.fail('C16/whole/coam-adjust' + ('/redrilling' if redr else ''), f'annual license fees {fee} and tax relief {relief} change the annual O&M by {float(d):.6g}, not by their stated amounts ({float(want):.6g})',
                     {'params': b['params'], 'redrilled': b['redrill'], 'coam_with': b['e']['Coam']['value'], 'coam_without': a['e']['Coam']['value']})


def run(chk: core.Check) -> int:
    from tools import extract
    ext = extract.main(['Code'])
    chk.coverage['extract_digest'] = {k: v['digest'] for k, v in ext.items()}
    chk.coverage['translated_functions'] = ext['Code']['data']
    chk.trusted.append('tools/py2lean.py (Python subset -> Lean: assignments, list item assignment with Python index semantics, for-range loops, if; floats read as exact rationals)')
    clean = chk.prove(['GeoVerif.Properties.C16'])
    quick = chk.tier == 'quick'
    direct(chk, gen_direct(chk.rng, 4000 if quick else 20000))
    if not quick:
        direct(chk, gen_direct(chk.rng, 0, enumerate_all=True))
    whole(chk, gen_whole(chk.rng, 150 if quick else 1500))
    fee_twins(chk, 24 if quick else 200)
    if (not clean or chk.breaks) and not chk.failures:
        # failing-input search: more direct cases judged by the documented-shape oracle
        direct(chk, gen_direct(chk.rng, 20000))
        whole(chk, gen_whole(chk.rng, 600))
    chk.assumptions += ['the two builders are called directly (pure functions); whole runs use the TDP reservoir grid',
                        'documented shape taken from the property statement and the builders docstrings']
    chk.trusted.append('modelled, not verified: float rounding of (1+inflation)^i and start+k*rate (compared at 1e-11 relative)')
    return chk.finish(rule=RULE)


def replay(chk: core.Check, path: str) -> int:
    body = json.loads(open(path).read())
    rp = body['replay']
    if 'params' in rp:
        whole(chk, [rp['params']])
    else:
        direct(chk, [(rp['L'], rp['start_price'], rp['end_price'], rp['escalation_start'], rp['rate'], rp['ptc_duration'],
                      rp['ptc_value'], rp['ptc_inflation_adjusted'], rp['inflation'])])
    return chk.finish(rule='replay of one recorded case')
