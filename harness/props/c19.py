"""C19 — the published parameter schema matches what the simulator accepts.

proof: GeoVerif.Properties.C19 — every statement is a `decide +kernel` obligation over tables that tools/extract.py regenerates from the
       repository on every run (generated request / result / HIP-RA-X schemas, the three committed files, declarations of the enumerated
       sources, names accepted by the modules of every configuration family, client field list).
search: the same relations evaluated in Python on the extracted data name the offending parameter / field when an obligation breaks
       (and re-confirm the listed known findings on every run).
"""
from __future__ import annotations

import json
from fractions import Fraction

from .. import core

RULE = ('complete: every property of the generated request schema (208) x {name in union, entry vs module declaration, committed vs generated}, '
        'every accepted parameter name of every configuration family (238), every result-schema field, HIP-RA-X request schema. '
        'non-trivial = every compared entry; distinct by (table, name)')


import os


def close(a, b):
    if a is None and b is None:
        return True
    if a is None or b is None:
        return False
    return abs(a - b) <= Fraction(1, 10**9) * max(1, abs(b))


def relations(chk: core.Check, d):
    from tools import extract
    rows = {r['name']: r for r in d['rows_gen']}
    # 1. names = union of the enumerated sources
    for n in sorted(set(d['request_names']) - set(d['enumerated'])):
        chk.fail(f'C19/schema-extra/{n}', f"'{n}' is in the generated request schema but no enumerated parameter source declares it", {'name': n})
    for n in sorted(set(d['enumerated']) - set(d['request_names'])):
        chk.fail(f'C19/schema-lacks-enumerated/{n}', f"'{n}' is declared by an enumerated parameter source but missing from the generated request schema", {'name': n})
    for n in d['request_names']:
        chk.case(('request', n), True)
    # 2. entry vs module declaration (identically defined names)
    for n, decl in d['identical'].items():
        s = rows.get(n)
        if s is None:
            continue
        dm = {k: (Fraction(v) if (v is not None and k in ('default', 'min', 'max')) else v) for k, v in decl.items()}
        chk.case(('decl', n), True)
        chk.tag('decl/' + str(dm['type']))
        for fld, sv, mv, num in (('type', s['type'], dm['type'], False), ('units', s['units'], dm['units'], False),
                                 ('min', s['min'], dm['min'], True), ('max', s['max'], dm['max'], True), ('default', s['default'], dm['default'], True)):
            if num:
                if fld == 'default' and mv is None:
                    continue
                ok = close(extract._rat_of(sv), mv)
            else:
                ok = sv == mv
            if not ok:
                chk.fail(f'C19/schema-differs-from-module/{n}/{fld}', f"request schema {fld} of '{n}' ({sv!r}) is not what the module declaration enforces ({str(mv)})",
                         {'name': n, 'field': fld, 'schema': sv, 'module': str(mv), 'declared_in': decl.get('class')})
    # 3. committed == generated
    for n in d['gen_vs_committed_diff']:
        chk.fail(f'C19/committed-differs/request/{n}', f"committed geophires-request.json differs from the generated schema at '{n}'", {'name': n})
    if sorted(d['request_names']) != sorted(d['committed_names']):
        for n in sorted(set(d['request_names']) ^ set(d['committed_names'])):
            chk.fail(f'C19/committed-differs/request-names/{n}', f"'{n}' is in only one of committed / generated request schema", {'name': n})
    for n in d['hip_diff']:
        chk.fail(f'C19/committed-differs/hip-ra-x/{n}', f"committed hip-ra-x-request.json differs from the generated schema at '{n}'", {'name': n})
    for x in d['result_diff']:
        chk.fail(f'C19/committed-differs/result/{x[0]}/{x[1]}', 'committed geophires-result.json differs from the generated result schema', {'category': x[0], 'field': x[1]})
    # 4. result fields extractable
    for f in d['result_fields_not_in_parser']:
        chk.fail(f'C19/result-field-not-extractable/{f}', f"result schema names '{f}' but the client has no such field to extract", {'field': f})
    # 4b. … and from a *report*: a field the writers could print on the pinned tree (its label is a static label of Outputs*.py or a parameter
    #     Name / display_name) must still be printable — a renamed label leaves the schema naming a field no report can contain
    import json as _json
    base = _json.loads((core.VERIF / 'harness' / 'data' / 'printable_result_fields.json').read_text())['fields']
    _t, lab = extract.labels_table()
    labels = set(lab['labels'])
    for f in base:
        if f in d.get('committed_result_fields', []):
            chk.case(('printable', f), True)
            if f not in labels:
                chk.fail(f'C19/result-field-never-printed/{f}', f"the result schema names '{f}', the client looks for that label, but no report writer prints a line labelled so any more",
                         {'field': f, 'was_printable_at': 'pinned tree (harness/data/printable_result_fields.json)'})
    chk.coverage['printable_result_fields_checked'] = len([f for f in base if f in d.get('committed_result_fields', [])])
    # 5. accepted names missing from the schema
    for n, w in d['missing_from_schema'].items():
        chk.case(('accepted', n), True)
        chk.fail(f'C19/missing-from-schema/{n}', f"input parameter '{n}' is accepted by {', '.join(w)} but is not in the generated request schema", {'name': n, 'accepted_by': w})
    # 6. names a module picks up directly from the input (without declaring a parameter): accepted inputs too, so they must be published
    #    (source-level relation evaluated here on the AST scan; the kernel-decided clauses above cover the declared parameters)
    known_adhoc = {'AddOn Nickname 1'}     # the switch line of the add-on block ('AddOn Nickname <n>' is declared per add-on at run time)
    published = set(d['request_names']) | set(d['missing_from_schema'])
    for n, where in d.get('adhoc_lookups', []):
        chk.case(('adhoc', n), True)
        if n not in published and n not in known_adhoc:
            chk.fail(f'C19/accepted-ad-hoc-not-in-schema/{n}', f"{where} accepts an input named '{n}' by looking it up directly in the input, but no parameter of that name is declared or published", {'name': n, 'file': where})
    chk.coverage['adhoc_lookups'] = len(d.get('adhoc_lookups', []))
    chk.coverage['tables'] = {k: d[k] for k in ('n_request', 'n_enumerated', 'n_accepted', 'n_identical', 'strings')}
    chk.coverage['not_identically_defined'] = d['differing']
    chk.sample({'request_entry': d['rows_gen'][0]})
    chk.sample({'module_declaration': {'Reservoir Depth': d['identical'].get('Reservoir Depth')}})


def enforcement(chk: core.Check, d):
    """the published bounds are the ones the reader enforces: for every identically-defined float / int parameter of the request schema the real
    ReadParameter (on a deep copy of a live Parameter object) accepts the published minimum and maximum and rejects the next float / integer outside"""
    import contextlib
    import copy
    import io
    import logging
    import math
    from tools import extract
    import geophires_x.Model  # noqa: F401
    from geophires_x.Parameter import ParameterEntry, ReadParameter, floatParameter, intParameter

    logging.disable(logging.CRITICAL)
    rows = {r['name']: r for r in d['rows_gen']}
    done = set()
    for fam, settings in list(extract.FAMILIES):
        try:
            m = extract.instantiate_family(settings)
        except Exception:
            continue
        for mod in [getattr(m, a, None) for a in extract.MODULES]:
            if mod is None or not hasattr(mod, 'ParameterDict'):
                continue
            for key, p in mod.ParameterDict.items():
                if not isinstance(p, (floatParameter, intParameter)) or p.Name in done or p.Name not in rows or p.Name not in d['identical']:
                    continue
                done.add(p.Name)
                s = rows[p.Name]
                mn, mx = extract._rat_of(s['min']), extract._rat_of(s['max'])
                if mn is None or mx is None:
                    continue
                isint = isinstance(p, intParameter)
                lo, hi = (int(mn), int(mx)) if isint else (float(mn), float(mx))
                probes = [('min', lo, True), ('max', hi, True),
                          ('below-min', lo - 1 if isint else math.nextafter(lo, -math.inf), False), ('above-max', hi + 1 if isint else math.nextafter(hi, math.inf), False)]
                for tag, v, accept in probes:
                    if v == p.DefaultValue or v == p.value or (isinstance(v, float) and not math.isfinite(v)):
                        continue
                    if isint and accept and v not in [int(getattr(a, 'int_value', getattr(a, 'value', a))) for a in p.AllowableRange]:
                        continue
                    q = copy.deepcopy(p)
                    q.Provided, q.Valid = False, False
                    try:
                        with contextlib.redirect_stdout(io.StringIO()):
                            ReadParameter(ParameterEntry(Name=p.Name, sValue=repr(v), Comment=''), q, m)
                        got = True
                    except ValueError:
                        got = False
                    except Exception:  # noqa
                        continue
                    chk.case(('enforced', p.Name, tag), True)
                    chk.tag(f'enforced/{tag}/' + ('accepted' if got else 'rejected'))
                    if got != accept:
                        chk.fail(f'C19/bound-not-enforced/{p.Name}/{tag}', f"the schema publishes [{s['min']}, {s['max']}] for '{p.Name}' but the reader " +
                                 (f'accepts {v!r}' if got else f'rejects {v!r}'), {'name': p.Name, 'probe': tag, 'value': repr(v), 'schema_min': s['min'], 'schema_max': s['max']})


HISTORY = r'''
import contextlib, io, json, logging, os, sys, tempfile
logging.disable(logging.CRITICAL)
from geophires_x_schema_generator import GeophiresXSchemaGenerator
from geophires_x_client import GeophiresXClient, GeophiresInputParameters
import geophires_x_schema_generator as G
from pathlib import Path

def gen():
    with contextlib.redirect_stdout(io.StringIO()):
        req, res = GeophiresXSchemaGenerator().generate_json_schema()
    return req

def canon(x):
    return json.dumps(x, sort_keys=True, default=str)

committed = json.loads((Path(G.__file__).parent / 'geophires-request.json').read_text())
out = {'steps': []}
first = gen()
out['steps'].append({'step': 'generate (fresh process)', 'differs': sorted(k for k in committed['properties'] if canon(committed['properties'][k]) != canon(first['properties'].get(k)))})
base = {'Reservoir Model': 4, 'Drawdown Parameter': 0.005, 'Reservoir Depth': 3, 'Maximum Temperature': 400, 'Number of Production Wells': 2,
        'Number of Injection Wells': 2, 'Production Flow Rate per Well': 55, 'End-Use Option': 2, 'Power Plant Type': 9, 'Plant Lifetime': 10,
        'Time steps per year': 1, 'Print Output to Console': 0}
def run(extra):
    with contextlib.redirect_stdout(io.StringIO()), contextlib.redirect_stderr(io.StringIO()):
        r = GeophiresXClient(enable_caching=False).get_geophires_result(GeophiresInputParameters({**base, **extra}))
    return r.result['RESERVOIR PARAMETERS'].get('Bottom-hole temperature', {}).get('value')
bht_rich = run({'Number of Segments': 3, 'Gradient 1': 70, 'Thickness 1': 1.0, 'Gradient 2': 40, 'Thickness 2': 1.0, 'Gradient 3': 30,
                'Surface Temperature': 17, 'Reservoir Heat Capacity': 1050, 'Reservoir Density': 2650, 'Utilization Factor': 0.85})
second = gen()
out['steps'].append({'step': 'generate again after a 3-segment run in the same process',
                     'differs': sorted(k for k in committed['properties'] if canon(committed['properties'][k]) != canon(second['properties'].get(k)))})
out['bht_after_history'] = run({})
print('HISTORY-RESULT ' + json.dumps(out))
'''

SPARSE = r'''
import contextlib, io, json, logging
logging.disable(logging.CRITICAL)
from geophires_x_client import GeophiresXClient, GeophiresInputParameters
base = {'Reservoir Model': 4, 'Drawdown Parameter': 0.005, 'Reservoir Depth': 3, 'Maximum Temperature': 400, 'Number of Production Wells': 2,
        'Number of Injection Wells': 2, 'Production Flow Rate per Well': 55, 'End-Use Option': 2, 'Power Plant Type': 9, 'Plant Lifetime': 10,
        'Time steps per year': 1, 'Print Output to Console': 0}
with contextlib.redirect_stdout(io.StringIO()), contextlib.redirect_stderr(io.StringIO()):
    r = GeophiresXClient(enable_caching=False).get_geophires_result(GeophiresInputParameters(base))
print('SPARSE-RESULT ' + json.dumps(r.result['RESERVOIR PARAMETERS'].get('Bottom-hole temperature', {}).get('value')))
'''


def history(chk: core.Check):
    """the published schema must not depend on what the process did before: generate, run a case that states many parameters, generate again
    (each compared with the committed file); then a run that states almost nothing must use the published defaults — the same answer as in a
    fresh process"""
    import json
    import subprocess
    env = dict(os.environ)
    env['PYTHONPATH'] = str(core.SRC) + os.pathsep + env.get('PYTHONPATH', '')

    def sub(code, marker):
        p = subprocess.run([core.PY, '-c', code], capture_output=True, text=True, env=env, cwd=str(chk.scratch), timeout=900)
        for ln in p.stdout.splitlines():
            if ln.startswith(marker):
                return json.loads(ln[len(marker):]), p
        return None, p

    h, p1 = sub(HISTORY, 'HISTORY-RESULT ')
    f, p2 = sub(SPARSE, 'SPARSE-RESULT ')
    if h is None or f is None:
        chk.notes.append('schema history could not be run: ' + ((p1.stderr if h is None else p2.stderr) or '')[-300:])
        chk.tag('history/not-run')
        return
    for st in h['steps']:
        chk.case(('history', st['step']), True)
        chk.tag('history/' + ('equal' if not st['differs'] else 'differs'))
        for n in st['differs'][:5]:
            chk.fail(f'C19/committed-differs/request-after-history/{n}', f"generated request schema differs from the committed one at '{n}' ({st['step']})",
                     {'name': n, 'step': st['step']})
    chk.case(('history', 'defaults-after-history'), True)
    if h['bht_after_history'] != f:
        chk.fail('C19/default-not-used-after-history', f'a run that leaves the gradients at their published defaults reports bottom-hole temperature {h["bht_after_history"]} '
                 f'after an earlier 3-segment run in the same process, {f} in a fresh process', {'after_history': h['bht_after_history'], 'fresh_process': f})


def run(chk: core.Check) -> int:
    from tools import extract
    ext = extract.main(['Schema'])
    chk.coverage['extract_digest'] = {k: v['digest'] for k, v in ext.items()}
    chk.coverage['exhaustive'] = True
    clean = chk.prove(['GeoVerif.Properties.C19'])
    relations(chk, ext['Schema']['data'])
    enforcement(chk, ext['Schema']['data'])
    history(chk)
    chk.assumptions += ['"what the simulator enforces" = the live Parameter objects\' Min / Max / AllowableRange / DefaultValue / CurrentUnits (enforcement itself is C07)',
                        'names not defined identically in all sources declaring them are listed under coverage.not_identically_defined, as the property exempts them']
    chk.trusted += ['tools/extract.py (interning of strings, canonical JSON text per schema property)']
    return chk.finish(rule=RULE)


def replay(chk: core.Check, path: str) -> int:
    return run(chk)
