"""C19 — the published parameter schema matches what the simulator accepts.

proof: GeoVerif.Properties.C19 — every statement is a `decide +kernel` obligation over tables that tools/extract.py regenerates from the
       repository on every run (generated request / result / HIP-RA-X schemas, the three committed files, declarations of the enumerated
       sources, names accepted by the modules of every configuration family, client field list).
search: the same relations evaluated in Python on the extracted data name the offending parameter / field when an obligation breaks
       (and re-confirm the listed known findings on every run).
"""
from __future__ import annotations

import json
from fractions import Fraction

from .. import core

RULE = ('complete: every property of the generated request schema (208) x {name in union, entry vs module declaration, committed vs generated}, '
        'every accepted parameter name of every configuration family (238), every result-schema field, HIP-RA-X request schema. '
        'non-trivial = every compared entry; distinct by (table, name)')


def close(a, b):
    if a is None and b is None:
        return True
    if a is None or b is None:
        return False
    return abs(a - b) <= Fraction(1, 10**9) * max(1, abs(b))


def relations(chk: core.Check, d):
    from tools import extract
    rows = {r['name']: r for r in d['rows_gen']}
    # 1. names = union of the enumerated sources
    for n in sorted(set(d['request_names']) - set(d['enumerated'])):
        chk.fail(f'C19/schema-extra/{n}', f"'{n}' is in the generated request schema but no enumerated parameter source declares it", {'name': n})
    for n in sorted(set(d['enumerated']) - set(d['request_names'])):
        chk.fail(f'C19/schema-lacks-enumerated/{n}', f"'{n}' is declared by an enumerated parameter source but missing from the generated request schema", {'name': n})
    for n in d['request_names']:
        chk.case(('request', n), True)
    # 2. entry vs module declaration (identically defined names)
    for n, decl in d['identical'].items():
        s = rows.get(n)
        if s is None:
            continue
        dm = {k: (Fraction(v) if (v is not None and k in ('default', 'min', 'max')) else v) for k, v in decl.items()}
        chk.case(('decl', n), True)
        chk.tag('decl/' + str(dm['type']))
        for fld, sv, mv, num in (('type', s['type'], dm['type'], False), ('units', s['units'], dm['units'], False),
                                 ('min', s['min'], dm['min'], True), ('max', s['max'], dm['max'], True), ('default', s['default'], dm['default'], True)):
            if num:
                if fld == 'default' and mv is None:
                    continue
                ok = close(extract._rat_of(sv), mv)
            else:
                ok = sv == mv
            if not ok:
                chk.fail(f'C19/schema-differs-from-module/{n}/{fld}', f"request schema {fld} of '{n}' ({sv!r}) is not what the module declaration enforces ({str(mv)})",
                         {'name': n, 'field': fld, 'schema': sv, 'module': str(mv), 'declared_in': decl.get('class')})
    # 3. committed == generated
    for n in d['gen_vs_committed_diff']:
        chk.fail(f'C19/committed-differs/request/{n}', f"committed geophires-request.json differs from the generated schema at '{n}'", {'name': n})
    if sorted(d['request_names']) != sorted(d['committed_names']):
        for n in sorted(set(d['request_names']) ^ set(d['committed_names'])):
            chk.fail(f'C19/committed-differs/request-names/{n}', f"'{n}' is in only one of committed / generated request schema", {'name': n})
    for n in d['hip_diff']:
        chk.fail(f'C19/committed-differs/hip-ra-x/{n}', f"committed hip-ra-x-request.json differs from the generated schema at '{n}'", {'name': n})
    for x in d['result_diff']:
        chk.fail(f'C19/committed-differs/result/{x[0]}/{x[1]}', 'committed geophires-result.json differs from the generated result schema', {'category': x[0], 'field': x[1]})
    # 4. result fields extractable
    for f in d['result_fields_not_in_parser']:
        chk.fail(f'C19/result-field-not-extractable/{f}', f"result schema names '{f}' but the client has no such field to extract", {'field': f})
    # 5. accepted names missing from the schema
    for n, w in d['missing_from_schema'].items():
        chk.case(('accepted', n), True)
        chk.fail(f'C19/missing-from-schema/{n}', f"input parameter '{n}' is accepted by {', '.join(w)} but is not in the generated request schema", {'name': n, 'accepted_by': w})
    chk.coverage['tables'] = {k: d[k] for k in ('n_request', 'n_enumerated', 'n_accepted', 'n_identical', 'strings')}
    chk.coverage['not_identically_defined'] = d['differing']
    chk.sample({'request_entry': d['rows_gen'][0]})
    chk.sample({'module_declaration': {'Reservoir Depth': d['identical'].get('Reservoir Depth')}})


def run(chk: core.Check) -> int:
    from tools import extract
    ext = extract.main(['Schema'])
    chk.coverage['extract_digest'] = {k: v['digest'] for k, v in ext.items()}
    chk.coverage['exhaustive'] = True
    clean = chk.prove(['GeoVerif.Properties.C19'])
    relations(chk, ext['Schema']['data'])
    chk.assumptions += ['"what the simulator enforces" = the live Parameter objects\' Min / Max / AllowableRange / DefaultValue / CurrentUnits (enforcement itself is C07)',
                        'names not defined identically in all sources declaring them are listed under coverage.not_identically_defined, as the property exempts them']
    chk.trusted += ['tools/extract.py (interning of strings, canonical JSON text per schema property)']
    return chk.finish(rule=RULE)


def replay(chk: core.Check, path: str) -> int:
    return run(chk)
