"""C17 — heat-in-place assessment adds up and scales with reservoir size.

proof: GeoVerif.Properties.C17
tie:   HIP-RA-X runs through the hook (hip_ra_x.main): inputs + CoolProp values re-queried at the same (T, P) -> Lean `hip` op -> all outputs
       compared at 1e-9; paired runs (area x k, thickness x k, inputs in other listed units); provided vs derived depth / pressure.
"""
from __future__ import annotations

import json
import math
from fractions import Fraction

from .. import core, geo

RULE = ('HIP-RA-X runs: seeded in-range temperature (incl. <= 90, 90-150, >= 150 C), rejection temperature, porosity, area, thickness, life cycle, '
        'densities, heat capacities, recovery factors, provided / derived depth and pressure; pairs: area x k, thickness x k, k in {1/4, 1/2, 2, 3, 10}; '
        'unit variants of every input that has other listed units. non-trivial = run succeeded; distinct by parameter set')

OUT = {'volume': 'Reservoir Volume (reservoir)', 'volRock': 'Reservoir Volume (rock)', 'volFluid': 'Recoverable Volume (recoverable fluid)',
       'stored': 'Stored Heat (reservoir)', 'storedRock': 'Stored Heat (rock)', 'storedFluid': 'Stored Heat (fluid)',
       'massReservoir': 'Mass of Reservoir (total)', 'massRock': 'Mass of Reservoir (rock)', 'massFluid': 'Mass of Reservoir (fluid)',
       'enthalpyReservoir': 'Specific Enthalpy (reservoir)', 'enthalpyRock': 'Specific Enthalpy (rock)', 'enthalpyFluid': 'Specific Enthalpy (fluid)',
       'recoveryFactor': 'Recovery Factor (reservoir)', 'available': 'Available Heat (reservoir)', 'producible': 'Producible Heat (reservoir)',
       'electricityMW': 'Producible Electricity (reservoir)', 'heatPerArea': 'Producible Heat/Unit Area (reservoir)',
       'heatPerVolume': 'Producible Heat/Unit Volume (reservoir)', 'elecPerArea': 'Producible Electricity/Unit Area (reservoir)',
       'elecPerVolume': 'Producible Electricity/Unit Volume (reservoir)'}
EXTENSIVE = ('volume', 'volRock', 'volFluid', 'stored', 'storedRock', 'storedFluid', 'massReservoir', 'massRock', 'massFluid', 'available', 'producible', 'electricityMW')
PER_AREA = ('heatPerArea', 'elecPerArea')
INTENSIVE = ('enthalpyReservoir', 'enthalpyRock', 'enthalpyFluid', 'recoveryFactor', 'heatPerVolume', 'elecPerVolume')


def _run(params):
    r = geo.run_hip(params, want_report=False)
    snap = r['snaps'].get('calculated')
    if not r['ok'] or snap is None or not isinstance(snap['out']['Stored Heat (reservoir)']['value'], float) \
            or snap['out']['Producible Heat (reservoir)']['value'] == 0:
        return {'ok': False, 'error': r['error'] or 'no result (calculation failed inside hip_ra_x.main)', 'params': params}
    I = {k: v for k, v in snap['in'].items()}
    O = {k: v['value'] for k, v in snap['out'].items()}
    # CoolProp values at the same (T, P), through the repository's own wrappers
    import geophires_x.Model  # noqa: F401
    from geophires_x.GeoPHIRESUtils import UtilEff_func, celsius_to_kelvin, enthalpy_water_kJ_per_kg, entropy_water_kJ_per_kg_per_K
    from hip_ra_x.hip_ra_x import HIP_RA_X
    T, Tr, P = I['Reservoir Temperature']['value'], I['Rejection Temperature']['value'], I['Reservoir Pressure']['value']
    try:
        pq = HIP_RA_X._ureg.Quantity(P, 'MPa')
        h = enthalpy_water_kJ_per_kg(T, pressure=pq) - enthalpy_water_kJ_per_kg(Tr, pressure=pq)
        s_ = entropy_water_kJ_per_kg_per_K(T, pressure=pq) - entropy_water_kJ_per_kg_per_K(Tr, pressure=pq)
        ue = UtilEff_func(T)
    except Exception as e:  # noqa
        return {'ok': False, 'error': f'cannot re-query water properties: {e}', 'params': params}
    aux = {'hNet': h, 'sNet': s_, 'utilEff': float(ue), 'tRejK': celsius_to_kelvin(Tr), 'dTK': celsius_to_kelvin(T) - celsius_to_kelvin(Tr)}
    return {'ok': True, 'params': params, 'in': I, 'out': O, 'aux': aux}


def line(cid, r):
    I, a = r['in'], r['aux']
    given = r.get('params') or {}

    def v(k):
        # what the user WROTE is what the assessment is of: a provided plain number is taken from the input, everything else from the model
        g = given.get(k)
        return g if isinstance(g, (int, float)) and not isinstance(g, bool) else I[k]['value']
    F = core.frac
    return (f'hip {cid} area={F(v("Reservoir Area"))} thickness={F(v("Reservoir Thickness"))} porosity={F(v("Reservoir Porosity"))} '
            f'rf={F(v("Recoverable Fluid Factor"))} rockDensity={F(v("Density Of Reservoir Rock"))} fluidDensity={F(v("Density Of Reservoir Fluid"))} '
            f'rockHeatCap={F(v("Rock Heat Capacity"))} rr={F(v("Recoverable Heat from Rock"))} tRes={F(v("Reservoir Temperature"))} '
            f'tRej={F(v("Rejection Temperature"))} tRejK={F(a["tRejK"])} dTK={F(a["dTK"])} life={F(v("Reservoir Life Cycle"))} hNet={F(a["hNet"])} '
            f'sNet={F(a["sNet"])} utilEff={F(a["utilEff"])}')


def gen_params(rng):
    T = rng.choice([60, 85, 90, 95.5, 120, 149, 150, 175, 250, 300, 360])
    p = {'Reservoir Temperature': T, 'Rejection Temperature': rng.choice([10, 25, 40, 60]) if T > 60 else rng.choice([10, 25]),
         'Reservoir Porosity': rng.choice([0.2, 0.5, 0.8, 1.0, 5, 10, 18, 35]), 'Reservoir Area': rng.choice([1, 12.5, 55, 81, 400]),
         'Reservoir Thickness': rng.choice([0.05, 0.25, 1, 2.5]), 'Reservoir Life Cycle': rng.choice([1, 25, 30, 100])}
    if rng.random() < 0.04:
        p['Reservoir Temperature'], p['Rejection Temperature'] = rng.choice([(60, 150), (90, 90), (100, 120)])  # accepted, not physical
    if rng.random() < 0.3:
        p['Density Of Reservoir Rock'] = rng.choice([2.3e12, 2.7e12])
    if rng.random() < 0.3:
        p['Rock Heat Capacity'] = rng.choice([2.0e12, 3.1e12])
    if rng.random() < 0.3:
        p['Recoverable Fluid Factor'] = rng.choice([0.1, 0.5, 1.0])
    if rng.random() < 0.3:
        p['Recoverable Heat from Rock'] = rng.choice([0.25, 0.75, 1.0])
    if rng.random() < 0.3:
        p['Reservoir Depth'] = rng.choice([1.5, 3, 6])
    if rng.random() < 0.3:
        p['Reservoir Pressure'] = rng.choice([15, 40, 80])
    if rng.random() < 0.2:
        p['Density Of Reservoir Fluid'] = rng.choice([8.5e11, 9.8e11])
    if rng.random() < 0.2:
        p['Fluid Specific Heat Capacity'] = rng.choice([4.18, 4.5])
    if rng.random() < 0.3:
        # optional recovery fractions, up to the top of their range
        p['Rock Recoverable Heat'] = rng.choice([0.5, 0.9, 0.95, 1.0])
        if rng.random() < 0.5:
            p['Fluid Recoverable Heat'] = rng.choice([0.5, 1.0])
    return p


UNIT_VARIANTS = {
    'Reservoir Area': [('m**2', 1e6), ('mi**2', 1 / 2.589988110336), ('ft**2', 1e6 / 0.09290304)],
    'Reservoir Thickness': [('meter', 1000.0), ('ft', 1000 / 0.3048), ('m', 1000.0)],
    'Reservoir Depth': [('meter', 1000.0), ('ft', 1000 / 0.3048)],
    'Reservoir Pressure': [('kPa', 1000.0), ('bar', 10.0), ('psi', 145.03773773)],
    'Density Of Reservoir Rock': [('kg/m**3', 1e-9)],
    'Density Of Reservoir Fluid': [('kg/m**3', 1e-9)],
    'Reservoir Temperature': [('degF', None), ('degK', None)],
    'Rejection Temperature': [('degF', None), ('degK', None)],
}


def to_unit(name, value, unit, factor):
    if factor is not None:
        return f'{value * factor!r} {unit}'
    if unit == 'degF':
        return f'{value * 9 / 5 + 32!r} degF'
    return f'{value + 273.15!r} degK'


def evaluate(chk: core.Check, plist, pairs=True):
    rng = chk.rng
    jobs = []   # (kind, key, params)
    for k, p in enumerate(plist):
        jobs.append(('base', k, p))
        if pairs:
            kk = rng.choice([0.25, 0.5, 2, 3, 10])
            which = rng.choice(['Reservoir Area', 'Reservoir Thickness'])
            q = dict(p)
            q[which] = p[which] * kk
            if 'Reservoir Depth' not in q or True:
                jobs.append((f'scale:{which}:{kk}', k, q))
            # (a temperature sitting exactly on a threshold of the piecewise efficiency curve is not re-expressed: the converted float may land on the other side)
            cands = [n for n in UNIT_VARIANTS if n in p and not (n == 'Reservoir Temperature' and p[n] in (90, 150))]
            if cands:
                name = rng.choice(cands)
                unit, factor = rng.choice(UNIT_VARIANTS[name])
                u = dict(p)
                u[name] = to_unit(name, float(p[name]), unit, factor)
                jobs.append((f'unit:{name}:{unit}', k, u))
    res = geo.pmap(_run, [j[2] for j in jobs], chk.scratch, chunksize=4)
    base = {}
    lines = []
    for (kind, k, p), r in zip(jobs, res):
        if kind == 'base':
            base[k] = r
            if r.get('ok'):
                lines.append(line(f'h{k}', r))
    out = chk.driver(lines)
    for (kind, k, p), r in zip(jobs, res):
        b = base[k]
        if kind == 'base':
            if not r.get('ok'):
                chk.tag('run-failed')
                if len(chk.notes) < 5:
                    chk.notes.append(f'run failed: {str(r.get("error"))[:120]} {p}')
                continue
            head, kv = core.parse_kv(out.get(f'h{k}', 'missing'))
            if head != 'ok':
                chk.broken('C17/driver', f'driver rejected a case: {out.get(f"h{k}")}', {'params': p}, 'correspondence-break')
                continue
            chk.tag('hip/' + kv['tag'])
            O = r['out']
            hot = kv['tag'].endswith('hotter')
            for key, name in OUT.items():
                exact = core.parse_rat(kv[key])
                if not core.close(O[name], exact, 1e-9, abs_tol=1e-300):
                    chk.fail(f'C17/definition/{key}', f'{name} is not what the volumetric method gives for the run\'s own inputs',
                             {'params': p, 'quantity': name, 'reported': O[name], 'documented': float(exact)})
            # the clauses of the property, evaluated on the reported values
            st, av, pr = O[OUT['stored']], O[OUT['available']], O[OUT['producible']]
            suffix = '' if hot else '/rejection-not-below-reservoir'
            if not core.close(st, Fraction(O[OUT['storedRock']]) + Fraction(O[OUT['storedFluid']]), 1e-12):
                chk.fail('C17/additive/stored', 'stored heat is not the sum of its rock and fluid parts', {'params': p, 'stored': st, 'rock': O[OUT['storedRock']], 'fluid': O[OUT['storedFluid']]})
            if av > st * (1 + 1e-12) + 1e-9:
                chk.fail('C17/order/available-exceeds-stored' + suffix, 'available heat exceeds stored heat', {'params': p, 'stored': st, 'available': av})
            if pr > av * (1 + 1e-12) + 1e-9 and av >= 0:
                chk.fail('C17/order/producible-exceeds-available' + suffix, 'producible heat exceeds available heat', {'params': p, 'available': av, 'producible': pr})
            elif pr > av and av < 0:
                chk.fail('C17/order/producible-exceeds-available' + suffix, 'producible heat exceeds available heat', {'params': p, 'available': av, 'producible': pr})
            chk.case(json.dumps(p, sort_keys=True), True)
            chk.sample({'params': p, 'stored_code': st, 'stored_lean': kv['stored'], 'producible_code': pr, 'producible_lean': kv['producible']}, limit=3)
            continue
        if not b.get('ok'):
            continue
        if not r.get('ok'):
            chk.tag(kind.split(':')[0] + '/run-failed')
            if kind.startswith('unit'):
                chk.fail(f'C17/units/{kind.split(":")[1]}/{kind.split(":")[2]}/fails', 'an input written in another listed unit makes the run fail although the equivalent value in the '
                         'default unit succeeds', {'base': base[k]['params'], 'partner': p, 'error': r.get('error')})
            continue
        Ob, Or = b['out'], r['out']
        if kind.startswith('scale'):
            _, which, kk = kind.split(':')
            kk = float(kk)
            chk.tag('scale/' + which.split()[-1])
            chk.case((kind, json.dumps(p, sort_keys=True)), True)
            provided_depth = 'Reservoir Depth' in p
            for key in EXTENSIVE:
                if not math.isclose(Or[OUT[key]], kk * Ob[OUT[key]], rel_tol=1e-9):
                    chk.fail(f'C17/scale/{which.split()[-1]}/{key}', f'{OUT[key]} does not scale in exact proportion to reservoir {which.split()[-1].lower()}',
                             {'base': b['params'], 'partner': p, 'k': kk, 'base_value': Ob[OUT[key]], 'partner_value': Or[OUT[key]]})
            for key in INTENSIVE + (PER_AREA if which.endswith('Area') else ()):
                if not math.isclose(Or[OUT[key]], Ob[OUT[key]], rel_tol=1e-9):
                    chk.fail(f'C17/scale/{which.split()[-1]}/{key}', f'{OUT[key]} changed although only reservoir {which.split()[-1].lower()} was scaled',
                             {'base': b['params'], 'partner': p, 'k': kk, 'base_value': Ob[OUT[key]], 'partner_value': Or[OUT[key]]})
        else:
            _, name, unit = kind.split(':')
            chk.tag('unit/' + unit)
            chk.case((kind, json.dumps(p, sort_keys=True)), True)
            bad = [key for key in OUT if not math.isclose(Or[OUT[key]], Ob[OUT[key]], rel_tol=1e-6, abs_tol=1e-300)]
            if bad:
                chk.fail(f'C17/units/{name}/{unit}/differs', f'{name} written in {unit} gives different results than the equivalent value in the default unit: {bad[:4]}',
                         {'base': b['params'], 'partner': p, 'differing': bad, 'base_value': Ob[OUT[bad[0]]], 'partner_value': Or[OUT[bad[0]]]})


def _same_file_pair(job):
    """base and scaled partner through the public client in ONE process, the partner written over the same input file"""
    base, part, path = job
    from pathlib import Path
    from hip_ra_x import HipRaXClient
    from hip_ra import HipRaInputParameters
    import contextlib, io, logging
    logging.disable(logging.CRITICAL)
    outs = []
    client = HipRaXClient()      # ONE client serves both requests (an answer remembered for the path must not be served for the rewritten file)
    for p in (base, part):
        Path(path).write_text(geo.params_to_text(p))
        with geo.preserved_process_state(), contextlib.redirect_stdout(io.StringIO()), contextlib.redirect_stderr(io.StringIO()):
            try:
                res = client.get_hip_ra_result(HipRaInputParameters(Path(path)))
                outs.append(Path(res.output_file_path).read_text())
            except Exception as e:  # noqa
                outs.append(f'ERROR {e}')
    return outs


def report_value(text, label):
    import re
    m = re.search(re.escape(label) + r':\s+(-?[\d.]+(?:e[+-]?\d+)?)', text)
    return float(m.group(1)) if m else None


def same_file_pairs(chk: core.Check, n):
    import os
    jobs, meta = [], []
    for k in range(n):
        p = gen_params(chk.rng)
        if p['Reservoir Temperature'] <= p['Rejection Temperature']:
            continue
        kk = chk.rng.choice([2, 3, 10])
        which = chk.rng.choice(['Reservoir Area', 'Reservoir Thickness'])
        q = dict(p)
        q[which] = p[which] * kk
        jobs.append((p, q, os.path.join(str(chk.scratch), f'hip_samefile_{k}.txt')))
        meta.append((which, kk))
    res = geo.pmap(_same_file_pair, jobs, chk.scratch, workers=4)
    for (p, q, path), (which, kk), outs in zip(jobs, meta, res):
        if not isinstance(outs, list) or any(o.startswith('ERROR') for o in outs):
            chk.tag('same-file/run-failed')
            continue
        chk.tag('same-file/' + which.split()[-1])
        chk.case(('same-file', json.dumps(p, sort_keys=True), which, kk), True)
        a, b = report_value(outs[0], 'Reservoir Volume (reservoir)'), report_value(outs[1], 'Reservoir Volume (reservoir)')
        sa, sb = report_value(outs[0], 'Stored Heat (reservoir)'), report_value(outs[1], 'Stored Heat (reservoir)')
        if a is None or b is None or not math.isclose(b, kk * a, rel_tol=2e-2) or sa is None or sb is None or not math.isclose(sb, kk * sa, rel_tol=2e-2):
            chk.fail(f'C17/scale/same-file/{which.split()[-1]}', f'after the input file was rewritten with reservoir {which.split()[-1].lower()} x {kk}, the client\'s result did not scale '
                     '(volume / stored heat as printed)', {'base': p, 'partner': q, 'k': kk, 'volume': [a, b], 'stored_heat': [sa, sb]})


def run(chk: core.Check) -> int:
    clean = chk.prove(['GeoVerif.Properties.C17'])
    quick = chk.tier == 'quick'
    kn = [k['replay']['params'] for k in chk.known_replays()]
    if kn:
        evaluate(chk, kn, pairs=False)
    evaluate(chk, [gen_params(chk.rng) for _ in range(250 if quick else 5000)])
    same_file_pairs(chk, 16 if quick else 200)
    if (not clean or chk.breaks) and not chk.failures:
        evaluate(chk, [gen_params(chk.rng) for _ in range(1000)])
    chk.assumptions += ['CoolProp enthalpy / entropy and the utilisation-efficiency interpolation are re-queried by the harness at the run\'s (T, P) through the repository\'s own wrappers',
                        'unit variants are compared at 1e-6 (the harness derives the equivalent value with 10-digit conversion constants)']
    chk.trusted.append('modelled, not verified: CoolProp water properties, UtilEff_func interpolation table, pint conversion factors')
    return chk.finish(rule=RULE)


def replay(chk: core.Check, path: str) -> int:
    body = json.loads(open(path).read())
    rp = body['replay']
    evaluate(chk, [rp.get('params') or rp.get('base')], pairs=False)
    if 'partner' in rp:
        evaluate(chk, [rp['partner']], pairs=False)
    return chk.finish(rule='replay')
