"""C20 — all entry points give the same answer.

proof: GeoVerif.Properties.C20 (path plan of the command line: input / report / JSON, independent of the internal chdir; JSON is the report's
       sibling; kernel-evaluated witness for the str.replace derivation of the pinned tree)
tie:   subprocess `python -m geophires_x` runs vs the in-process client vs the direct Model pipeline (fresh process, default report name) vs
       runs embedded in the Monte-Carlo driver on the same inputs
       (succeeding and failing) x {no output argument, relative, absolute, directory name containing the file name} x start directories:
       files created (compared with the Lean plan, exactly), exit status, numeric report content.
"""
from __future__ import annotations

import hashlib
import json
import os
import re
import subprocess
from concurrent.futures import ThreadPoolExecutor
from pathlib import Path

from .. import core, geo
from .c12 import dec, enc

RULE = ('CLI subprocess runs: ~10 inputs (all end-use families, 3 failing kinds) x 6 output-argument shapes x 3 start directories, each compared with '
        'the in-process client run of the same content and with the Lean path plan; Monte-Carlo embedded runs (degenerate distributions) vs the '
        'CLI report of the same input; the direct Model pipeline vs the client report. non-trivial = every run; distinct by (content, argument shape, start directory)')


def digest(text: str) -> str:
    keep = [ln for ln in text.splitlines() if not re.search(r'Simulation Date|Simulation Time|Calculation Time|GEOPHIRES Version', ln)]
    return hashlib.sha1('\n'.join(keep).encode()).hexdigest()[:12]


def contents(rng):
    pool = {}
    for i, (e, eu, pl) in enumerate([(2, 1, 1), (1, 2, 9), (3, 2, 5), (2, 31, 2), (1, 52, 4), (3, 2, 6)]):
        p = geo.base_params(e, eu, pl, L=rng.choice([5, 20]), n=rng.choice([1, 2]))
        p['Print Output to Console'] = i % 2
        pool[f'ok{i}'] = geo.params_to_text(p)
    # a near pair (same time grid, other fracture separation): the client serves them one after the other in ONE process, the command line starts fresh
    from .c08 import pool_contents as _c08_pool
    import random as _random
    c8 = _c08_pool(_random.Random(0))
    pool['mpf-a'], pool['mpf-b'] = c8['mpf-a'], c8['mpf-b']
    pool['addon'] = c8['addon']      # the add-on sections are written by a second writer object with its own idea of the report path
    b = geo.base_params(2, 1, 1)
    b['Reservoir Depth'] = 300
    pool['badrange'] = geo.params_to_text(b)
    b = geo.base_params(2, 1, 1)
    b.update({'Gradient 1': 5, 'Reservoir Depth': 0.5})
    pool['badcalc'] = geo.params_to_text(b)
    # a failure path that ends in a bare sys.exit(): user-provided reservoir profile whose file does not exist
    b = geo.base_params(2, 1, 1)
    b.pop('Drawdown Parameter', None)
    b.update({'Reservoir Model': 5, 'Reservoir Output File Name': '/nonexistent/profile.txt'})
    pool['badfile'] = geo.params_to_text(b)
    # a data file given by a relative name (the shipped example 5): every entry point resolves it the same way, whatever happens to lie beside the input file
    ex5 = [f for f in geo.example_files() if f.name == 'example5.txt']
    if ex5:
        pool['relative-data-file'] = geo.example_text(ex5[0])
    # a content that states gradients and thicknesses, served just before one that leaves them at their defaults: the session process answers the
    # second after the first, the command line answers each in a fresh process
    pool['segments-stated'] = c8['seg-set']
    pool['sparse'] = c8['sparse']
    pool['seg-thick-default'] = c8['seg-thick-default']
    return pool


SHAPES = ['default', 'relative', 'relative-subdir', 'absolute', 'dir-contains-name', 'absolute-dir-contains-name', 'no-suffix', 'no-suffix-in-dotted-dir']


def cli_run(job):
    base, cid, text, shape, start = job
    d = Path(base)
    d.mkdir(parents=True, exist_ok=True)
    for sub in ('start', 'start/sub', 'elsewhere', 'start/out', 'start/a.out.d', 'abs/b.out.d', 'start/site.v2'):
        (d / sub).mkdir(parents=True, exist_ok=True)
    inp = d / 'elsewhere' / 'input file.txt'
    inp.write_text(text)
    if cid == 'relative-data-file':
        # a different file of the same relative name beside the command line's input (another temperature history): it must not be picked up
        (d / 'elsewhere' / 'Examples').mkdir(exist_ok=True)
        (d / 'elsewhere' / 'Examples' / 'ReservoirOutput.txt').write_text(''.join(f'{t / 4}\t,\t{140 - t / 8}\n' for t in range(0, 121)))
    cwd = {'start': d / 'start', 'sub': d / 'start' / 'sub', 'root': Path('/')}[start]
    if cid == 'relative-data-file' and start != 'root':
        # … nor one lying in the directory the command is started from
        (cwd / 'Examples').mkdir(exist_ok=True)
        (cwd / 'Examples' / 'ReservoirOutput.txt').write_text(''.join(f'{t / 4}\t,\t{150 - t / 6}\n' for t in range(0, 121)))
    out_arg = {'default': None, 'relative': 'r.out', 'relative-subdir': 'out/res.out', 'absolute': str(d / 'abs' / 'x.out'),
               'dir-contains-name': 'a.out.d/a.out', 'absolute-dir-contains-name': str(d / 'abs' / 'b.out.d' / 'b.out'), 'no-suffix': 'report',
               'no-suffix-in-dotted-dir': 'site.v2/run2'}[shape]
    if start == 'root' and out_arg is not None and not out_arg.startswith('/'):
        out_arg = None if shape == 'default' else str(d / 'abs' / ('root_' + shape.replace('-', '_') + '.out'))
    if start == 'root' and shape == 'default':
        return None   # would write into / : skipped
    if start == 'sub' and out_arg and not out_arg.startswith('/') and '/' in out_arg:
        (cwd / Path(out_arg).parent).mkdir(parents=True, exist_ok=True)
    # input argument: relative to cwd when possible
    try:
        in_arg = os.path.relpath(inp, cwd) if start != 'root' else str(inp)
    except ValueError:
        in_arg = str(inp)
    before = {str(p) for p in d.rglob('*') if p.is_file()}
    pkg_before = set(os.listdir(core.SRC / 'geophires_x'))
    env = dict(os.environ, GEOPHIRES_X_VERIF='0', TMPDIR=str(d))
    cmd = [core.PY, '-m', 'geophires_x', in_arg] + ([out_arg] if out_arg is not None else [])
    p = subprocess.run(cmd, cwd=cwd, capture_output=True, text=True, env=env, timeout=900)
    after = {str(q) for q in d.rglob('*') if q.is_file()}
    pkg_new = sorted(set(os.listdir(core.SRC / 'geophires_x')) - pkg_before)
    return {'cid': cid, 'shape': shape, 'start': start, 'cwd': str(cwd), 'in_arg': in_arg, 'out_arg': out_arg, 'rc': p.returncode, 'new_files': sorted(after - before),
            'pkg_new': pkg_new, 'stderr': p.stderr[-300:], 'stdout_len': len(p.stdout),
            'reports': {f: digest(Path(f).read_text(errors='replace')) for f in sorted(after - before) if not f.endswith('.json')}}


def _client(text):
    r = geo.run_geophires(text, stages=(), want_report=True)
    return {'ok': r['ok'], 'digest': digest(r['report']) if r['ok'] else None, 'error': r['error'], 'report': r['report'] if r['ok'] else None}


def _client_seq(texts):
    return [_client(t) for t in texts]


def evaluate(chk: core.Check, n_cases):
    rng = chk.rng
    pool = contents(rng)
    # the client's answers come from ONE process that serves all the contents in turn (as a client session does)
    ref = dict(zip(pool, geo.pmap(_client_seq, [list(pool.values())], chk.scratch)[0]))
    jobs = []
    k = 0
    combos = [(c, s, st) for c in pool for s in SHAPES for st in ('start', 'sub', 'root')]
    rng.shuffle(combos)
    # every shape at least once with a succeeding and a failing input
    must = [(c, s, 'start') for s in SHAPES for c in ('ok0', 'badrange')] + [('relative-data-file', 'relative', 'start'), ('relative-data-file', 'absolute', 'sub'), ('badfile', 'default', 'start'), ('badfile', 'absolute', 'sub'), ('badcalc', 'relative', 'start'), ('mpf-b', 'relative', 'start'), ('mpf-a', 'absolute', 'sub'), ('addon', 'relative', 'start'), ('sparse', 'relative', 'start'), ('seg-thick-default', 'default', 'start')]
    for (c, s, st) in (must + combos)[:n_cases]:
        jobs.append((str(Path(chk.scratch) / f'cli{k}'), c, pool[c], s, st))
        k += 1
    with ThreadPoolExecutor(12) as ex:
        results = list(ex.map(cli_run, jobs))
    lines = []
    for j, r in enumerate(results):
        if r is None:
            continue
        lines.append(f'cliplan c{j} cwd={enc(r["cwd"])} input={enc(r["in_arg"])} output={"-" if r["out_arg"] is None else enc(r["out_arg"])}')
    plans = chk.driver(lines)
    for j, r in enumerate(results):
        if r is None:
            continue
        head, kv = core.parse_kv(plans.get(f'c{j}', 'missing'))
        base = {'content': r['cid'], 'argument_shape': r['shape'], 'start_directory': r['start'], 'command': ['python', '-m', 'geophires_x', r['in_arg']] + ([r['out_arg']] if r['out_arg'] else []),
                'cwd': r['cwd'], 'exit_status': r['rc'], 'files_created': r['new_files'], 'stderr_tail': r['stderr'][-200:]}
        if head != 'ok':
            chk.broken('C20/driver', f'driver rejected: {plans.get(f"c{j}")}', base, 'correspondence-break')
            continue
        want_report, want_json = dec(kv['report']), dec(kv['json'])
        expect_ok = ref[r['cid']]['ok']
        chk.tag(f'cli/{r["shape"]}/' + ('ok' if expect_ok else 'failing-input'))
        chk.case((r['cid'], r['shape'], r['start']), True)
        if r['pkg_new']:
            chk.fail('C20/cli/writes-into-package-directory', 'the command line left files in the package directory instead of the requested place', {**base, 'package_dir_files': r['pkg_new']})
        if expect_ok:
            if r['rc'] != 0:
                sig = 'C20/cli/nonzero-exit-on-success'
                if os.path.exists(want_report) and dec(kv['jsonPinned']) != want_json:
                    sig = 'C20/cli/json-path-not-sibling'
                chk.fail(sig, 'the command line exits non-zero for an input that the client simulates successfully', {**base, 'expected_report': want_report, 'expected_json': want_json})
                continue
            if want_report not in r['new_files']:
                chk.fail('C20/cli/report-not-at-requested-path', 'the report was not written to the requested path (or the documented default name)', {**base, 'expected_report': want_report})
                continue
            if want_json not in r['new_files']:
                chk.fail('C20/cli/json-not-next-to-report', 'the JSON was not written next to the report', {**base, 'expected_json': want_json})
            extra = [f for f in r['new_files'] if f not in (want_report, want_json) and not f.endswith(('.png', '.html'))]
            if extra:
                chk.fail('C20/cli/stray-files', 'the command line created files other than the report and its JSON', {**base, 'stray': extra})
            if r['reports'].get(want_report) != ref[r['cid']]['digest']:
                chk.fail('C20/cli-vs-client/report-differs', 'the command line and the client produce different case reports for the same input', {**base, 'cli_digest': r['reports'].get(want_report), 'client_digest': ref[r['cid']]['digest']})
            # JSON carries numbers: loads and is a dict
            try:
                if not isinstance(json.loads(Path(want_json).read_text()), dict):
                    raise ValueError
            except Exception:  # noqa
                if want_json in r['new_files']:
                    chk.fail('C20/cli/json-unreadable', 'the JSON written next to the report does not parse', {**base, 'json': want_json})
        else:
            if r['rc'] == 0:
                chk.fail('C20/cli/zero-exit-on-failure', 'the command line exits 0 although the simulation fails', base)
            if any(f == want_report for f in r['new_files']):
                chk.fail('C20/cli/report-written-on-failure', 'a report was written although the simulation failed', {**base, 'expected_report': want_report})
        if j < 3:
            chk.sample({**base, 'lean_plan': {'report': want_report, 'json': want_json}})
    return pool, ref


MC_OUTPUTS = ['Average Net Electricity Production', 'Electricity breakeven price', 'Total capital costs', 'Project NPV']


def mc_embedded(chk: core.Check, pool, ref, n):
    """runs embedded in the Monte-Carlo driver (each worker goes through the client) vs the report of the same input"""
    from geophires_monte_carlo import GeophiresMonteCarloClient, MonteCarloRequest, SimulationProgram
    import contextlib
    import io
    import logging

    logging.disable(logging.CRITICAL)
    done = 0
    for cid in ['ok0', 'ok3', 'ok4'][:n]:
        if not ref[cid]['ok']:
            continue
        d = Path(chk.scratch) / f'mc_{cid}'
        d.mkdir(exist_ok=True)
        inp = d / 'base.txt'
        # a degenerate distribution: the sampled value is the input's own value
        inp.write_text(pool[cid] + 'Utilization Factor, 0.9\n')
        settings = d / 'settings.txt'
        settings.write_text('INPUT, Utilization Factor, uniform, 0.9, 0.9\n' + ''.join(f'OUTPUT, {o}\n' for o in MC_OUTPUTS) + 'ITERATIONS, 3\n' + f'MC_OUTPUT_FILE, {d / "MC_Result.txt"}\n')
        sink = io.StringIO()
        try:
            with geo.preserved_process_state(), contextlib.redirect_stdout(sink), contextlib.redirect_stderr(sink):
                GeophiresMonteCarloClient().get_monte_carlo_result(MonteCarloRequest(SimulationProgram.GEOPHIRES, inp, settings, output_file=d / 'MC_Result.txt'))
        except Exception as e:  # noqa
            # the summary step may fail on constant columns (histogram of identical values): the rows are what matters here
            chk.notes.append(f'MC summary step raised for {cid}: {str(e)[:100]}')
        rows = [ln for ln in (d / 'MC_Result.txt').read_text().splitlines()[1:] if '(Utilization Factor:' in ln]
        rep = _client(pool[cid] + 'Utilization Factor, 0.9\n')['report']
        want = []
        for o in MC_OUTPUTS:
            m = [ln for ln in rep.splitlines() if f'  {o}: ' in ln]
            want.append(m[0].split(':')[1].strip().split(' ')[0] if len(m) == 1 else None)
        chk.tag('mc-embedded')
        chk.case(('mc', cid), True)
        done += 1
        for row in rows:
            vals = [v.strip() for v in row.split(', (')[0].split(',')]
            exp = [w for w in want if w is not None]
            if vals != exp:
                chk.fail('C20/mc-vs-report', 'a run embedded in the Monte-Carlo driver reports other output values than the case report of the same input',
                         {'content': cid, 'mc_row': row, 'values_in_case_report': dict(zip(MC_OUTPUTS, want))})
                break
        if len(rows) != 3:
            chk.fail('C20/mc-rows', 'the Monte-Carlo driver did not produce one row per embedded run', {'content': cid, 'rows': rows})


DIRECT = r"""
import sys
inp = sys.argv[1]
sys.argv = ['direct']
from geophires_x.Model import Model
m = Model(enable_geophires_logging_config=False, input_file=inp)
m.read_parameters()
m.Calculate()
m.outputs.PrintOutputs(m)
"""


def direct_pipeline(chk: core.Check, pool, ref, cids):
    """the third entry point of the property: Model -> read_parameters -> Calculate -> PrintOutputs in a fresh process, default report name in the start directory"""
    def one(cid):
        d = Path(chk.scratch) / f'direct_{cid}'
        d.mkdir(exist_ok=True)
        inp = d / 'case.txt'
        inp.write_text(pool[cid])
        env = dict(os.environ, GEOPHIRES_X_VERIF='0', TMPDIR=str(d))
        p = subprocess.run([core.PY, '-c', DIRECT, str(inp)], cwd=d, capture_output=True, text=True, env=env, timeout=900)
        rep = d / 'HDR.out'
        return cid, p.returncode, (rep.read_text(errors='replace') if rep.exists() else None), p.stderr[-300:]
    with ThreadPoolExecutor(6) as ex:
        for cid, rc, text, err in ex.map(one, cids):
            base = {'content': cid, 'input': pool[cid], 'entry_point': 'Model(input_file=…).read_parameters(); Calculate(); outputs.PrintOutputs(model) — started in an empty directory, default report name'}
            chk.tag('direct-pipeline')
            chk.case(('direct', cid), True)
            if rc != 0 or text is None:
                chk.fail('C20/direct-pipeline/fails', 'the direct Model pipeline fails (or writes no HDR.out in its start directory) for an input the client simulates', {**base, 'exit_status': rc, 'stderr_tail': err})
                continue
            if digest(text) != ref[cid]['digest']:
                cl = ref[cid].get('report') or ''
                a = [ln for ln in text.splitlines() if not re.search(r'Simulation Date|Simulation Time|Calculation Time|GEOPHIRES Version', ln)]
                b = [ln for ln in cl.splitlines() if not re.search(r'Simulation Date|Simulation Time|Calculation Time|GEOPHIRES Version', ln)]
                only_direct = [ln.strip() for ln in a if ln not in b and ln.strip()][:3]
                only_client = [ln.strip() for ln in b if ln not in a and ln.strip()][:3]
                chk.fail('C20/direct-vs-client/report-differs', f'the direct Model pipeline and the client produce different case reports for the same input ({len(a)} vs {len(b)} lines)',
                         {**base, 'lines_only_in_direct_report': only_direct, 'lines_only_in_client_report': only_client})


def run(chk: core.Check) -> int:
    clean = chk.prove(['GeoVerif.Properties.C20'])
    quick = chk.tier == 'quick'
    pool, ref = evaluate(chk, 40 if quick else 400)
    mc_embedded(chk, pool, ref, 2 if quick else 3)
    # (not the relative-data-file content: resolving a relative data-file name in the package directory is something main() arranges by chdir — a caller of the
    #  bare pipeline resolves it in its own directory, which is not a disagreement about the answer)
    okc = [c for c in pool if ref[c]['ok'] and c != 'relative-data-file']
    direct_pipeline(chk, pool, ref, sorted(okc, key=lambda c: c != 'addon')[:8 if quick else 40])
    chk.assumptions += ['the report digest ignores the date / time / version / calculation-time lines',
                        'a failure *inside* the report writer can leave a partial file: outside the model, exercised only by the differential runs',
                        'start directory "/" is used with absolute output paths only (the default name would be written into /)']
    chk.trusted.append('the OS (process start, chdir, file creation), argparse')
    return chk.finish(rule=RULE)


def replay(chk: core.Check, path: str) -> int:
    return run(chk)
