"""C07 — out-of-range and invalid inputs are rejected, never silently altered.

proof: GeoVerif.Properties.C07 + Generated/Params.lean (every float / integer declaration of every module class, re-extracted)
tie:   (1) exhaustive unit-level differential: the real `ReadParameter` on a deep copy of every real Parameter object x probe values
           {just below Min, Min, Max, just above Max, default, current, inside, NaN, +-inf / non-members, members} vs the Lean model;
       (2) pipeline level: full client runs with just-below / just-above / non-member values must raise an error naming the parameter and
           produce no result; runs with Min / Max must either succeed with the bound stored, or fail for another reason than a range rejection.
"""
from __future__ import annotations

import contextlib
import copy
import io
import json
import math
import os
from fractions import Fraction

from .. import core, geo

RULE = ('unit level: every (module class, float/int parameter) of every configuration family x 10-12 probe values (enumerated, complete); '
        'pipeline level: seeded subset of parameters per family (quick) / all (thorough) x {below, Min, Max, above}. '
        'non-trivial = probe other than default/current; distinct by (class, parameter, probe)')


def nxt(x, up):
    return math.nextafter(float(x), math.inf if up else -math.inf)


def pyf(x) -> str:
    if isinstance(x, float) and math.isnan(x):
        return 'nan'
    if isinstance(x, float) and math.isinf(x):
        return 'inf' if x > 0 else '-inf'
    return core.frac(x)


def opt(x) -> str:
    return 'none' if x is None else core.frac(x)


def unit_level(chk: core.Check, ext):
    """every declaration x probes through the real ReadParameter"""
    import logging
    from tools import extract
    import geophires_x.Model  # noqa: F401
    from geophires_x.Parameter import ParameterEntry, ReadParameter, floatParameter, intParameter

    logging.disable(logging.CRITICAL)
    lines, meta = [], {}
    done = set()
    n = 0
    fams = list(extract.FAMILIES) + [('hip-ra-x', None)]
    for fam, settings in fams:
        if settings is None:
            from hip_ra_x.hip_ra_x import HIP_RA_X
            m = HIP_RA_X(enable_hip_ra_logging_config=False)
            mods = [m]
            logger_holder = m
        else:
            try:
                m = extract.instantiate_family(settings)
            except Exception:
                continue
            mods = [getattr(m, a, None) for a in extract.MODULES]
            logger_holder = m
        for mod in mods:
            if mod is None or not hasattr(mod, 'ParameterDict'):
                continue
            cls = type(mod).__name__
            for key, p in mod.ParameterDict.items():
                if not isinstance(p, (floatParameter, intParameter)) or (cls, p.Name) in done:
                    continue
                done.add((cls, p.Name))
                if isinstance(p, floatParameter):
                    mn, mx, df = float(p.Min), float(p.Max), p.DefaultValue
                    probes = {'min': mn, 'max': mx, 'below': nxt(mn, False), 'above': nxt(mx, True), 'nan': float('nan'), 'inf': float('inf'),
                              '-inf': float('-inf'), 'current': p.value, 'default': df}
                    if math.isfinite(mn) and math.isfinite(mx) and mn < mx:
                        probes['inside'] = mn + (mx - mn) * chk.rng.random()
                        probes['inside2'] = mn + (mx - mn) / 3
                    for tag, v in probes.items():
                        if not isinstance(v, (int, float)) or isinstance(v, bool):
                            continue
                        q = copy.deepcopy(p)
                        q.Provided, q.Valid = False, False
                        before = q.value
                        try:
                            with contextlib.redirect_stdout(io.StringIO()):
                                ReadParameter(ParameterEntry(Name=p.Name, sValue=repr(float(v)), Comment=''), q, logger_holder)
                            res = ('accept', q.value, q.Provided, q.Valid, None)
                        except ValueError as e:
                            res = ('reject', q.value, q.Provided, q.Valid, str(e))
                        except Exception as e:  # noqa
                            res = ('other-error', q.value, q.Provided, q.Valid, f'{type(e).__name__}: {e}')
                        cid = f'f{n}'
                        n += 1
                        cur = before if isinstance(before, (int, float)) and not isinstance(before, bool) else float('nan')
                        dfl = df if isinstance(df, (int, float)) and not isinstance(df, bool) and math.isfinite(df) else None
                        lines.append(f'readfloat {cid} min={opt(mn if math.isfinite(mn) else None)} max={opt(mx if math.isfinite(mx) else None)} '
                                     f'dflt={opt(dfl)} cur={pyf(float(cur))} prov=0 valid=0 v={pyf(float(v))}')
                        meta[cid] = (cls, p.Name, tag, float(v), before, res, (mn, mx, df))
                else:
                    allow = list(p.AllowableRange)
                    ints = [int(getattr(a, 'int_value', getattr(a, 'value', a))) for a in allow]
                    if not ints:
                        continue
                    lo, hi = min(ints), max(ints)
                    probes = {'member-lo': lo, 'member-hi': hi, 'below': lo - 1, 'above': hi + 1, 'default': p.DefaultValue, 'current': p.value,
                              'member-mid': ints[len(ints) // 2]}
                    gaps = [x for x in range(lo, min(hi, lo + 300)) if x not in set(ints[:400])]
                    if gaps:
                        probes['gap'] = gaps[0]
                    aset = f'range:{lo}:{hi}' if (len(ints) > 12 and ints == list(range(lo, hi + 1))) else 'list:' + ','.join(map(str, ints))
                    for tag, v in probes.items():
                        if not isinstance(v, int) or isinstance(v, bool):
                            continue
                        q = copy.deepcopy(p)
                        q.Provided, q.Valid = False, False
                        before = q.value
                        try:
                            with contextlib.redirect_stdout(io.StringIO()):
                                ReadParameter(ParameterEntry(Name=p.Name, sValue=str(v), Comment=''), q, logger_holder)
                            res = ('accept', q.value, q.Provided, q.Valid, None)
                        except ValueError as e:
                            res = ('reject', q.value, q.Provided, q.Valid, str(e))
                        except Exception as e:  # noqa
                            res = ('other-error', q.value, q.Provided, q.Valid, f'{type(e).__name__}: {e}')
                        cid = f'i{n}'
                        n += 1
                        # `New_val == DefaultValue` / `== value` are Python comparisons between an int and whatever the declaration holds
                        # (a plain int, or an Enum member, which never equals an int): evaluate them here and hand the outcome to the model
                        dflt = p.DefaultValue
                        dint = v if (v == dflt) else None
                        bint = v if (v == before) else v + 10**9
                        lines.append(f'readint {cid} allow={aset} dflt={"none" if dint is None else dint} cur={bint} prov=0 valid=0 v={v}')
                        meta[cid] = (cls, p.Name, tag, v, before, res, (lo, hi, dflt))
    res = chk.driver(lines)
    for cid, (cls, name, tag, v, before, (outcome, val, prov, valid, msg), decl) in meta.items():
        head, kv = core.parse_kv(res.get(cid, 'missing'))
        chk.case((cls, name, tag), tag not in ('default', 'current'))
        rep = {'class': cls, 'parameter': name, 'probe': tag, 'value_given': v if not (isinstance(v, float) and not math.isfinite(v)) else repr(v),
               'declared': {'min_or_lo': decl[0], 'max_or_hi': decl[1], 'default': repr(decl[2])}, 'value_before': repr(before),
               'code': {'outcome': outcome, 'value_after': repr(val), 'Provided': prov, 'Valid': valid, 'message': msg}, 'lean': res.get(cid)}
        if head != 'ok':
            chk.broken('C07/driver', f'driver rejected a probe: {res.get(cid)}', rep, 'correspondence-break')
            continue
        chk.tag(('float/' if cid[0] == 'f' else 'int/') + kv['tag'])
        # --- the property, stated on the code's behaviour -------------------------------------------------------------
        out_of_range = tag in ('below', 'above', 'gap', 'nan', 'inf', '-inf')
        same_as_cur = (v == before)
        is_default = (v == decl[2]) if not (isinstance(v, float) and math.isnan(v)) else False
        unbounded = cid[0] == 'f' and ((tag in ('below', '-inf') and not math.isfinite(decl[0])) or (tag in ('above', 'inf') and not math.isfinite(decl[1])))
        if out_of_range and not same_as_cur and not is_default and not unbounded:
            if outcome != 'reject':
                sig = f'C07/accepted-out-of-range/{tag}' if tag in ('nan',) else f'C07/accepted-out-of-range/{tag}/{cls}/{name}'
                chk.fail(sig, f'{name}: a value outside its allowed range / set ({tag}) was not rejected', rep)
            elif name not in (msg or ''):
                chk.fail(f'C07/error-does-not-name-parameter/{cls}/{name}', 'the rejection message does not name the parameter', rep)
        if tag in ('min', 'max', 'inside', 'inside2', 'member-lo', 'member-hi', 'member-mid') and not same_as_cur and not is_default:
            if outcome != 'accept':
                chk.fail(f'C07/rejected-in-range/{tag}/{cls}/{name}', f'{name}: a value at / inside the documented bounds was rejected', rep)
            elif cid[0] == 'f' and not (val == v):
                chk.fail(f'C07/altered/{tag}/{cls}/{name}', f'{name}: an accepted value was not used as given (clamped or replaced)', rep)
        # --- correspondence with the Lean model ---------------------------------------------------------------------------
        if kv['res'] != ('accept' if outcome == 'accept' else 'reject'):
            # only a break if the property judgement above did not already explain it
            if not any(f.replay is rep for f in chk.failures):
                chk.broken(f'C07/correspondence/{tag}', f'ReadParameter and the Lean model disagree on accept/reject for {name} ({tag})', rep, 'correspondence-break')
        elif outcome == 'accept':
            lv = kv.get('value')
            pyv = val
            if cid[0] == 'f':
                same = (lv == 'nan' and isinstance(pyv, float) and math.isnan(pyv)) or (lv not in ('nan', 'inf', '-inf') and isinstance(pyv, (int, float)) and Fraction(pyv) == core.parse_rat(lv)) \
                    or (lv in ('inf', '-inf') and isinstance(pyv, float) and math.isinf(pyv))
            else:
                # bypass (value equal to default / current): the parameter object must be exactly as before; otherwise the given value is stored
                same = (pyv == before) if kv['tag'] == 'bypass' else (pyv == v)
            if not same or kv['prov'] != str(int(bool(prov))) or kv['valid'] != str(int(bool(valid))):
                chk.broken(f'C07/correspondence/state/{tag}', f'ReadParameter and the Lean model disagree on the stored value / Provided / Valid for {name} ({tag})', rep, 'correspondence-break')
        if tag in ('above', 'gap') and len(chk.samples) < 4:
            chk.sample(rep)
    chk.coverage['unit_level_probes'] = len(meta)
    chk.coverage['unit_level_parameters'] = len(done)


def unit_probes(chk: core.Check, ext):
    """range enforcement when the value is written with a unit suffix: the converted value is what the range applies to"""
    import logging
    from tools import extract
    import geophires_x.Model  # noqa: F401
    from geophires_x.Parameter import ParameterEntry, ReadParameter, floatParameter
    from geophires_x.Units import Units, get_unit_registry

    logging.disable(logging.CRITICAL)
    ureg = get_unit_registry()
    skip_types = {Units.CURRENCY, Units.CURRENCYFREQUENCY, Units.COSTPERMASS, Units.ENERGYCOST, Units.NONE, Units.PERCENT}
    done = set()
    for fam, settings in list(extract.FAMILIES):
        try:
            m = extract.instantiate_family(settings)
        except Exception:
            continue
        for mod in [getattr(m, a, None) for a in extract.MODULES]:
            if mod is None or not hasattr(mod, 'ParameterDict'):
                continue
            cls = type(mod).__name__
            for key, p in mod.ParameterDict.items():
                if not isinstance(p, floatParameter) or (cls, p.Name) in done or p.UnitType in skip_types:
                    continue
                done.add((cls, p.Name))
                pref = p.PreferredUnits
                if p.CurrentUnits != pref or not hasattr(pref, 'value'):
                    continue
                mn, mx = float(p.Min), float(p.Max)
                alts = []
                for u in type(pref):
                    try:
                        ureg.Quantity(1.0, pref.value).to(u.value)
                        alts.append(u)
                    except Exception:
                        pass
                for u in alts:
                    for tag, bound, sign in (('below', mn, -1), ('above', mx, +1), ('inside-near-min', mn, +1), ('inside-near-max', mx, -1)):
                        if not math.isfinite(bound) or not mn < mx:
                            continue
                        for margin in (1e-6, 1e-3):
                            target = bound + sign * (abs(bound) * margin if bound != 0 else margin * 1e-6)
                            try:
                                v_alt = float(ureg.Quantity(target, pref.value).to(u.value).magnitude)
                                back = float(ureg.Quantity(v_alt, u.value).to(pref.value).magnitude)
                            except Exception:
                                break
                            outside = back < mn or back > mx
                            if (tag in ('below', 'above')) == outside and math.isfinite(v_alt) and (back != bound):
                                break
                        else:
                            continue
                        if back == p.DefaultValue or back == p.value:
                            continue
                        q = copy.deepcopy(p)
                        q.Provided, q.Valid = False, False
                        text = f'{v_alt!r} {u.value}'
                        try:
                            with contextlib.redirect_stdout(io.StringIO()):
                                ReadParameter(ParameterEntry(Name=p.Name, sValue=text, Comment=''), q, m)
                            outcome, msg = 'accept', None
                        except ValueError as e:
                            outcome, msg = 'reject', str(e)
                        except Exception as e:  # noqa
                            outcome, msg = 'other-error', f'{type(e).__name__}: {e}'
                        chk.case((cls, p.Name, 'units', u.value, tag), True)
                        chk.tag(f'units/{tag}/{outcome}')
                        rep = {'class': cls, 'parameter': p.Name, 'text_given': text, 'equivalent_in_preferred_units': back, 'preferred_unit': pref.value,
                               'declared': {'min': mn, 'max': mx}, 'probe': tag, 'code': {'outcome': outcome, 'value_after': repr(q.value), 'message': msg}}
                        if outcome == 'other-error':
                            continue   # a unit the reader cannot convert: C06's subject, not a silent alteration
                        if tag in ('below', 'above'):
                            if outcome != 'reject':
                                chk.fail(f'C07/units/accepted-out-of-range/{tag}/{cls}/{p.Name}', f'{p.Name}: "{text}" is outside the allowed range after conversion but was not rejected', rep)
                            elif p.Name not in (msg or ''):
                                chk.fail(f'C07/units/error-does-not-name-parameter/{cls}/{p.Name}', 'the rejection message does not name the parameter', rep)
                        else:
                            if outcome != 'accept':
                                chk.fail(f'C07/units/rejected-in-range/{cls}/{p.Name}/{u.value}', f'{p.Name}: "{text}" is inside the documented bounds after conversion but was rejected', rep)
                            elif not (isinstance(q.value, (int, float)) and math.isclose(float(q.value), back, rel_tol=1e-9, abs_tol=0.0)):
                                chk.fail(f'C07/units/altered/{cls}/{p.Name}/{u.value}', f'{p.Name}: "{text}" was accepted but the stored value is not the converted value (clamped or replaced)', rep)
    chk.coverage['unit_suffixed_parameters'] = len(done)


# ---------------------------------------------------------------------------------------------------------------------------------------
PIPE_FAMILIES = [
    ('default-elec', lambda: geo.base_params(2, 1, 1)), ('heat-industrial', lambda: geo.base_params(1, 2, 9)),
    ('chiller', lambda: geo.base_params(2, 2, 5)), ('heatpump', lambda: geo.base_params(3, 2, 6)), ('district', lambda: geo.base_params(2, 2, 7, L=5)),
    ('cogen', lambda: geo.base_params(2, 31, 2)), ('flash', lambda: geo.base_params(1, 1, 4)),
    # every user-fixable cost given: a bound must hold whatever else the file states (a value that "plays no role" is still out of range)
    ('costs-given', lambda: {**geo.base_params(2, 1, 1), 'Reservoir Stimulation Capital Cost': 5, 'Exploration Capital Cost': 2.5,
                             'Surface Plant Capital Cost': 40.5, 'Field Gathering System Capital Cost': 0.5, 'Wellfield O&M Cost': 1.5,
                             'Surface Plant O&M Cost': 0.2, 'Water Cost': 0.25, 'Well Drilling and Completion Capital Cost': 6,
                             'Injection Well Drilling and Completion Capital Cost': 6}),
]


def _pipe(job):
    params, name, expect = job
    r = geo.run_geophires(params, stages=('read',), want_report=False)
    val = None
    if 'read' in r['snaps']:
        for mod in r['snaps']['read'].values():
            if name in mod['in']:
                val = mod['in'][name]['value']
    return {'ok': r['ok'], 'error': r['error'], 'cause': r.get('cause'), 'value': val}


def _hip_pipe(job):
    params, name, expect = job
    r = geo.run_hip(params, stages=('read',), want_report=False)
    val = r['snaps'].get('read', {}).get('in', {}).get(name, {}).get('value')
    return {'ok': r['ok'], 'error': r['error'], 'value': val}


ESCALATION = {f'{prod} Escalation Rate Per Year': 0.001 for prod in ('Electricity', 'Heat', 'Cooling', 'Carbon')}
ESCALATION.update({f'{prod} Escalation Start Year': 3 for prod in ('Electricity', 'Heat', 'Cooling', 'Carbon')})


def pipeline(chk: core.Check, ext, per_family):
    decls = ext['Params']['data']['decls']
    byname = {}
    for d in decls:
        byname.setdefault(d['name'], []).append(d)
    jobs, meta = [], []
    for fam, mk in PIPE_FAMILIES:
        base = mk()
        base.update(ESCALATION)     # prices that escalate: the published bounds of every schedule parameter must hold then too
        r = geo.run_geophires(base, stages=('read',), want_report=False)
        if 'read' not in r['snaps']:
            continue
        classes = {m['class'] for m in r['snaps']['read'].values()}
        cands = [d for d in decls if d['class'] in classes and d['kind'] in ('floatParameter', 'intParameter')]
        chk.rng.shuffle(cands)
        # the parameters an ordinary input file sets are probed in every family; the others by a seeded sample
        # … and so are the parameters whose name extends one the base sets (`<cost> Adjustment Factor` beside `<cost>`): related inputs
        first = [d for d in cands if d['name'] in base or any(d['name'].startswith(b + ' ') for b in base)]
        rest = [d for d in cands if d not in first]
        for d in first + rest[:per_family]:
            if d['kind'] == 'floatParameter':
                probes = []
                if d['min'] is not None:
                    probes += [('below', nxt(d['min'], False), 'reject'), ('min', float(d['min']), 'accept')]
                if d['max'] is not None:
                    probes += [('above', nxt(d['max'], True), 'reject'), ('max', float(d['max']), 'accept')]
                # far outside as well as just outside: a re-interpretation heuristic (another unit, a percentage, a sentinel) would sit there
                if d['min'] is not None and math.isfinite(d['min']):
                    mn_ = float(d['min'])
                    for tag_, v_ in (('far-below/half', mn_ / 2 if mn_ > 0 else mn_ * 2 - 1), ('far-below/tenth', mn_ / 10 if mn_ > 0 else mn_ * 10 - 7.5),
                                     ('far-below/negated', -abs(mn_) - 0.25)):
                        if v_ < mn_:
                            probes.append((tag_, v_, 'reject'))
                if d['max'] is not None and math.isfinite(d['max']):
                    mx_ = float(d['max'])
                    for tag_, v_ in (('far-above/double', mx_ * 2 if mx_ > 0 else mx_ / 2 + 1), ('far-above/x100', mx_ * 100 if mx_ > 0 else mx_ / 100 + 50)):
                        if v_ > mx_ and math.isfinite(v_):
                            probes.append((tag_, v_, 'reject'))
                probes.append(('nan', 'nan', 'reject'))
            else:
                al = d['allow']
                probes = [('below', min(al) - 1, 'reject'), ('above', max(al) + 1, 'reject'), ('member-hi', max(al), 'accept')]
            for tag, v, expect in probes:
                if v == d.get('default') or v == d.get('value0'):
                    continue   # equal to the declared default / the initial (sentinel) value: the reader returns before the range test — the documented not-provided sentinel
                p = dict(base)
                if d['name'] in p and p[d['name']] == v:
                    continue
                p[d['name']] = repr(v) if isinstance(v, float) else v
                jobs.append((p, d['name'], expect))
                meta.append((fam, d, tag, v, expect))
    res = geo.pmap(_pipe, jobs, chk.scratch, chunksize=4)
    for (fam, d, tag, v, expect), r in zip(meta, res):
        chk.case(('pipeline', fam, d['name'], tag), True)
        chk.tag(f'pipeline/{expect}/' + ('ran' if r.get('ok') else 'failed'))
        rep = {'family': fam, 'parameter': d['name'], 'class': d['class'], 'probe': tag, 'value': repr(v), 'run_ok': r.get('ok'), 'error': (r.get('error') or '')[:300],
               'value_in_model_after_read': r.get('value')}
        err = (r.get('error') or '') + ' ' + (r.get('cause') or '')
        if expect == 'reject':
            if r.get('ok'):
                chk.fail(f'C07/pipeline/accepted-out-of-range/{tag.split("/")[0]}' + ('' if tag == 'nan' else f'/{d["name"]}'), f'a full run with {d["name"]} = {v!r} (outside its range) produced a result', rep)
            elif d['name'] not in err:
                chk.fail(f'C07/pipeline/error-does-not-name-parameter/{d["name"]}', f'the run failed but the error does not name {d["name"]}', rep)
        else:
            if r.get('ok') or r.get('value') is not None:
                val = r.get('value')
                vi = int(getattr(val, 'get', lambda k, dflt=None: dflt)('value', val)) if isinstance(val, dict) and isinstance(v, int) else val
                if isinstance(v, float) and isinstance(val, (int, float)) and not (float(val) == v or math.isclose(float(val), v * 1000.0) or math.isclose(float(val) * 1000.0, v)
                                                                                 or math.isclose(float(val), v / 1000.0)):
                    chk.fail(f'C07/pipeline/bound-altered/{d["name"]}', f'{d["name"]} given exactly at its bound is not the value the model uses after reading', rep)
            elif 'outside of valid range' in err and d['name'] in err:
                chk.fail(f'C07/pipeline/bound-rejected/{d["name"]}', f'{d["name"]} given exactly at its documented bound was rejected as out of range', rep)
    # HIP-RA-X
    hip = [d for d in decls if d['class'] == 'HIP_RA_X' and d['kind'] == 'floatParameter' and d['min'] is not None and d['max'] is not None]
    base = {'Reservoir Temperature': 250, 'Rejection Temperature': 60, 'Reservoir Porosity': 10, 'Reservoir Area': 55, 'Reservoir Thickness': 0.25, 'Reservoir Life Cycle': 25}
    jobs, meta = [], []
    for d in hip[:per_family]:
        for tag, v in (('below', nxt(d['min'], False)), ('above', nxt(d['max'], True))):
            p = dict(base)
            p[d['name']] = repr(v)
            jobs.append((p, d['name'], 'reject'))
            meta.append((d, tag, v))
    res = geo.pmap(_hip_pipe, jobs, chk.scratch, chunksize=4)
    for (d, tag, v), r in zip(meta, res):
        chk.case(('pipeline', 'hip', d['name'], tag), True)
        chk.tag('pipeline/hip/' + ('ran' if r.get('ok') else 'failed'))
        sentinel = d['name'] in ('Density Of Reservoir Fluid', 'Fluid Specific Heat Capacity') and tag == 'below'
        if r.get('ok') and not sentinel:
            chk.fail(f'C07/pipeline/hip/accepted-out-of-range/{d["name"]}', f'HIP-RA-X run with {d["name"]} = {v!r} (outside its range) produced a result',
                     {'parameter': d['name'], 'probe': tag, 'value': repr(v)})


def run(chk: core.Check) -> int:
    from tools import extract
    ext = extract.main(['Params'])
    chk.coverage['extract_digest'] = {k: v['digest'] for k, v in ext.items()}
    data = ext['Params']['data']
    chk.coverage['declarations'] = {'float_rows': data['n_float'], 'int_rows': data['n_int'], 'names': len(data['names']),
                                    'classes': sorted({d['class'] for d in data['decls']})}
    odd = [f"{d['class']}.{d['name']} default {d['default']} outside [{d['min']}, {d['max']}]" for d in data['decls']
           if d['kind'] == 'floatParameter' and d['default'] is not None and ((d['min'] is not None and d['default'] < d['min']) or (d['max'] is not None and d['default'] > d['max']))]
    chk.coverage['defaults_outside_range_sentinels'] = odd[:60]
    clean = chk.prove(['GeoVerif.Properties.C07'])
    if not clean:
        for d in data['decls']:
            if d['kind'] == 'floatParameter' and d['min'] is not None and d['max'] is not None and d['min'] > d['max']:
                chk.fail(f'C07/declaration/min-above-max/{d["class"]}/{d["name"]}', f'{d["name"]} declares Min {d["min"]} > Max {d["max"]}: no value can be accepted', {'decl': d})
            if d['kind'] == 'intParameter' and not d['allow']:
                chk.fail(f'C07/declaration/empty-allowable/{d["class"]}/{d["name"]}', f'{d["name"]} declares an empty allowable set', {'decl': {k: v for k, v in d.items() if k != 'allow'}})
    quick = chk.tier == 'quick'
    unit_level(chk, ext)
    unit_probes(chk, ext)
    pipeline(chk, ext, 12 if quick else 400)
    chk.assumptions += ['"documented not-provided sentinel" = a value equal to the declared default (ReadParameter returns before the range test) — e.g. the -1 defaults of cost overrides',
                        'list parameters (gradients, thicknesses) are outside the property\'s "scalar" scope; string / bool parameters have no range',
                        'unbounded declarations (Min/Max = +-1.8e308 = +-inf) accept every finite value and the infinity on their open side']
    chk.trusted += ['tools/extract.py (copies the declarations into Generated/Params.lean)', 'CPython float()/int() parsing of the probe text']
    return chk.finish(rule=RULE)


def replay(chk: core.Check, path: str) -> int:
    from tools import extract
    ext = extract.main(['Params'])
    unit_level(chk, ext)
    return chk.finish(rule='replay: the unit-level enumeration is complete, the recorded probe is part of it')
