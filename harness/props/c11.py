"""C11 — economic results scale the way the definitions require.

proof: GeoVerif.Properties.C11 (corollaries of the C01/C04/C16 models: homogeneity in costs for all k, price-freeness of
       levelized cost, strict NPV response to price, inverse proportionality to energy, neutral add-on / ITC / grant)
tie:   the models are tied by the C01/C04/C16 correspondences (re-run here in reduced size); in addition paired real runs check
       the end-to-end relations with production held fixed.
"""
from __future__ import annotations

import json
import math
from fractions import Fraction

from .. import core, geo
from . import c01

RULE = ('paired real runs on the Grid: (a) Total Capital Cost, Total O&M Cost, Electricity Rate and Peaking Fuel Cost Rate x k, '
        'k in {1/4, 1/2, 2, 3, 10}; (b) sale prices changed; (c) End-Use Efficiency Factor halved (direct-use heat); (d) add-on with zero cost '
        'and gains; (e) zero ITC rate; (f) zero grant; non-trivial = both runs succeeded and a levelized cost is non-zero; distinct by (base, relation)')

KEYS_ECON = ('LCOE', 'LCOH', 'LCOC', 'ProjectNPV', 'CCap', 'Coam', 'ProjectIRR', 'ProjectVIR', 'ProjectMOIC', 'ProjectPaybackPeriod')
SERIES = ('NetkWhProduced', 'HeatkWhProduced', 'PumpingkWh', 'HeatExtracted')


def _run(params):
    r = geo.run_geophires(params, want_report=False)
    if not r['ok']:
        return {'ok': False, 'error': r['error'], 'params': params}
    s = r['snaps']['calculated']
    E, S = s['economics']['p'], s['surfaceplant']['p']
    out = {'ok': True, 'params': params, 'econ': {k: E[k]['value'] for k in KEYS_ECON},
           'series': {k: S[k]['value'] for k in SERIES if k in S}, 'cool': S.get('cooling_kWh_Produced', {}).get('value'),
           'TotalRevenue': E['TotalRevenue']['value'], 'sold': None}
    eu = c01.end_use(s)
    out['eu'] = eu
    sold = {'elec': ['NetkWhProduced'], 'heat': ['HeatkWhProduced'], 'heatPump': ['HeatkWhProduced'], 'district': ['HeatkWhProduced'],
            'cogen': ['NetkWhProduced', 'HeatkWhProduced']}.get(eu, [])
    tot = 0.0
    for k in sold:
        v = S[k]['value']
        if isinstance(v, list) and any(x < 0 for x in v):
            tot = float('-inf')   # a product with negative "sales" (net electricity below zero): the price clause does not apply
        tot += sum(v) if isinstance(v, list) else 0.0
    if eu == 'chiller' and isinstance(out['cool'], list):
        tot = sum(out['cool'])
    out['sold'] = tot
    out['all_econ'] = {k: v['value'] for k, v in E.items() if not isinstance(v['value'], dict)}
    return out


def gen_pairs(rng, n):
    """returns list of (relation, base params, partner params, k)"""
    g = geo.grid()
    pairs = []
    for i in range(n):
        econ = (i % 3) + 1
        cat = rng.choice(['elec', 'heat', 'heat', 'cogen'])
        eu, pl = {'elec': (1, rng.choice(geo.ELEC_PLANTS)), 'heat': (2, rng.choice(geo.HEAT_PLANTS)),
                  'cogen': (rng.choice([31, 32, 41, 42, 51, 52]), rng.choice(geo.ELEC_PLANTS))}[cat]
        rel = ['scale', 'scale', 'price', 'addon0', 'itc0', 'grant0', 'eff'][i % 7]
        if rel == 'eff':
            eu, pl = 2, 9
        L = rng.choice([3, 20, 30]) if pl == 7 else rng.choice([2, 10, 30])
        base = geo.base_params(econ, eu, pl, L=L, n=rng.choice([1, 2, 4]))
        base['Drawdown Parameter'] = rng.choice([0.0, 0.005, 0.02])
        if rng.random() < 0.5:
            geo.diversify(rng, base)
        part = dict(base)
        k = None
        if rel == 'scale':
            k = rng.choice([0.25, 0.5, 2, 3, 10])
            C, O, rate = rng.choice([20, 64, 90]), rng.choice([0.5, 2, 8]), rng.choice([0.05, 0.07, 0.1])
            # well and stimulation costs are cost inputs too: with redrilling they enter annual O&M besides the fixed total
            Wc, Sc = rng.choice([2, 4.5]), rng.choice([0.5, 1.25])
            base.update({'Total Capital Cost': C, 'Total O&M Cost': O, 'Electricity Rate': rate,
                         'Well Drilling and Completion Capital Cost': Wc, 'Reservoir Stimulation Capital Cost': Sc})
            part = dict(base)
            part.update({'Total Capital Cost': C * k, 'Total O&M Cost': O * k, 'Electricity Rate': rate * k,
                         'Well Drilling and Completion Capital Cost': Wc * k, 'Reservoir Stimulation Capital Cost': Sc * k})
            if pl == 7:
                base['Peaking Fuel Cost Rate'] = 0.03
                part['Peaking Fuel Cost Rate'] = 0.03 * k
            if rng.random() < 0.4 and pl in (1, 2, 3, 4, 9):   # (chiller, heat-pump and district-heating plants add correlated costs that are not inputs)
                # the same relation with every cost given by component instead of by total (the totals are then sums of scaled parts)
                comp = {'Surface Plant Capital Cost': rng.choice([12, 30]), 'Field Gathering System Capital Cost': rng.choice([0.8, 2]), 'Exploration Capital Cost': rng.choice([1, 3.5]),
                        'Wellfield O&M Cost': rng.choice([0.2, 0.6]), 'Surface Plant O&M Cost': rng.choice([0.4, 1.1]), 'Water Cost': rng.choice([0.05, 0.2])}
                for d_ in (base, part):
                    d_.pop('Total Capital Cost', None)
                    d_.pop('Total O&M Cost', None)
                    d_['Surface Piping Length'] = 0     # (the pipeline cost is length x a built-in unit cost, not a cost input)
                base.update(comp)
                part.update({kk: vv * k for kk, vv in comp.items()})
        elif rel == 'price':
            for prod, a in (('Electricity', 0.055), ('Heat', 0.025), ('Cooling', 0.03)):
                base[f'Starting {prod} Sale Price'] = a
                base[f'Ending {prod} Sale Price'] = a * 2
                base[f'{prod} Escalation Rate Per Year'] = 0.001
            part = dict(base)
            up = rng.choice([True, False])
            f = 1.5 if up else 0.5
            for prod, a in (('Electricity', 0.055), ('Heat', 0.025), ('Cooling', 0.03)):
                part[f'Starting {prod} Sale Price'] = a * f
                part[f'Ending {prod} Sale Price'] = a * 2 * f
            k = f
        elif rel == 'eff':
            e = rng.choice([1.0, 0.9, 0.6])
            base['End-Use Efficiency Factor'] = e
            part = dict(base)
            part['End-Use Efficiency Factor'] = e / 2
        elif rel == 'addon0':
            part.update({'AddOn Nickname 1': 'nothing', 'AddOn CAPEX 1': 0, 'AddOn OPEX 1': 0, 'AddOn Electricity Gained 1': 0,
                         'AddOn Heat Gained 1': 0, 'AddOn Profit Gained 1': 0})
        elif rel == 'itc0':
            if rng.random() < 0.7:
                # the zero-rate credit must change nothing also when grants / incentives / fees are present
                base.update({'One-time Grants Etc': rng.choice([2, 5.5]), 'Other Incentives': rng.choice([0, 1.5]), 'One-time Flat License Fees Etc': rng.choice([0, 0.75])})
                part = dict(base)
            part['Investment Tax Credit Rate'] = 0
        elif rel == 'grant0':
            if rng.random() < 0.5:
                base['Investment Tax Credit Rate'] = rng.choice([0.1, 0.3])
                part = dict(base)
            part['One-time Grants Etc'] = 0
            if rng.random() < 0.5:
                part['Other Incentives'] = 0
                part['One-time Flat License Fees Etc'] = 0
                part['Annual License Fees Etc'] = 0
                part['Tax Relief Per Year'] = 0
        pairs.append((rel, f'{econ}/{eu}/{pl}', base, part, k))
    return pairs


def rel_close(a, b, rel=1e-9, abs_tol=1e-12):
    if isinstance(a, float) and isinstance(b, float) and (math.isinf(a) or math.isinf(b) or math.isnan(a) or math.isnan(b)):
        return (math.isnan(a) and math.isnan(b)) or a == b   # a levelized cost over zero energy: infinite in both runs
    if isinstance(a, float) and isinstance(b, float) and (math.isnan(a) and math.isnan(b)):
        return True
    return abs(a - b) <= rel * max(abs(a), abs(b)) + abs_tol


def same_series(x, y):
    return x.keys() == y.keys() and all(
        (isinstance(x[k], list) and isinstance(y[k], list) and len(x[k]) == len(y[k]) and all(rel_close(a, b, 1e-12) for a, b in zip(x[k], y[k])))
        or x[k] == y[k] for k in x)


def evaluate(chk: core.Check, pairs):
    flat = [p[2] for p in pairs] + [p[3] for p in pairs]
    res = geo.pmap(_run, flat, chk.scratch)
    n = len(pairs)
    for i, (rel, cfg, base, part, k) in enumerate(pairs):
        a, b_ = res[i], res[n + i]
        if not (a.get('ok') and b_.get('ok')):
            chk.tag(f'{rel}/run-failed')
            if rel == 'addon0' and a.get('ok') and not b_.get('ok'):
                chk.fail('C11/addon-zero/crash', 'a run with a zero-cost, zero-gain add-on fails although the same run without it succeeds',
                         {'base': base, 'partner': part, 'error': b_.get('error')})
            elif len(chk.notes) < 6:
                chk.notes.append(f'{rel} {cfg}: run failed: {str(a.get("error") or b_.get("error"))[:120]}')
            continue
        ea, eb = a['econ'], b_['econ']
        rep = {'relation': rel, 'base': base, 'partner': part, 'k': k, 'base_results': ea, 'partner_results': eb}
        nontriv = any(ea[x] != 0 for x in ('LCOE', 'LCOH', 'LCOC'))
        chk.tag(f'{rel}/{a["eu"]}/econ{base["Economic Model"]}')
        if rel in ('scale', 'price', 'itc0', 'grant0', 'addon0') and not same_series(a['series'], b_['series']):
            chk.broken(f'C11/{rel}/production-not-fixed', 'production series differ between the two runs of a pair (relation not testable)', rep, 'correspondence-break')
            continue
        if rel == 'scale':
            for key in ('LCOE', 'LCOH', 'LCOC'):
                if not rel_close(eb[key], k * ea[key], 1e-9):
                    chk.fail(f'C11/scale/{key}', f'all cost inputs x {k} did not multiply {key} by {k}', rep)
        elif rel == 'price':
            for key in ('LCOE', 'LCOH', 'LCOC'):
                if not rel_close(eb[key], ea[key], 1e-12):
                    chk.fail(f'C11/price/{key}', f'changing only sale prices changed {key}', rep)
            if a['sold'] and a['sold'] > 0:
                up = k > 1
                if not ((eb['ProjectNPV'] > ea['ProjectNPV']) if up else (eb['ProjectNPV'] < ea['ProjectNPV'])):
                    chk.fail('C11/price/npv-direction', 'with positive energy sold, NPV did not move strictly in the direction of the price change', rep)
        elif rel == 'eff':
            if not same_series({'HeatExtracted': a['series'].get('HeatExtracted')}, {'HeatExtracted': b_['series'].get('HeatExtracted')}):
                chk.broken('C11/eff/extraction-changed', 'extracted heat changed with the end-use efficiency', rep, 'correspondence-break')
            elif not rel_close(eb['LCOH'], 2 * ea['LCOH'], 1e-9):
                chk.fail('C11/eff/lcoh', 'halving the end-use efficiency did not double the levelized cost of direct-use heat', rep)
        else:  # neutral elements: nothing may change
            xa, xb = a['all_econ'], b_['all_econ']
            skip = {'DoAddOnCalculations', 'RITC', 'TotalGrant', 'OtherIncentives', 'FlatLicenseEtc', 'AnnualLicenseEtc', 'TaxRelief'}
            diff = []
            for key in xa:
                if key in skip or key not in xb:
                    continue
                va, vb = xa[key], xb[key]
                if isinstance(va, list) and isinstance(vb, list):
                    same = len(va) == len(vb) and all((rel_close(p, q, 1e-12) if isinstance(p, (int, float)) and isinstance(q, (int, float)) else p == q) for p, q in zip(va, vb))
                elif isinstance(va, (int, float)) and isinstance(vb, (int, float)) and not isinstance(va, bool):
                    same = rel_close(float(va), float(vb), 1e-12)
                else:
                    same = va == vb
                if not same:
                    diff.append(key)
            if diff:
                what = {'addon0': 'an add-on with zero cost and zero gains', 'itc0': 'a zero-rate investment tax credit', 'grant0': 'a zero grant / zero fees'}[rel]
                chk.fail(f'C11/{rel}/changed', f'{what} changed economic results: {diff[:6]}', {**rep, 'changed': diff})
        chk.case((rel, json.dumps(base, sort_keys=True, default=str)), nontriv)
        chk.sample({'relation': rel, 'k': k, 'config': cfg, 'base': {x: ea[x] for x in ('LCOE', 'LCOH', 'LCOC', 'ProjectNPV')},
                    'partner': {x: eb[x] for x in ('LCOE', 'LCOH', 'LCOC', 'ProjectNPV')}}, limit=6)


def run(chk: core.Check) -> int:
    clean = chk.prove(['GeoVerif.Properties.C11'])
    quick = chk.tier == 'quick'
    evaluate(chk, gen_pairs(chk.rng, 200 if quick else 2000))
    # the models the corollaries are about must still correspond to the code: reduced C01 correspondence
    c01.evaluate(chk, c01.gen_cases(chk.rng, 120 if quick else 600, examples=False))
    if (not clean or chk.breaks) and not chk.failures:
        evaluate(chk, gen_pairs(chk.rng, 800))
    chk.assumptions.append('"production held fixed" is realised by fixing Total Capital Cost / Total O&M Cost and checking that the energy series of both runs coincide')
    return chk.finish(rule=RULE)


def replay(chk: core.Check, path: str) -> int:
    body = json.loads(open(path).read())
    rp = body['replay']
    if 'relation' in rp:
        evaluate(chk, [(rp['relation'], 'replay', rp['base'], rp['partner'], rp.get('k'))])
    else:
        c01.evaluate(chk, [(rp.get('case', 'replay'), rp['params'])])
    return chk.finish(rule='replay of one recorded pair')
