"""C09 — the case report states what was computed.

proof: GeoVerif.Properties.C09 (rounding to the displayed precision is within half a unit of the last digit; the printed digits denote exactly that
       rounded value for every magnitude / width; profile tables have exactly one row per year, ascending, each taken from the series at the
       year's stride, never out of range; cash-flow table has construction + operating years; aggregates are what their names say)
tie:   for every run the live model is snapshotted between Calculate() and PrintOutputs(); the report is then tokenised independently of the client
       and every line whose label is in the specification below (label -> computed quantity, aggregate, scale, decimals, unit source) is compared
       **as a string** with what the Lean model renders from the snapshot, and its unit label with the quantity's unit; the three profile tables are
       compared cell by cell (row count, year column, every figure).  Labels without a specification are listed in the evidence ("unspecified").
"""
from __future__ import annotations

import math
import re
from fractions import Fraction

from .. import core, geo

RULE = ('reports of the configuration grid (economic model x end-use x plant type) + diversified variants + runnable examples: quick ~60 reports, thorough ~600; '
        'per report every specified label line (~45-60) and every cell of the production, annual and revenue/cash-flow tables; non-trivial = every compared figure; '
        'distinct by (label or table/column, configuration)')

# label -> (module.attr, aggregate, scale, decimals, unit)   unit: 'cur' | 'pref' | None (no unit printed) | literal | ('cur'|'pref', other module.attr)
M = 'mean'
SPEC = {
    'Average Net Electricity Production': ('surfaceplant.NetElectricityProduced', M, 1, 2, 'cur'),
    'Average Direct-Use Heat Production': ('surfaceplant.HeatProduced', M, 1, 2, 'cur'),
    'Average Cooling Production': ('surfaceplant.cooling_produced', M, 1, 2, 'cur'),
    'Electricity breakeven price': ('economics.LCOE', 'scalar', 1, 2, 'cur'),
    'Direct-Use heat breakeven price (LCOH)': ('economics.LCOH', 'scalar', 1, 2, 'cur'),
    'Direct-Use Cooling Breakeven Price (LCOC)': ('economics.LCOC', 'scalar', 1, 2, 'cur'),
    'Number of production wells': ('wellbores.nprod', 'scalar', 1, 0, None),
    'Number of injection wells': ('wellbores.ninj', 'scalar', 1, 0, None),
    'Number of Production Wells': ('wellbores.nprod', 'scalar', 1, 0, None),
    'Number of Injection Wells': ('wellbores.ninj', 'scalar', 1, 0, None),
    'Flowrate per production well': ('wellbores.prodwellflowrate', 'scalar', 1, 1, 'cur'),
    'Well depth': ('reserv.depth', 'scalar', 1, 1, 'cur'),
    'Fixed Charge Rate (FCR)': ('economics.FCR', 'scalar', 100, 2, 'cur'),
    'Interest Rate': ('economics.interest_rate', 'scalar', 1, 2, 'cur'),
    'Accrued financing during construction': ('economics.inflrateconstruction', 'scalar', 100, 2, 'cur'),
    'Project lifetime': ('surfaceplant.plant_lifetime', 'scalar', 1, 0, 'cur'),
    'Capacity factor': ('surfaceplant.utilization_factor', 'scalar', 100, 1, '%'),
    'Project NPV': ('economics.ProjectNPV', 'scalar', 1, 2, 'pref'),
    'Project IRR': ('economics.ProjectIRR', 'scalar', 1, 2, 'pref'),
    'Project VIR=PI=PIR': ('economics.ProjectVIR', 'scalar', 1, 2, None),
    'Project MOIC': ('economics.ProjectMOIC', 'scalar', 1, 2, None),
    'Project Payback Period': ('economics.ProjectPaybackPeriod', 'scalar', 1, 2, 'pref'),
    'CHP: Percent cost allocation for electrical plant': ('economics.CAPEX_heat_electricity_plant_ratio', 'scalar', 100, 2, '%'),
    'Water loss rate': ('reserv.waterloss', 'scalar', 100, 1, 'cur'),
    'Pump efficiency': ('surfaceplant.pump_efficiency', 'scalar', 1, 1, 'cur'),
    'Injection temperature': ('wellbores.Tinj', 'scalar', 1, 1, 'cur'),
    'Average production well temperature drop': ('wellbores.ProdTempDrop', M, 1, 1, 'pref'),
    'Constant production well temperature drop': ('wellbores.tempdropprod', 'scalar', 1, 1, 'pref'),
    'Injection well casing ID': ('wellbores.injwelldiam', 'scalar', 1, 3, 'cur'),
    'Production well casing ID': ('wellbores.prodwelldiam', 'scalar', 1, 3, 'cur'),
    'Number of times redrilling': ('wellbores.redrill', 'scalar', 1, 0, None),
    'Maximum reservoir temperature': ('reserv.Tmax', 'scalar', 1, 1, 'cur'),
    'Number of segments': ('reserv.numseg', 'scalar', 1, 0, None),
    'Bottom-hole temperature': ('reserv.Trock', 'scalar', 1, 2, 'cur'),
    'Reservoir volume': ('reserv.resvolcalc', 'scalar', 1, 0, ('cur', 'reserv.resvol')),
    'Reservoir hydrostatic pressure': ('wellbores.production_reservoir_pressure', 'first', 1, 2, 'cur'),
    'Plant outlet pressure': ('surfaceplant.plant_outlet_pressure', 'scalar', 1, 2, 'cur'),
    'Production wellhead pressure': ('wellbores.Pprodwellhead', 'scalar', 1, 2, 'cur'),
    'Productivity Index': ('wellbores.PI', 'scalar', 1, 2, 'cur'),
    'Injectivity Index': ('wellbores.II', 'scalar', 1, 2, 'cur'),
    'Reservoir density': ('reserv.rhorock', 'scalar', 1, 2, 'cur'),
    'Reservoir thermal conductivity': ('reserv.krock', 'scalar', 1, 2, 'cur'),
    'Reservoir heat capacity': ('reserv.cprock', 'scalar', 1, 2, 'cur'),
    'Reservoir impedance': ('wellbores.impedance', 'scalar', Fraction(1, 1000), 4, 'cur'),
    'Maximum Production Temperature': ('wellbores.ProducedTemperature', 'max', 1, 1, 'pref'),
    'Average Production Temperature': ('wellbores.ProducedTemperature', M, 1, 1, 'pref'),
    'Minimum Production Temperature': ('wellbores.ProducedTemperature', 'min', 1, 1, 'pref'),
    'Initial Production Temperature': ('wellbores.ProducedTemperature', 'first', 1, 1, 'pref'),
    'Average Reservoir Heat Extraction': ('surfaceplant.HeatExtracted', M, 1, 2, 'pref'),
    'Average Production Well Temperature Drop': ('wellbores.ProdTempDrop', M, 1, 1, 'pref'),
    'Average Injection Well Pump Pressure Drop': ('wellbores.DPInjWell', M, 1, 1, 'pref'),
    'Average Production Well Pump Pressure Drop': ('wellbores.DPProdWell', M, 1, 1, 'pref'),
    'Total Average Pressure Drop': ('wellbores.DPOverall', M, 1, 1, 'pref'),
    'Average Injection Well Pressure Drop': ('wellbores.DPInjWell', M, 1, 1, 'pref'),
    'Average Reservoir Pressure Drop': ('wellbores.DPReserv', M, 1, 1, 'pref'),
    'Average Production Well Pressure Drop': ('wellbores.DPProdWell', M, 1, 1, 'pref'),
    'Average Buoyancy Pressure Drop': ('wellbores.DPBouyancy', M, 1, 1, 'pref'),
    'Drilling and completion costs': ('economics.Cwell', 'scalar', 1, 2, 'cur'),
    'Stimulation costs': ('economics.Cstim', 'scalar', 1, 2, 'cur'),
    'Surface power plant costs': ('economics.Cplant', 'scalar', 1, 2, 'cur'),
    'of which Absorption Chiller Cost': ('economics.chillercapex', 'scalar', 1, 2, ('cur', 'economics.Cplant')),
    'of which Heat Pump Cost': ('economics.heatpumpcapex', 'scalar', 1, 2, ('cur', 'economics.Cplant')),
    'of which Peaking Boiler Cost': ('economics.peakingboilercost', 'scalar', 1, 2, 'cur'),
    'Field gathering system costs': ('economics.Cgath', 'scalar', 1, 2, 'cur'),
    'Transmission pipeline cost': ('economics.Cpiping', 'scalar', 1, 2, 'cur'),
    'District Heating System Cost': ('economics.dhdistrictcost', 'scalar', 1, 2, 'cur'),
    'Exploration costs': ('economics.Cexpl', 'scalar', 1, 2, 'cur'),
    'Total capital costs': ('economics.CCap', 'scalar', 1, 2, 'cur'),
    'Wellfield maintenance costs': ('economics.Coamwell', 'scalar', 1, 2, 'cur'),
    'Power plant maintenance costs': ('economics.Coamplant', 'scalar', 1, 2, 'cur'),
    'Water costs': ('economics.Coamwater', 'scalar', 1, 2, 'cur'),
    'Average Reservoir Pumping Cost': ('economics.averageannualpumpingcosts', 'scalar', 1, 2, 'cur'),
    'Absorption Chiller O&M Cost': ('economics.chilleropex', 'scalar', 1, 2, 'cur'),
    'Average Heat Pump Electricity Cost': ('economics.averageannualheatpumpelectricitycost', 'scalar', 1, 2, 'cur'),
    'Annual District Heating O&M Cost': ('economics.dhdistrictoandmcost', 'scalar', 1, 2, 'cur'),
    'Average Annual Peaking Fuel Cost': ('economics.averageannualngcost', 'scalar', 1, 2, 'cur'),
    'Initial geofluid availability': ('surfaceplant.Availability', 'first', 1, 2, 'pref'),
    'Maximum Total Electricity Generation': ('surfaceplant.ElectricityProduced', 'max', 1, 2, 'pref'),
    'Average Total Electricity Generation': ('surfaceplant.ElectricityProduced', M, 1, 2, 'pref'),
    'Minimum Total Electricity Generation': ('surfaceplant.ElectricityProduced', 'min', 1, 2, 'pref'),
    'Initial Total Electricity Generation': ('surfaceplant.ElectricityProduced', 'first', 1, 2, 'pref'),
    'Maximum Net Electricity Generation': ('surfaceplant.NetElectricityProduced', 'max', 1, 2, 'pref'),
    'Average Net Electricity Generation': ('surfaceplant.NetElectricityProduced', M, 1, 2, 'pref'),
    'Minimum Net Electricity Generation': ('surfaceplant.NetElectricityProduced', 'min', 1, 2, 'pref'),
    'Initial Net Electricity Generation': ('surfaceplant.NetElectricityProduced', 'first', 1, 2, 'pref'),
    'Average Annual Total Electricity Generation': ('surfaceplant.TotalkWhProduced', M, Fraction(1, 10**6), 2, 'GWh'),
    'Average Annual Net Electricity Generation': ('surfaceplant.NetkWhProduced', M, Fraction(1, 10**6), 2, 'GWh'),
    'Maximum Net Heat Production': ('surfaceplant.HeatProduced', 'max', 1, 2, 'pref'),
    'Average Net Heat Production': ('surfaceplant.HeatProduced', M, 1, 2, 'pref'),
    'Minimum Net Heat Production': ('surfaceplant.HeatProduced', 'min', 1, 2, 'pref'),
    'Initial Net Heat Production': ('surfaceplant.HeatProduced', 'first', 1, 2, 'pref'),
    'Average Annual Heat Production': ('surfaceplant.HeatkWhProduced', M, Fraction(1, 10**6), 2, 'GWh'),
    'Average Annual Heat Pump Electricity Use': ('surfaceplant.heat_pump_electricity_kwh_used', M, Fraction(1, 10**6), 2, 'GWh/year'),
    'Maximum Cooling Production': ('surfaceplant.cooling_produced', 'max', 1, 2, 'pref'),
    'Minimum Cooling Production': ('surfaceplant.cooling_produced', 'min', 1, 2, 'pref'),
    'Initial Cooling Production': ('surfaceplant.cooling_produced', 'first', 1, 2, 'pref'),
    'Average Annual Cooling Production': ('surfaceplant.cooling_kWh_Produced', M, Fraction(1, 10**6), 2, 'GWh/year'),
    'Maximum Daily District Heating Demand': ('surfaceplant.daily_heating_demand', 'max', 1, 2, 'pref'),
    'Average Daily District Heating Demand': ('surfaceplant.daily_heating_demand', M, 1, 2, 'pref'),
    'Minimum Daily District Heating Demand': ('surfaceplant.daily_heating_demand', 'min', 1, 2, 'pref'),
    'Maximum Geothermal Heating Production': ('surfaceplant.dh_geothermal_heating', 'max', 1, 2, 'pref'),
    'Average Geothermal Heating Production': ('surfaceplant.dh_geothermal_heating', M, 1, 2, 'pref'),
    'Minimum Geothermal Heating Production': ('surfaceplant.dh_geothermal_heating', 'min', 1, 2, 'pref'),
    'Maximum Peaking Boiler Heat Production': ('surfaceplant.dh_natural_gas_heating', 'max', 1, 2, 'pref'),
    'Average Peaking Boiler Heat Production': ('surfaceplant.dh_natural_gas_heating', M, 1, 2, 'pref'),
    'Minimum Peaking Boiler Heat Production': ('surfaceplant.dh_natural_gas_heating', 'min', 1, 2, 'pref'),
    'Average Pumping Power': ('wellbores.PumpingPower', M, 1, 2, 'cur'),
}

SPEC.update({
    'Heat to Power Conversion Efficiency': ('surfaceplant.heat_to_power_conversion_efficiency', 'scalar', 1, 2, 'cur'),
    'Fracture area': ('reserv.fracareacalc', 'scalar', 1, 2, ('cur', 'reserv.fracarea')),
    'Fracture width': ('reserv.fracwidthcalc', 'scalar', 1, 2, ('cur', 'reserv.fracwidth')),
    'Number of fractures': ('reserv.fracnumbcalc', 'scalar', 1, 2, None),
    'Fracture separation': ('reserv.fracsepcalc', 'scalar', 1, 2, ('cur', 'reserv.fracsep')),
    # the drawdown parameter of the annual-percentage model is a rate in 1/year: the line must show that number with that unit
    'Annual Thermal Drawdown': ('reserv.drawdp', 'scalar', 1, 3, 'cur'),
    'm/A Drawdown Parameter': ('reserv.drawdp', 'scalar', 1, 5, 'cur'),
    'Total surface equipment costs': ('expr:surface_equipment', 'scalar', 1, 2, ('cur', 'economics.Cplant')),
    'Drilling and completion costs per well': ('expr:cost_per_well', 'scalar', 1, 2, ('cur', 'economics.Cwell')),
    'Total operating and maintenance costs': ('expr:total_oam', 'scalar', 1, 2, ('cur', 'economics.Coam')),
    'Annualized capital costs': ('expr:annualized_capex', 'scalar', 1, 2, ('cur', 'economics.CCap')),
    'Initial pumping power/net installed power': ('expr:pump_over_net', 'scalar', 1, 2, '%'),
})


# add-on writer (EXTENDED ECONOMICS block)
SPEC.update({
    'Adjusted Project CAPEX (after incentives, grants, AddOns, etc)': ('addeconomics.AdjustedProjectCAPEX', 'scalar', 1, 2, 'pref'),
    'Adjusted Project OPEX (after incentives, grants, AddOns, etc)': ('addeconomics.AdjustedProjectOPEX', 'scalar', 1, 2, 'pref'),
    'Project NPV (including AddOns)': ('addeconomics.ProjectNPV', 'scalar', 1, 2, 'pref'),
    # the add-on IRR is held as a fraction (C04 checks that the *fraction* zeroes the NPV of the add-on cash flow); the line is labelled %
    'Project IRR (including AddOns)': ('addeconomics.ProjectIRR', 'scalar', 100, 2, 'pref'),
    'Project VIR=PI=PIR (including AddOns)': ('addeconomics.ProjectVIR', 'scalar', 1, 2, None),
    'Project MOIC (including AddOns)': ('addeconomics.ProjectMOIC', 'scalar', 1, 2, None),
    'Total Add-on CAPEX': ('addeconomics.AddOnCAPEXTotal', 'scalar', 1, 2, 'pref'),
    'Total Add-on OPEX': ('addeconomics.AddOnOPEXTotalPerYear', 'scalar', 1, 2, 'pref'),
    'Total Add-on Net Elec': ('addeconomics.AddOnElecGainedTotalPerYear', 'scalar', 1, 2, 'pref'),
    'Total Add-on Net Heat': ('addeconomics.AddOnHeatGainedTotalPerYear', 'scalar', 1, 2, 'pref'),
    'Total Add-on Profit': ('addeconomics.AddOnProfitGainedTotalPerYear', 'scalar', 1, 2, 'pref'),
    'AddOns Payback Period': ('addeconomics.AddOnPaybackPeriod', 'scalar', 1, 2, 'pref'),
})


# SUTRA (reservoir thermal energy storage) writer: its own summary lines
SPEC.update({
    'Lifetime Average Well Flow Rate': ('wellbores.ProductionWellFlowRates', 'meanabs', 1, 1, 'cur'),
    'Maximum Storage Well Temperature': ('wellbores.ProducedTemperature', 'max', 1, 1, 'pref'),
    'Average Storage Well Temperature': ('wellbores.ProducedTemperature', M, 1, 1, 'pref'),
    'Minimum Storage Well Temperature': ('wellbores.ProducedTemperature', 'min', 1, 1, 'pref'),
    'Maximum Balance Well Temperature': ('wellbores.Tinj', 'max', 1, 1, 'pref'),
    'Average Balance Well Temperature': ('wellbores.Tinj', M, 1, 1, 'pref'),
    'Minimum Balance Well Temperature': ('wellbores.Tinj', 'min', 1, 1, 'pref'),
    'Maximum Annual Heat Stored': ('reserv.AnnualHeatStored', 'max', 1, 1, 'pref'),
    'Average Annual Heat Stored': ('reserv.AnnualHeatStored', M, 1, 1, 'pref'),
    'Minimum Annual Heat Stored': ('reserv.AnnualHeatStored', 'min', 1, 1, 'pref'),
    'Maximum Annual Heat Supplied': ('reserv.AnnualHeatSupplied', 'max', 1, 1, 'pref'),
    'Average Annual Heat Supplied': ('reserv.AnnualHeatSupplied', M, 1, 1, 'pref'),
    'Minimum Annual Heat Supplied': ('reserv.AnnualHeatSupplied', 'min', 1, 1, 'pref'),
    'Average Round-Trip Efficiency': ('reserv.AnnualRTESEfficiency', M, 1, 1, 'pref'),
})


def _v(snap, path):
    p = get(snap, path)
    return None if p is None else p['value']


# figures that combine several quantities: the combination is part of the line's meaning (sum of two costs, cost per well, ratio); computed in the
# writer's own operation order so that the comparison is exact
EXPR = {
    'surface_equipment': lambda s: _v(s, 'economics.Cplant') + _v(s, 'economics.Cgath'),
    'cost_per_well': lambda s: _v(s, 'economics.Cwell') / (_v(s, 'wellbores.nprod') + _v(s, 'wellbores.ninj')),
    'total_oam': lambda s: (_v(s, 'economics.Coam') if get(s, 'economics.oamtotalfixed')['Valid'] else
                            _v(s, 'economics.Coam') + _v(s, 'economics.averageannualpumpingcosts') + _v(s, 'economics.averageannualheatpumpelectricitycost')),
    'annualized_capex': lambda s: _v(s, 'economics.CCap') * (1 + _v(s, 'economics.inflrateconstruction')) * _v(s, 'economics.FCR'),
    'pump_over_net': lambda s: _v(s, 'wellbores.PumpingPower')[0] / _v(s, 'surfaceplant.NetElectricityProduced')[0] * 100,
}

# `:10.4g` lines (Python's general format, rendered by the Lean model `fmtG` in its fixed-notation range)
G_SPEC = {'Geothermal gradient': ('reserv.gradient', 0)}
SEG_G = re.compile(r'^Segment (\d+) Geothermal gradient$')

# S-DAC-GT profile: one row per year, `,.2f` figures (thousands separators) except the last column
SDAC_COLS = [('CarbonExtractedAnnually', 2), ('S_DAC_GTCummCarbonExtracted', 2), ('S_DAC_GTAnnualCost', 2), ('S_DAC_GTCummCashFlow', 2), ('CummCostPerTonne', 2)]

# production profile: end-use family -> (first year number, [(series, scale, decimals, kind)]); kind 'ratio0' = series[i*n] / series[0]
PT, PP = 'wellbores.ProducedTemperature', 'wellbores.PumpingPower'
PROD_TABLE = {
    'electricity': (1, [(PT, 1, 4, 'ratio0'), (PT, 1, 2, 's'), (PP, 1, 4, 's'), ('surfaceplant.NetElectricityProduced', 1, 4, 's'), ('surfaceplant.FirstLawEfficiency', 100, 4, 's')]),
    'heat': (0, [(PT, 1, 4, 'ratio0'), (PT, 1, 2, 's'), (PP, 1, 4, 's'), ('surfaceplant.HeatProduced', 1, 4, 's')]),
    'heatpump': (0, [(PT, 1, 4, 'ratio0'), (PT, 1, 2, 's'), (PP, 1, 4, 's'), ('surfaceplant.HeatProduced', 1, 4, 's'), ('surfaceplant.heat_pump_electricity_used', 1, 4, 's')]),
    'district': (0, [(PT, 1, 4, 'ratio0'), (PT, 1, 2, 's'), (PP, 1, 4, 's'), ('surfaceplant.HeatProduced', 1, 4, 's')]),
    'chiller': (0, [(PT, 1, 4, 'ratio0'), (PT, 1, 2, 's'), (PP, 1, 4, 's'), ('surfaceplant.HeatProduced', 1, 4, 's'), ('surfaceplant.cooling_produced', 1, 4, 's')]),
    'cogen': (0, [(PT, 1, 4, 'ratio0'), (PT, 1, 2, 's'), (PP, 1, 4, 's'), ('surfaceplant.NetElectricityProduced', 1, 4, 's'), ('surfaceplant.HeatProduced', 1, 4, 's'),
                  ('surfaceplant.FirstLawEfficiency', 100, 4, 's')]),
}
G6 = Fraction(1, 10**6)
REM = 'surfaceplant.RemainingReservoirHeatContent'
ANNUAL_TABLE = {
    'electricity': [('surfaceplant.NetkWhProduced', G6, 1), ('surfaceplant.HeatkWhExtracted', G6, 1), (REM, 1, 2), ('mined', 1, 2)],
    'chiller': [('surfaceplant.cooling_kWh_Produced', G6, 1), ('surfaceplant.HeatkWhExtracted', G6, 1), (REM, 1, 2), ('mined', 1, 2)],
    'heatpump': [('surfaceplant.HeatkWhProduced', G6, 1), ('surfaceplant.HeatkWhExtracted', G6, 1), ('surfaceplant.heat_pump_electricity_kwh_used', G6, 2), (REM, 1, 2), ('mined', 1, 2)],
    'cogen': [('surfaceplant.HeatkWhProduced', G6, 1), ('surfaceplant.NetkWhProduced', G6, 1), ('surfaceplant.HeatkWhExtracted', G6, 2), (REM, 1, 2), ('mined', 1, 2)],
    'district': [('surfaceplant.HeatkWhProduced', G6, 1), ('surfaceplant.annual_ng_demand', Fraction(1, 1000), 1), ('surfaceplant.HeatkWhExtracted', G6, 2), (REM, 1, 2), ('mined', 1, 2)],
    'heat': [('surfaceplant.HeatkWhProduced', G6, 1), ('surfaceplant.HeatkWhExtracted', G6, 1), (REM, 1, 2), ('mined', 1, 2)],
}
CASH_COLS = ['ElecPrice', 'ElecRevenue', 'ElecCummRevenue', 'HeatPrice', 'HeatRevenue', 'HeatCummRevenue', 'CoolingPrice', 'CoolingRevenue', 'CoolingCummRevenue',
             'CarbonPrice', 'CarbonRevenue', 'CarbonCummCashFlow', 'OPEX', 'TotalRevenue', 'TotalCummRevenue']

LINE = re.compile(r'^\s*(?P<label>[^:=]+?):\s+(?P<num>-?[0-9][0-9.,]*|N/A)(?:\s+(?P<unit>\S.*?))?\s*$')


def family(snap):
    eu = snap['surfaceplant']['p']['enduse_option']['value']['value']
    pt = snap['surfaceplant']['p']['plant_type']['value']['value']
    eu = eu if isinstance(eu, int) else snap['surfaceplant']['p']['enduse_option']['value'].get('name')
    name_eu = snap['surfaceplant']['p']['enduse_option']['value']['name']
    name_pt = snap['surfaceplant']['p']['plant_type']['value']['name']
    if name_eu == 'ELECTRICITY':
        return 'electricity'
    if name_eu == 'HEAT':
        return {'HEAT_PUMP': 'heatpump', 'DISTRICT_HEATING': 'district', 'ABSORPTION_CHILLER': 'chiller'}.get(name_pt, 'heat')
    return 'cogen'


def get(snap, path):
    mod, attr = path.split('.')
    return snap.get(mod, {}).get('p', {}).get(attr)


def values_of(p):
    v = p['value']
    if isinstance(v, bool):
        return None
    if isinstance(v, (int, float)):
        return [v]
    if isinstance(v, list) and v and all(isinstance(x, (int, float)) and not isinstance(x, bool) for x in v):
        return v
    return None


def _run(params):
    # the figures are compared with the model as it stands when the writer runs (after its unit pass): stage 'printed'; C02/C03/... tie the same quantities to the calculation
    r = geo.run_geophires(params, stages=('printed',), want_report=True)
    return {'ok': r['ok'], 'error': r['error'], 'snap': r['snaps'].get('printed'), 'report': r['report']}


def section_tables(lines):
    """rows of the three profile tables: lists of token lists"""
    out = {'prod': [], 'annual': [], 'cash': [], 'sdac': [], 'prod_header_units': None}
    cur = None
    for ln in lines:
        if 'S-DAC-GT PROFILE' in ln:
            cur = 'sdac'
            continue
        if cur == 'prod' and not out['prod'] and out['prod_header_units'] is None and ln.strip().startswith('(') and ')' in ln:
            out['prod_header_units'] = re.findall(r'\(([^)]*)\)', ln)
        if 'ANNUAL' in ln and 'PROFILE' in ln:
            cur = 'annual'
            continue
        if 'ELECTRICITY PRODUCTION PROFILE' in ln:
            cur = 'prod'
            continue
        if 'REVENUE & CASHFLOW PROFILE' in ln:
            cur = 'cash'
            continue
        if 'RESERVOIR POWER REQUIRED PROFILES' in ln or 'ADD-ON' in ln.upper() and 'PROFILE' in ln.upper() or 'S_DAC_GT' in ln.upper() or 'EXTENDED ECONOMIC' in ln.upper() or 'CCUS PROFILE' in ln.upper():
            cur = None
            continue
        if cur is None:
            continue
        toks = ln.replace('|', ' ').split()
        if toks and re.fullmatch(r'-?\d+', toks[0]) and all(re.fullmatch(r'-?[\d.,]+(?:[eE][+-]?\d+)?|nan|inf|-inf', t) for t in toks[1:]) and len(toks) > 2:
            out[cur].append(toks)
    return out


def check_report(chk: core.Check, name, params, r, lines_out, pending, tables=True):
    snap, report = r['snap'], r['report']
    fam = family(snap)
    lines = report.splitlines()
    n = snap['economics']['p']['timestepsperyear']['value']
    L = snap['surfaceplant']['p']['plant_lifetime']['value']
    cy = snap['surfaceplant']['p']['construction_years']['value']
    rep = {'configuration': name, 'params': params if isinstance(params, dict) else str(params)[:2000]}
    seen_unspecified = set()
    for ln in lines:
        m = LINE.match(ln)
        if not m:
            continue
        label = ' '.join(m['label'].split())
        gm = SEG_G.match(label)
        if label in G_SPEC or gm:
            idx = G_SPEC[label][1] if label in G_SPEC else int(gm.group(1)) - 1
            pg = get(snap, 'reserv.gradient')
            vals = values_of(pg) if pg else None
            if vals and idx < len(vals) and math.isfinite(vals[idx]) and m['num'] != 'N/A':
                cid = f'f{len(pending)}'
                lines_out.append(f'figureg {cid} p=4 x={core.frac(vals[idx])}')
                pending.append(('gline', name, rep, label, ln, m['num'], (m['unit'] or '').strip(), pg['CurrentUnits'], 4, [vals[idx]], 'scalar', 1))
            continue
        spec = SPEC.get(label)
        if spec is None:
            seen_unspecified.add(label)
            continue
        path, agg, scale, d, unit = spec
        if path.startswith('expr:'):
            try:
                val = EXPR[path[5:]](snap)
            except Exception:  # noqa
                val = None
            p = {'value': val, 'CurrentUnits': None, 'PreferredUnits': None} if isinstance(val, (int, float)) else None
        else:
            p = get(snap, path)
        if p is None:
            chk.tag('spec/quantity-absent')
            continue
        xs = values_of(p)
        if xs is None or any(isinstance(x, float) and not math.isfinite(x) for x in xs):
            chk.tag('spec/non-finite-or-non-numeric')
            continue
        if m['num'] == 'N/A':
            if label == 'Project Payback Period' and xs[0] <= 0:
                chk.tag('line/NA-payback')
            else:
                chk.fail(f'C09/figure/{label}', f'"{label}" shows N/A although the computed value is {xs[0]!r}', {**rep, 'line': ln})
            continue
        if agg == 'meanabs':
            xs, agg = [abs(x) for x in xs], 'mean'      # the average flow magnitude: mean of the absolute values
        if len(xs) > 3000 and agg in ('mean', 'max', 'min'):
            # hourly series of a storage case (hundreds of thousands of points): aggregated here with numpy, as the writer does; the model only rounds
            import numpy as np
            xs, agg = [float({'mean': np.average, 'max': np.max, 'min': np.min}[agg](np.array(xs)))], 'scalar'
            chk.tag('figure/long-series-aggregated-in-python')
        cid = f'f{len(pending)}'
        lines_out.append(f'figure {cid} agg={agg} scale={core.frac(scale)} d={d} xs={",".join(core.frac(x) for x in xs)}')
        want_unit = None
        if unit in ('cur', 'pref'):
            want_unit = p['CurrentUnits' if unit == 'cur' else 'PreferredUnits']
        elif isinstance(unit, tuple):
            q = get(snap, unit[1])
            want_unit = q['CurrentUnits' if unit[0] == 'cur' else 'PreferredUnits'] if q else None
        elif isinstance(unit, str):
            want_unit = unit
        pending.append(('line', name, rep, label, ln, m['num'], (m['unit'] or '').strip(), want_unit, d, xs, agg, scale))
    if not tables:
        return seen_unspecified
    # ---- tables ---------------------------------------------------------------------------------------------------------------------------
    tabs = section_tables(lines)
    first_year, cols = PROD_TABLE[fam]
    if not snap['wellbores']['p'].get('IsAGS', {}).get('value'):
        if len(tabs['prod']) != L:
            chk.fail('C09/table-rows/production-profile', f'the production profile has {len(tabs["prod"])} rows for a lifetime of {L} years', {**rep, 'family': fam})
        else:
            for i, toks in enumerate(tabs['prod']):
                if int(toks[0]) != i + first_year:
                    chk.fail('C09/table-years/production-profile', f'production profile row {i} is labelled year {toks[0]}, expected {i + first_year}', {**rep, 'family': fam})
                    break
                if len(toks) - 1 != len(cols):
                    chk.fail('C09/table-columns/production-profile', f'production profile row has {len(toks) - 1} figures, the {fam} table has {len(cols)} columns', {**rep, 'row': toks})
                    break
                for j, (path, scale, d, kind) in enumerate(cols):
                    p = get(snap, path)
                    s = values_of(p) if p else None
                    if not s or i * n >= len(s):
                        chk.fail('C09/table-stride/production-profile', f'year {i + first_year} needs point {i * n} of {path}, which has {len(s) if s else 0} points', {**rep, 'family': fam})
                        break
                    x = Fraction(s[i * n]) / Fraction(s[0]) if kind == 'ratio0' else Fraction(s[i * n])
                    if not all(math.isfinite(v) for v in (s[i * n], s[0])):
                        continue
                    cid = f'f{len(pending)}'
                    lines_out.append(f'figure {cid} agg=scalar scale={core.frac(scale)} d={d} xs={core.frac(x)}')
                    pending.append(('cell', name, rep, f'production-profile/col{j + 1}:{path.split(".")[1]}' + ('/ratio' if kind == 'ratio0' else ''), ' '.join(toks), toks[j + 1], None, None, d, [x], 'scalar', scale))
        acols = ANNUAL_TABLE[fam]
        if len(tabs['annual']) != L:
            chk.fail('C09/table-rows/annual-profile', f'the annual profile has {len(tabs["annual"])} rows for a lifetime of {L} years', {**rep, 'family': fam})
        else:
            init = get(snap, 'reserv.InitialReservoirHeatContent')
            rem = values_of(get(snap, REM)) if get(snap, REM) else None
            for i, toks in enumerate(tabs['annual']):
                if int(toks[0]) != i + 1:
                    chk.fail('C09/table-years/annual-profile', f'annual profile row {i} is labelled year {toks[0]}', {**rep, 'family': fam})
                    break
                if len(toks) - 1 != len(acols):
                    chk.fail('C09/table-columns/annual-profile', f'annual profile row has {len(toks) - 1} figures, the {fam} table has {len(acols)} columns', {**rep, 'row': toks})
                    break
                for j, (path, scale, d) in enumerate(acols):
                    if path == 'mined':
                        if not init or not rem or i >= len(rem) or not math.isfinite(rem[i]) or init['value'] in (0, None):
                            continue
                        # the writer computes (init - rem[i]) * 100 / init in floating point: reproduce the operation order exactly
                        x = Fraction((init['value'] - rem[i]) * 100 / init['value'])
                    else:
                        p = get(snap, path)
                        s = values_of(p) if p else None
                        if not s or i >= len(s):
                            chk.fail('C09/table-stride/annual-profile', f'year {i + 1} needs point {i} of {path}, which has {len(s) if s else 0} points', {**rep, 'family': fam})
                            break
                        if not math.isfinite(s[i]):
                            continue
                        x = Fraction(s[i] / (1 / float(scale))) if scale != 1 else Fraction(s[i])   # value / 1E6 (float division, as the writer does)
                        scale = 1
                    cid = f'f{len(pending)}'
                    lines_out.append(f'figure {cid} agg=scalar scale=1 d={d} xs={core.frac(x)}')
                    pending.append(('cell', name, rep, f'annual-profile/col{j + 1}:{path.split(".")[-1]}', ' '.join(toks), toks[j + 1], None, None, d, [x], 'scalar', 1))
    if len(tabs['cash']) != cy + L:
        chk.fail('C09/table-rows/cashflow-profile', f'the revenue & cash-flow profile has {len(tabs["cash"])} rows for {cy} construction + {L} operating years', rep)
    else:
        econ = snap['economics']
        for i, toks in enumerate(tabs['cash']):
            if int(toks[0]) != i:
                chk.fail('C09/table-years/cashflow-profile', f'cash-flow row {i} is labelled year {toks[0]}', rep)
                break
            if len(toks) - 1 != len(CASH_COLS):
                chk.fail('C09/table-columns/cashflow-profile', f'cash-flow row has {len(toks) - 1} figures for {len(CASH_COLS)} columns', {**rep, 'row': toks})
                break
            for j, c in enumerate(CASH_COLS):
                if c == 'OPEX':
                    coam = econ['out'].get(econ['p']['Coam']['Name'], econ['p']['Coam'])
                    x = 0.0 if i < cy else coam['value']
                else:
                    # the writer reads these through econ.OutputParameterDict[<Name>] (the copy in display units)
                    nm = econ['p'][c]['Name'] if c in econ['p'] else None
                    src = econ['out'].get(nm) if nm in econ['out'] else econ['p'].get(c)
                    s = values_of(src) if src else None
                    if not s or i >= len(s):
                        chk.fail('C09/table-stride/cashflow-profile', f'year {i} needs point {i} of {c}, which has {len(s) if s else 0} points', rep)
                        break
                    x = s[i]
                if not isinstance(x, (int, float)) or not math.isfinite(x):
                    continue
                cid = f'f{len(pending)}'
                lines_out.append(f'figure {cid} agg=scalar scale=1 d=2 xs={core.frac(x)}')
                pending.append(('cell', name, rep, f'cashflow-profile/{c}', ' '.join(toks), toks[j + 1], None, None, 2, [x], 'scalar', 1))
    # ---- production-profile header: the units in parentheses are the units of the columns (electricity branch prints the live units) ------
    if fam == 'electricity' and tabs['prod_header_units'] is not None:
        want_units = [get(snap, 'wellbores.ProducedTemperature')['CurrentUnits'], get(snap, 'wellbores.PumpingPower')['CurrentUnits'],
                      get(snap, 'surfaceplant.NetElectricityProduced')['CurrentUnits'], '%']
        chk.case(('production-profile/header-units', name), True)
        if tabs['prod_header_units'] != want_units:
            chk.fail('C09/unit/production-profile-header', f'the production profile header gives the column units as {tabs["prod_header_units"]} but the columns hold {want_units}', rep)
        else:
            chk.tag('unit/table-header-equal')
    # ---- S-DAC-GT profile ------------------------------------------------------------------------------------------------------------------
    sd = snap.get('sdacgteconomics', {}).get('p') if snap.get('economics', {}).get('p', {}).get('DoSDACGTCalculations', {}).get('value') else None
    if sd:
        rows = tabs['sdac']
        chk.case(('sdac-profile/rows', name), True)
        if len(rows) != L:
            chk.fail('C09/table-rows/sdacgt-profile', f'the S-DAC-GT profile has {len(rows)} rows for a lifetime of {L} years', rep)
        else:
            for i, toks in enumerate(rows):
                if int(toks[0]) != i + 1 or len(toks) - 1 != len(SDAC_COLS):
                    chk.fail('C09/table-years/sdacgt-profile', f'S-DAC-GT profile row {i} is labelled year {toks[0]} / has {len(toks) - 1} figures', {**rep, 'row': toks})
                    break
                for j, (attr, d) in enumerate(SDAC_COLS):
                    sv = values_of(sd[attr]) if attr in sd else None
                    if not sv or i >= len(sv) or not math.isfinite(sv[i]):
                        continue
                    cid = f'f{len(pending)}'
                    lines_out.append(f'figure {cid} agg=scalar scale=1 d={d} xs={core.frac(sv[i])}')
                    pending.append(('cell', name, rep, f'sdacgt-profile/{attr}', ' '.join(toks), toks[j + 1], None, None, d, [sv[i]], 'scalar', 1))
    return seen_unspecified


def near_tie(agg, scale, d, xs) -> bool:
    """is the exact figure within 1e-7 of a rounding boundary (float aggregation / scaling may then fall on the other side)"""
    fx = [Fraction(x) for x in xs]
    v = {'scalar': lambda: fx[0], 'first': lambda: fx[0], 'last': lambda: fx[-1], 'mean': lambda: sum(fx) / len(fx), 'max': lambda: max(fx), 'min': lambda: min(fx),
         'sum': lambda: sum(fx)}[agg]() * Fraction(scale)
    y = abs(v) * 10**d
    frac = y - math.floor(y)
    return abs(frac - Fraction(1, 2)) < Fraction(1, 10**12) * max(1, y) + Fraction(1, 10**12)


def evaluate(chk: core.Check, cases):
    res = geo.pmap(_run, [p for _, p in cases], chk.scratch, chunksize=2)
    lines_out, pending = [], []
    unspecified = {}
    for (name, params), r in zip(cases, res):
        if not r['ok'] or r['snap'] is None:
            chk.tag('run/failed')
            continue
        wcls = r['snap'].get('outputs', {}).get('class')
        if wcls == 'SUTRAOutputs':
            chk.tag('run/ok-sutra-writer')
            for u in check_report(chk, name, params, r, lines_out, pending, tables=False):
                unspecified[u] = unspecified.get(u, 0) + 1
            continue
        if wcls != 'Outputs':
            chk.tag('run/other-writer-not-covered:' + str(wcls))
            continue
        chk.tag('run/ok')
        un = check_report(chk, name, params, r, lines_out, pending)
        for u in un:
            unspecified[u] = unspecified.get(u, 0) + 1
    out = chk.driver(lines_out)
    for k, (kind, name, rep, label, ln, shown, shown_unit, want_unit, d, xs, agg, scale) in enumerate(pending):
        head, kv = core.parse_kv(out.get(f'f{k}', 'missing'))
        if head == 'ok' and kv.get('tag') == 'scientific':
            chk.tag('figure/g-format-scientific-range-skipped')
            continue
        if head != 'ok' or kv.get('tag') != 'fig':
            chk.broken('C09/driver', f'figure: {out.get(f"f{k}")}', {**rep, 'label': label}, 'correspondence-break')
            continue
        chk.case((label, name), True)
        want = kv['text']
        shown_n = shown.replace(',', '')
        if shown_n != want:
            if near_tie(agg, scale, d, xs):
                chk.tag('figure/near-tie-skipped')
            else:
                what = 'line' if kind == 'line' else 'table cell'
                chk.fail(f'C09/figure/{label}', f'{what} "{label}" shows {shown} but the computed quantity rounded to {d} decimals is {want}',
                         {**rep, 'line': ln, 'shown': shown, 'expected': want, 'exact_value': kv['exact'], 'quantity': SPEC[label][0] if label in SPEC else label})
                continue
        else:
            chk.tag('figure/' + ('line-equal' if kind == 'line' else 'g-line-equal' if kind == 'gline' else 'cell-equal'))
        if kind in ('line', 'gline') and (want_unit or '') != shown_unit and not (want_unit is None and shown_unit == ''):
            chk.fail(f'C09/unit/{label}', f'"{label}" is labelled "{shown_unit}" but the quantity\'s unit is "{want_unit}"', {**rep, 'line': ln})
        elif kind in ('line', 'gline'):
            chk.tag('unit/equal')
    return unspecified


def session_cases():
    # three S-DAC-GT runs and one output-units directive run; the first two share a worker process (chunks of 2), as a client session would
    out = []
    for L in (6, 4, 9):
        s = geo.base_params(2, 31, 4, L=L, n=1)
        s.update({'Do S-DAC-GT Calculations': 'True'})
        out.append((f'sdacgt/L{L}', s))
    d = geo.base_params(2, 1, 1, L=7, n=2)
    d['Units:Pumping Power'] = 'kW'
    out.append(('directive/pumping-power-kW', d))
    sutra = [f for f in geo.example_files() if f.name == 'SUTRAExample1.txt']
    if sutra:
        out.append(('SUTRAExample1.txt', geo.example_text(sutra[0])))
    for nseg in (2, 3, 4):
        g = geo.base_params(2, 1, 1, L=6, n=1)
        g.update({'Number of Segments': nseg, 'Gradient 1': 55, 'Thickness 1': 1.2, 'Gradient 2': 41, 'Thickness 2': 0.9, 'Gradient 3': 33, 'Thickness 3': 0.6, 'Gradient 4': 27, 'Reservoir Depth': 3.4})
        out.append((f'segments/{nseg}', g))
    for k, (econ, eu, pl) in enumerate([(2, 1, 1), (3, 2, 9)]):
        a = geo.base_params(econ, eu, pl, L=12, n=1)
        a.update({'AddOn Nickname 1': 'x', 'AddOn CAPEX 1': 10 + 5 * k, 'AddOn OPEX 1': 1, 'AddOn Electricity Gained 1': 4e6, 'AddOn Heat Gained 1': 1e6 * k, 'AddOn Profit Gained 1': 0.5,
                  'AddOn Nickname 2': 'y', 'AddOn CAPEX 2': 3, 'AddOn OPEX 2': 0.2, 'AddOn Electricity Gained 2': 0, 'AddOn Heat Gained 2': 0, 'AddOn Profit Gained 2': 0.9})
        out.append((f'addons/{k}', a))
    return out


def cases_for(chk: core.Check, n_grid, n_div, n_examples):
    rng = chk.rng
    cases = []
    # fracture geometry that makes the calculated reservoir volume (a `:10.0f` figure) non-integral, with any fractional part
    for k in range(6):
        g = geo.base_params(rng.choice([1, 2, 3]), 1, 1, L=rng.choice([4, 11]), n=1)
        g.update({'Reservoir Volume Option': 1, 'Fracture Shape': rng.choice([1, 2, 3]), 'Fracture Height': round(rng.uniform(300, 900), 2), 'Fracture Area': round(rng.uniform(2e5, 8e5), 1),
                  'Number of Fractures': rng.randint(5, 30), 'Fracture Separation': round(rng.uniform(20, 100), 3)})
        g.pop('Reservoir Volume', None)
        cases.append((f'fracture-geometry/{k}', g))
    grid = geo.grid()
    for (e, eu, pl) in rng.sample(grid, min(n_grid, len(grid))):
        L = rng.choice([1, 2, 5, 12, 30, 40])
        p = geo.base_params(e, eu, pl, L=L, n=rng.choice([1, 2, 4]))
        p['Construction Years'] = rng.choice([1, 1, 2, 4])
        cases.append((f'grid:{e}/{eu}/{pl}/L{L}', p))
    for _ in range(n_div):
        e, eu, pl = rng.choice(grid)
        p = geo.base_params(e, eu, pl, L=rng.choice([3, 10, 25]), n=rng.choice([1, 2]))
        if pl != 7:
            geo.diversify(rng, p, 0.5)
        cases.append((f'div:{e}/{eu}/{pl}', p))
    ex = [f for f in geo.example_files()]
    for f in rng.sample(ex, min(n_examples, len(ex))):
        cases.append((f.name, geo.example_text(f)))
    return cases


def run(chk: core.Check) -> int:
    clean = chk.prove(['GeoVerif.Properties.C09'])
    quick = chk.tier == 'quick'
    un = evaluate(chk, session_cases() + cases_for(chk, 36 if quick else 96, 16 if quick else 400, 8 if quick else 40))
    chk.coverage['specified_labels'] = len(SPEC)
    chk.coverage['unspecified_labels_seen'] = dict(sorted(un.items(), key=lambda t: -t[1])[:80])
    chk.assumptions += ['"the corresponding computed quantity" is fixed by the specification table in harness/props/c09.py (label -> quantity, aggregate, scale, decimals, unit source), written from the '
                        'meaning of the labels; labels without an entry are listed in coverage.unspecified_labels_seen and are not decided',
                        'a figure whose exact value lies within 1e-7 of a rounding boundary is skipped (the writer aggregates and scales in binary floating point)',
                        'the SUTRA writer is covered for its summary lines only; the HIP-RA-X writer and the HTML / rich output are not covered']
    chk.trusted += ['the report tokeniser of this harness (regular expressions, independent of the client parser)']
    return chk.finish(rule=RULE)


def replay(chk: core.Check, path: str) -> int:
    return run(chk)
