"""C02 — energy flows balance at every time step and over every year.

proof: GeoVerif.Properties.C02
tie:   whole runs through the hook: temperature / flow / power series -> Lean ops recompute every per-step power series, every annual
       figure, the remaining-heat series and the district-heating daily split exactly -> compared element-wise with the run.
"""
from __future__ import annotations

import json
import math
from fractions import Fraction

from .. import core, geo
from .c01 import end_use

RULE = ('whole runs: Grid (8 plant types, 6 cogeneration variants) x (lifetime, steps/year) in {(7,3),(2,1),(5,4),(3,12),(30,4),(100,1),…} x '
        'drawdown / utilisation / efficiency / COP / CHP fraction draws; thorough adds reservoir models 1-3, Ramey, redrilling. '
        'non-trivial = run succeeded; distinct by parameter set')

CYCLE = {'COGENERATION_TOPPING_EXTRA_HEAT': 'topping', 'COGENERATION_TOPPING_EXTRA_ELECTRICITY': 'topping',
         'COGENERATION_BOTTOMING_EXTRA_HEAT': 'bottoming', 'COGENERATION_BOTTOMING_EXTRA_ELECTRICITY': 'bottoming',
         'COGENERATION_PARALLEL_EXTRA_HEAT': 'parallel', 'COGENERATION_PARALLEL_EXTRA_ELECTRICITY': 'parallel', 'ELECTRICITY': 'elecOnly'}


def _run(params):
    r = geo.run_geophires(params, want_report=False)
    if not r['ok']:
        return {'ok': False, 'error': r['error'], 'params': params}
    s = r['snaps']['calculated']
    keep = {k: s[k] for k in ('surfaceplant', 'wellbores', 'reserv')}
    keep['economics'] = {'p': {k: s['economics']['p'][k] for k in ('timestepsperyear', 'DoAddOnCalculations')}, 'class': s['economics']['class']}
    return {'ok': True, 'params': params, 'snap': keep}


def finite(v):
    return all(isinstance(x, (int, float)) and math.isfinite(x) for x in (v if isinstance(v, list) else [v]))


def build(cid, s):
    S, W, R = s['surfaceplant']['p'], s['wellbores']['p'], s['reserv']['p']
    if s['surfaceplant']['class'] in ('SurfacePlantSUTRA', 'SurfacePlantAGS') or s['economics']['p']['DoAddOnCalculations']['value']:
        return None
    F, FS = core.frac, core.fracs
    eu = end_use(s)
    euname = geo.enum_name(S['enduse_option']['value'])
    L, n = S['plant_lifetime']['value'], s['economics']['p']['timestepsperyear']['value']
    nprod, flow, cp, tinj = W['nprod']['value'], W['prodwellflowrate']['value'], R['cpwater']['value'], W['Tinj']['value']
    tprod = W['ProducedTemperature']['value']
    pump = W['PumpingPower']['value']
    ext = S['HeatExtracted']['value']
    if not (isinstance(tprod, list) and finite(tprod) and finite(pump) and finite([flow, cp, tinj]) and isinstance(ext, list) and finite(ext)):
        return None
    lines, expect = [], {}
    eff = S['enduse_efficiency_factor']['value']
    head = f'nprod={nprod} flow={F(flow)} cp={F(cp)} tinj={F(tinj)} tprod={FS(tprod)}'
    if eu in ('elec', 'cogen'):
        gross, net = S['ElectricityProduced']['value'], S['NetElectricityProduced']['value']
        fle = S['FirstLawEfficiency']['value']
        if not (finite(gross) and finite(net)):
            return None
        cyc = CYCLE[euname]
        # heat towards electricity is not stored: recover it from the reported first-law efficiency (= net / toElec)
        to_elec = [Fraction(a) / Fraction(b) if (isinstance(b, float) and math.isfinite(b) and b != 0) else None for a, b in zip(net, fle)]
        k = Fraction(nprod) * Fraction(flow) * Fraction(cp)
        reinj = []
        for t, te in zip(tprod, to_elec):
            reinj.append(Fraction(t) - te * 1000000 / k if (te is not None and k != 0 and cyc == 'topping') else Fraction(0))
        lines.append(f'plantstep {cid}st kind=cogen {head} cycle={cyc} eff={F(eff)} reinj={",".join(F(x) for x in reinj)} '
                     f'tbottom={F(S["T_chp_bottom"]["value"])} chp={F(S["chp_fraction"]["value"])} gross={FS(gross)} pump={FS(pump)}')
        ex = {'ext': ('HeatExtracted', ext), 'net': ('NetElectricityProduced', net)}
        hp = S['HeatProduced']['value']
        if cyc != 'elecOnly' and isinstance(hp, list) and len(hp) == len(tprod):
            ex['produced'] = ('HeatProduced', hp)
        if all(x is not None for x in to_elec) and cyc != 'topping':
            ex['toElec'] = ('NetElectricityProduced/FirstLawEfficiency', [float(x) for x in to_elec])
        expect['st'] = ex
        powers = [('ElectricityProduced', 'TotalkWhProduced'), ('NetElectricityProduced', 'NetkWhProduced')]
        if cyc != 'elecOnly':
            powers.append(('HeatProduced', 'HeatkWhProduced'))
    elif eu in ('heat', 'district'):
        lines.append(f'plantstep {cid}st kind=industrial {head} eff={F(eff)}')
        expect['st'] = {'ext': ('HeatExtracted', ext), 'produced': ('HeatProduced', S['HeatProduced']['value'])}
        powers = [('HeatProduced', 'HeatkWhProduced')]
    elif eu == 'heatPump':
        lines.append(f'plantstep {cid}st kind=heatpump {head} eff={F(eff)} cop={F(S["heat_pump_cop"]["value"])}')
        expect['st'] = {'ext': ('HeatExtracted', ext), 'produced': ('HeatProduced', S['HeatProduced']['value']),
                        'hpelec': ('heat_pump_electricity_used', S['heat_pump_electricity_used']['value'])}
        powers = [('HeatProduced', 'HeatkWhProduced'), ('heat_pump_electricity_used', 'heat_pump_electricity_kwh_used')]
    elif eu == 'chiller':
        lines.append(f'plantstep {cid}st kind=chiller {head} eff={F(eff)} cop={F(S["absorption_chiller_cop"]["value"])}')
        expect['st'] = {'ext': ('HeatExtracted', ext), 'produced': ('HeatProduced', S['HeatProduced']['value']),
                        'cooling': ('cooling_produced', S['cooling_produced']['value'])}
        powers = [('HeatProduced', 'HeatkWhProduced'), ('cooling_produced', 'cooling_kWh_Produced')]
    else:
        return None
    powers += [('HeatExtracted', 'HeatkWhExtracted'), ('PumpingPower', 'PumpingkWh')]
    util = S['util_factor_array']['value'] if eu == 'district' else [S['utilization_factor']['value']]
    for pname, aname in powers:
        ser = W[pname]['value'] if pname == 'PumpingPower' else S[pname]['value']
        if not (isinstance(ser, list) and finite(ser)):
            continue
        lines.append(f'annual {cid}an_{aname} series={FS(ser)} L={L} n={n} util={FS(util)}')
        expect[f'an_{aname}'] = {'annual': (aname, S[aname]['value'])}
    init = R['InitialReservoirHeatContent']['value']
    lines.append(f'remaining {cid}rem init={F(init)} E={FS(S["HeatkWhExtracted"]["value"])}')
    expect['rem'] = {'remaining': ('RemainingReservoirHeatContent', S['RemainingReservoirHeatContent']['value'])}
    if eu == 'district':
        dd = S['daily_heating_demand']['value']
        lines.append(f'district {cid}dh demand={FS(dd)} produced={FS(S["HeatProduced"]["value"])} L={L} n={n}')
        expect['dh'] = {'utilArray': ('util_factor_array', S['util_factor_array']['value']), 'annualNg': ('annual_ng_demand', S['annual_ng_demand']['value']),
                        'geo': ('dh_geothermal_heating', S['dh_geothermal_heating']['value']), 'ng': ('dh_natural_gas_heating', S['dh_natural_gas_heating']['value'])}
        expect['dh_demand'] = (dd, S['annual_heating_demand']['value'])
    return lines, expect, {'eu': eu, 'L': L, 'n': n, 'cycle': CYCLE.get(euname)}


LN = [(7, 3), (2, 1), (5, 4), (3, 12), (30, 4), (100, 1), (20, 2), (2, 2), (1, 2), (1, 4)]


def gen_cases(rng, n, thorough=False):
    cases = []
    g = geo.grid()
    for k in range(n):
        econ, eu, pl = g[(k * 7) % 96] if k < 96 else rng.choice(g)
        L, nn = LN[k % len(LN)]
        if pl == 7:
            L, nn = rng.choice([(3, 2), (5, 4), (2, 1), (10, 3)])
        p = geo.base_params(econ, eu, pl, L=L, n=nn)
        p['Drawdown Parameter'] = rng.choice([0.0, 0.003, 0.01, 0.04])
        p['Utilization Factor'] = rng.choice([0.5, 0.9, 1.0])
        if eu != 1:
            p['End-Use Efficiency Factor'] = rng.choice([0.45, 0.8, 1.0])
        if eu in (31, 32, 41, 42):
            p['CHP Bottoming Entering Temperature'] = rng.choice([120, 150])
        if eu in (51, 52):
            p['CHP Fraction'] = rng.choice([0.1, 0.5, 0.9])
        if pl == 6:
            p['Heat Pump COP'] = rng.choice([1.5, 2.8, 5])
        if pl == 5:
            p['Absorption Chiller COP'] = rng.choice([0.4, 0.7, 1.2])
        p['Production Flow Rate per Well'] = rng.choice([20, 55, 90])
        p['Number of Production Wells'] = rng.choice([1, 2, 4])
        if rng.random() < 0.3:
            p['Ambient Temperature'] = rng.choice([5, 12, 20])
        # injection temperatures above the plant's own re-injection temperature make the plant lower Tinj itself
        p['Injection Temperature'] = rng.choice([30, 50, 50, 70, 85, 95])
        # small reservoirs are mined out within the lifetime (remaining heat goes negative)
        if rng.random() < 0.35:
            p['Reservoir Volume Option'] = 4
            p['Reservoir Volume'] = rng.choice([5e7, 1.5e8, 4e8])
        if rng.random() < 0.3:
            p['Ramey Production Wellbore Model'] = 1
        if pl == 7 and rng.random() < 0.5:
            p['Production Flow Rate per Well'] = rng.choice([20, 40])
        if thorough and rng.random() < 0.4:
            rm = rng.choice([1, 2, 3])
            p['Reservoir Model'] = rm
            p.update({'Fracture Shape': 4, 'Fracture Height': 300, 'Fracture Width': 400, 'Number of Fractures': 20, 'Fracture Separation': 50,
                      'Reservoir Volume Option': 1})
            if rm == 2:
                p['Reservoir Porosity'] = 0.1
            if rm == 3:
                p['Drawdown Parameter'] = 1e-4
            if rng.random() < 0.5:
                p['Ramey Production Wellbore Model'] = 1
        if thorough and rng.random() < 0.2 and pl not in (3, 4):
            p['Maximum Drawdown'] = rng.choice([0.1, 0.3])
        cases.append((f'grid:{econ}/{eu}/{pl}/L{L}n{nn}#{k}', p))
    return cases


WHAT = {'ext': 'heat extracted is not production flow x heat capacity x (production - injection temperature)',
        'net': 'net electricity is not gross electricity minus pumping power',
        'produced': 'useful heat does not follow from extracted heat by the stated end-use efficiency (and cycle / COP)',
        'toElec': 'heat towards electricity + useful heat / efficiency does not add up to heat extracted',
        'hpelec': 'heat-pump electricity is not extracted heat / (COP - 1)',
        'cooling': 'cooling delivered is not extracted heat x COP x efficiency',
        'annual': 'annual energy is not the time-integral of the power over that year x utilisation factor',
        'remaining': 'remaining reservoir heat is not initial heat content minus cumulative extracted heat',
        'utilArray': 'district-heating yearly utilisation is not geothermal heat used / heat the wells could deliver',
        'annualNg': 'annual peaking demand is not the sum of the daily shortfalls',
        'geo': 'district heating: geothermal supply is not min(demand, well output) on some day',
        'ng': 'district heating: peaking supply is not max(demand - well output, 0) on some day'}


def evaluate(chk: core.Check, cases):
    results = geo.pmap(_run, [c[1] for c in cases], chk.scratch)
    lines, keep = [], {}
    for k, ((name, _), r) in enumerate(zip(cases, results)):
        if not r.get('ok'):
            chk.tag('run-failed')
            if len(chk.notes) < 6:
                chk.notes.append(f'{name} did not run: {str(r.get("error"))[:140]}')
            continue
        built = build(f'c{k}_', r['snap'])
        if built is None:
            chk.tag('outside-model')
            continue
        lines += built[0]
        keep[f'c{k}_'] = (name, r, built[1], built[2])
    res = chk.driver(lines)
    for cid, (name, r, expect, meta) in keep.items():
        base = {'case': name, 'params': r['params']}
        chk.tag(f'{meta["eu"]}/{meta["cycle"] or "-"}/n{min(meta["n"], 4)}' )
        for sub, ex in expect.items():
            if sub == 'dh_demand':
                dd, annual = ex
                if not core.close(annual, sum(Fraction(x) for x in dd) / 1000, 1e-9):
                    chk.fail('C02/dh/annual-demand', 'annual heating demand is not the sum of the daily demand', {**base, 'reported': annual})
                continue
            head, kv = core.parse_kv(res.get(cid + sub, 'missing'))
            if head != 'ok':
                chk.broken('C02/driver', f'driver rejected a case ({sub}): {res.get(cid + sub)}', base, 'correspondence-break')
                continue
            if 'tag' in kv and sub.startswith('an_'):
                chk.tag('annual/' + kv['tag'])
            for key, (pname, pyv) in ex.items():
                exact = core.parse_rats(kv[key])
                if not isinstance(pyv, list):
                    pyv = [pyv]
                scale = max([abs(float(x)) for x in exact] + [1e-9])
                if sub == 'st':
                    # per-step powers are differences of heat flows of the size of the extracted heat: that is the rounding scale
                    scale = max([scale] + [abs(x) for x in expect['st']['ext'][1] if isinstance(x, (int, float))])
                ok = len(pyv) == len(exact) and all(isinstance(a, (int, float)) and core.close(a, b_, 1e-9, scale=scale) for a, b_ in zip(pyv, exact))
                if not ok:
                    bad = next((i for i, (a, b_) in enumerate(zip(pyv, exact)) if not (isinstance(a, (int, float)) and core.close(a, b_, 1e-9, scale=scale))), None)
                    chk.fail(f'C02/{sub.split("_")[0]}/{key}/{pname}', WHAT[key] + f' ({pname})',
                             {**base, 'quantity': pname, 'first_bad_index': bad, 'reported': pyv[:12], 'documented': [float(x) for x in exact[:12]],
                              'lengths': [len(pyv), len(exact)]})
        chk.case(json.dumps(r['params'], sort_keys=True, default=str), True)
        if meta['L'] <= 2:
            st = expect.get('st', {})
            chk.sample({'case': name, 'L': meta['L'], 'n': meta['n'], 'HeatExtracted_code': st.get('ext', (0, []))[1], 'lean': res.get(cid + 'st', '')[:240]}, limit=3)
    if not chk.samples and keep:
        cid, (name, r, expect, meta) = next(iter(keep.items()))
        chk.sample({'case': name, 'lean': res.get(cid + 'rem', '')[:200]})


def run(chk: core.Check) -> int:
    from tools import extract
    ext = extract.main(['Code'])
    chk.coverage['extract_digest'] = {k: v['digest'] for k, v in ext.items()}
    chk.coverage['translated_functions'] = ext['Code']['data']
    chk.trusted.append('tools/py2lean.py (Python subset -> Lean; np.trapz given its definition dx * sum of trapezoid means)')
    clean = chk.prove(['GeoVerif.Properties.C02'])
    quick = chk.tier == 'quick'
    evaluate(chk, gen_cases(chk.rng, 300 if quick else 3000, thorough=not quick))
    if (not clean or chk.breaks) and not chk.failures:
        evaluate(chk, gen_cases(chk.rng, 1000, thorough=True))
    chk.assumptions += ['heat towards electricity is not stored by the code: it is recovered from the reported first-law efficiency (net / efficiency); '
                        'for the topping cycle the re-injection temperature is derived from it, so the topping check is exactly the first-law balance',
                        '(L, n) = (1, 1) crashes in RameyCalc / has a one-point time vector: no result, recorded as observation']
    chk.trusted.append('modelled, not verified: gross electricity (availability x efficiency correlation, logarithm), water heat capacity (CoolProp)')
    return chk.finish(rule=RULE)


def replay(chk: core.Check, path: str) -> int:
    body = json.loads(open(path).read())
    evaluate(chk, [(body['replay'].get('case', 'replay'), body['replay']['params'])])
    return chk.finish(rule='replay of one recorded case')
