"""C12 — input-file layout is irrelevant.

proof: GeoVerif.Properties.C12 (strip / split / comment / dictionary semantics; permutations, decorations, duplicates, line endings)
tie:   (1) exact differential of the real `read_input_file` against the Lean `fileDict` on generated decorated files (dictionary contents
           compared as strings); (2) whole runs: permuted / decorated / duplicate-injected variants of one parameter set must give the same
           computed results, and a changed duplicate order must behave as "last occurrence governs".
"""
from __future__ import annotations

import json
import logging
import math
import os
import uuid
from pathlib import Path

from .. import core, geo

RULE = ('tokenizer differential: seeded decorated files built from example inputs and Grid parameter sets (permutation, # / -- / * comment lines, '
        'blank lines, blanks and tabs around names / values / commas, trailing comments with and without commas, LF / CRLF / CR endings, '
        'duplicates, comma-less lines, empty values); whole runs: variants of one parameter set. non-trivial = file has >= 5 entries and '
        'at least one decoration; distinct by file text')


def enc(text: str) -> str:
    out = []
    for ch in text:
        if ch.isascii() and ch.isalnum():
            out.append(ch)
        elif ord(ch) < 256:
            out.append('%%%02x' % ord(ch))
        else:
            out.append('%%u%06x' % ord(ch))
    return ''.join(out)


def dec(s: str) -> str:
    out, i = [], 0
    while i < len(s):
        if s[i] == '%' and s[i + 1] == 'u':
            out.append(chr(int(s[i + 2:i + 8], 16)))
            i += 8
        elif s[i] == '%':
            out.append(chr(int(s[i + 1:i + 3], 16)))
            i += 3
        else:
            out.append(s[i])
            i += 1
    return ''.join(out)


WS = [' ', '  ', '\t', ' \t ', '']
COMMENTS = ['# a comment, with a comma', '-- another', '* starred', '   # indented comment', '#', '--', '*** , ,', '']


def base_sets(rng):
    sets = []
    for f in geo.example_files():
        d = {}
        geo_read(f.read_text(encoding='utf-8', errors='replace'), d)
        if len(d) >= 5:
            sets.append((f.name, list(d.items())))
    for (econ, eu, pl) in rng.sample(geo.grid(), 12):
        sets.append((f'grid:{econ}/{eu}/{pl}', [(k, str(v)) for k, v in geo.base_params(econ, eu, pl).items()]))
    return sets


def geo_read(text: str, d: dict, newline_bytes=None):
    """the real tokenizer on a text (written byte-exactly)"""
    import geophires_x.Model  # noqa: F401
    from geophires_x.GeoPHIRESUtils import read_input_file

    p = Path(os.environ.get('TMPDIR', '/tmp')) / f'tok_{uuid.uuid4().hex}.txt'
    p.write_bytes(text.encode('utf-8'))
    tmp = {}
    try:
        read_input_file(tmp, logger=logging.getLogger('verif-null'), input_file_name=str(p))
    finally:
        p.unlink()
    for k, e in tmp.items():
        d[k] = e.sValue
    return d


def decorate(rng, items, eol=None, allow_dups=True):
    """a decorated file text with the same dictionary as `items` (list of (name, value)); returns text and the applied decorations"""
    eol = eol or rng.choice(['\n', '\r\n', '\n', '\r'])
    items = list(items)
    tags = set()
    if rng.random() < 0.8:
        rng.shuffle(items)
        tags.add('permuted')
    lines = []
    for name, val in items:
        if allow_dups and rng.random() < 0.08:
            # an earlier duplicate with another value: the later line must govern
            lines.append(f'{name}, {val}99')
            tags.add('duplicate')
        w = [rng.choice(WS) for _ in range(4)]
        line = f'{w[0]}{name}{w[1]},{w[2]}{val}{w[3]}'
        if any(w):
            tags.add('whitespace')
        z = rng.random()
        if z < 0.2:
            line += rng.choice([', a comment', ',--- [km] comment', ', comment, with, commas', ',', ', # x'])
            tags.add('trailing-comment')
        lines.append(line)
        if rng.random() < 0.15:
            lines.append(rng.choice(COMMENTS))
            tags.add('comment-or-blank')
        if rng.random() < 0.04:
            lines.append(rng.choice(['no comma here', 'End of file', '\t']))
            tags.add('comma-less')
    if eol != '\n':
        tags.add('eol-' + {'\r\n': 'crlf', '\r': 'cr'}[eol])
    text = eol.join(lines) + (eol if rng.random() < 0.7 else '')
    return text, tags


def tokenizer_differential(chk: core.Check, n):
    rng = chk.rng
    sets = base_sets(rng)
    lines, meta = [], {}
    for k in range(n):
        name, items = rng.choice(sets)
        # values without commas only (a comma inside a value is a different file, not a decoration)
        items = [(a, b) for a, b in items if ',' not in b and b == b.strip() and a == a.strip()]
        text, tags = decorate(rng, items)
        if rng.random() < 0.03:
            text = text.replace(' ', ' ', 1)      # one non-ASCII blank: differential only, not modelled
            tags.add('non-ascii-blank')
        py = {}
        try:
            geo_read(text, py)
        except Exception as e:  # noqa
            py = {'<error>': str(e)}
        meta[f't{k}'] = (name, text, tags, py, dict(items))
        lines.append(f'inputfile t{k} text={enc(text)}')
    res = chk.driver(lines)
    for cid, (name, text, tags, py, want) in meta.items():
        head, kv = core.parse_kv(res.get(cid, 'missing'))
        for t in tags:
            chk.tag('tok/' + t)
        chk.case(text, len(want) >= 5 and bool(tags))
        rep = {'source': name, 'file_text': text, 'decorations': sorted(tags), 'code_dict': py}
        if head != 'ok':
            chk.broken('C12/driver', f'driver rejected a file: {res.get(cid, "")[:80]}', rep, 'correspondence-break')
            continue
        lean = {}
        order = []
        if kv.get('dict'):
            for pair in kv['dict'].split(','):
                a, _, b = pair.partition(':')
                lean[dec(a)] = dec(b)
                order.append(dec(a))
        rep['lean_dict'] = lean
        # the property on the code: the dictionary must be the undecorated one
        if 'non-ascii-blank' not in tags and 'comma-less' not in tags:
            missing = {k: v for k, v in want.items() if py.get(k) != v}
            extra = {k: v for k, v in py.items() if k not in want}
            if missing or extra:
                chk.fail('C12/tokenizer/' + '+'.join(sorted(tags - {'permuted'})) if len(tags - {'permuted'}) <= 2 else 'C12/tokenizer/decorated',
                         'read_input_file gives another dictionary for a decorated / permuted file than for the plain one',
                         {**rep, 'differs_for': dict(list(missing.items())[:5]), 'unexpected': dict(list(extra.items())[:5])})
                continue
        if lean != py or order != list(py.keys()):
            if 'non-ascii-blank' in tags:
                chk.tag('tok/non-ascii-differs-from-ascii-model')
            else:
                chk.broken('C12/tokenizer/correspondence', 'Lean tokenizer model and read_input_file disagree on a file', rep, 'correspondence-break')
        if len(text) < 400:
            chk.sample({'file_text': text, 'dict': py}, limit=2)


# ---------------------------------------------------------------------------------------------------------------------------------------
KEYS = ('LCOE', 'LCOH', 'LCOC', 'ProjectNPV', 'CCap', 'Coam')


def _run_text(text):
    r = geo.run_geophires(text, want_report=False)
    if not r['ok']:
        return {'ok': False, 'error': r['error']}
    s = r['snaps']['calculated']
    out = {k: s['economics']['p'][k]['value'] for k in KEYS}
    out['Trock'] = s['reserv']['p']['Trock']['value']
    out['net'] = s['surfaceplant']['p']['NetkWhProduced']['value']
    out['heat'] = s['surfaceplant']['p']['HeatkWhProduced']['value']
    out['TotalRevenue'] = s['economics']['p']['TotalRevenue']['value']
    # extensions: present (with their figures) or absent — part of the result too
    ad, sd = s.get('addeconomics'), s.get('sdacgteconomics')
    out['addon_npv'] = ad['p']['ProjectNPV']['value'] if ad else None
    out['addon_capex'] = ad['p']['AddOnCAPEXTotal']['value'] if ad else None
    out['sdac_lcod'] = sd['p']['LCOD_elec']['value'] if sd else None
    return {'ok': True, 'out': out}


def whole_runs(chk: core.Check, n_sets, n_variants):
    rng = chk.rng
    jobs, meta = [], []
    sets = []
    for (econ, eu, pl) in rng.sample(geo.grid(), n_sets):
        p = geo.base_params(econ, eu, pl, L=rng.choice([5, 20]), n=rng.choice([1, 2]))
        if pl != 7:
            geo.diversify(rng, p, 0.3)
        sets.append((f'grid:{econ}/{eu}/{pl}', [(k, str(v)) for k, v in p.items()]))
    ex = [f for f in geo.example_files() if f.name in ('example1.txt', 'example2.txt', 'example3.txt', 'example4.txt', 'example5.txt', 'example8.txt', 'example9.txt',
                                                        'example_ITC.txt', 'example_PTC.txt', 'example10_HP.txt', 'example11_AC.txt')]
    for f in rng.sample(ex, min(len(ex), max(2, n_sets // 3))):
        d = {}
        geo_read(f.read_text(encoding='utf-8', errors='replace'), d)
        sets.append((f.name, [(k, v) for k, v in d.items() if ',' not in v]))
    # a file that uses both extensions (add-on block and S-DAC-GT) without the explicit switches: they are recognised by their lines wherever those stand
    both = geo.base_params(2, 31, 4, L=8, n=1)
    both.update({'Do S-DAC-GT Calculations': 'True', 'S-DAC-GT CAPEX': 1300, 'S-DAC-GT OPEX': 60, 'AddOn Nickname 1': 'x', 'AddOn CAPEX 1': 12, 'AddOn OPEX 1': 1,
                 'AddOn Electricity Gained 1': 3000000.0, 'AddOn Heat Gained 1': 0, 'AddOn Profit Gained 1': 0.5})
    sets.append(('both-extensions', [(k, str(v)) for k, v in both.items()]))
    for name, items in sets:
        plain = '\n'.join(f'{a}, {b}' for a, b in items) + '\n'
        jobs.append(plain)
        meta.append((name, 'plain', set(), plain))
        if name == 'both-extensions':
            # the S-DAC-GT lines before / after / around the (contiguous, ordered) add-on block
            addon = [(a, b) for a, b in items if a.startswith('AddOn')]
            sdac = [(a, b) for a, b in items if a.startswith('S-DAC-GT') or a.startswith('Do S-DAC-GT')]
            rest = [(a, b) for a, b in items if (a, b) not in addon and (a, b) not in sdac]
            for label, order in (('sdac-first', sdac + addon + rest), ('addon-first', addon + sdac + rest), ('sdac-around', sdac[:1] + rest[:5] + addon + sdac[1:] + rest[5:]),
                                 ('extensions-last', rest + sdac + addon)):
                text = '\n'.join(f'{a}, {b}' for a, b in order) + '\n'
                jobs.append(text)
                meta.append((name, f'order:{label}', {'extension-lines-' + label}, plain))
        for v in range(n_variants):
            text, tags = decorate(rng, items)
            jobs.append(text)
            meta.append((name, f'variant{v}', tags, plain))
        # duplicate order: value A then value B must equal B alone; B then A must equal A alone
        cand = [(a, b) for a, b in items if a in ('Plant Lifetime', 'Discount Rate', 'Production Flow Rate per Well', 'Utilization Factor')]
        if cand:
            a, b = rng.choice(cand)
            alt = {'Plant Lifetime': '7', 'Discount Rate': '0.11', 'Production Flow Rate per Well': '33', 'Utilization Factor': '0.77'}[a]
            only_alt = '\n'.join(f'{x}, {alt if x == a else y}' for x, y in items) + '\n'
            jobs.append(only_alt)
            meta.append((name, 'dup-ref', {'dup-ref'}, only_alt))
            jobs.append(plain + f'{a}, {alt}\n')
            meta.append((name, 'dup-last-wins', {'duplicate-later-governs'}, only_alt))
            jobs.append(f'{a}, {alt}\n' + plain)
            meta.append((name, 'dup-first-loses', {'duplicate-earlier-ignored'}, plain))
    # list-form duplicates (`Gradients, a, b, c` given twice): the later line governs even when the two agree in their first element
    seg = {k: v for k, v in geo.base_params(2, 1, 1, L=8, n=1).items() if k not in ('Gradient 1', 'Number of Segments')}
    segtxt = geo.params_to_text({**seg, 'Number of Segments': 3})
    later = 'Gradients, 50, 30, 30\nThicknesses, 1, 1, 100\n'
    only_later = segtxt + later
    jobs.append(only_later)
    meta.append(('list-duplicates', 'dup-ref', {'dup-ref'}, only_later))
    for label, first in (('same-first-element', 'Gradients, 50, 60, 60\n'), ('other-first-element', 'Gradients, 40, 60, 60\n')):
        jobs.append(segtxt + first + later)
        meta.append(('list-duplicates', f'dup-list:{label}', {'duplicate-list-form-' + label}, only_later))
        jobs.append(first + segtxt + later)
        meta.append(('list-duplicates', f'dup-list-early:{label}', {'duplicate-list-form-' + label}, only_later))
    res = geo.pmap(_run_text, jobs, chk.scratch)
    ref = {}
    for (name, kind, tags, reftext), text, r in zip(meta, jobs, res):
        if kind in ('plain', 'dup-ref'):
            ref[reftext] = r
    for (name, kind, tags, reftext), text, r in zip(meta, jobs, res):
        if kind in ('plain', 'dup-ref'):
            continue
        base = ref.get(reftext)
        if base is None or not base.get('ok'):
            chk.tag('run/reference-failed')
            continue
        for t in tags:
            chk.tag('run/' + t)
        chk.case(('run', text), True)
        rep = {'source': name, 'variant': kind, 'decorations': sorted(tags), 'reference_file': reftext, 'variant_file': text}
        if not r.get('ok'):
            chk.fail('C12/run/variant-fails', 'a permuted / decorated variant of an accepted input file does not run', {**rep, 'error': r.get('error')})
            continue
        diff = [k for k in base['out'] if base['out'][k] != r['out'][k] and not (isinstance(base['out'][k], float) and isinstance(r['out'][k], float)
                                                                               and math.isnan(base['out'][k]) and math.isnan(r['out'][k]))]
        if diff:
            chk.fail('C12/run/' + ('duplicate-order' if kind.startswith('dup') else 'layout-changes-result'),
                     ('the last occurrence of a duplicated parameter does not govern' if kind.startswith('dup') else
                      'a permuted / decorated variant of the same parameter set gives different results') + f': {diff[:4]}',
                     {**rep, 'reference': {k: base['out'][k] for k in diff[:3]}, 'variant_result': {k: r['out'][k] for k in diff[:3]}})


def _cached_sequence(texts):
    """one default (caching) client asked for each text in turn, vs a non-caching client on the same text"""
    import contextlib
    import hashlib
    import io
    import tempfile
    from geophires_x_client import GeophiresInputParameters, GeophiresXClient
    logging.disable(logging.CRITICAL)
    cached = GeophiresXClient()
    out = []
    for i, text in enumerate(texts):
        row = {}
        for tag, client in (('cached', cached), ('fresh', GeophiresXClient(enable_caching=False))):
            f = Path(tempfile.gettempdir()) / f'seq_{uuid.uuid4().hex}.txt'
            f.write_text(text)
            try:
                with geo.preserved_process_state(), contextlib.redirect_stdout(io.StringIO()), contextlib.redirect_stderr(io.StringIO()):
                    r = client.get_geophires_result(GeophiresInputParameters(from_file_path=f))
                d = {k: v for k, v in r.result.items() if k not in ('metadata', 'Simulation Metadata')}
                row[tag] = hashlib.sha1(json.dumps(d, sort_keys=True, default=str).encode()).hexdigest()[:12]
            except BaseException as e:  # noqa
                row[tag] = 'error:' + type(e).__name__
        out.append(row)
    return out


def cached_sequences(chk: core.Check, n_sets):
    """files that differ only in layout / in the order of a duplicated parameter, requested one after another from ONE caching client"""
    rng = chk.rng
    jobs, meta = [], []
    for (econ, eu, pl) in rng.sample(geo.grid(), n_sets):
        p = geo.base_params(econ, eu, pl, L=5, n=1)
        items = [(k, str(v)) for k, v in p.items()]
        plain = '\n'.join(f'{a}, {b}' for a, b in items) + '\n'
        a, alt = rng.choice([('Gradient 1', '65'), ('Utilization Factor', '0.77'), ('Production Flow Rate per Well', '33')])
        cur = dict(items).get(a, '50' if a == 'Gradient 1' else None)
        if cur is None:
            continue
        ab = plain + f'{a}, {cur}\n{a}, {alt}\n'       # alt governs
        ba = plain + f'{a}, {alt}\n{a}, {cur}\n'       # cur governs
        shuffled, _ = decorate(rng, items, allow_dups=False)
        jobs.append([ab, ba, ab, shuffled + f'{a}, {alt}\n{a}, {cur}\n', plain])
        meta.append((f'grid:{econ}/{eu}/{pl}', a, cur, alt))
    res = geo.pmap(_cached_sequence, jobs, chk.scratch)
    for (name, a, cur, alt), texts, rows in zip(meta, jobs, res):
        for i, row in enumerate(rows):
            chk.case(('cached-seq', name, i), True)
            chk.tag('cached-seq/' + ('agree' if row.get('cached') == row.get('fresh') else 'differ'))
            if row.get('cached') != row.get('fresh'):
                chk.fail('C12/cached-sequence', f'a caching client, asked for files that differ only in the order of the duplicated parameter {a} (or in layout), returns for request {i + 1} '
                         'a result that a fresh run of that same file does not give: the later occurrence does not govern',
                         {'source': name, 'duplicated_parameter': a, 'values': [cur, alt], 'request_index': i, 'files_requested_in_order': texts[:i + 1], 'digests': rows})


def run(chk: core.Check) -> int:
    clean = chk.prove(['GeoVerif.Properties.C12'])
    quick = chk.tier == 'quick'
    tokenizer_differential(chk, 1500 if quick else 20000)
    whole_runs(chk, 14 if quick else 80, 4 if quick else 10)
    cached_sequences(chk, 4 if quick else 24)
    if (not clean or chk.breaks) and not chk.failures:
        tokenizer_differential(chk, 5000)
        whole_runs(chk, 30, 6)
    chk.assumptions += ['add-on blocks and list parameters keep file order (the property exempts them); values containing commas are not decorations',
                        'non-ASCII whitespace is differential-tested only (Python strips it, the ASCII model does not): tagged, never a verdict',
                        '"modules apply parameters in their own dictionary order" is what the whole-run variants test']
    chk.trusted.append('CPython str.strip / str.split / universal-newline file reading (modelled in Lean, differential-tested exactly)')
    return chk.finish(rule=RULE)


def replay(chk: core.Check, path: str) -> int:
    body = json.loads(open(path).read())
    rp = body['replay']
    if 'variant_file' in rp:
        res = geo.pmap(_run_text, [rp['reference_file'], rp['variant_file']], chk.scratch)
        print(json.dumps(res, default=str)[:600])
    return chk.finish(rule='replay')
