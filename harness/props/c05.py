"""C05 — resource temperature and thermal drawdown obey the model definition.

proof: GeoVerif.Properties.C05
tie:   (a) whole runs: raw gradients / thicknesses / depth / Tmax -> Lean `trock` op (heuristics, depth cap, layer walk) -> compared with the
           run's bottom-hole temperature, capped depth and gradient list;
       (b) reservoir model 4 with constant wellbore drop: the whole chain Trock -> Tres -> Tprod -> tiling -> redrill count is rational and
           recomputed exactly (`tdpchain`);
       (c) models 1-3 and Ramey: the property clauses (starts at BHT, drawdown limit respected, periodic restart with the reported count;
           models 3/4 also <= BHT and non-increasing between redrillings) evaluated on the captured series.
"""
from __future__ import annotations

import json
import math
from fractions import Fraction

from .. import core, geo

RULE = ('whole runs: 1-4 gradient segments (per-km and per-m spellings, thicknesses in km and m), depths 0.1-15 km, Tmax 50-600 C, drawdown '
        'rates, maximum drawdown in (0,1], lifetimes and steps; mostly reservoir model 4, plus models 1-3 / Ramey for the property-level clauses. '
        'non-trivial = run succeeded; distinct by parameter set')


def _run(params):
    r = geo.run_geophires(params, stages=('read', 'calculated'), want_report=False)
    if not r['ok']:
        return {'ok': False, 'error': r['error'], 'params': params}
    s, s0 = r['snaps']['calculated'], r['snaps']['read']
    R, W = s['reserv']['p'], s['wellbores']['p']
    out = {'ok': True, 'params': params, 'cls': s['reserv']['class'],
           'R': {k: R[k] for k in ('Trock', 'depth', 'gradient', 'layerthickness', 'numseg', 'Tsurf', 'Tmax', 'Tresoutput', 'timevector', 'drawdp', 'resoption') if k in R},
           'W': {k: W[k] for k in ('ProducedTemperature', 'redrill', 'maxdrawdown', 'ProdTempDrop', 'rameyoptionprod', 'Tinj')},
           # injection temperature the reservoir model sees: the value read + the injection-wellbore gain (added once in Reservoir.Calculate)
           'Tinj_read': s0['wellbores']['p']['Tinj']['value'] + s0['wellbores']['p']['tempgaininj']['value'], 'depth_read': s0['reserv']['p']['depth'],
           'raw_grads': s0['reserv']['p']['gradient']['value'], 'raw_thick': s0['reserv']['p']['layerthickness']['value']}
    return out


def gen_cases(rng, n, thorough=False):
    cases = []
    for k in range(n):
        L, nn = rng.choice([(7, 3), (20, 2), (30, 4), (10, 1), (40, 2), (3, 12)])
        p = geo.base_params(rng.choice([1, 2, 3]), 2, 9, L=L, n=nn)  # direct-use heat: no surface-plant interference with Tinj
        if rng.random() < 0.3:
            p['End-Use Option'], p['Power Plant Type'] = 1, rng.choice([1, 2])
        seg = rng.choice([1, 1, 2, 3, 4])
        p['Number of Segments'] = seg
        style = rng.choice(['km', 'm', 'dyadic'])
        for i in range(1, seg + 1):
            if style == 'km':
                p[f'Gradient {i}'] = rng.choice([20, 35.5, 50, 72.3, 110])
            elif style == 'm':
                p[f'Gradient {i}'] = rng.choice([0.02, 0.0355, 0.05, 0.11])
            else:
                p[f'Gradient {i}'] = rng.choice([0.03125, 0.0625, 0.125, 32, 64])
            if i < seg:
                p[f'Thickness {i}'] = rng.choice([0.5, 1, 1.5, 2.25]) if style != 'dyadic' else rng.choice([0.5, 1.024, 0.512, 2.048])
        if rng.random() < 0.1:
            p['Gradient 1'] = 0  # zero gradient -> 1e-6
            p['Maximum Temperature'] = 400
        p['Reservoir Depth'] = rng.choice([0.1, 0.75, 1.5, 3, 3.024, 3, 4.5, 4.5, 6, 9.5, 15])
        p['Maximum Temperature'] = rng.choice([50, 120, 200, 263.5, 400, 600])
        p['Surface Temperature'] = rng.choice([0, 12, 15, 25])
        p['Injection Temperature'] = rng.choice([20, 40])
        p['Drawdown Parameter'] = rng.choice([0.0, 0.002, 0.005, 0.01, 0.03, 0.1])
        p['Maximum Drawdown'] = rng.choice([1, 1, 0.5, 0.2, 0.1, 0.03])
        p['Production Wellbore Temperature Drop'] = rng.choice([0, 2, 5])
        p['Injection Wellbore Temperature Gain'] = rng.choice([0, 0, 5, -3])
        if rng.random() < 0.12:
            # district heating runs the reservoir / wellbore / plant chain twice
            L = rng.choice([5, 10])
            q = geo.base_params(rng.choice([1, 2, 3]), 2, 7, L=L, n=rng.choice([2, 4]))
            for kk in ('End-Use Option', 'Power Plant Type', 'Plant Lifetime', 'Time steps per year', 'District Heating Demand Option', 'District Heating Demand File Name',
                       'District Heating Demand Data Time Resolution', 'District Heating Demand Data Column Number', 'Peaking Fuel Cost Rate', 'Peaking Boiler Efficiency'):
                p[kk] = q[kk]
            p['Drawdown Parameter'] = rng.choice([0.03, 0.1])
            p['Maximum Drawdown'] = rng.choice([0.1, 0.2])
        if thorough or rng.random() < 0.08:
            z = rng.random()
            if z < 0.5:
                rm = rng.choice([1, 2, 3])
                p['Reservoir Model'] = rm
                p.update({'Fracture Shape': 4, 'Fracture Height': 300, 'Fracture Width': 400, 'Number of Fractures': rng.choice([5, 20]),
                          'Fracture Separation': 50, 'Reservoir Volume Option': 1})
                if rm == 2:
                    p['Reservoir Porosity'] = 0.1
                if rm == 3:
                    p['Drawdown Parameter'] = rng.choice([1e-4, 5e-5, 2e-4])
                p['Reservoir Depth'] = rng.choice([2, 3, 4.5])
                p['Maximum Temperature'] = 400
            if rng.random() < 0.5:
                p['Ramey Production Wellbore Model'] = 1
        cases.append((f'seg{seg}/{style}#{k}', p))
    return cases


def evaluate(chk: core.Check, cases):
    results = geo.pmap(_run, [c[1] for c in cases], chk.scratch)
    lines, keep = [], {}
    F, FS = core.frac, core.fracs
    for k, ((name, _), r) in enumerate(zip(cases, results)):
        if not r.get('ok'):
            chk.tag('run-failed')
            if len(chk.notes) < 6:
                chk.notes.append(f'{name} did not run: {str(r.get("error"))[:140]}')
            continue
        R, W = r['R'], r['W']
        cid = f'c{k}_'
        numseg = R['numseg']['value']
        # depth as read (the code multiplies the km figure by 1000 unconditionally right after reading)
        depth_in = r['depth_read']['value']
        raw_g, raw_t = r['params'], None
        grads = [float(r['params'].get(f'Gradient {i}', 0.0)) for i in range(1, 5)]
        thick = [float(r['params'].get(f'Thickness {i}', 0.0)) for i in range(1, 5)]
        if 'Gradient 1' not in r['params']:
            continue
        lines.append(f'trock {cid}tr tsurf={F(R["Tsurf"]["value"])} tmax={F(R["Tmax"]["value"])} depth={F(depth_in)} numseg={numseg} '
                     f'grads={FS(grads[:max(numseg, 1)])} thick={FS(thick[:max(numseg, 1)])}')
        model4 = geo.enum_name(R['resoption']['value']) == 'ANNUAL_PERCENTAGE'
        ramey = bool(W['rameyoptionprod']['value'])
        tv = R['timevector']['value']
        if model4 and not ramey:
            lines.append(f'tdpchain {cid}ch p={F(R["drawdp"]["value"])} trock={F(R["Trock"]["value"])} tinj={F(r["Tinj_read"])} time={FS(tv)} '
                         f'drop={F(float(r["params"].get("Production Wellbore Temperature Drop", 0)))} dd={F(W["maxdrawdown"]["value"])}')
        keep[cid] = (name, r, model4, ramey)
    res = chk.driver(lines)
    for cid, (name, r, model4, ramey) in keep.items():
        R, W = r['R'], r['W']
        base = {'case': name, 'params': r['params']}
        head, kv = core.parse_kv(res.get(cid + 'tr', 'missing'))
        if head != 'ok':
            chk.broken('C05/driver', f'driver rejected a case: {res.get(cid + "tr")}', base, 'correspondence-break')
            continue
        chk.tag('trock/' + kv['tag'])
        trock = R['Trock']['value']
        depth = R['depth']['value']
        depth_m = depth * 1000 if R['depth']['CurrentUnits'] in ('kilometer', 'km') else depth
        ex_t, ex_d = core.parse_rat(kv['trock']), core.parse_rat(kv['depth'])
        if not core.close(trock, ex_t, 1e-9, abs_tol=1e-9):
            chk.fail('C05/trock', 'bottom-hole temperature is not surface temperature + integral of the segment gradients down to the (capped) depth',
                     {**base, 'reported': trock, 'documented': float(ex_t), 'capped_depth_model_m': float(ex_d), 'reported_depth_m': depth_m})
        elif not core.close(depth_m, ex_d, 1e-9, abs_tol=1e-6):
            chk.fail('C05/depth-cap', 'reservoir depth was not reduced to exactly the depth at which the maximum temperature is reached',
                     {**base, 'reported_depth_m': depth_m, 'documented': float(ex_d)})
        if trock > R['Tmax']['value'] * (1 + 1e-12) + 1e-9:
            chk.fail('C05/tmax', 'bottom-hole temperature exceeds the maximum allowed temperature', {**base, 'Trock': trock, 'Tmax': R['Tmax']['value']})
        # ---- drawdown clauses on the captured series -----------------------------------------------------------------
        tres, tprod = R['Tresoutput']['value'], W['ProducedTemperature']['value']
        if not (isinstance(tres, list) and isinstance(tprod, list) and tres and all(isinstance(x, float) and math.isfinite(x) for x in tres + tprod)):
            chk.tag('series-missing')
            continue
        model = geo.enum_name(R['resoption']['value'])
        chk.tag('model/' + model + ('/ramey' if ramey else ''))
        dd = W['maxdrawdown']['value']
        count = int(W['redrill']['value'])
        if not core.close(tres[0], Fraction(trock), 1e-9, abs_tol=1e-9):
            chk.fail(f'C05/start-at-bht/{model}', 'reservoir temperature history does not start at bottom-hole temperature', {**base, 'Tres0': tres[0], 'Trock': trock})
        lim = (1 - Fraction(dd)) * Fraction(tprod[0])
        below = [j for j, x in enumerate(tprod) if Fraction(x) < lim - abs(lim) * Fraction(1, 10**12)]
        if below and tprod[0] > 0:
            chk.fail(f'C05/drawdown-limit/{model}', 'production temperature falls below the drawdown limit (that fraction of its initial value)',
                     {**base, 'limit': float(lim), 'first_index_below': below[0], 'value': tprod[below[0]], 'redrill_count': count})
        n = len(tprod)
        if count > 0:
            ks = [kk for kk in range(1, n + 1) if n // kk == count and all(tprod[j] == tprod[j % kk] for j in range(n))]
            if not ks:
                chk.fail(f'C05/restart/{model}', 'production temperature does not restart from its beginning at each reported redrilling',
                         {**base, 'redrill_count': count, 'series_head': tprod[:12]})
            period = ks[0] if ks else n
            chk.tag('redrilled')
        else:
            period = n
        if model in ('SINGLE_FRACTURE', 'ANNUAL_PERCENTAGE'):
            # the two clauses presuppose a reservoir at least as hot as the injected water (hypothesis `tinj <= trock` of the theorems);
            # the program accepts colder reservoirs, where the "drawdown" heats the reservoir towards the injection temperature: known finding
            cold = '/reservoir-colder-than-injection' if trock < r['Tinj_read'] else ''
            if cold:
                chk.tag('reservoir-colder-than-injection')
            if any(x > trock * (1 + 1e-12) + 1e-9 for x in tres):
                chk.fail(f'C05/le-bht/{model}{cold}', 'reservoir temperature exceeds bottom-hole temperature',
                         {**base, 'max_Tres': max(tres), 'Trock': trock, 'injection_temperature': r['Tinj_read']})
            rises = [j for j in range(1, n) if j % period != 0 and tres[j] > tres[j - 1] * (1 + 1e-12) + 1e-12]
            if rises:
                chk.fail(f'C05/rises/{model}{cold}', 'reservoir temperature rises between redrillings',
                         {**base, 'index': rises[0], 'values': tres[max(0, rises[0] - 1):rises[0] + 1], 'Trock': trock, 'injection_temperature': r['Tinj_read']})
        # ---- exact chain for model 4 without Ramey ------------------------------------------------------------------
        if cid + 'ch' in res:
            h2, kv2 = core.parse_kv(res[cid + 'ch'])
            if h2 != 'ok':
                chk.broken('C05/driver', f'driver rejected a chain case: {res[cid + "ch"][:100]}', base, 'correspondence-break')
            else:
                chk.tag('chain/' + kv2['tag'])
                ex_p, ex_r = core.parse_rats(kv2['tprod']), core.parse_rats(kv2['tres'])
                near_tie = False
                # a float comparison `Tprod < limit` can differ from the exact one when a sample of the *un-tiled* series sits within
                # rounding of the limit (the tiling then starts one step earlier or later): recompute that series exactly and look
                P, TR, TI = Fraction(R['drawdp']['value']), Fraction(trock), Fraction(r['Tinj_read'])
                DROP = Fraction(float(r['params'].get('Production Wellbore Temperature Drop', 0)))
                pre = [(1 - P * Fraction(t)) * (TR - TI) + TI - DROP for t in R['timevector']['value']]
                lim_exact = (1 - Fraction(dd)) * pre[0] if pre else Fraction(0)
                for x in pre:
                    if abs(x - lim_exact) <= max(abs(lim_exact), 1) * Fraction(1, 10**10):
                        near_tie = True
                okp = len(ex_p) == n and all(core.close(a, b, 1e-9, abs_tol=1e-9) for a, b in zip(tprod, ex_p))
                okr = len(ex_r) == n and all(core.close(a, b, 1e-9, abs_tol=1e-9) for a, b in zip(tres, ex_r))
                okc = int(kv2['count']) == count
                if not (okp and okr and okc) and not near_tie:
                    chk.fail('C05/chain/model4', 'percentage-drawdown chain (Tres = linear drawdown from BHT, Tprod = Tres - wellbore drop, tiling at the '
                             'drawdown limit, redrill count) differs from its definition',
                             {**base, 'reported_Tprod': tprod[:10], 'documented_Tprod': [float(x) for x in ex_p[:10]], 'reported_count': count,
                              'documented_count': int(kv2['count']), 'reported_Tres': tres[:10], 'documented_Tres': [float(x) for x in ex_r[:10]]})
                elif near_tie:
                    chk.tag('chain/near-tie-skipped')
        chk.case(json.dumps(r['params'], sort_keys=True, default=str), True)
        chk.sample({'case': name, 'Trock_code': trock, 'Trock_lean': kv['trock'], 'depth_m_code': depth_m, 'depth_lean': kv['depth'], 'redrill': count}, limit=5)


def run(chk: core.Check) -> int:
    clean = chk.prove(['GeoVerif.Properties.C05'])
    quick = chk.tier == 'quick'
    kn = [(k.get('id', 'known'), {**geo.base_params(2, 2, 9), **k['replay']['params']}) for k in chk.known_replays()]
    if kn:
        evaluate(chk, kn)
    evaluate(chk, gen_cases(chk.rng, 400 if quick else 3000, thorough=False))
    if not quick:
        evaluate(chk, gen_cases(chk.rng, 300, thorough=True))
    if (not clean or chk.breaks) and not chk.failures:
        evaluate(chk, gen_cases(chk.rng, 1200))
    chk.assumptions += ['monotonicity / upper-bound clause only for models 3 and 4 (the property excludes the numerically inverted models 1 and 2)',
                        'single-fracture clauses rest on erf being monotone with range [0,1] on [0,inf) and on sqrt being monotone (trusted, not proved: Mathlib has no erf)']
    chk.trusted.append('modelled, not verified: inverse-Laplace solutions of models 1-2, erf, RameyCalc (checked only through the property clauses on captured series)')
    return chk.finish(rule=RULE)


def replay(chk: core.Check, path: str) -> int:
    body = json.loads(open(path).read())
    evaluate(chk, [(body['replay'].get('case', 'replay'), body['replay']['params'])])
    return chk.finish(rule='replay of one recorded case')
