"""C15 — pumping power and modelled pressures stay physical.

proof: GeoVerif.Properties.C15
tie:   direct differential of the two pressure predictors (pure functions) against the Lean models; whole runs under both hydraulic
       models (pumped and self-flowing production, overpressure, depletion / inflation) for the pressure series and the pumping-power
       clamps/total; ordered pairs of runs in the well diameter for the friction clause (turbulent branch: support for the partial theorem).
"""
from __future__ import annotations

import json
import math
from fractions import Fraction

from .. import core, geo

RULE = ('direct calls: seeded (lifetime, steps/year, hydrostatic pressure, overpressure %, depletion / inflation rate) tuples on dyadic and '
        'arbitrary grids; whole runs: Grid plant types x {impedance, PI/II} x overpressure 100-500 % x rates; diameter pairs under the impedance '
        'model. non-trivial = overpressure != 100 or rate != 0 or run succeeded; distinct by argument tuple / parameter set')


def direct(chk: core.Check, n):
    import geophires_x.Model  # noqa: F401
    from geophires_x.WellBores import InjectionReservoirPressurePredictor, ReservoirPressurePredictor

    rng = chk.rng
    lines, meta = [], {}
    for k in range(n):
        L, nn = rng.choice([1, 2, 5, 30, 100]), rng.choice([1, 2, 4, 6, 12])
        if rng.random() < 0.6:
            p0 = rng.choice([1000.0, 29430.0, 4096.0, 12500.5])
            pct = rng.choice([100.0, 100.0, 101.0, 125.0, 150.0, 155.0, 200.0, 500.0, 50.0])
            rate = rng.choice([0.5, 1.0, 2.0, 2.5, 4.0, 10.0, 12.5, 25.0, 50.0, 100.0, 400.0])
        else:
            p0, pct, rate = rng.uniform(100, 1e5), rng.uniform(100, 500), rng.uniform(0.1, 150)
        try:
            py = ReservoirPressurePredictor(L, nn, p0, pct, rate)
            err = None
        except ZeroDivisionError:
            py, err = None, 'zero-division'
        steps_exact = math.floor(Fraction(100) / Fraction(rate) * nn)
        steps_py = int((100.0 / rate) * nn)
        meta[f'r{k}'] = ('res', (L, nn, p0, pct, rate), py, err, steps_exact != steps_py)
        lines.append(f'respressure r{k} L={L} n={nn} p0={core.frac(p0)} pct={core.frac(pct)} rate={core.frac(rate)}')
        irate = rng.choice([0.0, 1.0, 12.5, 202.2, rng.uniform(0, 500)])
        pyi = InjectionReservoirPressurePredictor(L, nn, p0, irate)
        meta[f'i{k}'] = ('inj', (L, nn, p0, irate), pyi, None, False)
        lines.append(f'injpressure i{k} L={L} n={nn} p0={core.frac(p0)} rate={core.frac(irate)}')
    res = chk.driver(lines)
    for cid, (kind, args, py, err, tie) in meta.items():
        out = res.get(cid, 'missing')
        head, kv = core.parse_kv(out)
        chk.case((kind,) + args, kind == 'inj' and args[3] != 0 or kind == 'res' and args[3] != 100.0)
        rep = {'function': 'ReservoirPressurePredictor' if kind == 'res' else 'InjectionReservoirPressurePredictor',
               'args': dict(zip(('lifetime', 'steps_per_year', 'initial_pressure_kPa', 'overpressure_pct', 'depletion_rate') if kind == 'res'
                                else ('lifetime', 'steps_per_year', 'initial_pressure_kPa', 'inflation_rate'), args)), 'code': py, 'lean': out[:300]}
        if err:
            chk.tag(f'{kind}/raises-zero-division')
            if out != 'zero-division':
                chk.broken(f'C15/{kind}/correspondence', 'code raised ZeroDivisionError where the model does not', rep, 'correspondence-break')
            continue
        if tie:
            chk.tag(f'{kind}/float-floor-tie-skipped')
            continue
        if head != 'ok':
            chk.broken(f'C15/{kind}/correspondence', f'model rejected arguments the code accepts: {out[:80]}', rep, 'correspondence-break')
            continue
        chk.tag(f'{kind}/{kv["tag"]}')
        lean = core.parse_rats(kv['p'])
        same = len(lean) == len(py) and all(core.close(a, b, 1e-11, scale=args[2]) for a, b in zip(py, lean))
        # property clauses evaluated directly on the code's output
        if kind == 'res':
            L, nn, p0, pct, rate = args
            viol = None
            if pct >= 100 and rate > 0 and py:
                if not core.close(py[0], Fraction(p0) * Fraction(pct) / 100, 1e-12):
                    viol = 'does not start at the stated multiple of hydrostatic'
                elif any(py[j] > py[j - 1] * (1 + 1e-15) for j in range(1, len(py))):
                    viol = 'does not decline monotonically'
                elif any(x < p0 * (1 - 1e-15) for x in py):
                    viol = 'falls below hydrostatic'
                else:
                    # declines at the stated rate: per-step change equals (P0 - p0) / int(100/rate*n) while above hydrostatic
                    st = int((100.0 / rate) * nn)
                    d = (Fraction(py[0]) - Fraction(p0)) / st if st else None
                    for j in range(1, len(py)):
                        if d is not None and py[j] > p0 and not core.close(py[j], Fraction(py[0]) - d * j, 1e-11, scale=p0):
                            viol = 'does not decline at the stated depletion rate'
                            break
            if viol:
                chk.fail('C15/pressure/' + viol.replace(' ', '-'), 'production-reservoir pressure ' + viol, rep)
            elif not same:
                chk.broken('C15/res/correspondence', 'Lean model of ReservoirPressurePredictor disagrees with the code (clauses still met)', rep, 'correspondence-break')
        else:
            L, nn, p0, irate = args
            want = [Fraction(p0) + Fraction(irate) / nn * t for t in range(L * nn)]
            if not (len(py) == len(want) and all(core.close(a, b, 1e-11, scale=p0) for a, b in zip(py, want))):
                chk.fail('C15/injection/rate', 'injection-reservoir pressure does not rise at its stated rate', rep)
            elif not same:
                chk.broken('C15/inj/correspondence', 'Lean model of InjectionReservoirPressurePredictor disagrees with the code', rep, 'correspondence-break')
        if len(py) <= 6 and (kind == 'inj' or args[3] != 100.0):
            chk.sample(rep, limit=4)


# ---------------------------------------------------------------------------------------------------------------------------------------
def _run(params):
    r = geo.run_geophires(params, want_report=False)
    if not r['ok'] and 'calculated' not in r['snaps']:
        return {'ok': False, 'error': r['error'], 'params': params}
    # the wellbore series exist once Calculate() is through; a later failure of the report writer (it cannot print the pumping-power
    # profile when production pumping power is a scalar 0) does not concern this property
    s = r['snaps']['calculated']
    W = s['wellbores']['p']
    keys = ('PumpingPower', 'PumpingPowerProd', 'PumpingPowerInj', 'productionwellpumping', 'impedancemodelused', 'production_reservoir_pressure',
            'injection_reservoir_pressure', 'injection_reservoir_initial_pressure', 'Phydrostatic', 'overpressure_percentage',
            'overpressure_depletion_rate', 'injection_reservoir_inflation_rate', 'DPProdWell', 'DPInjWell', 'prodwelldiam', 'injwelldiam')
    return {'ok': True, 'output_failed': not r['ok'], 'params': params, 'W': {k: W[k] for k in keys if k in W}, 'L': s['surfaceplant']['p']['plant_lifetime']['value'],
            'n': s['economics']['p']['timestepsperyear']['value'], 'hydro_builtin': s['wellbores']['attr'].get('usebuiltinhydrostaticpressurecorrelation')}


def gen_whole(rng, n):
    cases = []
    g = geo.grid()
    for k in range(n):
        econ, eu, pl = rng.choice(g)
        if pl == 7:
            pl, eu = 9, 2
        L, nn = rng.choice([(5, 2), (20, 4), (30, 6), (10, 1)])
        p = geo.base_params(econ, eu, pl, L=L, n=nn)
        if rng.random() < 0.35:
            p['Reservoir Impedance'] = rng.choice([0.05, 0.2, 1e-4])
            p.pop('Productivity Index'), p.pop('Injectivity Index')
        else:
            p['Productivity Index'] = rng.choice([2, 5, 10, 50])
            p['Injectivity Index'] = rng.choice([2, 5, 10, 50])
        if rng.random() < 0.6:
            p['Reservoir Hydrostatic Pressure'] = rng.choice([20000.0, 29430.0, 45000.5])
            p['Overpressure Percentage'] = rng.choice([100.0, 110.0, 155.0, 300.0, 500.0])
            p['Overpressure Depletion Rate'] = rng.choice([1.0, 5.0, 10.0, 40.0])
            if rng.random() < 0.7:
                p['Injection Reservoir Depth'] = rng.choice([1001.1, 2500.0])
                p['Injection Reservoir Temperature'] = rng.choice([80.0, 101.1])
            p['Injection Reservoir Inflation Rate'] = rng.choice([0.0, 50.0, 202.2])
        p['Production Flow Rate per Well'] = rng.choice([10, 55, 120])
        p['Water Loss Fraction'] = rng.choice([0.0, 0.02, 0.2])
        p['Drawdown Parameter'] = rng.choice([0.0, 0.005])
        cases.append((f'whole:{econ}/{eu}/{pl}#{k}', p))
    return cases


def whole(chk: core.Check, cases):
    results = geo.pmap(_run, [c[1] for c in cases], chk.scratch)
    lines, keep = [], {}
    for k, ((name, _), r) in enumerate(zip(cases, results)):
        if not r.get('ok'):
            chk.tag('whole/run-failed')
            if len(chk.notes) < 6:
                chk.notes.append(f'{name} did not run: {str(r.get("error"))[:140]}')
            continue
        W = r['W']
        cid = f'w{k}_'
        V = lambda a: W[a]['value']  # noqa: E731
        if W['overpressure_percentage']['Provided'] and not r['hydro_builtin']:
            lines.append(f'respressure {cid}rp L={r["L"]} n={r["n"]} p0={core.frac(V("Phydrostatic"))} pct={core.frac(V("overpressure_percentage"))} '
                         f'rate={core.frac(V("overpressure_depletion_rate"))}')
            ip0 = V('injection_reservoir_initial_pressure')
            if isinstance(ip0, float) and math.isfinite(ip0) and isinstance(V('injection_reservoir_pressure'), list):
                lines.append(f'injpressure {cid}ip L={r["L"]} n={r["n"]} p0={core.frac(ip0)} rate={core.frac(V("injection_reservoir_inflation_rate"))}')
        if not V('impedancemodelused') and isinstance(V('PumpingPowerInj'), list):
            prod = V('PumpingPowerProd') if isinstance(V('PumpingPowerProd'), list) else [0.0] * len(V('PumpingPowerInj'))
            if all(isinstance(x, float) and math.isfinite(x) for x in V('PumpingPowerInj') + prod):
                lines.append(f'pumptotal {cid}pt pumped={int(bool(V("productionwellpumping")))} inj={core.fracs(V("PumpingPowerInj"))} prod={core.fracs(prod)}')
        keep[cid] = (name, r)
    res = chk.driver(lines)
    for cid, (name, r) in keep.items():
        W = r['W']
        V = lambda a: W[a]['value']  # noqa: E731
        base = {'case': name, 'params': r['params']}
        pp = V('PumpingPower')
        hyd = 'impedance' if V('impedancemodelused') else 'indexes'
        pumped = bool(V('productionwellpumping'))
        chk.tag(f'whole/{hyd}/' + ('pumped' if pumped else 'self-flowing') + ('/report-writer-failed' if r.get('output_failed') else ''))
        if isinstance(pp, list) and any(isinstance(x, float) and x < 0 for x in pp):
            chk.fail(f'C15/pumping/negative/{hyd}', 'pumping power is negative at some time step', {**base, 'min': min(pp)})
        for side in ('PumpingPowerProd', 'PumpingPowerInj'):
            v = V(side)
            if isinstance(v, list) and any(isinstance(x, float) and x < 0 for x in v):
                chk.fail(f'C15/pumping/negative/{side}', f'{side} is negative at some time step', {**base, 'min': min(v)})
        if cid + 'pt' in res:
            h, kv = core.parse_kv(res[cid + 'pt'])
            tot = core.parse_rats(kv.get('total', '')) if h == 'ok' else []
            if not (isinstance(pp, list) and len(pp) == len(tot) and all(core.close(a, b, 1e-12, abs_tol=1e-15) for a, b in zip(pp, tot))):
                chk.fail('C15/pumping/total', 'total pumping power is not the sum of production and injection pumping power (clamped at zero)',
                         {**base, 'PumpingPower': pp[:6] if isinstance(pp, list) else pp, 'Inj': V('PumpingPowerInj')[:6], 'Prod': (V('PumpingPowerProd') or [])[:6] if isinstance(V('PumpingPowerProd'), list) else V('PumpingPowerProd')})
            chk.tag('whole/total-checked')
        if cid + 'rp' in res:
            h, kv = core.parse_kv(res[cid + 'rp'])
            series = V('production_reservoir_pressure')
            if h == 'ok':
                chk.tag('whole/pressure/' + kv['tag'])
                lean = core.parse_rats(kv['p'])
                if not (isinstance(series, list) and len(series) == len(lean) and all(core.close(a, b, 1e-10, scale=V('Phydrostatic')) for a, b in zip(series, lean))):
                    chk.fail('C15/pressure/whole-run', 'production-reservoir pressure of a whole run does not start at the stated multiple of hydrostatic and '
                             'decline at the stated rate down to hydrostatic', {**base, 'reported': series[:8] if isinstance(series, list) else series, 'documented': [float(x) for x in lean[:8]]})
        if cid + 'ip' in res:
            h, kv = core.parse_kv(res[cid + 'ip'])
            series = V('injection_reservoir_pressure')
            if h == 'ok':
                chk.tag('whole/injection/' + kv['tag'])
                lean = core.parse_rats(kv['p'])
                if not (isinstance(series, list) and len(series) == len(lean) and all(core.close(a, b, 1e-10, scale=abs(V('injection_reservoir_initial_pressure')) + 1) for a, b in zip(series, lean))):
                    chk.fail('C15/injection/whole-run', 'injection-reservoir pressure of a whole run does not rise at its stated rate',
                             {**base, 'reported': series[:8] if isinstance(series, list) else series, 'documented': [float(x) for x in lean[:8]]})
        chk.case(json.dumps(r['params'], sort_keys=True, default=str), True)


def friction_pairs(chk: core.Check, n):
    rng = chk.rng
    pairs = []
    for k in range(n):
        p = geo.base_params(rng.choice([1, 2]), 2, 9, L=5, n=2)
        p.pop('Productivity Index'), p.pop('Injectivity Index')
        p['Reservoir Impedance'] = 0.1
        p['Production Flow Rate per Well'] = rng.choice([1, 5, 40, 110, 300])
        d1, d2 = sorted(rng.sample(rng.choice([[1.0, 1.25, 1.5, 1.9, 2.0], [2.5, 3, 4, 5, 7, 9, 12, 20, 30], [2.5, 3, 4, 5, 7, 9, 12, 20, 30]]), 2))
        which = rng.choice(['Production Well Diameter', 'Injection Well Diameter'])
        a, b = dict(p), dict(p)
        a[which], b[which] = d1, d2
        if k % 6 == 5:
            # the smaller well is the one the user did not state: the declared default (8, i.e. inches) against a stated larger one
            d1, d2 = 8.0, rng.choice([9, 12, 20, 30])
            a.pop(which), b.update({which: d2})
        pairs.append((which, d1, d2, a, b))
    res = geo.pmap(_run, [x[3] for x in pairs] + [x[4] for x in pairs], chk.scratch)
    m = len(pairs)
    for i, (which, d1, d2, a, b) in enumerate(pairs):
        ra, rb = res[i], res[m + i]
        if not (ra.get('ok') and rb.get('ok')):
            chk.tag('friction/run-failed')
            continue
        key = 'DPProdWell' if which.startswith('Production') else 'DPInjWell'
        dkey = 'prodwelldiam' if which.startswith('Production') else 'injwelldiam'
        x, y = ra['W'][key]['value'], rb['W'][key]['value']
        da, db = ra['W'][dkey]['value'], rb['W'][dkey]['value']   # metres after the inch heuristic (> 2 means inches)
        if not (isinstance(x, list) and isinstance(y, list) and len(x) == len(y)):
            chk.tag('friction/no-series')
            continue
        # the enlargement is judged on what the user wrote (documented reading: a figure above 2 is inches), not on what the model made of it
        wa, wb = (d1 * 0.0254 if d1 > 2 else d1), (d2 * 0.0254 if d2 > 2 else d2)
        if not wa < wb:
            chk.tag('friction/heuristic-reorders-diameters')   # e.g. 1.9 (m) vs 3 (inches = 0.076 m): not an enlargement
            continue
        if which not in a:
            chk.tag('friction/default-vs-stated')
        chk.tag('friction/' + key)
        chk.case(('friction', which, d1, d2, a['Production Flow Rate per Well']), True)
        if any(q > p_ * (1 + 1e-12) + 1e-15 for p_, q in zip(x, y)):
            chk.fail('C15/friction/increases-with-diameter', 'frictional pressure loss increased when only the well diameter was enlarged',
                     {'parameter': which, 'd1': d1, 'd2': d2, 'diameters_m': [da, db], 'base': a, 'partner': b, 'dp_small': x[:4], 'dp_large': y[:4]})


def run(chk: core.Check) -> int:
    from tools import extract
    ext = extract.main(['Code'])
    chk.coverage['extract_digest'] = {k: v['digest'] for k, v in ext.items()}
    chk.coverage['translated_functions'] = ext['Code']['data']
    chk.trusted.append('tools/py2lean.py (Python subset -> Lean: assignments, list item assignment with Python index semantics, for-range loops, if, early return; floats read as exact rationals)')
    clean = chk.prove(['GeoVerif.Properties.C15'])
    quick = chk.tier == 'quick'
    direct(chk, 3000 if quick else 20000)
    whole(chk, gen_whole(chk.rng, 200 if quick else 2500))
    friction_pairs(chk, 60 if quick else 800)
    if (not clean or chk.breaks) and not chk.failures:
        direct(chk, 10000)
        whole(chk, gen_whole(chk.rng, 600))
    chk.assumptions += ['turbulent friction monotonicity is proved only up to a stated hypothesis on the Colebrook friction factor (theorem friction_turbulent_partial); '
                        'the check supports it by ordered diameter pairs of real runs',
                        'ReservoirPressurePredictor raises ZeroDivisionError when int(100/rate*n) = 0 or rate = 0 with overpressure != 100: no result, recorded as observation',
                        'cases where float rounding of 100/rate*n lands on the other side of an integer than the exact value are skipped (float-floor tie)']
    chk.trusted.append('modelled, not verified: water density/viscosity (CoolProp), Colebrook iteration (log10/pow/sqrt), pressure-drop formulas feeding the clamps')
    return chk.finish(rule=RULE)


def replay(chk: core.Check, path: str) -> int:
    body = json.loads(open(path).read())
    rp = body['replay']
    if 'params' in rp:
        whole(chk, [(rp.get('case', 'replay'), rp['params'])])
    elif 'base' in rp:
        res = geo.pmap(_run, [rp['base'], rp['partner']], chk.scratch)
        print(json.dumps({'dp_small': res[0].get('W', {}).get('DPProdWell'), 'dp_large': res[1].get('W', {}).get('DPProdWell')}, default=str)[:400])
    else:
        chk.notes.append('direct-call replays are re-run by the seeded generator (same seed reproduces the case)')
        direct(chk, 3000)
    return chk.finish(rule='replay')
