"""C03 — capital and O&M totals are the sum of their parts.

proof: GeoVerif.Properties.C03 (roll-ups, overrides, well field, redrilling amortisation, chiller not double counted,
       drilled lengths, regenerated 17-row correlation table)
tie:   whole runs through the hook: every cost parameter (value/Provided/Valid) and output -> Lean `capex` / `opex` /
       `wellcost` / `lateral` / `drill` ops -> every component and both totals compared with the run.
"""
from __future__ import annotations

import json
import math
from fractions import Fraction

from .. import core, geo

RULE = ('whole runs: Grid x independent toggles of the 11 user-fixed cost inputs, 9 adjustment factors in [0,10], all 17 drilling-cost '
        'correlations, ITC / grants / fees / tax relief, redrilling (maximum drawdown), multilateral sections in 4 configurations, '
        'district-heating network options; non-trivial = run succeeded; distinct by parameter set')


def b(x):
    return int(bool(x))


def build_lines(cid, s):
    """driver lines + expected values from one snapshot; returns (lines, expect, meta) or None if outside the model"""
    ags = s['economics']['class'] == 'AGSEconomics'
    if s['economics']['class'] not in ('Economics', 'AGSEconomics'):
        return None
    if ags and geo.enum_name(s['economics']['p']['econmodel']['value']) not in ('FCR', 'STANDARDIZED_LEVELIZED_COST', 'BICYCLE'):
        return None
    E, W, S, R = s['economics']['p'], s['wellbores']['p'], s['surfaceplant']['p'], s['reserv']['p']
    A = s['economics']['attr']
    eu = geo.enum_name(S['enduse_option']['value'])
    pt = geo.enum_name(S['plant_type']['value'])
    V = lambda k, src=E: src[k]['value']  # noqa: E731
    F = core.frac
    nprod, ninj = V('nprod', W), V('ninj', W)
    is_heat = eu == 'HEAT'
    is_chiller = is_heat and pt == 'ABSORPTION_CHILLER'
    is_hp = is_heat and pt == 'HEAT_PUMP'
    is_dh = is_heat and pt == 'DISTRICT_HEATING'
    plant_fixed = E['ccplantfixed']['Valid']
    if is_chiller:
        extra = V('chillercapex')
    elif is_hp:
        extra = V('heatpumpcapex')
    elif is_dh:
        extra = V('peakingboilercost')
    else:
        extra = A.get('CAPEX_cost_heat_plant', 0.0)
    he = V('HeatExtracted', S)
    max_heat = max(he) if isinstance(he, list) and he else 0.0
    lines, expect = [], {}
    # --- per-well costs from the correlation -------------------------------------------------------------------
    import geophires_x.Model  # noqa: F401
    from geophires_x.OptionList import WellDrillingCostCorrelation as WC

    corr = getattr(WC, geo.enum_name(V('wellcorrelation')))
    simple = corr is WC.SIMPLE
    depth = V('depth', R)
    depth_m = depth * 1000 if R['depth']['CurrentUnits'] in ('kilometer', 'km') else depth
    per_well_fixed = E['per_production_well_cost']['Valid']
    if not per_well_fixed and not ags:
        lines.append(f'wellcost {cid}wp c2={F(corr._c2)} c1={F(corr._c1)} c0={F(corr._c0)} simple={b(simple)} depth={F(depth_m)} '
                     f'perM={F(V("Vertical_drilling_cost_per_m"))} adj={F(V("production_well_cost_adjustment_factor"))}')
        expect['wp'] = ('cost_one_production_well', V('cost_one_production_well'), 'cost')
        if ninj > 0:
            inj_depth_m = V('injection_reservoir_depth', W) * 1000.0
            lines.append(f'wellcost {cid}wi c2={F(corr._c2)} c1={F(corr._c1)} c0={F(corr._c0)} simple={b(simple)} depth={F(inj_depth_m)} '
                         f'perM={F(V("Vertical_drilling_cost_per_m"))} adj={F(V("injection_well_cost_adjustment_factor"))}')
            expect['wi'] = ('cost_one_injection_well', V('cost_one_injection_well'), 'cost')
    # --- laterals --------------------------------------------------------------------------------------------------
    nsec_p = W['numnonverticalsections']['Provided']
    cfg = geo.enum_name(V('Configuration', W))
    if nsec_p and not per_well_fixed and cfg in ('ULOOP', 'COAXIAL', 'VERTICAL', 'L') and not V('IsAGS', W):
        nsec = V('numnonverticalsections', W)
        nv_km = V('Nonvertical_length', W) / 1000.0
        in_km = depth_m / 1000.0
        lines.append(f'drill {cid}dr cfg={cfg.lower()} nsec={nsec} nonvertKm={F(nv_km)} inKm={F(in_km)} outKm=0/1 nprod={nprod} ninj={ninj}')
        tot_h = nsec * nv_km * 1000.0 if cfg != 'VERTICAL' else 0.0
        lines.append(f'lateral {cid}la vertical={b(cfg == "VERTICAL")} c2={F(corr._c2)} c1={F(corr._c1)} c0={F(corr._c0)} simple={b(simple)} '
                     f'perMProvided={b(E["Nonvertical_drilling_cost_per_m"]["Provided"])} length={F(tot_h)} nsec={nsec} '
                     f'perM={F(V("Nonvertical_drilling_cost_per_m"))} cased={b(V("NonverticalsCased", W))} adj={F(V("production_well_cost_adjustment_factor"))}')
        expect['la'] = ('cost_lateral_section', V('cost_lateral_section'), 'cost')
    # --- capital roll-up -------------------------------------------------------------------------------------------
    dh_units = S.get('dh_number_of_housing_units', {'Provided': False, 'value': 0.0})
    cinj_obs = V('cost_one_injection_well')
    cap = {
        'perWellFixed': b(per_well_fixed), 'cProdGiven': F(V('per_production_well_cost')),
        'cInjProvided': b(E['per_injection_well_cost']['Provided']), 'cInjGiven': F(V('per_injection_well_cost')),
        'cProdCorr': F(V('cost_one_production_well')), 'cInjCorr': F(cinj_obs), 'lateral': F(V('cost_lateral_section')),
        'nprod': nprod, 'ninj': ninj,
        'stimFixed': b(E['ccstimfixed']['Valid']), 'stimGiven': F(V('ccstimfixed')), 'stimAdj': F(V('ccstimadjfactor')),
        'gathFixed': b(E['ccgathfixed']['Valid']), 'gathGiven': F(V('ccgathfixed')), 'gathAdj': F(V('ccgathadjfactor')),
        'cpumps': F(A.get('Cpumps', 0.0)),
        'explFixed': b(E['ccexplfixed']['Valid']), 'explGiven': F(V('ccexplfixed')), 'explAdj': F(V('ccexpladjfactor')),
        'powerPlant': b(not is_heat), 'plantAdj': F(V('ccplantadjfactor')), 'plantCorrelation': F(A.get('Cplantcorrelation', 0.0)),
        'maxHeat': F(max_heat), 'plantExtra': F(0.0 if plant_fixed else extra),
        'plantFixed': b(plant_fixed), 'plantGiven': F(V('ccplantfixed')),
        'pipingLen': F(V('piping_length', S)),
        'isDistrict': b(is_dh), 'dhTotalProvided': b(E['dhtotaldistrictnetworkcost']['Provided']), 'dhTotalGiven': F(V('dhtotaldistrictnetworkcost')),
        'dhPipingLenProvided': b(E['dhpipinglength']['Provided']), 'dhPipingLen': F(V('dhpipinglength')),
        'dhRoadLenProvided': b(E['dhroadlength']['Provided']), 'dhRoadLen': F(V('dhroadlength')), 'dhRate': F(V('dhpipingcostrate')),
        'dhPopProvided': b(E['dhpopulation']['Provided']), 'dhPopulation': F(V('dhpopulation')),
        'dhUnitsProvided': b(dh_units['Provided']), 'dhUnits': F(dh_units['value'] or 0.0), 'dhLandArea': F(V('dhlandarea')),
        'totalFixed': b(E['totalcapcost']['Valid']), 'totalGiven': F(V('totalcapcost')),
        'ritcProvided': b(E['RITC']['Provided']), 'ritc': F(V('RITC')), 'fees': F(V('FlatLicenseEtc')),
        'incentives': F(V('OtherIncentives')), 'grants': F(V('TotalGrant')),
    }
    lines.append(f'capex {cid}cx ' + ' '.join(f'{k}={v}' for k, v in cap.items()))
    total_fixed = E['totalcapcost']['Valid']
    ex = {'well': ('Cwell', V('Cwell')), 'stim': ('Cstim', V('Cstim')), 'gath': ('Cgath', V('Cgath')), 'plant': ('Cplant', V('Cplant')),
          'ccap': ('CCap', V('CCap')), 'itc': ('RITCValue', V('RITCValue'))}
    if per_well_fixed:
        ex['cprod'] = ('cost_one_production_well', V('cost_one_production_well'))
        ex['cinj'] = ('cost_one_injection_well', V('cost_one_injection_well'))
    if not total_fixed:
        ex.update({'expl': ('Cexpl', V('Cexpl')), 'piping': ('Cpiping', V('Cpiping')), 'district': ('dhdistrictcost', V('dhdistrictcost'))})
    expect['cx'] = ex
    # --- O&M roll-up -------------------------------------------------------------------------------------------------
    dd = V('daily_heating_demand', S) if 'daily_heating_demand' in S else []
    sum_dd = math.fsum(dd) if isinstance(dd, list) else 0.0
    om = {
        'labor': F(A.get('Claborcorrelation', 0.0)), 'cplant': F(V('Cplant')), 'isChiller': b(is_chiller), 'chillerCapex': F(V('chillercapex')),
        'plantOMFixed': b(E['oamplantfixed']['Valid']), 'plantOMGiven': F(V('oamplantfixed')), 'plantOMAdj': F(V('oamplantadjfactor')),
        'wellOMFixed': b(E['oamwellfixed']['Valid']), 'wellOMGiven': F(V('oamwellfixed')), 'wellOMAdj': F(V('oamwelladjfactor')),
        'cwell': F(V('Cwell')), 'cgath': F(V('Cgath')),
        'waterOMFixed': b(E['oamwaterfixed']['Valid']), 'waterOMGiven': F(V('oamwaterfixed')), 'waterOMAdj': F(V('oamwateradjfactor')),
        'nprod': nprod, 'flow': F(V('prodwellflowrate', W)), 'loss': F(V('waterloss', R)), 'util': F(V('utilization_factor', S)),
        'chillerOpexGiven': F(V('chilleropex') if (E['chilleropex']['Provided'] or not is_chiller) else -1.0),
        'isDistrict': b(is_dh), 'dhOMProvided': b(E['dhoandmcost']['Provided']), 'dhOMGiven': F(V('dhoandmcost')),
        'dhCapex': F(V('dhdistrictcost')), 'sumDemand': F(sum_dd), 'rate': F(V('electricity_cost_to_buy', S)),
        'totalFixed': b(E['oamtotalfixed']['Valid']), 'totalGiven': F(V('oamtotalfixed')),
        'redrill': int(V('redrill', W)), 'cstim': F(V('Cstim')), 'L': V('plant_lifetime', S),
        'annualFees': F(V('AnnualLicenseEtc')), 'taxRelief': F(V('TaxRelief')),
    }
    lines.append(f'opex {cid}om ' + ' '.join(f'{k}={v}' for k, v in om.items()))
    exo = {'coam': ('Coam', V('Coam'))}
    if not E['oamtotalfixed']['Valid']:
        exo.update({'plantOM': ('Coamplant', V('Coamplant')), 'wellOM': ('Coamwell', V('Coamwell')), 'waterOM': ('Coamwater', V('Coamwater')),
                    'districtOM': ('dhdistrictoandmcost', V('dhdistrictoandmcost'))})
        if not (is_chiller and E['chilleropex']['Provided'] and V('chilleropex') == -1):
            exo['chillerOM'] = ('chilleropex', V('chilleropex'))
    expect['om'] = exo
    scale = abs(V('CCap')) + abs(V('Cwell')) + abs(V('Cplant')) + abs(V('Cstim')) + abs(V('Cgath')) + abs(V('totalcapcost')) + \
        abs(V('FlatLicenseEtc')) + abs(V('OtherIncentives')) + abs(V('TotalGrant')) + 1e-6
    meta = {'scale': scale, 'reported': {k: v for k, v in {
        'Exploration': V('Cexpl'), 'Wellfield': V('Cwell'), 'Stimulation': V('Cstim'), 'Gathering': V('Cgath'), 'Plant': V('Cplant'),
        'Piping': V('Cpiping'), 'District': V('dhdistrictcost'), 'ITC': V('RITCValue'), 'Total': V('CCap'), 'O&M total': V('Coam')}.items()}}
    return lines, expect, meta


def _run(params):
    r = geo.run_geophires(params, want_report=False)
    if not r['ok']:
        return {'ok': False, 'error': r['error'], 'params': params}
    return {'ok': True, 'params': params, 'snap': {k: r['snaps']['calculated'][k] for k in ('economics', 'wellbores', 'surfaceplant', 'reserv')}}


# user-given figures include the lower bound 0 of their accepted range ("exactly that figure is used" — a zero is a figure too)
FIXABLE = [('Reservoir Stimulation Capital Cost', [0, 0.5, 3, 12]), ('Exploration Capital Cost', [0, 2.5, 20]),
           ('Well Drilling and Completion Capital Cost', [1.5, 6, 20]), ('Injection Well Drilling and Completion Capital Cost', [0.75, 8]),
           ('Wellfield O&M Cost', [0, 0.1, 1.5]), ('Surface Plant Capital Cost', [0, 5, 40.5, 300]),
           ('Field Gathering System Capital Cost', [0, 0.5, 4]), ('Surface Plant O&M Cost', [0, 0.2, 3]), ('Water Cost', [0, 0.25]),
           ('Total Capital Cost', [25, 110.5]), ('Total O&M Cost', [0.5, 6.25])]
FACTORS = ['Reservoir Stimulation Capital Cost Adjustment Factor', 'Exploration Capital Cost Adjustment Factor',
           'Well Drilling and Completion Capital Cost Adjustment Factor', 'Injection Well Drilling and Completion Capital Cost Adjustment Factor',
           'Wellfield O&M Cost Adjustment Factor', 'Surface Plant Capital Cost Adjustment Factor',
           'Field Gathering System Capital Cost Adjustment Factor', 'Surface Plant O&M Cost Adjustment Factor', 'Water Cost Adjustment Factor']


def gen_cases(rng, n):
    cases = []
    g = geo.grid()
    for k in range(n):
        econ, eu, pl = g[(k * 11) % 96] if k < 96 else rng.choice(g)
        L = rng.choice([5, 20, 30]) if pl == 7 else rng.choice([2, 10, 30, 35])
        p = geo.base_params(econ, eu, pl, L=L, n=rng.choice([1, 2, 4]))
        p['Well Drilling Cost Correlation'] = (k % 17) + 1
        p['Reservoir Depth'] = rng.choice([0.3, 0.45, 1.2, 3, 4.5, 6.9])
        if p['Reservoir Depth'] < 1:
            p['Gradient 1'] = 150
        for name, vals in FIXABLE:
            if rng.random() < 0.22:
                p[name] = rng.choice(vals)
        for name in FACTORS:
            if rng.random() < 0.3:
                p[name] = rng.choice([0, 0.5, 1, 2.5, 10])
        if rng.random() < 0.3:
            p['All-in Vertical Drilling Costs'] = rng.choice([500, 1846, 4000])
        if rng.random() < 0.4:
            p['Investment Tax Credit Rate'] = rng.choice([0.0, 0.1, 0.3, 1.0])
        if rng.random() < 0.4:
            p['One-time Flat License Fees Etc'] = rng.choice([0, 1.5])
            p['Other Incentives'] = rng.choice([0, 2.5])
            p['One-time Grants Etc'] = rng.choice([0, 3])
            p['Annual License Fees Etc'] = rng.choice([0, 0.25])
            p['Tax Relief Per Year'] = rng.choice([0, 0.125])
        if rng.random() < 0.3 and pl not in (3, 4):
            p['Maximum Drawdown'] = rng.choice([0.05, 0.2])
            p['Drawdown Parameter'] = 0.02
        if rng.random() < 0.25:
            p['Well Geometry Configuration'] = rng.choice([1, 2, 3, 4])
            p['Number of Multilateral Sections'] = rng.choice([1, 2, 5])
            p['Nonvertical Length per Multilateral Section'] = rng.choice([300, 1200, 5000])
            p['Multilaterals Cased'] = rng.choice([True, False])
            if rng.random() < 0.5:
                p['All-in Nonvertical Drilling Costs'] = rng.choice([600, 1300])
        if rng.random() < 0.2:
            p['Surface Piping Length'] = rng.choice([0, 2.5, 10])
        if rng.random() < 0.2:
            p['Number of Injection Wells'] = rng.choice([0, 1, 3])
        if pl == 5 and rng.random() < 0.5:
            # 5 and 1 are the parameters' *declared defaults* (their initial value is the "not provided" sentinel -1): a figure the user
            # states must be used even when it repeats the documented default
            p['Absorption Chiller Capital Cost'] = rng.choice([2, 5, 5, 10])
            p['Absorption Chiller O&M Cost'] = rng.choice([0.1, 1, 1])
        if pl == 6 and rng.random() < 0.5:
            p['Heat Pump Capital Cost'] = rng.choice([2, 5, 5, 10])
        if pl == 7:
            z = rng.random()
            if z < 0.2:
                p['Total District Heating Network Cost'] = rng.choice([0, 12])
            elif z < 0.4:
                p['District Heating Network Piping Length'] = rng.choice([3, 20])
            elif z < 0.6:
                p['District Heating Road Length'] = rng.choice([3, 25])
            elif z < 0.8:
                p['District Heating Population'] = rng.choice([5000, 400000])
                p['District Heating Land Area'] = rng.choice([5, 50])
            if rng.random() < 0.3:
                p['District Heating O&M Cost'] = rng.choice([0.1, 1])
            p['District Heating Piping Cost Rate'] = rng.choice([700, 1200])
        if rng.random() < 0.5:
            geo.diversify(rng, p)
        cases.append((f'grid:{econ}/{eu}/{pl}#{k}', p))
    # closed-loop runs under the classical economic models (AGSEconomics delegates to Economics.Calculate)
    for k in range(max(6, n // 25)):
        p = geo.ags_params(rng.choice([1, 2, 3]), L=rng.choice([20, 40]))
        # every closed-loop well geometry (U-loop, coaxial, vertical, L): the well-field roll-up must not depend on it
        p['Well Geometry Configuration'] = (k % 4) + 1
        p['Well Drilling Cost Correlation'] = rng.choice([3, 10, 1])
        for name, vals in FIXABLE:
            if rng.random() < 0.15:
                p[name] = rng.choice(vals)
        if rng.random() < 0.5:
            p['Investment Tax Credit Rate'] = rng.choice([0.1, 0.3])
            p['One-time Grants Etc'] = rng.choice([0, 2.0])
            p['One-time Flat License Fees Etc'] = rng.choice([0, 0.4])
        if rng.random() < 0.4:
            p['Reservoir Stimulation Capital Cost'] = rng.choice([0, 1.25])
        cases.append((f'ags#{k}', p))
    return cases


def evaluate(chk: core.Check, cases):
    results = geo.pmap(_run, [c[1] for c in cases], chk.scratch)
    lines, keep = [], {}
    for k, ((name, _), r) in enumerate(zip(cases, results)):
        if not r.get('ok'):
            chk.tag('run-failed')
            if len(chk.notes) < 6:
                chk.notes.append(f'{name} did not run: {str(r.get("error"))[:140]}')
            continue
        try:
            built = build_lines(f'c{k}_', r['snap'])
        except (ValueError, KeyError) as e:
            chk.tag('non-finite-or-missing')
            if len(chk.notes) < 8:
                chk.notes.append(f'{name}: snapshot not usable ({type(e).__name__}: {e})')
            continue
        if built is None:
            chk.tag('outside-model/' + r['snap']['economics']['class'])
            continue
        ls, expect, meta = built
        lines += ls
        keep[f'c{k}_'] = (name, r, expect, meta)
    res = chk.driver(lines)
    for cid, (name, r, expect, meta) in keep.items():
        base = {'case': name, 'params': r['params']}
        scale = meta['scale']
        for sub, ex in expect.items():
            head, kv = core.parse_kv(res.get(cid + sub, 'missing'))
            if head != 'ok':
                chk.broken('C03/driver', f'driver rejected a case ({sub}): {res.get(cid + sub)}', base, 'correspondence-break')
                continue
            if 'tag' in kv:
                chk.tag(f'{sub}/{kv["tag"]}')
            if sub in ('wp', 'wi', 'la'):
                pname, pyv, key = ex
                if sub == 'la':
                    chk.tag('la/' + ('zero' if pyv == 0 else 'nonzero'))
                if not core.close(pyv, core.parse_rat(kv[key]), 1e-9, abs_tol=1e-12):
                    chk.fail(f'C03/{sub}/{pname}', f'{pname} is not what the chosen drilling-cost correlation (or per-metre cost) gives',
                             {**base, 'reported': pyv, 'documented': float(core.parse_rat(kv[key]))})
                continue
            for key, (pname, pyv) in ex.items():
                exact = core.parse_rat(kv[key])
                if not core.close(pyv, exact, 1e-9, scale=scale if key in ('ccap', 'itc', 'coam') else max(abs(float(exact)), 1e-9) + 1e-9 * scale):
                    what = {'ccap': 'total capital cost is not the sum of its components less ITC, incentives and grants plus fees (or the user-fixed total)',
                            'coam': 'total annual O&M is not the sum of its components plus amortised redrilling and fees less tax relief (or the user-fixed total)'}.get(
                        key, f'cost component {pname} is neither the user-supplied figure nor the stated correlation')
                    chk.fail(f'C03/{sub}/{key}', what, {**base, 'quantity': pname, 'reported': pyv, 'documented': float(exact), 'reported_components': meta['reported']})
        written_figures(chk, name, r)
        chk.case(json.dumps(r['params'], sort_keys=True, default=str), True)
        chk.sample({'case': name, 'reported': meta['reported'], 'lean_capex': res.get(cid + 'cx', '')[:300]}, limit=3)


# user-written cost figure -> (snapshot parameter holding the figure the roll-up used, condition on plant type / totals)
WRITTEN = {
    'Reservoir Stimulation Capital Cost': ('Cstim', 'capex'), 'Exploration Capital Cost': ('Cexpl', 'capex'),
    'Field Gathering System Capital Cost': ('Cgath', 'capex'), 'Wellfield O&M Cost': ('Coamwell', 'opex'), 'Water Cost': ('Coamwater', 'opex'),
    'Heat Pump Capital Cost': ('heatpumpcapex', 'HEAT_PUMP'), 'Absorption Chiller Capital Cost': ('chillercapex', 'ABSORPTION_CHILLER'),
    'Absorption Chiller O&M Cost': ('chilleropex', 'ABSORPTION_CHILLER'),
}


def written_figures(chk: core.Check, name, r):
    """"a user-supplied component cost is used exactly", judged against what the user *wrote* (the input dictionary), not against the
    flags the reader sets: a reader that drops a figure (because it is 0, or repeats the documented default) also drops the flag"""
    E, S = r['snap']['economics']['p'], r['snap']['surfaceplant']['p']
    if r['snap']['economics']['class'] not in ('Economics', 'AGSEconomics'):
        return
    pt = geo.enum_name(S['plant_type']['value'])
    eu = geo.enum_name(S['enduse_option']['value'])
    for pname, (key, cond) in WRITTEN.items():
        if pname not in r['params'] or key not in E:
            continue
        w = r['params'][pname]
        if not isinstance(w, (int, float)) or isinstance(w, bool) or w < 0:
            continue
        if cond == 'capex' and 'Total Capital Cost' in r['params']:
            continue
        if cond == 'opex' and 'Total O&M Cost' in r['params']:
            continue
        if cond in ('HEAT_PUMP', 'ABSORPTION_CHILLER') and not (eu == 'HEAT' and pt == cond):
            continue
        used = E[key]['value']
        chk.tag('written-figure/' + key)
        if not core.close(float(used), Fraction(w), 1e-9, abs_tol=1e-12):
            chk.fail(f'C03/written/{key}', f'the user wrote `{pname}, {w}` but the roll-up used {used} for that component',
                     {'case': name, 'params': r['params'], 'parameter': pname, 'written': w, 'used': used})


def direct_drill(chk: core.Check, n):
    """calculate_total_drilling_lengths_m is a pure function: direct differential on the four rational configurations"""
    import geophires_x.Model  # noqa: F401
    from geophires_x.OptionList import Configuration
    from geophires_x.WellBores import calculate_total_drilling_lengths_m

    cfgs = {'uloop': Configuration.ULOOP, 'coaxial': Configuration.COAXIAL, 'vertical': Configuration.VERTICAL, 'l': Configuration.L}
    lines, meta = [], {}
    for k in range(n):
        cfg = chk.rng.choice(list(cfgs))
        nsec, nv = chk.rng.randint(0, 6), chk.rng.choice([0.0, 0.25, 1.5, 7.125])
        i, o = chk.rng.choice([0.5, 2.75, 6.0]), chk.rng.choice([0.0, 1.25, 3.5])
        np_, ni = chk.rng.randint(0, 5), chk.rng.randint(0, 5)
        py = calculate_total_drilling_lengths_m(cfgs[cfg], nsec, nv, i, o, np_, ni)
        meta[f'd{k}'] = ((cfg, nsec, nv, i, o, np_, ni), py)
        lines.append(f'drill d{k} cfg={cfg} nsec={nsec} nonvertKm={core.frac(nv)} inKm={core.frac(i)} outKm={core.frac(o)} nprod={np_} ninj={ni}')
    res = chk.driver(lines)
    for cid, (args, py) in meta.items():
        head, kv = core.parse_kv(res.get(cid, 'missing'))
        chk.tag('drill/' + args[0])
        chk.case(('drill',) + args, True)
        ok = head == 'ok' and all(Fraction(a) == core.parse_rat(kv[key]) for a, key in zip(py[:3], ('total', 'vertical', 'lateral'))) and py[3] == 0
        if not ok:
            total_ok = Fraction(py[0]) == Fraction(py[1]) + Fraction(py[2]) + Fraction(py[3])
            rep = {'args': dict(zip(('configuration', 'sections', 'nonvertical_km', 'input_depth_km', 'output_depth_km', 'nprod', 'ninj'), args)),
                   'code': list(py), 'lean': res.get(cid)}
            if not total_ok:
                chk.fail('C03/drill/total', 'total drilled length is not vertical + lateral + junction length', rep)
            else:
                chk.broken('C03/drill/correspondence', 'drilled-length model disagrees with the code (total still adds up)', rep, 'correspondence-break')


def run(chk: core.Check) -> int:
    from tools import extract
    ext = extract.main(['WellCost'])
    chk.coverage['extract_digest'] = {k: v['digest'] for k, v in ext.items()}
    clean = chk.prove(['GeoVerif.Properties.C03'])
    if not clean:
        # a broken table obligation: look for the offending row directly
        for row in ext['WellCost']['data']['rows']:
            c = lambda m: (row['c2'] * m * m + row['c1'] * m + row['c0'])  # noqa: E731
            if not (c(500) > 0 and c(7000) > 0):
                chk.fail('C03/table/non-positive-cost', f'drilling-cost correlation {row["id"]} ({row["name"]}) gives a non-positive cost', {'row': row})
        ids = [row['id'] for row in ext['WellCost']['data']['rows']]
        if ids != list(range(1, 18)) or ext['WellCost']['data']['simple'] != 5:
            chk.fail('C03/table/shape', 'the drilling-cost correlation table no longer has members 1..17 with member 5 the per-metre option', {'ids': ids})
    quick = chk.tier == 'quick'
    evaluate(chk, gen_cases(chk.rng, 500 if quick else 5000))
    direct_drill(chk, 300 if quick else 3000)
    if (not clean or chk.breaks) and not chk.failures:
        evaluate(chk, gen_cases(chk.rng, 1500))
    chk.trusted += ['tools/extract.py (copies the 17 correlation coefficients into Generated/WellCost.lean)',
                    'modelled, not verified: Cplantcorrelation, Claborcorrelation, Cpumps (log/pow correlations, taken from the run), '
                    'cogeneration heat-plant and peaking-boiler sub-costs (taken from the run), SUTRA/AGS/SBT economics']
    return chk.finish(rule=RULE)


def replay(chk: core.Check, path: str) -> int:
    body = json.loads(open(path).read())
    evaluate(chk, [(body['replay'].get('case', 'replay'), body['replay']['params'])])
    return chk.finish(rule='replay of one recorded case')
