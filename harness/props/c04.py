"""C04 — cash flow, NPV, IRR, VIR, MOIC and payback are mutually consistent.

proof: GeoVerif.Properties.C04
tie:   whole runs through the hook: energy series, price series, CCap, Coam, rate, flags -> Lean `cashflow` op -> compared with
       TotalRevenue / TotalCummRevenue / NPV / VIR / MOIC / payback; IRR clause via the model's exact npv at the reported rate;
       the add-on project cash flow (EconomicsAddOns) the same way; report line for payback ('N/A').
"""
from __future__ import annotations

import json
import math
import re
from fractions import Fraction

from .. import core, geo
from .c01 import end_use

RULE = ('whole runs: Grid x construction years {1,2,3,7,14} x lifetimes x price/escalation/PTC/carbon settings x both NPV conventions x '
        'grants/fees (cash flows that start positive or never pay back) x add-ons; non-trivial = run succeeded; distinct by parameter set')

SELLS = {'elec': 'elec', 'heat': 'heat', 'heatPump': 'heat', 'district': 'heat', 'chiller': 'cool', 'cogen': 'both'}


def cash_args(s) -> dict | None:
    E, S = s['economics']['p'], s['surfaceplant']['p']
    eu = end_use(s)
    if eu is None or s['economics']['class'] not in ('Economics', 'SBTEconomics'):
        return None
    L, cy = S['plant_lifetime']['value'], S['construction_years']['value']

    def ser(name, src=S):
        v = src[name]['value'] if name in src else None
        return v if isinstance(v, list) and len(v) == L else [0.0] * L

    def price(name):
        v = E[name]['value']
        return v[cy:] if isinstance(v, list) and len(v) == L + cy else None

    a = {'cy': cy, 'L': L, 'sells': SELLS[eu], 'net': ser('NetkWhProduced'), 'heat': ser('HeatkWhProduced'),
         'cool': ser('cooling_kWh_Produced'), 'pe': price('ElecPrice'), 'ph': price('HeatPrice'), 'pc': price('CoolingPrice'),
         'pcarbon': price('CarbonPrice'), 'carbon': int(bool(E['DoCarbonCalculations']['value'])),
         'grid': E['GridCO2Intensity']['value'], 'ngi': E['NaturalGasCO2Intensity']['value'],
         'ccap': E['CCap']['value'], 'coam': E['Coam']['value'], 'r': E['FixedInternalRate']['value'] / 100,
         'excel': int(bool(E['discount_initial_year_cashflow']['value']))}
    if any(a[k] is None for k in ('pe', 'ph', 'pc', 'pcarbon')):
        return None
    return a


def line(op, cid, a):
    parts = [f'{op} {cid}']
    for k, v in a.items():
        if isinstance(v, list):
            parts.append(f'{k}={core.fracs(v)}')
        elif k in ('cy', 'L', 'sells', 'carbon', 'excel'):
            parts.append(f'{k}={v}')
        else:
            parts.append(f'{k}={core.frac(v)}')
    return ' '.join(parts)


def _run(params):
    r = geo.run_geophires(params, want_report=True)
    if not r['ok']:
        return {'ok': False, 'error': r['error'], 'params': params}
    s = r['snaps']['calculated']
    E = s['economics']['p']
    out = {'ok': True, 'params': params, 'args': cash_args(s), 'cls': s['economics']['class']}
    out['py'] = {k: E[k]['value'] for k in ('TotalRevenue', 'TotalCummRevenue', 'ProjectNPV', 'ProjectIRR', 'ProjectVIR', 'ProjectMOIC',
                                           'ProjectPaybackPeriod', 'ElecRevenue', 'HeatRevenue', 'CoolingRevenue', 'CarbonRevenue')}
    m = re.search(r'Project Payback Period:\s+(\S+)', r['report'])
    out['payback_line'] = m.group(1) if m else None
    if s.get('addeconomics'):
        A = s['addeconomics']['p']
        out['addon'] = {k: A[k]['value'] for k in ('ProjectCashFlow', 'ProjectCummCashFlow', 'ProjectNPV', 'ProjectIRR', 'ProjectVIR',
                                                   'ProjectMOIC', 'AdjustedProjectCAPEX', 'AdjustedProjectOPEX', 'AddOnCashFlow',
                                                   'AddOnCummCashFlow', 'AddOnPaybackPeriod')}
        out['addon']['r'] = A['FixedInternalRate']['value'] / 100
        out['addon']['excel'] = bool(A['discount_initial_year_cashflow']['value'])
    return out


def gen_cases(rng, n):
    cases = []
    g = geo.grid()
    for k in range(n):
        econ, eu, pl = g[(k * 5) % 96] if k < 96 else rng.choice(g)
        L = rng.choice([2, 3, 10, 25, 30, 40, 100]) if pl != 7 else rng.choice([3, 20, 30])
        p = geo.base_params(econ, eu, pl, L=L, n=rng.choice([1, 2, 4]))
        p['Construction Years'] = rng.choice([1, 1, 2, 3, 7, 14])
        p['Fixed Internal Rate'] = rng.choice([0.0, 3.5, 6.25, 10, 30, 99.5, 100])      # both ends of the accepted range included
        p['Discount Initial Year Cashflow'] = rng.choice([True, False])
        if rng.random() < 0.35:
            del p['Fixed Internal Rate']          # only the discount rate is stated: every NPV of the run is at that rate
            p['Discount Rate'] = rng.choice([0.03, 0.05, 0.12, 0.0, 1.0])
        p['Drawdown Parameter'] = rng.choice([0.0, 0.005, 0.02])
        for prod, a_, b_ in (('Electricity', 0.055, 0.15), ('Heat', 0.02, 0.08), ('Cooling', 0.03, 0.1)):
            if rng.random() < 0.7:
                p[f'Starting {prod} Sale Price'] = rng.choice([a_, b_, 0.3])
                p[f'Ending {prod} Sale Price'] = rng.choice([a_, b_, 1.0])
                p[f'{prod} Escalation Start Year'] = rng.choice([0, 1, 5])
                p[f'{prod} Escalation Rate Per Year'] = rng.choice([0.0, 0.003, 0.02])
        if rng.random() < 0.5:
            p['Do Carbon Price Calculations'] = True
            p['Starting Carbon Credit Value'] = rng.choice([0.0, 0.01, 0.05])
            p['Ending Carbon Credit Value'] = rng.choice([0.05, 0.1])
            p['Carbon Escalation Start Year'] = rng.choice([0, 2])
            p['Carbon Escalation Rate Per Year'] = rng.choice([0.0, 0.005])
        if rng.random() < 0.4:
            p['Production Tax Credit Electricity'] = rng.choice([0.01, 0.04])
            p['Production Tax Credit Heat'] = rng.choice([0.0, 0.01])
            p['Production Tax Credit Duration'] = rng.randint(0, L)
            p['Production Tax Credit Inflation Adjusted'] = rng.choice([True, False])
        z = rng.random()
        if z < 0.15:
            # cumulative cash flow that starts positive (grants exceed cost) and may end negative
            p['One-time Grants Etc'] = rng.choice([200, 1000])
            p['Total O&M Cost'] = rng.choice([20, 50, 100])
        elif z < 0.3:
            p['Total Capital Cost'] = rng.choice([5, 20, 300])
        elif z < 0.4:
            p['Total O&M Cost'] = rng.choice([0.1, 2, 30])
        if rng.random() < 0.2:
            p['Construction Years'] = 1  # (the add-on report table crashes for longer construction periods: no result, nothing to check)
            p['AddOn Nickname 1'] = 'Solar'
            p['AddOn CAPEX 1'] = rng.choice([5, 60])
            p['AddOn OPEX 1'] = rng.choice([0, 1.0])
            p['AddOn Electricity Gained 1'] = rng.choice([0, 5000000.0])
            p['AddOn Heat Gained 1'] = rng.choice([0, 2000000.0])
            p['AddOn Profit Gained 1'] = rng.choice([0, 0.5, 5])
        if rng.random() < 0.5:
            geo.diversify(rng, p)
        cases.append((f'grid:{econ}/{eu}/{pl}/L{L}cy{p["Construction Years"]}#{k}', p))
    return exact_zero_cases() + cases


def sbt_cases():
    """SBTEconomics.Calculate has its own copies of the cash-flow assembly and of the payback scan (closed-loop SBT reservoir): one run whose
    cumulative cash flow starts positive (grants exceed cost) and ends negative — never a turn from non-positive to positive, so N/A — and one
    ordinary run.  (Slow reservoir model: two runs only.)"""
    f = geo.EXAMPLES / 'example_SBT_Lo_T.txt'
    if not f.exists():
        return []
    base = geo.example_text(f)
    return [('sbt:grants-exceed-cost', base + '\nOne-time Grants Etc, 1000\nTotal O&M Cost, 50\nTotal Capital Cost, 100\nDiscount Initial Year Cashflow, True\n'),
            ('sbt:example', base + '\nConstruction Years, 2\n')]


def sbt_twin(chk: core.Check) -> bool:
    """SBTEconomics.Calculate repeats the tail of Economics.Calculate (price models, revenue, cash-flow assembly, financial metrics, payback).
    SBT runs are slow, so the grid does not exercise them; instead the two statement tails are compared as syntax trees on every run: from the
    first price-model statement to the end they must be the same statements (the job-count line of Economics aside).  A difference is a broken
    tie — the SBT runs then look for a failing input.  (Defects F29 / F30 were such differences on the pinned tree.)"""
    import ast
    import difflib

    def tail(rel, cls):
        t = ast.parse((core.SRC / 'geophires_x' / rel).read_text())
        c = next(n for n in t.body if isinstance(n, ast.ClassDef) and n.name == cls)
        m = next(n for n in c.body if isinstance(n, ast.FunctionDef) and n.name == 'Calculate')
        src = [ast.unparse(s_) for s_ in m.body]
        k = next(i for i, s_ in enumerate(src) if 'BuildPTCModel' in s_ or 'ElecPrice' in s_)
        return [ln for s_ in src[k:] for ln in s_.splitlines() if 'jobs_created' not in ln]

    try:
        a, b = tail('Economics.py', 'Economics'), tail('SBTEconomics.py', 'SBTEconomics')
    except (StopIteration, OSError, SyntaxError) as e:
        chk.broken('C04/sbt-twin/unreadable', f'the tails of Economics.Calculate / SBTEconomics.Calculate could not be compared: {e}', {}, 'correspondence-break')
        return False
    diff = [ln for ln in difflib.unified_diff(a, b, 'Economics.Calculate', 'SBTEconomics.Calculate', lineterm='', n=0) if not ln.startswith(('---', '+++', '@@'))]
    chk.coverage['sbt_twin_statements_compared'] = len(a)
    chk.case(('sbt-twin', len(a)), True)
    chk.tag('sbt-twin/' + ('same' if not diff else 'differs'))
    if diff:
        chk.broken('C04/sbt-twin/differs', 'the revenue / cash-flow / metrics tail of SBTEconomics.Calculate is not the one of Economics.Calculate that the model and the theorems describe',
                   {'differences': diff[:12]}, 'correspondence-break')
    return not diff


def exact_zero_cases():
    """cash flows made of exactly representable amounts whose cumulative series is exactly 0.0 at a year end (… -10, 0, 10 …): the
    year-end zero is "not yet positive", the payback lies in the following year — a strict / non-strict comparison slip shows only here"""
    out = []
    for cy, capex, fee, L in ((1, 40, -10, 10), (2, 40, -10, 12), (1, 30, -5, 20), (1, 64, -16, 8)):
        p = geo.base_params(1, 1, 1, L=L, n=1)
        p.update({'Construction Years': cy, 'Total Capital Cost': capex, 'Total O&M Cost': 0, 'Annual License Fees Etc': fee,
                  'Starting Electricity Sale Price': 0, 'Ending Electricity Sale Price': 0, 'Fixed Internal Rate': 5})
        out.append((f'exact-zero:cy{cy}/capex{capex}/fee{fee}', p))
    return out


def is_turn(cum, j):
    return 1 <= j < len(cum) and cum[j - 1] <= 0 < cum[j]


def payback_oracle(cum: list[float], p: float):
    """property clause on the *reported* cumulative series; returns None if satisfied else a description"""
    turns = [j for j in range(1, len(cum)) if is_turn(cum, j)]
    if p != 0:
        if not any(j <= p <= j + 1 for j in turns):
            return f'payback {p} lies in no year in which cumulative cash flow turns from non-positive to positive (turn years: {turns})'
    else:
        if turns:
            # 0.0 is the code's "never pays back" (shown as N/A).  The statement wants the payback *implied by the series*: a series that turns
            # from non-positive to positive implies one, and N/A is for the series that never does.
            return (f'payback reported as 0.0 (= N/A) although the cumulative cash flow turns from non-positive to positive (turn years: {turns}; '
                    f'values around the last turn: {cum[max(0, turns[-1] - 2):turns[-1] + 1]})')
    return None


def evaluate(chk: core.Check, cases):
    results = geo.pmap(_run, [c[1] for c in cases], chk.scratch)
    lines, keep = [], {}
    for k, ((name, _), r) in enumerate(zip(cases, results)):
        if not r.get('ok'):
            chk.tag('run-failed')
            if len(chk.notes) < 6:
                chk.notes.append(f'{name} did not run: {str(r.get("error"))[:140]}')
            continue
        a = r.get('args')
        if a is None:
            chk.tag('outside-model/' + str(r.get('cls')))
            continue
        flat = [x for v in a.values() for x in (v if isinstance(v, list) else [v]) if isinstance(x, float)]
        if any(not math.isfinite(x) for x in flat):
            chk.tag('non-finite')
            continue
        keep[f'c{k}'] = (name, r, a)
        lines.append(line('cashflow', f'c{k}', a))
        irr = r['py']['ProjectIRR']
        if irr != 0 and math.isfinite(irr) and irr > -99.9:
            lines.append(f'npv i{k} r={core.frac(irr / 100)} cf={core.fracs(r["py"]["TotalRevenue"])}')
        if 'addon' in r:
            ad = r['addon']
            cf = ad['ProjectCashFlow']
            lines.append(f'npv an{k} r={core.frac(a["r"])} cf={core.fracs(([0.0] if ad["excel"] else []) + cf)}')   # one project, one discount rate: the base economics' rate
            lines.append(f'payback ap{k} cum={core.fracs(ad["AddOnCummCashFlow"])}')
            if ad['ProjectIRR'] != 0 and math.isfinite(ad['ProjectIRR']) and ad['ProjectIRR'] > -0.999:
                lines.append(f'npv ai{k} r={core.frac(ad["ProjectIRR"])} cf={core.fracs(cf)}')
    res = chk.driver(lines)
    for cid, (name, r, a) in keep.items():
        k = cid[1:]
        head, kv = core.parse_kv(res.get(cid, 'missing'))
        if head != 'ok':
            chk.broken('C04/driver', f'driver rejected a case: {res.get(cid)}', {'case': name, 'params': r['params']}, 'correspondence-break')
            continue
        chk.tag(kv['tag'] + '/' + a['sells'])
        py = r['py']
        cf, cum = core.parse_rats(kv['cf']), core.parse_rats(kv['cum'])
        scale = float(core.parse_rat(kv['scale'])) or 1.0
        base = {'case': name, 'params': r['params']}
        # series: the property *is* the assembly rule, so a confirmed difference is the failing input
        def series_ok(pyv, ex):
            return isinstance(pyv, list) and len(pyv) == len(ex) and all(core.close(x, y, 1e-9, scale=scale) for x, y in zip(pyv, ex))
        if not series_ok(py['TotalRevenue'], cf):
            chk.fail('C04/cashflow/assembly', 'reported yearly cash flow is not revenue(energy x price, + carbon) - O&M in operating years and '
                     '-CAPEX/cy in construction years', {**base, 'reported': py['TotalRevenue'], 'documented': [float(x) for x in cf]})
        if not series_ok(py['TotalCummRevenue'], cum):
            chk.fail('C04/cashflow/cumulative', 'reported cumulative cash flow is not the running sum of the yearly cash flow',
                     {**base, 'reported': py['TotalCummRevenue'], 'documented': [float(x) for x in cum]})
        # per-product columns: revenue = energy sold x price / 1e6 in operating years, nothing during construction (exact rational evaluation of revenue_def)
        sold = {'Elec': a['sells'] in ('elec', 'both'), 'Heat': a['sells'] in ('heat', 'both'), 'Cooling': a['sells'] == 'cool'}
        for prod, en, pr in (('Elec', a['net'], a['pe']), ('Heat', a['heat'], a['ph']), ('Cooling', a['cool'], a['pc'])):
            rev = py.get(f'{prod}Revenue')
            if not isinstance(rev, list) or len(rev) != a['cy'] + a['L']:
                continue
            want = [Fraction(0)] * a['cy'] + [(Fraction(en[i]) * Fraction(pr[i]) / 1000000 if sold[prod] else Fraction(0)) for i in range(a['L'])]
            chk.tag(f'product-revenue/{prod}/' + ('sold' if sold[prod] else 'not-sold'))
            if not all(core.close(x, y, 1e-9, scale=scale) for x, y in zip(rev, want)):
                chk.fail(f'C04/revenue/{prod}', f'reported annual {prod} revenue is not energy sold x price (and nothing during construction)',
                         {**base, 'reported': rev, 'documented': [float(x) for x in want]})
        npv = core.parse_rat(kv['npv'])
        if not core.close(py['ProjectNPV'], npv, 1e-9, scale=scale):
            chk.fail('C04/npv', 'reported NPV is not the discounted sum of the reported cash flow at the stated rate and convention',
                     {**base, 'reported': py['ProjectNPV'], 'documented': float(npv), 'rate': a['r'], 'excel_convention': bool(a['excel'])})
        if a['ccap'] != 0 and not core.close(py['ProjectVIR'], core.parse_rat(kv['vir']), 1e-9, scale=max(1.0, scale / abs(a['ccap']))):
            chk.fail('C04/vir', 'reported VIR is not 1 + NPV/CAPEX', {**base, 'reported': py['ProjectVIR'], 'documented': float(core.parse_rat(kv['vir']))})
        den = a['ccap'] + a['coam'] * a['L']
        if den != 0 and not core.close(py['ProjectMOIC'], core.parse_rat(kv['moic']), 1e-9, scale=max(1.0, scale / abs(den))):
            chk.fail('C04/moic', 'reported MOIC is not final cumulative cash flow / (CAPEX + OPEX x lifetime)',
                     {**base, 'reported': py['ProjectMOIC'], 'documented': float(core.parse_rat(kv['moic']))})
        # payback: judged by the property clause on the reported series
        pb = py['ProjectPaybackPeriod']
        why = payback_oracle(py['TotalCummRevenue'], pb)
        fixed, pinned = core.parse_rat(kv['paybackFixed']), core.parse_rat(kv['paybackPinned'])
        if why:
            chk.fail('C04/payback/na-although-turns-positive' if pb == 0 else 'C04/payback/outside-turn-year', why, {**base, 'reported_payback': pb, 'cumulative': py['TotalCummRevenue'],
                     'model_repaired_loop': float(fixed), 'model_pinned_loop': float(pinned)})
        elif not core.close(pb, fixed, 1e-9, abs_tol=1e-9):
            chk.broken('C04/payback/correspondence', 'reported payback differs from the model of the (repaired) loop although the property clause holds',
                       {**base, 'reported_payback': pb, 'model': float(fixed), 'cumulative': py['TotalCummRevenue']}, 'correspondence-break')
        if r['payback_line'] is not None:
            shown_na = r['payback_line'] == 'N/A'
            cumr = py['TotalCummRevenue']
            turns = [j for j in range(1, len(cumr)) if is_turn(cumr, j)]
            if not turns and not shown_na:
                chk.fail('C04/payback/na', "cumulative cash flow never turns positive but the report does not show 'N/A'",
                         {**base, 'report_shows': r['payback_line'], 'cumulative': cumr})
            if shown_na and turns and not why and pb > 0:
                # the series implies a payback period (and the code computed one) but the report hides it
                chk.fail('C04/payback/na-although-pays-back', "the report shows 'N/A' although the reported cumulative cash flow turns positive "
                         f'in year {turns[-1]} (computed payback {pb})', {**base, 'report_shows': 'N/A', 'computed_payback': pb, 'cumulative': cumr})
            if not shown_na and not why:
                try:
                    printed = Fraction(r['payback_line'])
                    if abs(printed - Fraction(pb)) > Fraction(5001, 1000000):
                        chk.fail('C04/payback/report-value', 'the payback period in the report is not the computed one rounded to 2 decimals',
                                 {**base, 'report_shows': r['payback_line'], 'computed_payback': pb})
                except ValueError:
                    chk.fail('C04/payback/report-value', 'payback line of the report is neither a number nor N/A', {**base, 'report_shows': r['payback_line']})
            chk.tag('payback-line/' + ('NA' if shown_na else 'value') + ('/late' if turns and turns[-1] > a['L'] else ''))
        # IRR clause
        if f'i{k}' in res:
            h2, kv2 = core.parse_kv(res[f'i{k}'])
            v, sc = core.parse_rat(kv2['npv']), core.parse_rat(kv2['scale'])
            chk.tag('irr/nonzero')
            # hypotheses of C04.irr_unique on this cash flow: outlays first, then returns, at least one positive return
            cfl = py['TotalRevenue']
            m = next((i for i, x in enumerate(cfl) if x > 0), len(cfl))
            conventional = m >= 1 and all(x <= 0 for x in cfl[:m]) and all(x >= 0 for x in cfl[m:]) and any(x > 0 for x in cfl[m:])
            chk.tag('irr/' + ('conventional-cashflow:root-unique-by-theorem' if conventional else 'non-conventional-cashflow:root-not-shown-unique'))
            if abs(v) > Fraction(1, 10**6) * max(sc, Fraction(1, 10**9)):
                chk.fail('C04/irr', 'reported non-zero IRR does not zero the NPV of the reported cash flow',
                         {**base, 'IRR_percent': py['ProjectIRR'], 'npv_at_irr': float(v), 'sum_abs_terms': float(sc), 'cashflow': py['TotalRevenue']})
        else:
            chk.tag('irr/zero-or-nan')
        # add-on project cash flow: NPV / VIR / MOIC / cumulative consistency on its own reported series
        if 'addon' in r:
            ad = r['addon']
            chk.tag('addon')
            pcf, pcum = ad['ProjectCashFlow'], ad['ProjectCummCashFlow']
            run = 0.0
            ok = len(pcf) == len(pcum)
            acc = Fraction(0)
            asc = sum(abs(x) for x in pcf) or 1.0
            for x, c in zip(pcf, pcum):
                acc += Fraction(x)
                ok = ok and core.close(c, acc, 1e-9, scale=asc)
            if not ok:
                chk.fail('C04/addon/cumulative', 'add-on project cumulative cash flow is not the running sum of its cash flow', {**base, 'cf': pcf, 'cum': pcum})
            h3, kv3 = core.parse_kv(res.get(f'an{k}', 'missing'))
            if h3 == 'ok':
                v = core.parse_rat(kv3['npv'])
                if not core.close(ad['ProjectNPV'], v, 1e-9, scale=asc):
                    chk.fail('C04/addon/npv', 'add-on project NPV is not the sum of its cash flow discounted at the project\'s discount rate', {**base, 'reported': ad['ProjectNPV'], 'documented': float(v),
                             'project_rate': a['r'], 'rate_held_by_addon_object': ad['r']})
                if ad['AdjustedProjectCAPEX'] != 0 and not core.close(ad['ProjectVIR'], 1 + v / Fraction(ad['AdjustedProjectCAPEX']), 1e-9, scale=max(1.0, asc / abs(ad['AdjustedProjectCAPEX']))):
                    chk.fail('C04/addon/vir', 'add-on project VIR is not 1 + NPV/adjusted CAPEX', {**base, 'reported': ad['ProjectVIR']})
            den2 = ad['AdjustedProjectCAPEX'] + ad['AdjustedProjectOPEX'] * a['L']
            if den2 != 0 and pcum and not core.close(ad['ProjectMOIC'], Fraction(pcum[-1]) / Fraction(den2), 1e-9, scale=max(1.0, asc / abs(den2))):
                chk.fail('C04/addon/moic', 'add-on project MOIC is not final cumulative cash flow / (adjusted CAPEX + adjusted OPEX x lifetime)', {**base, 'reported': ad['ProjectMOIC']})
            why2 = payback_oracle(ad['AddOnCummCashFlow'], ad['AddOnPaybackPeriod'])
            if why2:
                chk.fail('C04/addon/payback', 'add-on ' + why2, {**base, 'cum': ad['AddOnCummCashFlow'], 'payback': ad['AddOnPaybackPeriod']})
            if f'ai{k}' in res:
                h4, kv4 = core.parse_kv(res[f'ai{k}'])
                v4, sc4 = core.parse_rat(kv4['npv']), core.parse_rat(kv4['scale'])
                if abs(v4) > Fraction(1, 10**6) * max(sc4, Fraction(1, 10**9)):
                    chk.fail('C04/addon/irr', 'add-on project IRR does not zero the NPV of its cash flow', {**base, 'IRR': ad['ProjectIRR'], 'npv_at_irr': float(v4)})
        chk.case(json.dumps(r['params'], sort_keys=True, default=str), True)
        if a['L'] <= 3 and a['cy'] <= 2:
            chk.sample({'case': name, 'cy': a['cy'], 'L': a['L'], 'sells': a['sells'], 'ccap': a['ccap'], 'coam': a['coam'],
                        'code_cashflow': py['TotalRevenue'], 'lean_cashflow': kv['cf'], 'code_npv': py['ProjectNPV'], 'lean_npv': kv['npv'],
                        'code_payback': pb, 'lean_payback': kv['paybackFixed']})
    if not chk.samples and keep:
        cid, (name, r, a) = next(iter(keep.items()))
        chk.sample({'case': name, 'cy': a['cy'], 'L': a['L'], 'code_npv': r['py']['ProjectNPV']})


def run(chk: core.Check) -> int:
    from tools import extract
    ext = extract.main(['Code'])
    chk.coverage['extract_digest'] = {k: v['digest'] for k, v in ext.items()}
    chk.coverage['translated_functions'] = ext['Code']['data']
    chk.trusted.append('tools/py2lean.py (Python subset -> Lean: assignments, list item assignment with Python index semantics, for-range loops, if; floats read as exact rationals)')
    clean = chk.prove(['GeoVerif.Properties.C04'])
    quick = chk.tier == 'quick'
    twin = sbt_twin(chk)
    evaluate(chk, gen_cases(chk.rng, 400 if quick else 4000) + (sbt_cases()[:1] if quick and twin else sbt_cases()))
    if (not clean or chk.breaks) and not chk.failures:
        evaluate(chk, gen_cases(chk.rng, 1500))
    chk.assumptions += ['IRR is an observed value (numpy_financial root finder): the clause "non-zero IRR zeroes the NPV" is checked at 1e-6 of the sum of absolute discounted terms; for conventional cash flows (tagged) C04.irr_unique shows that rate is the only one above -100 %',
                        "payback 0.0 is the code's encoding of 'N/A' (Outputs.py renders it so)"]
    return chk.finish(rule=RULE)


def replay(chk: core.Check, path: str) -> int:
    body = json.loads(open(path).read())
    evaluate(chk, [(body['replay'].get('case', 'replay'), body['replay']['params'])])
    return chk.finish(rule='replay of one recorded case')
