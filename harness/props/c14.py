"""C14 — Monte Carlo rows are reproducible and the statistics describe them.

proof: GeoVerif.Properties.C14 (row = header cells with the unfound ones removed: aligned iff every output is found exactly once — F12 witness
       otherwise; any completion order leaves a permutation of the successful rows; a failing iteration removes only its own row; min / max /
       mean / variance / median specifications and their independence of row order)
tie:   real Monte-Carlo runs (HIP-RA-X, GEOPHIRES): (a) every row re-simulated through the client from the base file + the row's recorded
       samples and the outputs re-extracted by the Lean row model from the fresh report — strings equal, cell by cell; (b) statistics recomputed
       exactly by the Lean model from the rows vs the JSON and the text block; JSON = text; (c) contention runs: the multiset of file rows
       equals the multiset of rows the workers logged, every line whole; (d) runs where a known subset of iterations fails.
"""
from __future__ import annotations

import json
import math
import re
from collections import Counter
from fractions import Fraction

from .. import core, geo, mc
from .c12 import dec, enc
from .c13 import GEO_MIX, MIXES

RULE = ('real Monte-Carlo runs: HIP-RA-X and GEOPHIRES, worker counts 1..16, 7..48 (quick) / ..300 (thorough) iterations, all-succeed and some-fail mixes, '
        'output lists incl. one that is absent from the report; every row replayed (quick: up to 40 rows per program); statistics of every output column; '
        'non-trivial = every replayed row / every statistic; distinct by (run, row) and (run, output, statistic)')

GEO_OUTS = ['Average Net Electricity Production', 'Electricity breakeven price', 'Total capital costs', 'Project NPV']


def _simulate(job):
    program, text = job
    if program == 'HIP_RA_X':
        r = geo.run_hip(text, stages=(), want_report=True)
    else:
        r = geo.run_geophires(text, stages=(), want_report=True)
    return {'ok': r['ok'], 'report': r.get('report'), 'error': r.get('error')}


def check_run(chk: core.Check, r: dict, label, replay_rows: int):
    job = r['job']
    outs = job['outputs']
    rep = {'program': job['program'], 'workers': job.get('workers'), 'iterations': job['iterations'], 'settings': job['settings'], 'base': job['base'], 'run_error': r.get('error')}
    if job.get('relative_output'):
        rep['settings'] += 'MC_OUTPUT_FILE, <a relative name>/MC_Result.txt\n'
    if r['file'] is None:
        chk.fail('C14/no-result-file', 'the Monte-Carlo run left no result file', rep)
        return
    header, rows, tail = mc.parse_file(r['file'], len(outs))
    # ---- (c) rows whole, multiset = what the workers logged -----------------------------------------------------------------------
    logged = Counter(e['row'].rstrip('\n') for e in r['events'] if e['event'] == 'row' and e.get('written'))
    infile = Counter(rows)
    chk.case((label, 'rows'), True)
    if infile != logged:
        torn = [ln for ln in rows if ln not in logged]
        lost = list((logged - infile).elements())
        chk.fail('C14/rows-torn-or-lost', f'the rows in the file are not the rows the workers appended: {len(torn)} lines that no worker wrote (torn / interleaved), {len(lost)} appended rows missing',
                 {**rep, 'lines_no_worker_wrote': torn[:3], 'appended_rows_missing': lost[:3]})
    if job.get('mix') == 'half-fail':
        # failure is local: an iteration fails exactly when its porosity sample is above 100 — every other iteration must be in the file
        sampled = [e for e in r['events'] if e['event'] == 'sampled']
        started_ok = 0
        for e in sampled:
            try:
                v = float(e['entries'].splitlines()[0].split(', ', 1)[1])
            except Exception:  # noqa
                continue
            started_ok += 1 if v <= 100.0 else 0
        chk.case((label, 'failure-locality'), True)
        if len(sampled) != job['iterations']:
            chk.fail('C14/failing-iteration-affects-others', f'{job["iterations"]} iterations were requested but only {len(sampled)} were started: iterations disappeared without a row and without failing themselves',
                     {**rep, 'started': len(sampled)})
        elif len(rows) != started_ok:
            chk.fail('C14/failing-iteration-affects-others', f'{started_ok} iterations drew an in-range sample (they simulate), but the file has {len(rows)} rows: a failing iteration took other rows with it',
                     {**rep, 'rows': len(rows), 'in_range_iterations': started_ok})
        else:
            chk.tag('failure/local')
    want_header = ', '.join(outs + [i[0] for i in job['inputs']])
    if header.strip() != want_header:
        chk.fail('C14/header', 'the header is not the requested outputs followed by the inputs', {**rep, 'header': header})
    # ---- (a) every row reproducible, in header order ------------------------------------------------------------------------------
    sims, meta = [], []
    shifted = False
    for row in rows[:replay_rows]:
        vals, ins = mc.parse_row(row)
        text = job['base'] + ''.join(f'{n}, {v}\n' for n, v in ins)
        sims.append((job['program'], text))
        meta.append((row, vals, ins))
    res = geo.pmap(_simulate, sims, chk.scratch, chunksize=2)
    lines = []
    for k, ((row, vals, ins), s) in enumerate(zip(meta, res)):
        if not s['ok']:
            chk.fail('C14/row-not-reproducible', 'a row\'s recorded sampled values do not simulate when replayed on the base input', {**rep, 'row': row, 'error': s['error']})
            continue
        lines.append(f'mcrow r{k} outs={";".join(enc(o) for o in outs)} report={";".join(enc(ln) for ln in s["report"].splitlines() if ln.strip())}')
    out = chk.driver(lines) if lines else {}
    for k, (row, vals, ins) in enumerate(meta):
        if f'r{k}' not in out:
            continue
        head, kv = core.parse_kv(out[f'r{k}'])
        if head != 'ok':
            chk.broken('C14/driver', f'mcrow: {out[f"r{k}"][:100]}', rep, 'correspondence-break')
            continue
        cells = [None if c == '-' else dec(c) for c in kv['cells'].split(';')] if kv['cells'] else []
        found = [dec(c) for c in kv['values'].split(';')] if kv['values'] else []
        chk.case((label, 'row', k), True)
        # correspondence: the code's row holds exactly the found values (model of get_output / value extraction)
        if vals != found:
            # the property first: is the row what a fresh simulation of its recorded inputs reports?
            chk.fail('C14/row-not-reproducible', 'simulating the base input with the row\'s recorded sampled values does not give the output values in the row',
                     {**rep, 'row': row, 'row_values': vals, 'values_from_replay': found, 'requested_outputs': outs})
            continue
        chk.tag('row/reproduced')
        # header order: column j must hold output j
        if any(c is None for c in cells):
            missing = [o for o, c in zip(outs, cells) if c is None]
            chk.tag('row/columns-shifted')
            shifted = True
            chk.fail('C14/columns-shift', f'requested output(s) {missing} match no single report line and are skipped, so the following columns shift left under the header '
                     f'(row has {len(vals)} values for {len(outs)} header columns)', {**rep, 'row': row, 'header': header, 'skipped_outputs': missing})
        else:
            chk.tag('row/aligned')
    # ---- the row text read back by the Lean model of main's parser = the independent reading (every row) -----------------------------------------
    if rows:
        pres = chk.driver([f'mcparse p{k} row={enc(row)}' for k, row in enumerate(rows)])
        for k, row in enumerate(rows):
            head, kv = core.parse_kv(pres.get(f'p{k}', 'missing'))
            vals, _ = mc.parse_row(row)
            got = [dec(c) for c in kv['cells'].split(';')] if head == 'ok' and kv.get('cells') else []
            if head != 'ok' or got != vals:
                chk.broken('C14/correspondence/row-parse', 'the Lean model of the statistics step\'s row parser and the independent reading disagree on a row', {**rep, 'row': row, 'lean': got, 'independent': vals},
                           'correspondence-break')
                break
        else:
            chk.tag('row/parse-model-agrees', len(rows))
    # ---- (b) statistics -------------------------------------------------------------------------------------------------------------------
    if not rows:
        return
    if shifted:
        # the columns do not mean what the header says (reported above): the summary of such a file is not examined further
        chk.tag('stats/skipped-columns-shifted')
        return
    cols = None
    parsed = []
    for row in rows:
        vals, _ = mc.parse_row(row)
        try:
            parsed.append([float(v) for v in vals])
        except ValueError:
            parsed = None
            break
    if not parsed or len({len(p) for p in parsed}) != 1:
        chk.tag('stats/rows-not-rectangular')
        return
    ncol = len(parsed[0])
    js = r.get('json')
    if js is None:
        chk.fail('C14/no-json', 'the run wrote no JSON summary', rep)
        return
    # text block
    text_stats = {}
    cur = None
    for ln in tail:
        m = re.match(r'^(.*):$', ln)
        if m and not ln.startswith(' '):
            cur = m.group(1)
            text_stats[cur] = {}
            continue
        m = re.match(r'^\s+(minimum|maximum|median|average|mean|standard deviation): (.*)$', ln)
        if m and cur is not None:
            text_stats[cur][m.group(1)] = m.group(2)
    slines = [f'mcstats c{j} xs={",".join(core.frac(p[j]) for p in parsed)}' for j in range(ncol)]
    sres = chk.driver(slines)
    names_in_order = [o for o in outs][:ncol]
    for j in range(ncol):
        head, kv = core.parse_kv(sres.get(f'c{j}', 'missing'))
        if head != 'ok' or kv.get('tag') != 'stats':
            chk.broken('C14/driver', f'mcstats: {sres.get(f"c{j}")}', rep, 'correspondence-break')
            continue
        name = names_in_order[j]
        want = {'minimum': core.parse_rat(kv['min']), 'maximum': core.parse_rat(kv['max']), 'median': core.parse_rat(kv['median']),
                'average': core.parse_rat(kv['mean']), 'mean': core.parse_rat(kv['mean'])}
        var = core.parse_rat(kv['var'])
        got = js.get(name)
        if got is None:
            chk.fail('C14/json-missing-output', f'the JSON summary has no entry for output "{name}"', {**rep, 'json_keys': list(js)})
            continue
        for stat, w in want.items():
            chk.case((label, name, stat), True)
            g = got.get(stat)
            if g is None or not core.close(g, w, rel=1e-9, scale=max(abs(want['minimum']), abs(want['maximum']))):
                chk.fail(f'C14/statistic/{stat}', f'reported {stat} of "{name}" ({g}) is not the {stat} of the rows ({float(w):.12g})', {**rep, 'output': name, 'rows': len(parsed)})
            else:
                chk.tag('stats/json-' + stat)
        g = got.get('standard deviation')
        chk.case((label, name, 'std'), True)
        if g is None or not (abs(Fraction(g) ** 2 - var) <= Fraction(1, 10**8) * max(var, Fraction(g) ** 2) + Fraction(1, 10**300) or abs(g - math.sqrt(float(var))) <= 1e-9 * max(1.0, abs(g))):
            chk.fail('C14/statistic/std', f'reported standard deviation of "{name}" ({g}) squared is not the variance of the rows ({float(var):.12g})', {**rep, 'output': name})
        else:
            chk.tag('stats/json-std')
        # JSON = text (the text shows 2 decimals with thousands separators)
        ts = text_stats.get(name)
        if ts is None:
            chk.fail('C14/text-missing-output', f'the text summary has no block for output "{name}"', rep)
            continue
        for stat in ('minimum', 'maximum', 'median', 'average', 'mean', 'standard deviation'):
            if stat not in ts or stat not in got:
                chk.fail('C14/json-vs-text', f'{stat} of "{name}" is not in both summaries', rep)
                continue
            if ts[stat] != f'{got[stat]:,.2f}':
                chk.fail('C14/json-vs-text', f'text summary shows {stat} of "{name}" as {ts[stat]} but the JSON holds {got[stat]!r}', {**rep, 'output': name})
            else:
                chk.tag('stats/text=json')


def run(chk: core.Check) -> int:
    from tools import extract
    ext = extract.main(['MCWrite'])
    chk.coverage['extract_digest'] = {k: v['digest'] for k, v in ext.items()}
    chk.coverage['row_write_facts'] = ext['MCWrite']['data']
    clean = chk.prove(['GeoVerif.Properties.C14'])
    if not clean:
        chk.notes.append(f'row-write facts extracted from work_package: {ext["MCWrite"]["data"]} (expected: mode "a", one write, at least one flush, no other use of the file object)')
    quick = chk.tier == 'quick'
    jobs = []

    def add(program, mix, inputs, outputs, base, iterations, workers):
        jobs.append({'program': program, 'mix': mix, 'inputs': [list(i) for i in inputs], 'outputs': outputs, 'base': base, 'iterations': iterations, 'workers': workers,
                     'settings': mc.settings_text(inputs, outputs, iterations)})

    add('HIP_RA_X', 'uniform5', [i for i in MIXES['uniform5'] if i[0] != 'Formation Porosity'] + [('Reservoir Porosity', 'uniform', 9.0, 28.0)], mc.HIP_OUTPUTS, mc.HIP_BASE, 24 if quick else 200, 16)
    add('HIP_RA_X', 'all-kinds', MIXES['all-kinds'], mc.HIP_OUTPUTS[:2], mc.HIP_BASE, 12 if quick else 100, 3)
    add('HIP_RA_X', 'half-fail', MIXES['half-fail'], mc.HIP_OUTPUTS[:2], mc.HIP_BASE, 20 if quick else 120, 5)
    # many more iterations than workers, about half of them failing: however the pool batches tasks, a failure may cost only its own row
    add('HIP_RA_X', 'half-fail', MIXES['half-fail'], mc.HIP_OUTPUTS[:2], mc.HIP_BASE, 160 if quick else 512, 16)
    # the result file named by a relative MC_OUTPUT_FILE line in the settings file (MC_GeoPHIRES3.main resolves it in its own directory): a failing iteration
    # may still cost only its own row
    add('HIP_RA_X', 'half-fail', MIXES['half-fail'], mc.HIP_OUTPUTS[:2], mc.HIP_BASE, 64 if quick else 128, 8)
    jobs[-1]['relative_output'] = True
    # every sampled input discrete: identical rows from different iterations are all rows of the file and all count in the statistics
    add('HIP_RA_X', 'all-discrete', MIXES['all-discrete'], mc.HIP_OUTPUTS[:2], mc.HIP_BASE, 40 if quick else 120, 5)
    gbase = geo.params_to_text(geo.base_params(2, 1, 1, L=10, n=2))
    add('GEOPHIRES', 'geophires-mix', GEO_MIX, GEO_OUTS, gbase, 10 if quick else 60, 4)
    # sampled parameters whose names are prefixes of other parameters the base file sets to non-default values
    # (Reservoir Volume / Reservoir Volume Option, Inflation Rate / Inflation Rate During Construction): the row must replay on base + samples
    pbase = geo.params_to_text({**geo.base_params(3, 1, 1, L=10, n=2), 'Inflation Rate During Construction': 0.08})
    add('GEOPHIRES', 'prefix-named-inputs', [('Reservoir Volume', 'uniform', 5e8, 2e9), ('Inflation Rate', 'uniform', 0.01, 0.04), ('Utilization Factor', 'uniform', 0.8, 0.95)],
        GEO_OUTS, pbase, 6 if quick else 30, 3)
    # an output that the report of this configuration does not contain (a heat-only figure requested for an electricity case): F12
    add('GEOPHIRES', 'absent-output', GEO_MIX[:2], ['Average Net Electricity Production', 'Direct-Use heat breakeven price (LCOH)', 'Total capital costs'], gbase, 6, 2)
    hbase = geo.params_to_text(geo.base_params(1, 2, 9, L=10, n=2))
    add('GEOPHIRES', 'heat', [('Gradient 1', 'uniform', 40, 70), ('Utilization Factor', 'uniform', 0.7, 0.95)], ['Average Direct-Use Heat Production', 'Total capital costs'], hbase, 8 if quick else 40, 2)
    # a history: two Monte-Carlo runs in one process, the base file rewritten in place between them — the second run's rows must replay on the NEW base
    hin = [('Reservoir Temperature', 'uniform', 130, 170), ('Reservoir Thickness', 'uniform', 0.122, 0.299)]
    add('HIP_RA_X', 'rewrite-history', hin, mc.HIP_OUTPUTS[:2], mc.HIP_BASE, 6, 3)
    base2 = mc.HIP_BASE.replace('Reservoir Area, 55.0', 'Reservoir Area, 91.0').replace('Reservoir Porosity, 10.0', 'Reservoir Porosity, 16.0')
    jobs[-1]['second'] = {'base': base2, 'settings': mc.settings_text(hin, mc.HIP_OUTPUTS[:2], 7)}
    res = mc.run_many(jobs, chk.scratch, parallel=2)
    for j, r in zip(jobs, res):
        chk.tag('run/' + j['mix'])
        check_run(chk, r, (j['program'], j['mix']) + (('relative-output-name',) if j.get('relative_output') else ()), 40 if quick else 300)
        if j.get('second') and r.get('second'):
            chk.tag('run/second-in-same-process')
            j2 = {**j, 'base': j['second']['base'], 'settings': j['second']['settings'], 'iterations': 7}
            check_run(chk, {**r['second'], 'job': j2}, (j['program'], j['mix'], 'second'), 40)
    # contention
    jobs = []
    for k in range(4 if quick else 16):
        add('HIP_RA_X', 'one-input', MIXES['one-input'], mc.HIP_OUTPUTS[:2], mc.HIP_BASE, 48, 16)
    res = mc.run_many(jobs, chk.scratch, parallel=4)
    for k, (j, r) in enumerate(zip(jobs, res)):
        chk.tag('run/contention')
        check_run(chk, r, (j['program'], 'contention', k), 3)
    chk.assumptions += ['"exactly the output values in that row": the strings the row holds equal the strings extracted from a fresh report of base + recorded samples (the samples are recorded with full repr precision)',
                        'the standard deviation is compared through its square with the exact variance (population, as numpy.nanstd); float summation order is not modelled (1e-9)',
                        'pylocker\'s mutual exclusion is not assumed: integrity is checked on the file against the workers\' own log']
    chk.trusted += ['numpy statistics are *not* trusted: recomputed exactly in Lean', 'the hook log (cef3b93)',
                    'tools/extract.py (AST facts about how work_package writes a row); the operating system\'s O_APPEND atomicity for a single write']
    return chk.finish(rule=RULE)


def replay(chk: core.Check, path: str) -> int:
    return run(chk)
