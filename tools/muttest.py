#!/usr/bin/env python3
"""dev helper: apply one textual mutation to /repo, run checks, revert.   muttest.py FILE OLD NEW PROP [PROP…]
(never commits; always restores the file)"""
import subprocess
import sys
from pathlib import Path

f, old, new, props = Path('/repo') / sys.argv[1], sys.argv[2], sys.argv[3], sys.argv[4:]
src = f.read_text()
if src.count(old) < 1:
    sys.exit(f'pattern not found in {f}')
f.write_text(src.replace(old, new, 1))
try:
    for p in props:
        ev = Path('/verif/evidence') / f'{p}.json'
        keep = ev.read_text() if ev.exists() else None
        r = subprocess.run(['./check', p], cwd='/verif', capture_output=True, text=True)
        if keep is not None:
            ev.write_text(keep)
        lines = [ln[:260] for ln in r.stdout.splitlines() if ln.startswith(('VIOLATION', '['))]
        print(f'{p}: rc={r.returncode}', *lines[:4], sep='\n   ')
        if r.returncode == 2:
            print(r.stderr[-1500:])
finally:
    f.write_text(src)
