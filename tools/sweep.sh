#!/bin/bash
# dev helper: run every claimed check with several seeds on the current tree; prints one line per (check, seed) and every VIOLATION line
cd "$(dirname "$0")/.."
[ -d lean/.lake ] || ./check --setup >/dev/null 2>&1
TIER=${TIER:-quick}
for seed in ${SEEDS:-1 2 3 4 5}; do
  for c in $(python3 -c "import json;print(' '.join(x['property_id'] for x in json.load(open('MANIFEST.json'))['checks']))"); do
    out=$(VERIF_SEED=$seed ./check $c --tier $TIER 2>&1)
    rc=$?
    echo "seed=$seed $c rc=$rc $(echo "$out" | tail -1)"
    echo "$out" | grep "^VIOLATION" | head -3
  done
done
